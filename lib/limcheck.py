"""Shared driver for the limiter-level properties (C01-C05, C07, C08, C17): runs harness bin `lim`
in the given modes, evaluates the model correspondence in Coq and collects the oracle verdicts
that belong to the property."""
import json
from . import common as C
from . import limconv as LC

COQ_TARGETS = ["Corr/LimCorr.vo"]


def _stale_forget_class(case, v):
    """known-finding class predicate: the failing key's lookup hit a stale-forget event at or before the failing step"""
    key = case["steps"][v["step"]]["req"][0]
    mine = [s for s in case["steps"][:v["step"] + 1] if s["req"][0] == key]
    # in the class: the key went through a stale-forget event (entry reclaimed by a sweep that a LATER-stamped call triggered after
    # the entry was written) and never lost a live entry in any other way ("lost": no call since the write reached the expiry)
    return any(s.get("sf") for s in mine) and not any(s.get("lost") for s in mine)


def run_modes(ctx, pid, modes, props_of_interest, rule, profile="release", known_class=None):
    """modes: list of (mode, [args]).  props_of_interest: oracle tags that count as violations
    of this property (others are ignored here: they belong to other checks)."""
    bins = C.harness_build(ctx, "lib", ["lim", "rate"], profile=profile)
    if not bins:
        return None
    # failing-input search support: (count, period) pairs on which the library's emission interval
    # differs from the exact quotient are forced into the history generators
    forced = []
    try:
        rout = C.run_harness(ctx, bins["rate"], ["--seed", ctx.seed, "--random", 6000])
        for l in rout.splitlines():
            if '"k":"gen"' in l and '"oracle":"bad' in l:
                c = json.loads(l)
                if 1 <= c["count"] and 1 <= c["period"] <= 9000000 and c["period"] * 10**9 // c["count"] >= 1:
                    forced.append("%d:%d" % (c["count"], c["period"]))
    except Exception:
        pass
    forced = forced[:8]
    ctx.coverage["rate_disagreements_forced_into_histories"] = forced
    all_cases = []
    for mode, args in modes:
        if forced and mode in ("hist", "insert", "interleave", "regress", "reclaim"):
            args = list(args) + ["--limits", ",".join(forced)]
        out = C.run_harness(ctx, bins["lim"], ["--mode", mode, "--seed", ctx.seed] + args)
        cases = [json.loads(l) for l in out.splitlines() if l.startswith("{")]
        # a call that did not return (watchdog in the harness: the process printed the call and exited with code 3)
        for hc in [c for c in cases if c.get("mode") == "hang"]:
            if pid.rstrip("d") in ("C08", "C11") or True:
                ctx.violations.append({"what": "%s: rate_limit did not return within %d ms (livelock: the call is neither answered nor failing)" % (pid.rstrip("d"), hc["limit_ms"]),
                                       "input": {"harness_mode": mode, "call": hc["call"], "seed": ctx.seed}})
        if any(c.get("mode") == "hang" for c in cases):
            ctx.broken[:] = [b for b in ctx.broken if "exited with 3" not in b]
        cases = [c for c in cases if c.get("mode") != "hang"]
        all_cases += cases
    terms = [LC.case_term(c) for c in all_cases]
    dist = {"cases": len(all_cases), "steps": 0, "admitted": 0, "denied": 0, "errors": 0, "panics": 0, "zero_qty": 0,
            "over_burst": 0, "cleanups_observed": 0, "stores": {"per": 0, "ada": 0, "pro": 0}, "modes": {}}
    distinct = set()
    nviol = 0
    for c in all_cases:
        dist["stores"][c["cfg"]["kind"]] += 1
        dist["modes"][c["mode"]] = dist["modes"].get(c["mode"], 0) + 1
        for s in c["steps"]:
            dist["steps"] += 1
            o = s["out"]
            if "a" in o:
                dist["admitted" if o["a"] else "denied"] += 1
            elif "err" in o:
                dist["errors"] += 1
            else:
                dist["panics"] += 1
            if s["req"][4] == 0:
                dist["zero_qty"] += 1
            if s["req"][4] > s["req"][1]:
                dist["over_burst"] += 1
            if s["cleaned"]:
                dist["cleanups_observed"] += 1
        if len(c["steps"]) >= 2:
            distinct.add(json.dumps([c["cfg"], [s["req"] for s in c["steps"]]]))
        for v in c["viol"]:
            if v["prop"] in props_of_interest:
                if known_class == "stale-forget" and _stale_forget_class(c, v):
                    ctx.known_hits = getattr(ctx, "known_hits", 0) + 1
                    if c["mode"].startswith("witness"):
                        ctx.known_witness_reproduced = True
                    continue
                nviol += 1
                if len(ctx.violations) < 20:
                    ctx.violations.append({
                        "what": "%s oracle on the implementation's own behaviour: %s" % (v["prop"], v["what"]),
                        "input": {"mode": c["mode"], "cfg": c["cfg"], "history_up_to_failing_step": [s["req"] for s in c["steps"][:v["step"] + 1]],
                                  "request_format": "[key_id, max_burst, count_per_period, period, quantity, now_ns]",
                                  "outcomes": [s["out"] for s in c["steps"][:v["step"] + 1]][-6:]}})
    mism, ok = C.coq_mismatches(ctx, "lim_" + pid, LC.HEADER, "lim_case_ok", terms, shard=24)
    for i in mism[:8]:
        diag = C.coq_eval(ctx, "lim_mm_" + pid, LC.HEADER, ["lim_case_diag (%s)" % terms[i]])
        c = all_cases[i]
        has_v = any(v["prop"] in props_of_interest and not (known_class == "stale-forget" and _stale_forget_class(c, v)) for v in c["viol"])
        if not has_v:
            ctx.broken.append("correspondence Limiter model vs rate_limiter.rs/store disagrees (this property's oracle holds on the case): mode=%s cfg=%s first bad step and model view=%s history=%s"
                              % (c["mode"], json.dumps(c["cfg"]), diag, json.dumps([s["req"] for s in c["steps"]])[:1200]))
    ctx.coverage.update({
        "evaluations": dist["steps"],
        "distinct_nontrivial": len(distinct),
        "rule": rule + " ; evaluations = requests executed on the real limiter; distinct_nontrivial = distinct (config, request list) cases with >= 2 requests",
        "samples": [{"mode": c["mode"], "cfg": c["cfg"], "requests": [s["req"] for s in c["steps"]][:5],
                     "outcomes": [s["out"] for s in c["steps"]][:5]} for c in all_cases[:2] + all_cases[-1:]],
        "input_distribution": dist,
        "traces_validated_against_impl": len(all_cases) - len(mism),
        "model_impl_disagreements": len(mism),
        "oracle_violations": nviol,
    })
    ctx.assumptions += [
        "HashMap is a finite map; AdaptiveStore's capacity-based pressure trigger is an oracle bit observed through the cleanup counter",
        "timestamps at or after the Unix epoch and before year 2262 (the pre-1970 fallback branch reads the wall clock and is outside the property)",
        "the rate is computed by the Flocq model of Rate::from_count_and_period (C18)",
        "correspondence and oracles are sampling; the theorems are not",
    ]
    return all_cases
