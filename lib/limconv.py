"""Conversion of limiter-harness JSON cases into Coq terms of Corr/LimCorr.v."""
from . import common as C
from . import storeconv as SC


def req_term(r):
    return "mkreq %s %s %s %s %s %s" % tuple(C.z(x) for x in r)


def out_term(o):
    if "panic" in o:
        return "Panic"
    if "err" in o:
        return {"neg": "ErrNegativeQuantity", "invalid": "ErrInvalidRateLimit", "internal": "ErrInternal"}[o["err"]]
    return "Ok (mkresp %s %s %s %s %s)" % (C.coq_bool(o["a"]), C.z(o["lim"]), C.z(o["rem"]), C.z(o["reset"]), C.z(o["retry"]))


def step_term(st):
    return "{| l_orc := %s; l_req := %s; l_out := %s; l_len := %s; l_snap := %s |}" % (
        C.coq_bool(st["cleaned"]), req_term(st["req"]), out_term(st["out"]), C.z(st["len"]),
        C.coq_list([C.z(x) for x in st["snap"]]))


def case_term(case):
    return "(%s, %s)" % (SC.cfg_term(case["cfg"], case["snap0"]), C.coq_list([step_term(s) for s in case["steps"]]))


HEADER = "Require Import TC.Store.Stores TC.Limiter.KeyStep TC.Limiter.Limiter TC.Corr.StoreCorr TC.Corr.LimCorr."
