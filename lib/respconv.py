"""Conversion of RESP harness JSON into Coq terms of Corr/RespCorr.v."""
from . import common as C

HEADER = "Require Import TC.Resp.Utf8 TC.Resp.Parse TC.Corr.RespCorr."


def value_term(v):
    t = v["t"]
    if t == "simple":
        return "Simple %s" % C.coq_bytes(v["s"])
    if t == "error":
        return "Error %s" % C.coq_bytes(v["s"])
    if t == "int":
        return "Int %s%%Z" % C.z(v["z"])
    if t == "bulk":
        return "Bulk (Some %s)" % C.coq_bytes(v["s"])
    if t == "null":
        return "Bulk None"
    return "Arr [%s]" % "; ".join("(" + value_term(x) + ")" for x in v["l"])


def out_term(o):
    if o == "more":
        return "IMore"
    if o == "err":
        return "IErr"
    if o == "panic":
        return "IPanic"
    v, c = o["ok"]
    return "IOk (%s) %d" % (value_term(v), c)
