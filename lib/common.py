"""Shared machinery of the /verif checks: T1 constants, Coq build + audit, harness build,
in-Coq correspondence runner, evidence writer, violation reporting."""
import concurrent.futures
import fcntl
import json
import os
import re
import subprocess
import sys
import time

VERIF = os.path.dirname(os.path.dirname(os.path.abspath(__file__)))
REPO = os.environ.get("VERIF_REPO", "/repo")
COQ = os.path.join(VERIF, "coq")
CACHE = os.path.join(VERIF, ".cache")
TARGET = os.path.join(CACHE, "target")
WORK = os.path.join(CACHE, "work")
REPLAYS = os.path.join(VERIF, "replays")
EVIDENCE = os.path.join(VERIF, "evidence")
GUARD = "throttlecrab_verif"
NPROC = os.cpu_count() or 4

AXIOM_ALLOW = {
    "ClassicalDedekindReals.sig_not_dec",
    "ClassicalDedekindReals.sig_forall_dec",
    "FunctionalExtensionality.functional_extensionality_dep",
    "Classical_Prop.classic",
}

HYGIENE_RE = re.compile(
    r"\b(Admitted|admit|Axiom|Axioms|Parameter|Parameters|Conjecture|Conjectures|Hypothesis|Hypotheses|Variable|Variables|"
    r"Unset\s+Guard|bypass_check|type-in-type|impredicative-set|Admit\s+Obligations|Unset\s+Positivity|Unset\s+Universe)\b")


def log(msg):
    print(msg, file=sys.stderr, flush=True)


def run(cmd, timeout=None, cwd=None, env=None, input=None):
    e = dict(os.environ)
    if env:
        e.update(env)
    try:
        p = subprocess.run(cmd, cwd=cwd, env=e, input=input, stdout=subprocess.PIPE, stderr=subprocess.STDOUT,
                           timeout=timeout, text=True, errors="replace")
        return p.returncode, p.stdout
    except subprocess.TimeoutExpired as ex:
        out = ex.stdout or ""
        if isinstance(out, bytes):
            out = out.decode("utf-8", "replace")
        return 124, out + "\n[timeout after %ss]" % timeout


class Lock:
    def __init__(self, name):
        os.makedirs(CACHE, exist_ok=True)
        self.path = os.path.join(CACHE, name + ".lock")

    def __enter__(self):
        self.f = open(self.path, "w")
        fcntl.flock(self.f, fcntl.LOCK_EX)
        return self

    def __exit__(self, *a):
        fcntl.flock(self.f, fcntl.LOCK_UN)
        self.f.close()


class Ctx:
    """State of one check run."""

    def __init__(self, pid, tier, seed):
        self.pid = pid
        self.tier = tier
        self.seed = seed
        self.t0 = time.time()
        self.broken = []       # obligations / correspondences that no longer check (strings)
        self.violations = []   # concrete failing inputs: dicts {what, input, ...}
        self.known = []        # (finding-id, text) known findings observed
        self.coverage = {}
        self.assumptions = []
        self.theorems = []
        self.discharged = 0
        self.axioms_seen = set()
        self.notes = []

    def workdir(self):
        d = os.path.join(WORK, self.pid)
        os.makedirs(d, exist_ok=True)
        return d


# ----------------------------------------------------------------------------- T1

def regen_consts(ctx):
    """T1: regenerate Generated/Consts.v and Generated/Glue.v.  A constant or table the translator cannot read any more is
    OMITTED from the generated file (recorded in Generated/T1_ERRORS.txt): only the Coq files that use it - hence only the
    properties that depend on it - stop compiling; the others are not disturbed."""
    rc, out = run([sys.executable, os.path.join(VERIF, "tools", "extract_consts.py")], timeout=60)
    ctx.t1_errors = []
    try:
        with open(os.path.join(COQ, "Generated", "T1_ERRORS.txt")) as f:
            ctx.t1_errors = [l.strip() for l in f if l.strip()]
    except OSError:
        pass
    if rc != 0:
        ctx.broken.append("T1 translator (tools/extract_consts.py) could not regenerate the generated Coq files: " + out.strip()[-400:])
        return False
    fb = [e for e in ctx.t1_errors if e.startswith("fallback")]
    if fb:
        ctx.notes.append("T1 could not re-read %d constant(s)/table(s) from the current sources and used the values of the last verified tree "
                         "(the behavioural correspondence T2 is the only tie for them in this run): %s" % (len(fb), " | ".join(e[:160] for e in fb[:6])))
    return True


# ----------------------------------------------------------------------------- T1b: limiter arithmetic translated from the source

LIMITER_FAMILY = ("C01", "C02", "C03", "C04", "C05", "C07", "C08", "C17")

TIE_AUDIT = """Require Import TC.Limiter.Arith TC.Limiter.GenOps TC.Limiter.KeyStep TC.Limiter.Limiter TC.Generated.LimGen TC.Limiter.GenTie TC.Limiter.Total TC.Limiter.GenSource.
From Coq Require Import ZArith Bool.
Open Scope Z_scope.
Check gen_calc_is_model : forall Edur B q now tv,
  0 <= Edur ->
  let g := gen_calc Edur B q now tv in
  let c := m_calc Edur B q now tv in
  let r := snd c in
  g_allowed g = fst (fst (fst c)) /\\
  g_write g = (fst (fst (fst c)) && (0 <? q)) /\\
  g_cas_new g = snd (fst (fst c)) /\\ g_cas_ttl g = snd (fst c) /\\
  g_nx_new g = snd (fst (fst c)) /\\ g_nx_ttl g = snd (fst c) /\\
  g_allowed g = allowed r /\\ g_limit g = limit r /\\ g_remaining g = remaining r /\\
  g_reset_after g = reset_after r /\\ g_retry_after g = retry_after r.
Check gen_validate_is_model : forall (K : Type) keqb rate (st : Stores.store K) orc rq,
  rate_limit K keqb rate st orc rq =
  match gen_validate (r_q rq) (r_B rq) (r_count rq) (r_period rq) with
  | Some GNegativeQuantity => (st, ErrNegativeQuantity)
  | Some GInvalidRateLimit => (st, ErrInvalidRateLimit)
  | None => attempts K keqb max_retries st orc (r_key rq) (rate (r_count rq) (r_period rq)) (r_B rq) (r_q rq) (r_now rq)
  end.
Check source_arithmetic_sanity : forall (Edur B q now : Z) (tv : option Z),
  0 <= Edur -> 1 <= B <= i64max -> 0 <= q <= i64max -> 0 <= now <= t2200 ->
  let g := gen_calc Edur B q now tv in
  g_limit g = B /\\ 0 <= g_remaining g <= B /\\ (g_retry_after g = 0 <-> g_allowed g = true) /\\
  0 <= g_cas_ttl g <= i64max /\\ 0 <= g_nx_ttl g <= i64max /\\ g_cas_new g = g_nx_new g /\\
  0 <= g_reset_after g <= i64max /\\ 0 <= g_retry_after g <= i64max /\\
  (g_write g = true <-> g_allowed g = true /\\ 0 < q).
Check source_fresh_key_admitted : forall (Edur B q now : Z),
  0 <= Edur -> 1 <= B <= i64max -> 0 <= q <= B -> 0 <= now <= t2200 ->
  g_allowed (gen_calc Edur B q now None) = true.
Print Assumptions gen_calc_is_model.
Print Assumptions gen_validate_is_model.
Print Assumptions source_arithmetic_sanity.
Print Assumptions source_fresh_key_admitted.
"""


def source_tie(ctx):
    """T1b.  tools/extract_limiter.py re-translates the arithmetic of rate_limit from /repo's current source into
    Generated/LimGen.v; Limiter/GenTie.v proves it equal to the hand-written model the limiter theorems are about.
    * tie proved                       -> recorded in the evidence (model = source for every input, this run);
    * translator cannot read the source -> text of the last verified tree, recorded; T2 is the only tie;
    * tie no longer proved              -> the two functions are evaluated on a fixed lattice inside Coq: an input on which they
      differ is a broken correspondence with that input (the property oracles then look for a failing history); no such
      input means an equivalent rewrite that the tie's tactics do not see through: recorded, T2 decides."""
    rc, out = run([sys.executable, os.path.join(VERIF, "tools", "extract_limiter.py")], timeout=60)
    info = {"translator": "tools/extract_limiter.py", "generated": "coq/Generated/LimGen.v", "theorems": ["gen_calc_is_model", "gen_validate_is_model", "source_arithmetic_sanity", "source_fresh_key_admitted"]}
    ctx.coverage["source_tie"] = info
    if rc != 0:
        info["status"] = "translator failed"
        ctx.notes.append("T1b translator failed: " + out.strip()[-300:])
        return
    if "fallback" in out:
        info["status"] = "fallback: source not readable by the translator, text of the last verified tree used"
        ctx.notes.append("T1b: " + out.strip()[:400])
    with Lock("coq"):
        coq_makefile()
        rc, mout = run(["make", "-j%d" % NPROC, "Limiter/GenSource.vo"], cwd=COQ, timeout=900)
    if rc == 0:
        wd = ctx.workdir()
        fn = os.path.join(wd, "tie_audit.v")
        with open(fn, "w") as f:
            f.write(TIE_AUDIT)
        rc2, aout = run(["coqc", "-q", "-noglob", "-Q", COQ, "TC", fn], timeout=300, cwd=wd)
        closed = aout.count("Closed under the global context")
        if rc2 == 0 and closed == 4:
            info.setdefault("status", "proved: the translated source arithmetic equals the model for every input (axiom-free)")
        else:
            info["status"] = "tie compiled but its audit failed"
            ctx.broken.append("T1b audit: pinned statements of Limiter/GenTie.v no longer match or depend on axioms:\n" + "\n".join(aout.splitlines()[-10:]))
        return
    # the tie is not proved for this tree: look for an input on which source and model differ
    with Lock("coq"):
        rc, dout = run(["make", "-j%d" % NPROC, "Limiter/GenDiff.vo"], cwd=COQ, timeout=900)
    if rc != 0:
        info["status"] = "tie not proved; the translated source does not compile against the model's vocabulary"
        ctx.notes.append("T1b: Generated/LimGen.v does not compile (%s); T2 is the only tie in this run" % " | ".join(l for l in dout.splitlines() if "Error" in l)[:300])
        return
    res = coq_eval(ctx, "tiediff", "Require Import TC.Limiter.GenDiff.",
                   ["(N.of_nat (List.length disagreements), firstn 3 disagreements)", "(N.of_nat (List.length validate_disagreements), firstn 3 validate_disagreements)"])
    if res is None:
        info["status"] = "tie not proved; lattice comparison did not evaluate"
        ctx.notes.append("T1b: lattice comparison did not evaluate")
        return
    zero = all(re.match(r"=\s*\(0%N", r.strip()) for r in res)
    if zero:
        info["status"] = "tie NOT proved for this tree, no differing input on the lattice (equivalent rewrite outside the tie's tactics?); T2 decides"
        ctx.notes.append("T1b: Limiter/GenTie.v no longer compiles against the re-translated source, but source and model agree on the whole "
                         "comparison lattice (66528 inputs); the behavioural correspondence T2 is the only tie for the limiter arithmetic in this run")
    else:
        info["status"] = "source arithmetic differs from the model"
        ctx.broken.append("T1b: the arithmetic of rate_limit as translated from the current source differs from the model the theorems are about "
                          "(Limiter/GenTie.v no longer compiles); differing inputs (Edur, max_burst, quantity, now_ns, stored TAT) / (quantity, max_burst, count, period): "
                          + " || ".join(r[:500] for r in res))


RATE_TIE_AUDIT = """Require Import TC.Float.Rate64 TC.Generated.RateGen TC.Float.RateTie.
From Coq Require Import ZArith.
Open Scope Z_scope.
Check gen_rate_is_model : forall count period, gen_rate count period = from_count_and_period count period.
Print Assumptions gen_rate_is_model.
"""


def rate_tie(ctx):
    """T1b for Rate::from_count_and_period (Generated/RateGen.v written by tools/extract_limiter.py; Float/RateTie.v);
    same three outcomes as source_tie."""
    info = {"translator": "tools/extract_limiter.py", "generated": "coq/Generated/RateGen.v", "theorems": ["gen_rate_is_model"]}
    ctx.coverage["source_tie_rate"] = info
    rc, out = run([sys.executable, os.path.join(VERIF, "tools", "extract_limiter.py")], timeout=60)
    if rc != 0:
        info["status"] = "translator failed"
        ctx.notes.append("T1b translator failed: " + out.strip()[-300:])
        return
    if "fallback rate" in out:
        ctx.notes.append("T1b: " + " ".join(l for l in out.splitlines() if "fallback rate" in l)[:400])
        info["fallback"] = True
    with Lock("coq"):
        coq_makefile()
        rc, mout = run(["make", "-j%d" % NPROC, "Float/RateTie.vo"], cwd=COQ, timeout=900)
    if rc == 0:
        wd = ctx.workdir()
        fn = os.path.join(wd, "rate_tie_audit.v")
        with open(fn, "w") as f:
            f.write(RATE_TIE_AUDIT)
        rc2, aout = run(["coqc", "-q", "-noglob", "-Q", COQ, "TC", fn], timeout=300, cwd=wd)
        ax = set(re.findall(r"^([A-Za-z_][A-Za-z0-9_.']*)\s*:", aout, re.M)) - {"gen_rate_is_model", "Axioms"}
        if rc2 == 0 and ax <= AXIOM_ALLOW:
            info["status"] = ("fallback (source not readable by the translator, text of the last verified tree): " if info.get("fallback") else "") + "proved: the translated rate constructor is the Flocq model for every (count, period); axioms (in the statement's Flocq definitions): " + (", ".join(sorted(ax)) or "none")
        else:
            info["status"] = "tie compiled but its audit failed"
            ctx.broken.append("T1b audit: pinned statement of Float/RateTie.v no longer matches or depends on axioms outside the allow-list:\n" + "\n".join(aout.splitlines()[-10:]))
        return
    with Lock("coq"):
        rc, dout = run(["make", "-j%d" % NPROC, "Float/RateDiff.vo"], cwd=COQ, timeout=900)
    if rc != 0:
        info["status"] = "tie not proved; the translated source does not compile against the model's vocabulary"
        ctx.notes.append("T1b: Generated/RateGen.v does not compile; T2 is the only tie for the rate constructor in this run")
        return
    res = coq_eval(ctx, "ratediff", "Require Import TC.Float.RateDiff.", ["(N.of_nat (List.length rate_disagreements), firstn 4 rate_disagreements)"])
    if res is None:
        info["status"] = "tie not proved; lattice comparison did not evaluate"
        ctx.notes.append("T1b: rate lattice comparison did not evaluate")
    elif re.match(r"=\s*\(0%N", res[0].strip()):
        info["status"] = "tie NOT proved for this tree, no differing input on the lattice; T2 decides"
        ctx.notes.append("T1b: Float/RateTie.v no longer compiles against the re-translated Rate::from_count_and_period, but it agrees with the model on the "
                         "whole comparison lattice (324 argument pairs); T2 is the only tie for the rate constructor in this run")
    else:
        info["status"] = "source rate constructor differs from the model"
        ctx.broken.append("T1b: Rate::from_count_and_period as translated from the current source differs from the Flocq model the theorems are about "
                          "(Float/RateTie.v no longer compiles); differing (count, period): " + res[0][:600])


STORE_FAMILY = ("C01", "C02", "C03", "C04", "C05", "C06", "C07", "C08", "C17")
STORE_TIE_THEOREMS = ['gen_p_get_is_model', 'gen_p_setnx_is_model', 'gen_p_cas_is_model', 'gen_a_get_is_model', 'gen_a_setnx_is_model', 'gen_a_cas_is_model', 'gen_b_get_is_model', 'gen_b_setnx_is_model', 'gen_b_cas_is_model', 'gen_cleanup_placement']

STORE_TIE_AUDIT = """Require Import TC.Base.Map TC.Store.Stores TC.Store.GenStoreOps TC.Generated.StoreGen TC.Store.GenStoreTie.
From Coq Require Import ZArith Bool String List.
Open Scope Z_scope.
Check gen_p_get_is_model : forall e now, gen_p_get (lift e) now = m_get e now.
Check gen_a_get_is_model : forall e now, gen_a_get (lift e) now = m_get e now.
Check gen_b_get_is_model : forall e now, gen_b_get (lift e) now = m_get e now.
Check gen_p_setnx_is_model : forall e v ttl now,
  eff_view (gen_p_setnx (lift e) v ttl now) = fst (m_setnx e v ttl now) /\\ eff_wf (gen_p_setnx (lift e) v ttl now).
Check gen_b_setnx_is_model : forall e v ttl now,
  eff_view (gen_b_setnx (lift e) v ttl now) = fst (m_setnx e v ttl now) /\\ eff_wf (gen_b_setnx (lift e) v ttl now).
Check gen_a_setnx_is_model : forall e v ttl now,
  (eff_view (gen_a_setnx (lift e) v ttl now), se_bump (gen_a_setnx (lift e) v ttl now)) = m_setnx e v ttl now /\\
  eff_wf (gen_a_setnx (lift e) v ttl now).
Check gen_p_cas_is_model : forall e old new ttl now,
  eff_view (gen_p_cas (lift e) old new ttl now) = fst (m_cas e old new ttl now) /\\ eff_wf (gen_p_cas (lift e) old new ttl now).
Check gen_b_cas_is_model : forall e old new ttl now,
  eff_view (gen_b_cas (lift e) old new ttl now) = fst (m_cas e old new ttl now) /\\ eff_wf (gen_b_cas (lift e) old new ttl now).
Check gen_a_cas_is_model : forall e old new ttl now,
  (eff_view (gen_a_cas (lift e) old new ttl now), se_bump (gen_a_cas (lift e) old new ttl now)) = m_cas e old new ttl now /\\
  eff_wf (gen_a_cas (lift e) old new ttl now).
Check gen_cleanup_placement :
  gen_p_cleans = (false, true, true) /\\ gen_a_cleans = (false, true, true) /\\ gen_b_cleans = (false, true, true).
Check gen_p_keep_is_model : forall sf ex now, gen_p_keep sf (Some ex) now = (now <? ex).
Check gen_a_keep_is_model : forall sf ex now, gen_a_keep sf (Some ex) now = (now <? ex).
Check gen_b_keep_is_model : forall sf ex now, gen_b_keep sf (Some ex) now = (now <? ex).
Check gen_retain_is_model : forall (K : Type) sf (d : data K) now,
  retain K d now = List.filter (fun p => gen_p_keep sf (Some (snd (snd p))) now) d /\\
  retain K d now = List.filter (fun p => gen_a_keep sf (Some (snd (snd p))) now) d /\\
  retain K d now = List.filter (fun p => gen_b_keep sf (Some (snd (snd p))) now) d.
Check gen_p_clean_is_model : forall (K : Type) (s : pstate K) sf now,
  sf "next_cleanup"%string = p_next K s -> sf "cleanup_interval"%string = p_interval K s ->
  p_next K (p_clean K s now) = (if gen_p_due sf now then gen_p_next sf now else p_next K s) /\\
  p_data K (p_clean K s now) = (if gen_p_due sf now then retain K (p_data K s) now else p_data K s) /\\
  p_interval K (p_clean K s now) = p_interval K s.
Check d_get_entry : forall K keqb d k now, d_get K keqb d k now = m_get (lookup keqb d k) now.
Check d_setnx_entry : forall K keqb d k v ttl now, d_setnx K keqb d k v ttl now =
  let r := m_setnx (lookup keqb d k) v ttl now in (apply_ins K keqb d k (fst (fst r)), snd (fst r), snd r).
Check d_cas_entry : forall K keqb d k old new ttl now, d_cas K keqb d k old new ttl now =
  let r := m_cas (lookup keqb d k) old new ttl now in (apply_ins K keqb d k (fst (fst r)), snd (fst r), snd r).
""" + "".join("Print Assumptions %s.\n" % n for n in STORE_TIE_THEOREMS + ["d_get_entry", "d_setnx_entry", "d_cas_entry"])


def store_tie(ctx):
    """T1b for the stores: tools/extract_stores.py re-translates get / set_if_not_exists_with_ttl / compare_and_swap_with_ttl of the
    three built-in stores into decision lists over the looked-up entry (Generated/StoreGen.v); Store/GenStoreTie.v proves them equal
    to the entry-level functions the store models are made of.  Same three outcomes as source_tie."""
    info = {"translator": "tools/extract_stores.py", "generated": "coq/Generated/StoreGen.v", "theorems": list(STORE_TIE_THEOREMS)}
    ctx.coverage["source_tie_stores"] = info
    rc, out = run([sys.executable, os.path.join(VERIF, "tools", "extract_stores.py")], timeout=60)
    if rc != 0:
        info["status"] = "translator failed"
        ctx.notes.append("T1b store translator failed: " + out.strip()[-300:])
        return
    fb = "fallback" in out
    if fb:
        ctx.notes.append("T1b: " + out.strip()[:400])
    with Lock("coq"):
        coq_makefile()
        rc, mout = run(["make", "-j%d" % NPROC, "Store/GenStoreTie.vo"], cwd=COQ, timeout=900)
    if rc == 0:
        wd = ctx.workdir()
        fn = os.path.join(wd, "store_tie_audit.v")
        with open(fn, "w") as f:
            f.write(STORE_TIE_AUDIT)
        rc2, aout = run(["coqc", "-q", "-noglob", "-Q", COQ, "TC", fn], timeout=300, cwd=wd)
        closed = aout.count("Closed under the global context")
        if rc2 == 0 and closed == len(STORE_TIE_THEOREMS) + 3:
            info["status"] = ("fallback (sources not readable by the translator, text of the last verified tree): " if fb else "") + \
                "proved: the translated trait methods of the three stores equal the models' entry-level functions for every entry and argument (axiom-free)"
        else:
            info["status"] = "tie compiled but its audit failed"
            ctx.broken.append("T1b audit: pinned statements of Store/GenStoreTie.v no longer match or depend on axioms:\n" + "\n".join(aout.splitlines()[-10:]))
        return
    with Lock("coq"):
        rc, dout = run(["make", "-j%d" % NPROC, "Store/GenStoreDiff.vo"], cwd=COQ, timeout=900)
    if rc != 0:
        info["status"] = "tie not proved; the translated sources do not compile against the model's vocabulary"
        ctx.notes.append("T1b: Generated/StoreGen.v does not compile; T2 is the only tie for the store methods in this run")
        return
    res = coq_eval(ctx, "storediff", "Require Import TC.Store.GenStoreDiff.",
                   ["(N.of_nat (List.length store_disagreements + List.length sweep_disagreements), cleans_ok, firstn 3 store_disagreements, firstn 3 sweep_disagreements)"])
    if res is None:
        info["status"] = "tie not proved; lattice comparison did not evaluate"
        ctx.notes.append("T1b: store lattice comparison did not evaluate")
    elif re.match(r"=\s*\(0%N,\s*true", res[0].strip()):
        info["status"] = "tie NOT proved for this tree, no differing input on the lattice; T2 decides"
        ctx.notes.append("T1b: Store/GenStoreTie.v no longer compiles against the re-translated store methods, but they agree with the model on the whole "
                         "comparison lattice; T2 is the only tie for the store methods in this run")
    else:
        info["status"] = "a store method differs from the model"
        ctx.broken.append("T1b: a trait method of a built-in store, as translated from the current source, differs from the model the theorems are about "
                          "(Store/GenStoreTie.v no longer compiles); (count, cleanup placement ok, first differing (store 0=periodic 1=adaptive 2=probabilistic, "
                          "method 0=get 1=set_if_not_exists 2=compare_and_swap, entry (value, expiry), now, a, b, ttl); first differing sweep (store / 3 = periodic trigger, expiry, now, next_cleanup, interval)): " + res[0][:700])


# ----------------------------------------------------------------------------- Coq

def coq_makefile():
    mk = os.path.join(COQ, "Makefile")
    proj = os.path.join(COQ, "_CoqProject")
    if not os.path.exists(mk) or os.path.getmtime(mk) < os.path.getmtime(proj):
        rc, out = run(["coq_makefile", "-f", "_CoqProject", "-o", "Makefile"], cwd=COQ, timeout=60)
        if rc != 0:
            raise RuntimeError("coq_makefile failed: " + out)


def coq_build(ctx, targets, timeout=1500):
    """Full .vo build (never -vos/-vok) of the given targets with make's own dependency tracking."""
    with Lock("coq"):
        coq_makefile()
        rc, out = run(["make", "-j%d" % NPROC, "-k"] + targets, cwd=COQ, timeout=timeout)
    if rc != 0:
        errs = [l for l in out.splitlines() if "Error" in l or l.startswith("File ")]
        tail = "\n".join(out.splitlines()[-25:])
        t1 = [e for e in getattr(ctx, "t1_errors", []) if not e.startswith("fallback")]
        ctx.broken.append("Coq build of %s failed (a proof obligation no longer checks)%s:\n%s" % (
            " ".join(targets), ("; the T1 translator could not read: " + " | ".join(t1)) if t1 else "", tail))
        ctx.notes.append("coq build errors: " + " | ".join(errs[:6]))
        return False
    return True


def hygiene(ctx):
    bad = []
    for root, _dirs, files in os.walk(COQ):
        for fn in files:
            if not fn.endswith(".v"):
                continue
            p = os.path.join(root, fn)
            with open(p, encoding="utf-8") as f:
                src = f.read()
            src_nc = strip_coq_comments(src)
            in_section = 0
            for ln, line in enumerate(src_nc.splitlines(), 1):
                if re.match(r"\s*Section\b", line):
                    in_section += 1
                if re.match(r"\s*End\b", line) and in_section > 0:
                    in_section -= 1
                for m in HYGIENE_RE.finditer(line):
                    w = m.group(1)
                    if w.split()[0] in ("Variable", "Variables", "Hypothesis", "Hypotheses") and in_section > 0:
                        continue
                    bad.append("%s:%d: %s" % (os.path.relpath(p, VERIF), ln, line.strip()[:100]))
    if bad:
        ctx.broken.append("hygiene gate: forbidden construct in the Coq development: " + "; ".join(bad[:5]))
    return not bad


def strip_coq_comments(src):
    out = []
    depth = 0
    i = 0
    n = len(src)
    while i < n:
        if src.startswith("(*", i):
            depth += 1
            i += 2
        elif src.startswith("*)", i) and depth > 0:
            depth -= 1
            i += 2
        else:
            if depth == 0:
                out.append(src[i])
            elif src[i] == "\n":
                out.append("\n")
            i += 1
    return "".join(out)


def theorem_names(pid):
    p = os.path.join(COQ, "Properties", pid + ".v")
    with open(p) as f:
        src = strip_coq_comments(f.read())
    return re.findall(r"^\s*Theorem\s+([A-Za-z0-9_']+)", src, re.M)


def audit(ctx, extra_modules=()):
    """Compile Audit/<pid>.v (the pinned statements: `Check thm : stmt.`) followed by a generated
    Print Assumptions for every Theorem of Properties/<pid>.v; compare axioms with the allow-list."""
    pid = ctx.pid
    names = theorem_names(pid)
    ctx.theorems = names
    pins_path = os.path.join(COQ, "Audit", pid + ".v")
    with open(pins_path) as f:
        pins = f.read()
    pinned = set(re.findall(r"^\s*Check\s+([A-Za-z0-9_']+)\s*:", strip_coq_comments(pins), re.M))
    missing = [n for n in names if n not in pinned]
    if missing:
        ctx.broken.append("audit: theorems without a pinned statement in Audit/%s.v: %s" % (pid, ", ".join(missing)))
    body = [pins, ""]
    for n in names:
        body.append('Goal True. idtac "@@PA %s". exact I. Qed.' % n)
        body.append("Print Assumptions %s." % n)
    body.append('Goal True. idtac "@@END". exact I. Qed.')
    wd = ctx.workdir()
    fn = os.path.join(wd, "audit_%s.v" % pid)
    with open(fn, "w") as f:
        f.write("\n".join(body) + "\n")
    rc, out = run(["coqc", "-q", "-noglob", "-Q", COQ, "TC", fn], timeout=600, cwd=wd)
    if rc != 0:
        ctx.broken.append("audit of Properties/%s.v failed (a pinned statement no longer matches or the file does not load):\n%s"
                          % (pid, "\n".join(out.splitlines()[-15:])))
        return False
    ok = True
    sections = re.split(r"@@PA ", out)
    seen = {}
    for sec in sections[1:]:
        name, _, rest = sec.partition("\n")
        rest = rest.split("@@END")[0]
        if "Closed under the global context" in rest:
            seen[name.strip()] = []
        else:
            ax = re.findall(r"^([A-Za-z_][A-Za-z0-9_.']*)\s*(?::|$)", rest, re.M)
            ax = [a for a in ax if a not in ("Axioms",)]
            seen[name.strip()] = ax
    disch = 0
    for n in names:
        if n not in seen:
            ctx.broken.append("audit: no Print Assumptions output for " + n)
            ok = False
            continue
        bad = [a for a in seen[n] if a not in AXIOM_ALLOW]
        ctx.axioms_seen.update(seen[n])
        if bad:
            ctx.broken.append("audit: theorem %s depends on axioms outside the allow-list: %s" % (n, ", ".join(bad)))
            ok = False
        else:
            disch += 1
    ctx.discharged = disch if not missing else min(disch, len(names) - len(missing))
    return ok and not missing


def coqchk(ctx, module=None):
    """Thorough tier: re-check the property's compiled closure (or the closure of a tie module) with the independent checker
    and compare the axioms it reports with the allow-list."""
    module = module or "TC.Properties.%s" % ctx.pid
    with Lock("coq"):
        rc, out = run(["coqchk", "-o", "-silent", "-Q", COQ, "TC", module], timeout=3000, cwd=COQ)
    if rc != 0:
        ctx.broken.append("coqchk rejected the compiled closure of %s:\n%s" % (module, "\n".join(out.splitlines()[-12:])))
        return False
    ax = []
    m = re.search(r"\* Axioms:(.*?)(?:\n\* |\Z)", out, re.S)
    if m and "<none>" not in m.group(1):
        ax = [a.strip() for a in m.group(1).split("\n") if a.strip()]
    short = [a.split(".")[-1] for a in ax]
    allow_short = set(a.split(".")[-1] for a in AXIOM_ALLOW)
    bad = [a for a, sh in zip(ax, short) if sh not in allow_short]
    ctx.coverage["coqchk" if module.startswith("TC.Properties.") else "coqchk " + module] = {"ok": True, "axioms": ax}
    if bad:
        ctx.broken.append("coqchk: the compiled closure of %s depends on axioms outside the allow-list: %s" % (module, ", ".join(bad)))
        return False
    return True


# ----------------------------------------------------------------------------- harness

def cargo_env():
    return {
        "CARGO_NET_OFFLINE": "true",
        "CARGO_TARGET_DIR": TARGET,
        "RUSTFLAGS": "--cfg " + GUARD,
        "CARGO_TERM_COLOR": "never",
    }


def harness_build(ctx, crate, bins, profile="release", timeout=1500):
    """Rebuilds the harness (and the /repo crates it path-depends on) from /repo's working tree."""
    cdir = os.path.join(VERIF, "harness", crate)
    lock_src = os.path.join(REPO, "Cargo.lock")
    lock_dst = os.path.join(cdir, "Cargo.lock")
    with Lock("cargo-" + crate):
        try:
            with open(lock_src, "rb") as f:
                data = f.read()
            old = None
            if os.path.exists(lock_dst):
                with open(lock_dst, "rb") as f:
                    old = f.read()
            if old is None:
                with open(lock_dst, "wb") as f:
                    f.write(data)
        except OSError:
            pass
        cmd = ["cargo", "build", "--offline"]
        if profile == "release":
            cmd.append("--release")
        for b in bins:
            cmd += ["--bin", b]
        rc, out = run(cmd, cwd=cdir, env=cargo_env(), timeout=timeout)
    if rc != 0:
        ctx.broken.append("harness build (%s, %s) against /repo's working tree failed:\n%s"
                          % (crate, profile, "\n".join(out.splitlines()[-30:])))
        return None
    sub = "release" if profile == "release" else "debug"
    return {b: os.path.join(TARGET, sub, b) for b in bins}


def run_harness(ctx, exe, args, timeout=1200, input=None):
    e = dict(os.environ)
    p = subprocess.run([exe] + [str(a) for a in args], stdout=subprocess.PIPE, stderr=subprocess.PIPE, timeout=timeout,
                       text=True, errors="replace", input=input, env=e)
    if p.returncode != 0:
        ctx.broken.append("harness %s exited with %d: %s" % (os.path.basename(exe), p.returncode, p.stderr[-400:]))
    return p.stdout


# ----------------------------------------------------------------------------- in-Coq correspondence

def z(v):
    """Coq Z literal"""
    v = int(v)
    return "(%d)" % v if v < 0 else str(v)


def coq_opt(v, f=z):
    return "None" if v is None else "(Some %s)" % f(v)


def coq_bool(b):
    return "true" if b else "false"


def coq_list(items):
    return "[" + "; ".join(items) + "]"


def coq_bytes(bs):
    """list N of bytes"""
    return "[" + ";".join(str(int(b)) for b in bs) + "]%N"


def coq_bytes_rle(bs):
    """list N of bytes; long runs of one byte as `repeat`, long literals cut into pieces (coqc's parser is recursive)"""
    bs = [int(b) for b in bs]
    parts, lit, i = [], [], 0

    def flush():
        for k in range(0, len(lit), 800):
            parts.append("[" + ";".join(str(b) for b in lit[k:k + 800]) + "]%N")
        lit.clear()
    while i < len(bs):
        j = i
        while j < len(bs) and bs[j] == bs[i]:
            j += 1
        if j - i >= 200:
            flush()
            parts.append("repeat %d%%N (N.to_nat %d%%N)" % (bs[i], j - i))
        else:
            lit.extend(bs[i:j])
        i = j
    flush()
    if not parts:
        return "[]%N"
    return "(" + " ++ ".join(parts) + ")%list"


def _coqc_shard(args):
    fn, wd = args
    rc, out = run(["coqc", "-q", "-noglob", "-Q", COQ, "TC", fn], timeout=1500, cwd=wd)
    return fn, rc, out


def coq_mismatches(ctx, tag, header, ok_fn, case_terms, shard=400, scope="Z_scope"):
    """Evaluates `mismatches ok_fn cases` by vm_compute inside coqc over shards of the case list.
    Returns (list of global indices that disagree, ok flag)."""
    wd = os.path.join(ctx.workdir(), tag)
    os.makedirs(wd, exist_ok=True)
    for f in os.listdir(wd):
        os.remove(os.path.join(wd, f))
    files = []
    for si, start in enumerate(range(0, len(case_terms), shard)):
        chunk = case_terms[start:start + shard]
        fn = os.path.join(wd, "cases_%s_%d.v" % (tag, si))
        with open(fn, "w") as f:
            f.write("From Coq Require Import ZArith NArith List Bool String.\nImport ListNotations.\n")
            f.write("Require Import TC.Base.Corr.\n" + header + "\n")
            f.write("Open Scope %s.\n" % scope)
            f.write("Definition cases := [\n  " + ";\n  ".join(chunk) + "\n].\n")
            f.write("Eval vm_compute in (mismatches %s cases).\n" % ok_fn)
        files.append((fn, start))
    mism = []
    ok = True
    with concurrent.futures.ThreadPoolExecutor(max_workers=NPROC) as ex:
        results = list(ex.map(_coqc_shard, [(fn, wd) for fn, _ in files]))
    for (fn, start), (_fn, rc, out) in zip(files, results):
        if rc != 0:
            ctx.broken.append("correspondence shard %s did not evaluate: %s" % (os.path.basename(fn), out[-600:]))
            ok = False
            continue
        m = re.search(r"=\s*(.*?)\n\s*:\s*list N", out, re.S)
        if not m:
            ctx.broken.append("correspondence shard %s: unparsable coqc output: %s" % (os.path.basename(fn), out[-300:]))
            ok = False
            continue
        for d in re.findall(r"\d+", m.group(1)):
            mism.append(start + int(d))
    return mism, ok


def coq_eval(ctx, tag, header, exprs, scope="Z_scope", preamble=""):
    """Evaluate a few expressions by vm_compute and return raw printed results (for samples/replay)."""
    wd = os.path.join(ctx.workdir(), tag)
    os.makedirs(wd, exist_ok=True)
    fn = os.path.join(wd, "eval_%s.v" % tag)
    with open(fn, "w") as f:
        f.write("From Coq Require Import ZArith NArith List Bool String.\nImport ListNotations.\n")
        f.write("Require Import TC.Base.Corr.\n" + header + "\nOpen Scope %s.\n" % scope)
        f.write(preamble + "\n")
        for i, e in enumerate(exprs):
            f.write('Goal True. idtac "@@E %d". exact I. Qed.\nEval vm_compute in (%s).\n' % (i, e))
        f.write('Goal True. idtac "@@END". exact I. Qed.\n')
    rc, out = run(["coqc", "-q", "-noglob", "-Q", COQ, "TC", fn], timeout=900, cwd=wd)
    if rc != 0:
        return None
    res = []
    for sec in out.split("@@E ")[1:]:
        _, _, rest = sec.partition("\n")
        rest = rest.split("@@END")[0]
        res.append(" ".join(rest.split()))
    return res


# ----------------------------------------------------------------------------- known findings

def load_known_findings():
    p = os.path.join(VERIF, "KNOWN_FINDINGS.txt")
    known, fixed = [], []
    if os.path.exists(p):
        with open(p) as f:
            for line in f:
                line = line.strip()
                if not line or line.startswith("#"):
                    continue
                if line.startswith("known:"):
                    known.append(line)
                elif line.startswith("fixed:"):
                    fixed.append(line)
    return known, fixed


# ----------------------------------------------------------------------------- finish

TRUSTED_BASE_COMMON = [
    "Coq 8.16.1 kernel (coqc; vm_compute used, native_compute not used)",
    "T1 translator tools/extract_consts.py (regex + constant-expression evaluator over the Rust sources)",
    "T2 correspondence: Rust harness under /verif/harness (generators, canonicalisation), in-Coq comparison by vm_compute, lib/*.py driver",
    "rustc/cargo 1.95, hooks guarded by --cfg throttlecrab_verif",
]


def finish(ctx, level_note_axioms=None):
    os.makedirs(EVIDENCE, exist_ok=True)
    os.makedirs(REPLAYS, exist_ok=True)
    cov = dict(ctx.coverage)
    cov.setdefault("obligations", max(1, len(ctx.theorems)))
    cov.setdefault("discharged", ctx.discharged)
    cov.setdefault("checker_cmd", "make -C /verif/coq Properties/%s.vo && coqc Audit/%s.v + Print Assumptions (allow-list) ; in-Coq vm_compute correspondence" % (ctx.pid, ctx.pid))
    tb = list(TRUSTED_BASE_COMMON)
    ax = sorted(ctx.axioms_seen)
    tb.append("axioms reported by Print Assumptions for this property's theorems: " + (", ".join(ax) if ax else "none (closed under the global context)"))
    cov.setdefault("trusted_base", tb)
    cov["theorems"] = ctx.theorems
    cov["broken_obligations"] = ctx.broken
    if ctx.notes:
        cov["notes"] = ctx.notes
    nviol = len(ctx.violations) + (1 if (ctx.broken and not ctx.violations) else 0)
    ev = {
        "property_id": ctx.pid,
        "tier": ctx.tier,
        "seed": ctx.seed,
        "level": "proof",
        "coverage": cov,
        "assumptions": ctx.assumptions,
        "wall_s": round(time.time() - ctx.t0, 2),
        "violations": nviol,
    }
    with open(os.path.join(EVIDENCE, ctx.pid + ".json"), "w") as f:
        json.dump(ev, f, indent=1, sort_keys=True, default=str)
        f.write("\n")
    for fid, text in ctx.known:
        print("KNOWN-FINDING: property=%s %s" % (ctx.pid, text))
    if ctx.violations or ctx.broken:
        rp = os.path.join(REPLAYS, "%s-%d.json" % (ctx.pid, ctx.seed))
        replay = {
            "property_id": ctx.pid,
            "seed": ctx.seed,
            "tier": ctx.tier,
            "failing_inputs": ctx.violations[:20],
            "broken_obligations_or_correspondences": ctx.broken,
        }
        with open(rp, "w") as f:
            json.dump(replay, f, indent=1, default=str)
            f.write("\n")
        if ctx.violations:
            print("VIOLATION property=%s replay=%s" % (ctx.pid, rp))
            v = ctx.violations[0]
            log("first failing input: " + json.dumps(v, default=str)[:1500])
        else:
            print("VIOLATION property=%s replay=%s no-failing-input-found" % (ctx.pid, rp))
        for b in ctx.broken[:5]:
            log("broken: " + b[:1500])
        return 1
    print("OK property=%s tier=%s theorems=%d discharged=%d wall=%.1fs" % (ctx.pid, ctx.tier, len(ctx.theorems), ctx.discharged, time.time() - ctx.t0))
    return 0
