"""C09 - one shared limiter: concurrent clients are linearizable.  Theorems: Properties/C09.v (actor LTS:
linearizable, program order, real-time precedence; burst exactness of the sequential limiter).
T2: controlled scheduler on the real actor (actorcheck) + real-socket runs mixing HTTP, gRPC and RESP
against ONE real server process (wirecheck)."""
import json
from .. import common as C
from . import actorcheck, wirecheck

COQ_TARGETS = ["Corr/ActorCorr.vo", "Properties/C09.vo"]


def run(ctx):
    actorcheck.run_actor(ctx, "C09")
    wirecheck.run_wire(ctx, "C09")
    # known finding stamp-disorder: deterministic replay of the mechanism on the real actor (requests queued in the opposite
    # order of their stamps), plus whatever the real-socket bursts of this run showed (class predicate in wirecheck)
    bins = C.harness_build(ctx, "srv", ["actor"])
    reproduced = False
    if bins:
        out = C.run_harness(ctx, bins["actor"], ["--mode", "witness_f10"])
        rows = [json.loads(l) for l in out.splitlines() if l.startswith("{") and "summary" not in l]
        reproduced = len(rows) == 3 and all(r["ok"] and r["answers"][0][0].get("a") is True and r["answers"][1][0].get("a") is False and r["answers"][1][0].get("retry") == 0 for r in rows)
    known, _fixed = C.load_known_findings()
    listed = [k for k in known if "property=C09" in k and "class=stamp-disorder" in k]
    hits = getattr(ctx, "f10_hits", 0)
    if listed and (reproduced or hits):
        ctx.known.append(("F10", "stamp-disorder: requests are stamped by the transport before they are queued; served in the opposite order of their stamps, the later-served one of two "
                                 "simultaneous unit requests on a fresh key with max_burst 2 is denied (retry_after 0 s) although a token is left - 1 admitted, not min(2,2) "
                                 "(mechanism replayed on the real actor: reproduced=%s; %d real-socket bursts of this run in the class; witness findings/F10-stamp-disorder.json)" % (reproduced, hits)))
    elif hits:
        ctx.violations.append({"what": "C09: stamp-disorder bursts observed but the class is not listed in KNOWN_FINDINGS.txt", "input": "see findings/F10-stamp-disorder.json"})
    ctx.coverage["known_finding_occurrences"] = hits
