"""C09 - one shared limiter: concurrent clients are linearizable.  Theorems: Properties/C09.v (actor LTS:
linearizable, program order, real-time precedence; burst exactness of the sequential limiter).
T2: controlled scheduler on the real actor (actorcheck) + real-socket runs mixing HTTP, gRPC and RESP
against ONE real server process (wirecheck)."""
from . import actorcheck, wirecheck

COQ_TARGETS = ["Corr/ActorCorr.vo", "Properties/C09.vo"]


def run(ctx):
    actorcheck.run_actor(ctx, "C09")
    wirecheck.run_wire(ctx, "C09")
