"""C17 - clock regression.  Theorems: Properties/C17.v (totality for any order, budget
monotonicity, window bound for executions without stale-forget events, refutation witness).
T2: histories with out-of-order timestamps on the real limiter vs the Coq model (which takes
arbitrary times); oracles: no panic/error, window bound with slack J, budget probe.
Known finding: violations whose failing key went through a stale-forget event (class predicate
evaluated on the replayed history with the harness's never-cleaned ghost map)."""
from .. import common as C
from .. import limcheck

COQ_TARGETS = limcheck.COQ_TARGETS


def run(ctx):
    n, ml = (260, 70) if ctx.tier == "quick" else (8000, 300)
    limcheck.run_modes(ctx, "C17", [("witness_f7", []), ("regress", ["--cases", n, "--maxlen", ml])], {"C17"},
        "histories with timestamps out of order: jitter around the latest timestamp, backward steps up to 5 s, oscillation across expiry instants, per-key clocks, "
        "other keys stamped ahead of a slow victim key; stores with aggressive cleanup (probabilistic N in {1,2,3}, periodic interval 0..1 s, adaptive max_operations 0..3) and PRNG configurations; "
        "J = largest regression of the whole history; window sums over all admitted pairs of each key; budget probes from replayed copies; the canonical stale-forget witness is replayed first",
        known_class="stale-forget")
    known, _fixed = C.load_known_findings()
    listed = [k for k in known if "property=C17" in k and "class=stale-forget" in k]
    if getattr(ctx, "known_hits", 0) and listed:
        ctx.known.append(("F7", "stale-forget: window bound with slack J exceeded after an entry was reclaimed relative to a later timestamp "
                                "(witness findings/F7-stale-forget.json reproduced=%s; %d occurrences in this run, all in the listed class)"
                          % (getattr(ctx, "known_witness_reproduced", False), ctx.known_hits)))
    elif getattr(ctx, "known_hits", 0):
        ctx.violations.append({"what": "stale-forget violations observed but not listed in KNOWN_FINDINGS.txt", "input": "see findings/F7-stale-forget.json"})
    ctx.coverage["known_finding_occurrences"] = getattr(ctx, "known_hits", 0)
