"""C04 - denied, zero-quantity and invalid requests consume nothing.  Theorems: Properties/C04.v.
T2: real RateLimiter vs Coq model; oracle: base history vs base + inserted no-effect requests."""
from .. import limcheck

COQ_TARGETS = limcheck.COQ_TARGETS


def run(ctx):
    n, ml = (200, 40) if ctx.tier == "quick" else (5000, 150)
    limcheck.run_modes(ctx, "C04", [("insert", ["--cases", n, "--maxlen", ml]), ("hist", ["--cases", n // 3, "--maxlen", ml, "--probes", 0])], {"C04"},
        "arbitrary base histories (1-6 keys; one third with limits varying on the same key) into which no-effect requests are inserted at PRNG positions and times: "
        "quantity 0 (same or other limits), always-denied (quantity > burst), negative quantity, non-positive burst/count/period; the base requests' responses are "
        "compared one by one with the base history run alone on a second limiter; rejected/denied/zero requests must not call a store write (recording wrapper) nor change the entry count")
