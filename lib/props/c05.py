"""C05 - key isolation.  Theorems: Properties/C05.v.
T2: interleaved multi-key histories vs the Coq model; oracle: each victim key's responses equal its solo run.
Known finding (class stale-forget, shared with C17) for merges whose timestamps are not globally ordered."""
from .. import common as C
from .. import limcheck

COQ_TARGETS = limcheck.COQ_TARGETS


def run(ctx):
    if ctx.tier == "quick":
        modes = [("witness_f7", []), ("interleave", ["--cases", 60, "--maxlen", 300, "--noise", 3000]),
                 ("interleave", ["--cases", 30, "--maxlen", 150, "--disorder", 1])]
    else:
        modes = [("witness_f7", []), ("interleave", ["--cases", 300, "--maxlen", 1200, "--noise", 3000]),
                 ("interleave", ["--cases", 12, "--maxlen", 9000, "--noise", 5000]),
                 ("interleave", ["--cases", 600, "--maxlen", 300, "--disorder", 1])]
    limcheck.run_modes(ctx, "C05", modes, {"C05"},
        "victim keys (empty string, 64 KiB strings one byte apart, non-ASCII / combining forms, case variants) with fixed limits in D interleaved with "
        "traffic on up to thousands of other keys carrying arbitrary (also invalid and extreme) parameters; every store type; merges by timestamp "
        "(globally non-decreasing) and merges with every victim on its own clock (not globally ordered); oracle: each victim's responses "
        "equal its solo run on a fresh limiter (same or another store type)", known_class="stale-forget")
    known, _fixed = C.load_known_findings()
    listed = [k for k in known if "property=C05" in k and "class=stale-forget" in k]
    if getattr(ctx, "known_hits", 0) and listed:
        ctx.known.append(("F7", "stale-forget: with timestamps not globally non-decreasing a key's responses differ from its solo run after its entry was "
                                "reclaimed relative to a later timestamp (witness findings/F7-stale-forget.json reproduced=%s; %d occurrences in this run, all in the listed class)"
                          % (getattr(ctx, "known_witness_reproduced", False), ctx.known_hits)))
    elif getattr(ctx, "known_hits", 0):
        ctx.violations.append({"what": "stale-forget violations observed but not listed in KNOWN_FINDINGS.txt", "input": "see findings/F7-stale-forget.json"})
    ctx.coverage["known_finding_occurrences"] = getattr(ctx, "known_hits", 0)
