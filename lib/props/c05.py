"""C05 - key isolation.  Theorems: Properties/C05.v.
T2: interleaved multi-key histories vs the Coq model; oracle: each victim key's responses equal its solo run."""
from .. import limcheck

COQ_TARGETS = limcheck.COQ_TARGETS


def run(ctx):
    if ctx.tier == "quick":
        modes = [("interleave", ["--cases", 60, "--maxlen", 300, "--noise", 3000])]
    else:
        modes = [("interleave", ["--cases", 300, "--maxlen", 1200, "--noise", 3000]), ("interleave", ["--cases", 12, "--maxlen", 9000, "--noise", 5000])]
    limcheck.run_modes(ctx, "C05", modes, {"C05"},
        "victim keys (empty string, 64 KiB strings one byte apart, non-ASCII / combining forms, case variants) with fixed limits in D interleaved by timestamp with "
        "traffic on up to thousands of other keys carrying arbitrary (also invalid and extreme) parameters; every store type; oracle: each victim's responses "
        "equal its solo run on a fresh limiter (same or another store type)")
