"""C02 - decisions equal the ideal token bucket.  Theorems: Properties/C02.v.
T2: real RateLimiter vs Coq model; oracle: independent integer token bucket inside the harness."""
from .. import limcheck

COQ_TARGETS = limcheck.COQ_TARGETS


def run(ctx):
    n, ml = (260, 60) if ctx.tier == "quick" else (6000, 300)
    limcheck.run_modes(ctx, "C02", [("hist", ["--cases", n, "--maxlen", ml, "--probes", 0])], {"C02"},
        "same generator as C01 (histories incl. zero-quantity probes and over-burst requests); oracle: the harness's own exact token bucket, compared at every step")
