"""RESP connection-level correspondence shared by C10, C13, C14, C15: real RedisTransport over TCP
(harness bin `conn`) vs Conn.v + Cmd.v evaluated in Coq (Corr/ConnCorr.v)."""
import json
import re
from .. import common as C

HEADER = "Require Import TC.Resp.Utf8 TC.Resp.Parse TC.Resp.Conn TC.Resp.Cmd TC.Corr.ConnCorr."


def parse_frames(data):
    """Independent minimal RESP reader for reply streams: returns (frames, rest) or raises ValueError."""
    frames = []
    i = 0

    def line(i):
        j = data.find(b"\r\n", i)
        if j < 0:
            raise ValueError("unterminated line at %d" % i)
        return data[i:j], j + 2

    def one(i, depth=0):
        if i >= len(data):
            raise ValueError("truncated")
        t = data[i:i + 1]
        if t in (b"+", b"-"):
            s, j = line(i + 1)
            if b"\n" in s or b"\r" in s:
                raise ValueError("line feed / carriage return inside a simple string or error line at %d" % i)
            return ({"t": "simple" if t == b"+" else "error", "s": list(s)}, j)
        if t == b":":
            s, j = line(i + 1)
            return ({"t": "int", "z": int(s)}, j)
        if t == b"$":
            s, j = line(i + 1)
            n = int(s)
            if n == -1:
                return ({"t": "null"}, j)
            if data[j + n:j + n + 2] != b"\r\n":
                raise ValueError("bulk string not terminated by CRLF at %d" % (j + n))
            return ({"t": "bulk", "s": list(data[j:j + n])}, j + n + 2)
        if t == b"*":
            s, j = line(i + 1)
            n = int(s)
            items = []
            for _ in range(n):
                v, j = one(j, depth + 1)
                items.append(v)
            return ({"t": "arr", "l": items}, j)
        raise ValueError("bad type byte %r at %d" % (t, i))

    while i < len(data):
        v, i = one(i)
        frames.append(v)
    return frames


def frames_match(m, r):
    """model frame vs real frame"""
    if m["t"] != r["t"]:
        return False
    if m["t"] == "error":
        # error lines of the limiter carry the library's message (modelled only up to its prefix); every other error line is exact
        # the wording of an error line is not part of any property: a different text is counted, not alarmed
        # (line breaks smuggled into it show up as extra / malformed frames, which IS checked)
        if m["s"] != r["s"] and not bytes(m["s"]).startswith(b"ERR Rate limit check failed"):
            frames_match.reworded += 1
        return True
    if m["t"] == "arr":
        ml, rl = m["l"], r["l"]
        if len(ml) != len(rl):
            return False
        if len(ml) == 5 and all(x["t"] == "int" for x in ml) and ml[3]["z"] == 0 and ml[4]["z"] == 0:
            return all(x["t"] == "int" for x in rl) and [x["z"] for x in ml[:3]] == [x["z"] for x in rl[:3]] and rl[3]["z"] >= 0 and rl[4]["z"] >= 0
        return all(frames_match(a, b) for a, b in zip(ml, rl))
    return m == r


frames_match.reworded = 0


def run_conn(ctx, props):
    bins = C.harness_build(ctx, "srv", ["conn"])
    if not bins:
        return
    ncases, maxc = (120, 10) if ctx.tier == "quick" else (2500, 14)
    out = C.run_harness(ctx, bins["conn"], ["--seed", ctx.seed, "--cases", ncases, "--maxcmds", maxc], timeout=2400)
    cases = [json.loads(l) for l in out.splitlines() if l.startswith("{")]
    exprs = []
    for c in cases:
        table = C.coq_list(["(%s, %s)" % (C.coq_bytes(a), C.coq_bytes(b)) for a, b in c["upper"]])
        exprs.append("conn_expected %s (split_sizes %s %s)" % (table, C.coq_bytes_rle(c["stream"]), C.coq_list([str(x) for x in c["sizes"]])))
    results = []
    B = 60
    for k in range(0, len(exprs), B):
        res = C.coq_eval(ctx, "conn_%d" % (k // B), HEADER, exprs[k:k + B], scope="N_scope")
        if res is None:
            ctx.broken.append("connection model (Conn.v/Cmd.v) did not evaluate in Coq for batch %d" % (k // B))
            return
        results += res
    n_ok = 0
    stats = {"connections": len(cases), "commands_replied": 0, "closed_by_error": 0, "closed_by_quit": 0, "one_byte_splits": 0, "single_write": 0,
             "throttle_denied_replies": 0, "metrics_events": 0}
    for c, r in zip(cases, results):
        m = re.search(r"=\s*\(\[(.*?)\],\s*\[(.*?)\],\s*(\d+)\)", r)
        if not m:
            ctx.broken.append("unparsable model output for a connection case: " + r[:200])
            continue
        exp_bytes = bytes(int(x) for x in re.findall(r"\d+", m.group(1)))
        evs = [int(x) for x in re.findall(r"\d+", m.group(2))]
        endc = int(m.group(3))
        stats["closed_by_error"] += endc == 1
        stats["closed_by_quit"] += endc == 3
        stats["one_byte_splits"] += all(s == 1 for s in c["sizes"]) and len(c["sizes"]) > 1
        stats["single_write"] += len(c["sizes"]) == 1
        real = bytes(c["reply"])
        inp = {"stream": c["stream"] if len(c["stream"]) < 400 else c["stream"][:400] + ["..."], "chunk_sizes": c["sizes"][:50]}
        # C14 oracle on the implementation alone: the reply stream is a sequence of well-formed frames
        try:
            rframes = parse_frames(real)
        except ValueError as e:
            if "C14" in props or "C10" in props:
                ctx.violations.append({"what": "C14: the reply stream of a connection is not a sequence of well-formed RESP frames (%s)" % e,
                                       "input": inp, "reply": list(real[:300])})
            continue
        # C13 oracle on the implementation alone: the same pipeline (fresh keys) sent in a single write
        # must be answered with the same frames
        if "C13" in props or "C10" in props:
            try:
                sframes = parse_frames(bytes(c["reply_single"]))
                if c.get("rst_possible") and endc != 0 and len(sframes) != len(rframes):
                    # the server closed on a protocol error with client bytes unread: TCP answers RST and replies the
                    # client had not read yet may be discarded by its kernel; only the common prefix is comparable
                    k = min(len(sframes), len(rframes))
                    sframes, rframes_cmp = sframes[:k], rframes[:k]
                    stats["rst_truncated"] = stats.get("rst_truncated", 0) + 1
                else:
                    rframes_cmp = rframes
                same = len(sframes) == len(rframes_cmp) and all(a["t"] == b["t"] and (a["t"] in ("error",) or a == b) for a, b in zip(sframes, rframes_cmp))
            except ValueError:
                same = False
            if not same:
                ctx.violations.append({"what": "%s: a command stream is answered differently when cut into packets (chunk sizes below) than when sent in a single write (%d reply frames when chunked; one reply per command, in order, whatever the splitting)" % (ctx.pid, len(rframes)),
                                       "input": inp, "reply_chunked": list(real[:200]), "reply_single_write": c["reply_single"][:200]})
                continue
        # C15 oracle on the implementation alone: the denied counter moved by exactly the number of denial decisions this
        # connection was sent (a 5-integer array starting with 0), whatever the model thinks the replies should have been
        if "C15" in props and not (c.get("rst_possible") and endc != 0):
            # replies are matched with the commands of the request stream (one reply per command, in order); only replies to
            # THROTTLE commands are decisions (PING echoes an array argument that may look like one)
            try:
                cmds = parse_frames(bytes(c["stream"]))
            except ValueError:
                cmds = None
            told_denied = None
            if cmds is not None and len(cmds) >= len(rframes):
                def is_throttle(v):
                    return v["t"] == "arr" and v["l"] and v["l"][0]["t"] == "bulk" and bytes(v["l"][0]["s"]).upper() == b"THROTTLE"
                told_denied = sum(1 for v, f in zip(cmds, rframes) if is_throttle(v) and f["t"] == "arr" and len(f["l"]) == 5
                                  and all(x["t"] == "int" for x in f["l"]) and f["l"][0]["z"] == 0)
            if c["delta"][0] > len(rframes):
                # every counted request is one that was answered: "allowed + errors equals everything else" that was returned
                ctx.violations.append({"what": "C15: %d requests were counted on this connection but only %d replies were returned to the client (delta [total,http,grpc,redis,allowed,denied,errors] = %s)"
                                               % (c["delta"][0], len(rframes), c["delta"]), "input": inp, "reply": list(real[:300])})
                continue
            if told_denied is not None and c["delta"][5] != told_denied:
                ctx.violations.append({"what": "C15: this connection was sent %d denial decisions but requests_denied moved by %d (delta [total,http,grpc,redis,allowed,denied,errors] = %s)"
                                               % (told_denied, c["delta"][5], c["delta"]), "input": inp, "reply": list(real[:300])})
                continue
        mframes = parse_frames(exp_bytes)
        stats["commands_replied"] += len(rframes)
        if c.get("rst_possible") and endc != 0 and len(rframes) < len(mframes):
            # same RST truncation: the real stream may stop early, never run long or differ
            stats["rst_truncated"] = stats.get("rst_truncated", 0) + 1
            mframes = mframes[:len(rframes)]
        ok = len(mframes) == len(rframes) and all(frames_match(a, b) for a, b in zip(mframes, rframes))
        if not ok:
            if len(mframes) != len(rframes) and ("C10" in props or "C14" in props):
                ctx.violations.append({"what": "C10/C14: %d replies were written for a stream that decodes to %d commands (one reply per command, in order)" % (len(rframes), len(mframes)),
                                       "input": inp, "reply": list(real[:300])})
            else:
                ctx.broken.append("correspondence connection loop/command handler vs Conn.v+Cmd.v: replies differ for stream %s sizes %s: real %s model %s"
                                  % (c["stream"][:200], c["sizes"][:20], json.dumps(rframes)[:300], json.dumps(mframes)[:300]))
            continue
        # C15 (RESP part): counters move exactly by the events of this connection
        d = c["delta"]
        denied_replies = sum(1 for f in rframes if f["t"] == "arr" and len(f["l"]) == 5 and all(x["t"] == "int" for x in f["l"]) and f["l"][0]["z"] == 0)
        stats["throttle_denied_replies"] += denied_replies
        nev = sum(1 for e in evs if e != 0)
        stats["metrics_events"] += nev
        exp_delta = [nev, 0, 0, nev, sum(1 for e in evs if e == 1), sum(1 for e in evs if e == 2), 0]
        if "C15" in props:
            if d[0] != d[1] + d[2] + d[3] or d[0] != d[4] + d[5] + d[6]:
                ctx.violations.append({"what": "C15: counter identities broken after a quiescent RESP connection: delta [total,http,grpc,redis,allowed,denied,errors] = %s" % d, "input": inp})
            elif d != exp_delta:
                # which is right? the property: denied = number of denied decisions returned to the client
                model_denied = sum(1 for e in evs if e == 2)
                if d[5] != model_denied or d[0] != nev:
                    ctx.violations.append({"what": "C15: metrics delta %s but the client was sent %d denied decisions out of %d counted commands (expected %s)" % (d, model_denied, nev, exp_delta),
                                           "input": inp, "reply": list(real[:200])})
                else:
                    ctx.broken.append("correspondence metrics events vs Cmd.v: delta %s expected %s" % (d, exp_delta))
                continue
        n_ok += 1
    stats["error_lines_worded_differently_from_model"] = frames_match.reworded
    cov = ctx.coverage
    cov["connection_cases"] = stats
    cov["evaluations"] = cov.get("evaluations", 0) + stats["commands_replied"]
    cov["distinct_nontrivial"] = cov.get("distinct_nontrivial", 0) + len(cases)
    cov["traces_validated_against_impl"] = cov.get("traces_validated_against_impl", 0) + n_ok
    cov.setdefault("samples", []).append({"connection_stream": cases[0]["stream"][:80], "chunk_sizes": cases[0]["sizes"][:20], "reply": cases[0]["reply"][:80]} if cases else {})
    cov["rule"] = cov.get("rule", "") + " ; connection level: PRNG pipelines of 1..%d commands (PING variants incl. array/CRLF arguments, THROTTLE with bulk/integer arguments, 5/6 arity, invalid and malformed forms, unknown commands with CR/LF/non-ASCII names incl. dotless-i case variants, QUIT, protocol errors, truncated last frame) over real TCP in PRNG splittings (single write, 1-byte, small, large, mixed)" % maxc
    ctx.assumptions.append("connection tests use an emission interval of 104 days so that limiter answers do not depend on wall-clock time; reset/retry values are compared only for sign")


def run_latereader(ctx):
    """C14 / C10 under back-pressure: a pipelining client that starts reading only when its own writes stall; the reply stream
    must be exactly one echo frame per command, in order (implementation-side oracle, no model needed: PING echoes)."""
    bins = C.harness_build(ctx, "srv", ["conn"])
    if not bins:
        return
    out = C.run_harness(ctx, bins["conn"], ["--mode", "latereader", "--seed", ctx.seed, "--cases", 2 if ctx.tier == "quick" else 12], timeout=1200)
    rows = [json.loads(l) for l in out.splitlines() if l.startswith("{")]
    st = {"pipelines": len(rows), "commands": 0, "reply_bytes": 0, "client_stalled": 0}
    for r in rows:
        st["commands"] += r["commands"]
        st["reply_bytes"] += r["reply_bytes"]
        st["client_stalled"] += r["client_stalled_at_command"] >= 0
        if r["first_difference_at_byte"] >= 0 or r["write_error"]:
            ctx.violations.append({"what": "%s: the reply stream of a pipelining client that reads late is not one echo frame per command, in order: %d of %d reply bytes arrived, first difference at byte %d (inside reply #%d)%s"
                                           % (ctx.pid, r["reply_bytes"], r["expected_bytes"], r["first_difference_at_byte"], r["in_reply_number"], (" ; write error: " + r["write_error"]) if r["write_error"] else ""),
                                   "input": {"harness": "conn --mode latereader", "history": "ONE RESP connection: %d commands `PING <payload of %d bytes, numbered>` written back to back; the client starts reading only when its own "
                                             "writes stall (at command #%d), then reads everything" % (r["commands"], r["payload_bytes"], r["client_stalled_at_command"])}})
        else:
            ctx.coverage["traces_validated_against_impl"] = ctx.coverage.get("traces_validated_against_impl", 0) + 1
    ctx.coverage["evaluations"] = ctx.coverage.get("evaluations", 0) + st["commands"]
    ctx.coverage.setdefault("input_distribution", {})["late_reader"] = st
    ctx.coverage["rule"] = ctx.coverage.get("rule", "") + " || back-pressure: 400 x 40000-byte and 1500 x 9000-byte PING pipelines on one connection, the client reads only after its writes stall"
