"""C10 - every request answered exactly once, in order, under back-pressure.  Theorems: Properties/C10.v.
T2: controlled scheduler with queue capacity 1 and abandon actions (actorcheck) + RESP connections in many
splittings: one reply per command in order (conncheck)."""
from . import actorcheck, conncheck

COQ_TARGETS = ["Corr/ActorCorr.vo", "Corr/ConnCorr.vo", "Properties/C10.vo"]


def run(ctx):
    actorcheck.run_actor(ctx, "C10")
    cov = dict(ctx.coverage)
    conncheck.run_conn(ctx, {"C10"})
    # keep both coverage records
    conn_cov = dict(ctx.coverage)
    ctx.coverage.clear()
    ctx.coverage.update(cov)
    ctx.coverage["evaluations"] = cov.get("evaluations", 0) + conn_cov.get("evaluations", 0)
    ctx.coverage["traces_validated_against_impl"] = cov.get("traces_validated_against_impl", 0) + conn_cov.get("traces_validated_against_impl", 0)
    ctx.coverage["model_impl_disagreements"] = cov.get("model_impl_disagreements", 0) + conn_cov.get("model_impl_disagreements", 0)
    ctx.coverage["input_distribution"] = {"actor": cov.get("input_distribution"), "resp_connections": conn_cov.get("input_distribution")}
    ctx.coverage["rule"] = cov.get("rule", "") + " || RESP: " + conn_cov.get("rule", "")
