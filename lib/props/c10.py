"""C10 - every request answered exactly once, in order, under back-pressure.  Theorems: Properties/C10.v.
T2: controlled scheduler with queue capacity 1 and abandon actions (actorcheck) + RESP connections in many
splittings: one reply per command in order (conncheck)."""
import json
from .. import common as C
from . import actorcheck, conncheck

COQ_TARGETS = ["Corr/ActorCorr.vo", "Corr/ConnCorr.vo", "Properties/C10.vo"]


def run(ctx):
    actorcheck.run_actor(ctx, "C10")
    cov = dict(ctx.coverage)
    conncheck.run_conn(ctx, {"C10"})
    conncheck.run_latereader(ctx)
    # keep both coverage records
    conn_cov = dict(ctx.coverage)
    ctx.coverage.clear()
    ctx.coverage.update(cov)
    ctx.coverage["evaluations"] = cov.get("evaluations", 0) + conn_cov.get("evaluations", 0)
    ctx.coverage["traces_validated_against_impl"] = cov.get("traces_validated_against_impl", 0) + conn_cov.get("traces_validated_against_impl", 0)
    ctx.coverage["model_impl_disagreements"] = cov.get("model_impl_disagreements", 0) + conn_cov.get("model_impl_disagreements", 0)
    ctx.coverage["input_distribution"] = {"actor": cov.get("input_distribution"), "resp_connections": conn_cov.get("input_distribution")}
    ctx.coverage["rule"] = cov.get("rule", "") + " || RESP: " + conn_cov.get("rule", "")
    # connection drops at every byte offset: the dropped client's complete commands are applied at most once each, an incomplete
    # command never, a bystander connection gets exactly its own answers
    bins = C.harness_build(ctx, "srv", ["conn"])
    if bins:
        out = C.run_harness(ctx, bins["conn"], ["--mode", "drops", "--cases", 12 if ctx.tier == "quick" else 150, "--seed", ctx.seed], timeout=2400)
        drops = 0
        exhaustive = 0
        for l in out.splitlines():
            if not l.startswith("{"):
                continue
            d = json.loads(l)
            exhaustive += len(d["rows"]) == d["stream_len"] + 1
            for r in d["rows"]:
                drops += 1
                b = d["burst"]
                inp = {"pipeline": "%d x THROTTLE key %d 1 9000000 (quantity 1)" % (d["commands"], b), "stream_bytes": d["stream_len"], "dropped_after_bytes": r["offset"],
                       "complete_commands_sent": r["complete"], "probe": {"allowed": r["probe_allowed"], "remaining": r["remaining"]}, "bystander_ok": r["bystander_ok"]}
                if not r["bystander_ok"]:
                    ctx.violations.append({"what": "C10: a client that disconnects mid-request changed the answers of another connection (bystander on its own key)", "input": inp})
                elif r["probe_allowed"] != 1 or not (b - r["complete"] <= r["remaining"] <= b):
                    ctx.violations.append({"what": "C10: after a connection was dropped at byte %d the key's budget is %d of %d although %d complete commands were sent "
                                                   "(each complete command is applied at most once, an incomplete one never)" % (r["offset"], r["remaining"], b, r["complete"]), "input": inp})
        ctx.coverage["evaluations"] = ctx.coverage.get("evaluations", 0) + drops
        ctx.coverage["traces_validated_against_impl"] = ctx.coverage.get("traces_validated_against_impl", 0) + drops
        ctx.coverage.setdefault("input_distribution", {})["connection_drops"] = {"drops": drops, "pipelines_cut_at_every_offset": exhaustive}
        ctx.coverage["rule"] = ctx.coverage.get("rule", "") + " || drops: pipelines of 1..4 THROTTLE commands cut at every byte offset (1 in 3 pipelines) or at 12 PRNG offsets, socket closed without reading, probe of the key's budget and a bystander connection"
