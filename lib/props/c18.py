"""C18 - rate arithmetic.  Theorems: Properties/C18.v (Flocq binary64 model).
T2: harness bin `rate` (real Rate constructors) vs the model evaluated by vm_compute in coqc."""
import json
from .. import common as C

COQ_TARGETS = ["Corr/RateCorr.vo"]


def run(ctx):
    bins = C.harness_build(ctx, "lib", ["rate"])
    if not bins:
        return
    nrand = 1500 if ctx.tier == "quick" else 60000
    out = C.run_harness(ctx, bins["rate"], ["--seed", ctx.seed, "--random", nrand])
    cases = [json.loads(l) for l in out.splitlines() if l.startswith("{")]
    terms = []
    distinct = set()
    dist = {"gen_in_domain": 0, "gen_invalid": 0, "gen_outside_domain": 0, "unit_in_domain": 0, "unit_outside": 0, "impl_panics": 0}
    for c in cases:
        ns = None if c["ns"] is None else int(c["ns"])
        if ns is None:
            dist["impl_panics"] += 1
        if c["k"] == "gen":
            terms.append("GenCase %s %s %s" % (C.z(c["count"]), C.z(c["period"]), C.coq_opt(ns)))
            key = ("g", c["count"], c["period"])
            if c["count"] <= 0 or c["period"] <= 0:
                dist["gen_invalid"] += 1
            elif c["oracle"] == "na":
                dist["gen_outside_domain"] += 1
            else:
                dist["gen_in_domain"] += 1
        else:
            terms.append("UnitCase %d %s %s" % (c["unit"], C.z(c["n"]), C.coq_opt(ns)))
            key = ("u", c["unit"], c["n"])
            dist["unit_in_domain" if 1 <= c["n"] <= 4294967295 else "unit_outside"] += 1
        distinct.add(key)
        if c["oracle"].startswith("bad"):
            ctx.violations.append({"what": "C18 oracle on the implementation's own output: " + c["oracle"], "input": c})
    mism, ok = C.coq_mismatches(ctx, "rate", "Require Import TC.Corr.RateCorr.", "rate_case_ok", terms, shard=300)
    for i in mism[:50]:
        c = cases[i]
        res = C.coq_eval(ctx, "rate_mm", "Require Import TC.Corr.RateCorr.", ["rate_model_out (%s)" % terms[i]])
        entry = {"what": "model/implementation disagreement (Rate constructor)", "input": c, "model": res}
        if c["oracle"].startswith("bad"):
            pass  # already reported as a concrete violation
        elif c["oracle"] == "ok":
            ctx.broken.append("correspondence Rate64 vs rate/mod.rs disagrees on %s (property oracle holds there): model %s" % (json.dumps(c), res))
        else:
            ctx.broken.append("correspondence Rate64 vs rate/mod.rs disagrees outside the property's domain on %s: model %s" % (json.dumps(c), res))
    ctx.coverage.update({
        "evaluations": len(cases),
        "distinct_nontrivial": len(distinct),
        "rule": "boundary lattice over (count, period) incl. divisors/near-divisors of period*1e9, invalid and out-of-domain points, "
                "PRNG points (seed), unit constructors at boundaries + PRNG n; a case is distinct by its argument tuple; all are non-trivial "
                "(each is a separate evaluation of the binary64 model against the real constructor)",
        "samples": cases[:3] + cases[len(cases) // 2: len(cases) // 2 + 2] + cases[-2:],
        "input_distribution": dist,
        "traces_validated_against_impl": len(cases) - len(mism),
        "model_impl_disagreements": len(mism),
    })
    ctx.assumptions += [
        "IEEE-754 binary64 round-to-nearest-even for the CPU's f64 multiply/divide and i64->f64 conversion (Flocq Bmult/Bdiv/binary_normalize mode_NE is the model)",
        "rustc's saturating float->u64 cast semantics; std::time::Duration::checked_div as transcribed in Float/Rate64.v",
        "correspondence is sampling (differential execution), the theorems are not",
    ]
