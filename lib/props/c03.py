"""C03 - response fields are truthful.  Theorems: Properties/C03.v.
T2: real RateLimiter vs Coq model (all four fields, entry count, snapshot); oracle: probes from
a replayed copy of the state each probed response was produced in."""
from .. import limcheck

COQ_TARGETS = limcheck.COQ_TARGETS


def run(ctx):
    n, ml = (220, 50) if ctx.tier == "quick" else (5000, 200)
    limcheck.run_modes(ctx, "C03", [("hist", ["--cases", n, "--maxlen", ml, "--probes", 1])], {"C03"},
        "same history generator as C01; for up to 6 responses per history the prefix is replayed into a second limiter and probed: `remaining` (must be admitted), "
        "`remaining`+1 (denied), the denied request at retry_after and 1 ns earlier, a request at reset_after (+0..1000 ns) compared field by field with a never-seen key; "
        "on every admitted write the TTL seen by a recording Store wrapper must equal reset_after")
