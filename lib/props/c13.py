"""C13 - RESP decoding is safe on any bytes and independent of packet boundaries.
Theorems: Properties/C13.v.  T2: the real RespParser on (a) ALL byte strings up to a length over the
protocol alphabet (enumerated inside Coq too and compared code by code), (b) generated frames with
mutations, (c) sessions on one parser instance, (d) the real connection loop over TCP with every
splitting of pipelined streams (Conn model)."""
import json
from .. import common as C
from .. import respconv as RC

COQ_TARGETS = ["Corr/RespCorr.vo"]
CODES = {"M": 0, "E": 1, "O": 2, "P": 3}


def run(ctx):
    bins = C.harness_build(ctx, "srv", ["resp"])
    if not bins:
        return
    maxlen = 4 if ctx.tier == "quick" else 5
    nframes, nsess = (250, 250) if ctx.tier == "quick" else (6000, 6000)
    evals = 0
    # (a) exhaustive enumeration
    out = C.run_harness(ctx, bins["resp"], ["--mode", "enum", "--maxlen", maxlen])
    exprs = []
    enum_total = 0
    preamble = []
    for l in out.splitlines():
        if not l.startswith("{"):
            continue
        d = json.loads(l)
        codes = [CODES[c] for c in d["codes"]]
        enum_total += len(codes)
        if "P" in d["codes"]:
            ctx.violations.append({"what": "RespParser::parse panicked on a byte string of length %d (index %d in canonical order over the alphabet)" % (d["len"], d["codes"].index("P")), "input": d["len"]})
        # long literals are cut into chunks (a 38k-element list literal overflows coqc's stack)
        names = []
        for k in range(0, max(len(codes), 1), 1500):
            nm = "codes_%d_%d" % (d["len"], k // 1500)
            preamble.append("Definition %s : list N := %s." % (nm, C.coq_list([str(c) for c in codes[k:k + 1500]])))
            names.append(nm)
        preamble.append("Definition codes_%d : list N := %s." % (d["len"], " ++ ".join(names)))
        oks = ["(%d, %s, %d)" % (i, RC.value_term(v), c) for i, v, c in d["oks"]]
        onames = []
        for k in range(0, max(len(oks), 1), 300):
            nm = "oks_%d_%d" % (d["len"], k // 300)
            preamble.append("Definition %s : list (N * value * N) := %s." % (nm, C.coq_list(oks[k:k + 300])))
            onames.append(nm)
        preamble.append("Definition oks_%d : list (N * value * N) := %s." % (d["len"], " ++ ".join(onames)))
        exprs.append(("enum%d" % d["len"], "(enum_len_ok %d codes_%d, enum_codes_ok %d codes_%d, enum_oks_ok %d oks_%d)" % (
            d["len"], d["len"], d["len"], d["len"], d["len"], d["len"])))
    evals += enum_total
    res = C.coq_eval(ctx, "resp_enum", RC.HEADER, [e for _, e in exprs], scope="N_scope", preamble="\n".join(preamble))
    enum_bad = 0
    if res is None:
        ctx.broken.append("correspondence (exhaustive enumeration) did not evaluate in Coq")
    else:
        for (name, _), r in zip(exprs, res):
            if not r.replace(" ", "").startswith("=(true,[],[])"):
                enum_bad += 1
                ctx.broken.append("correspondence RespParser vs Parse.v disagrees on the exhaustive enumeration %s: (length ok, mismatching indices of outcome codes, mismatching Ok values) %s" % (name, r[:400]))
    # (b) frames
    out = C.run_harness(ctx, bins["resp"], ["--mode", "frames", "--seed", ctx.seed, "--cases", nframes])
    frames = [json.loads(l) for l in out.splitlines() if l.startswith("{")]
    pterms, sterms = [], []
    kinds = {}
    for fr in frames:
        pterms.append("(%s, %s)" % (C.coq_bytes(fr["buf"]), RC.out_term(fr["out"])))
        pterms.append("(%s, %s)" % (C.coq_bytes(fr["mut"]), RC.out_term(fr["mut_out"])))
        sterms.append("(%s, %s)" % (RC.value_term(fr["value"]), C.coq_bytes(fr["enc"])))
        kinds[fr["value"]["t"]] = kinds.get(fr["value"]["t"], 0) + 1
        if fr["oracle"].startswith("bad"):
            ctx.violations.append({"what": "C13/C14 oracle on the implementation: " + fr["oracle"], "input": {"value": fr["value"], "bytes": fr["buf"]}})
    evals += 2 * len(frames)
    m1, _ = C.coq_mismatches(ctx, "resp_frames", RC.HEADER, "resp_case_ok", pterms, shard=40, scope="N_scope")
    m2, _ = C.coq_mismatches(ctx, "resp_ser", RC.HEADER, "ser_case_ok", sterms, shard=40, scope="N_scope")
    for i in m1[:5]:
        fr = frames[i // 2]
        ctx.broken.append("correspondence RespParser vs Parse.v disagrees on buffer %s (impl: %s)" % (fr["buf" if i % 2 == 0 else "mut"][:200], json.dumps(fr["out" if i % 2 == 0 else "mut_out"])[:300]))
    for i in m2[:5]:
        ctx.broken.append("correspondence RespSerializer vs Parse.serialize disagrees on value %s" % json.dumps(frames[i]["value"])[:300])
    # (c) sessions
    out = C.run_harness(ctx, bins["resp"], ["--mode", "sessions", "--seed", ctx.seed, "--cases", nsess])
    sessions = [json.loads(l) for l in out.splitlines() if l.startswith("{")]
    sess_terms = [C.coq_list(["(%s, %s)" % (C.coq_bytes(s["buf"]), RC.out_term(s["out"])) for s in se["steps"]]) for se in sessions]
    evals += sum(len(se["steps"]) for se in sessions)
    m3, _ = C.coq_mismatches(ctx, "resp_sess", RC.HEADER, "session_ok", sess_terms, shard=40, scope="N_scope")
    for i in m3[:5]:
        ctx.broken.append("correspondence (one parser instance, threaded depth) disagrees on session %s" % json.dumps(sessions[i])[:500])
    for se in sessions:
        for s in se["steps"]:
            if s["out"] == "panic":
                ctx.violations.append({"what": "RespParser::parse panicked", "input": s["buf"]})
    ctx.coverage.update({
        "evaluations": evals,
        "distinct_nontrivial": enum_total + len(frames) + len(sessions),
        "rule": "(a) every byte string of length 0..%d over the 14-symbol alphabet {+,-,:,$,*,0,1,9,CR,LF,a,0xC3,0xA9,0xFF} (exhaustive: %d strings; enumerated independently inside Coq in the same canonical order and compared code by code, Ok values compared in full); "
                "(b) PRNG values of all five kinds (empty/null/long strings, CR/LF, non-ASCII, i64 extremes, nesting 0..4 and wrappers of 120..200 levels) encoded by the real serializer, decoded with trailing bytes, every strict prefix checked, one mutation each; "
                "(c) sessions of 1..6 buffers (hostile headers, truncated frames, deep nesting) on ONE parser instance" % (maxlen, enum_total),
        "exhaustive": True,
        "samples": [{"buf": frames[0]["buf"][:40], "out": frames[0]["out"]}, {"session": sessions[0]["steps"][:2]}] if frames and sessions else [],
        "input_distribution": {"enumerated_strings": enum_total, "frames": len(frames), "value_kinds": kinds, "sessions": len(sessions)},
        "traces_validated_against_impl": enum_total + 2 * len(frames) + len(sessions) - len(m1) - len(m2) - len(m3) - enum_bad,
        "model_impl_disagreements": len(m1) + len(m2) + len(m3) + enum_bad,
    })
    ctx.assumptions += ["str::from_utf8 = the Table 3-7 DFA of Resp/Utf8.v; str::parse::<i64> = Decimal.parse_i64 (both exercised by the enumeration)",
                        "memory safety of safe Rust is the compiler's business; the model makes every slice an explicit bounds check (PPanic) and proves it unreachable"]
    mod_conn = __import__("lib.props.conncheck", fromlist=["run_conn"])
    mod_conn.run_conn(ctx, {"C13"})
