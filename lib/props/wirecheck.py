"""Real-socket checks shared by C09 / C11 / C12: ONE real `throttlecrab-server` process built from /repo's
working tree, HTTP + gRPC + RESP enabled, independent clients (harness/srv/src/bin/wire.rs)."""
import json
import os
import re
from .. import common as C
from .. import respconv as RC
from . import conncheck

HEADER = ("Require Import TC.Resp.Utf8 TC.Resp.Parse TC.Resp.Cmd TC.Server.Transport TC.Server.Serve TC.Corr.WireCorr.\n"
          "Open Scope string_scope.")
SERVER_TARGET = os.path.join(C.VERIF, ".cache", "target-server")


def server_build(ctx):
    """The real binary, rebuilt from /repo's working tree."""
    env = C.cargo_env()
    env["CARGO_TARGET_DIR"] = SERVER_TARGET
    with C.Lock("cargo-server"):
        rc, out = C.run(["cargo", "build", "--offline", "--release", "-p", "throttlecrab-server", "--bin", "throttlecrab-server"],
                        cwd=C.REPO, env=env, timeout=1500)
    if rc != 0:
        ctx.broken.append("the server binary does not build from /repo's working tree:\n" + "\n".join(out.splitlines()[-20:]))
        return None
    return os.path.join(SERVER_TARGET, "release", "throttlecrab-server")


def coq_string(s):
    return '"' + "".join(ch if 32 <= ord(ch) < 127 and ch != '"' else ('""' if ch == '"' else "?") for ch in s) + '"'


def jval_term(v):
    if v is None:
        return "JNull"
    if isinstance(v, bool):
        return "(JBool %s)" % C.coq_bool(v)
    if isinstance(v, int):
        return "(JInt %s)" % C.z(v)
    if isinstance(v, float):
        return "JFloat"
    if isinstance(v, str):
        return "(JStr %s)" % C.coq_bytes(v.encode("utf-8"))
    return "JOther"


def resp_value(raw):
    frames = conncheck.parse_frames(bytes(raw))
    return frames[0] if len(frames) == 1 else None


def wreq_term(sent):
    if "http_raw" in sent:
        return "WHttp None"
    if "http_body" in sent:
        try:
            pairs = json.loads(sent["http_body"], object_pairs_hook=lambda ps: ("obj", ps), parse_constant=lambda c: float("nan"))
        except ValueError:
            return "WHttp None"
        if not (isinstance(pairs, tuple) and pairs[0] == "obj"):
            return "WHttp None"
        items = ["(%s, %s)" % (coq_string(k), "JOther" if isinstance(v, (tuple, list)) else jval_term(v)) for k, v in pairs[1]]
        return "WHttp (Some %s)" % C.coq_list(items)
    if "grpc" in sent:
        k, b, c, p, q = sent["grpc"]
        return "WGrpc (mkgreq %s %s %s %s %s)" % (C.coq_bytes(k.encode("utf-8")), C.z(b), C.z(c), C.z(p), C.z(q))
    v = None
    try:
        v = resp_value(sent["resp"])
    except ValueError:
        pass
    if v is None or v["t"] != "arr" or not v["l"] or v["l"][0]["t"] != "bulk" or bytes(v["l"][0]["s"]).upper() != b"THROTTLE":
        return "WResp []"       # not a THROTTLE command: refused without the limiter
    return "WResp %s" % C.coq_list(["(" + RC.value_term(x) + ")" for x in v["l"]])


def wobs_term(w):
    if "a" in w:
        return "OOk %s %s %s %s %s" % (C.coq_bool(w["a"]), C.z(w["lim"]), C.z(w["rem"]), C.z(w["reset"]), C.z(w["retry"]))
    return "OErr"


def _lines(out):
    return [json.loads(l) for l in out.splitlines() if l.startswith("{")]


def run_wire(ctx, prop):
    bins = C.harness_build(ctx, "srv", ["wire"])
    if not bins:
        return
    server = server_build(ctx)
    if not server:
        return
    quick = ctx.tier == "quick"
    cov = ctx.coverage
    stats = cov.setdefault("wire", {})
    n_ok = 0
    n_eval = 0
    # ---------------------------------------------------------------- fidelity (C12) / cross-protocol sessions (C09)
    if prop in ("C12", "C09", "C15"):
        ncases = (60 if quick else 700) if prop == "C12" else (25 if quick else 200)
        out = C.run_harness(ctx, bins["wire"], ["--server", server, "--mode", "fidelity", "--cases", ncases, "--seed", ctx.seed], timeout=2400)
        rows = _lines(out)
        cases = [r for r in rows if r.get("mode") == "fidelity"]
        alive = [r for r in rows if r.get("mode") == "server_end"]
        if len(alive) != 3 or not all(a["alive"] for a in alive):
            ctx.violations.append({"what": "%s: the server process did not survive the session mix" % prop, "input": {"seed": ctx.seed}})
        terms, idx = [], []
        dist = {"sessions": len(cases), "ops": 0, "by_protocol": [0, 0, 0], "malformed": 0, "int32_saturated_grpc": 0, "not_exact_timing": 0}
        # C15 on the wire: expected counters [total, http, grpc, redis, allowed, denied, errors] accumulated from what the clients were told
        cum = [0] * 7
        server_of = {}
        cur_server = -1
        for r in rows:
            if r.get("mode") == "server":
                cur_server += 1
            elif r.get("mode") == "fidelity":
                server_of[id(r)] = cur_server
        last_server = None
        metrics_points = 0
        for n, c in enumerate(cases):
            if server_of.get(id(c)) != last_server:
                cum = [0] * 7
                last_server = server_of.get(id(c))
            exact = c["elapsed_ms"] < 300
            dist["not_exact_timing"] += not exact
            ops = []
            sess_bad = None
            for o in c["ops"]:
                dist["ops"] += 1
                dist["by_protocol"][o["proto"]] += 1
                dist["malformed"] += "malformed" in o
                w = o["wire"]
                if "broken" in w:
                    ctx.violations.append({"what": "%s: a request got no well-formed reply on the wire: %s" % (prop, w["broken"]), "input": {"session": c["ops"], "seed": ctx.seed}})
                if o["proto"] == 1 and "a" in w and (w["reset"] == 2147483647 or w["retry"] == 2147483647):
                    # class grpc-int32-range: the wire value equals narrow(library value) (checked in Coq below) and sits at the int32 ceiling
                    dist["int32_saturated_grpc"] += 1
                    ctx.known_hits = getattr(ctx, "known_hits", 0) + 1
                    if c.get("witness") == "F8" and len(c["ops"]) == 2 and c["ops"][1]["wire"].get("reset", 0) > 2147483647:
                        ctx.known_witness_reproduced = True
                # what this exchange must add to the counters (handler reached? outcome told to the client)
                if "broken" not in w:
                    if o["proto"] == 0:
                        counted = not ("err" in w and re.match(r"http4\d\d", w["err"]))          # rejected by the extractor: handler not reached
                        kind = "err" if "err" in w else ("allowed" if w["a"] else "denied")
                    elif o["proto"] == 1:
                        counted = True
                        kind = "err" if "err" in w else ("allowed" if w["a"] else "denied")
                    else:
                        counted = True                                                               # every RESP command is counted; only a denial decision counts as denied
                        kind = "denied" if ("a" in w and not w["a"]) else "allowed"
                    if counted:
                        cum[0] += 1
                        cum[1 + o["proto"]] += 1
                        cum[{"allowed": 4, "denied": 5, "err": 6}[kind]] += 1
                ops.append("(%s, %s)" % (wreq_term(o["sent"]), wobs_term(w)))
                # implementation-side oracle straight from the property: the wire answer is the LIBRARY's answer for the request that
                # reaches the limiter (real RateLimiter in the harness, documented defaults, whole seconds), an error iff refused/rejected
                lib = o.get("lib")
                if lib is not None and "broken" not in w:
                    if ("err" in lib) != ("err" in w):
                        lib_bad = "library says %s, the wire says %s" % (json.dumps(lib)[:120], json.dumps(w)[:120])
                    elif "err" in lib:
                        lib_bad = None
                    else:
                        keys = ["a", "lim", "rem"] + (["reset", "retry"] if exact else [])
                        lib_bad = None if all(lib[k] == w[k] for k in keys) else "library answers %s, the wire carries %s" % (json.dumps(lib), json.dumps(w))
                    if lib_bad and not sess_bad:
                        sess_bad = "request %d of the session (%s%s): %s" % (len(ops), ["http", "grpc", "resp"][o["proto"]], ", " + o["malformed"] if "malformed" in o else "", lib_bad)
            if prop == "C15" and c.get("metrics") is not None:
                metrics_points += 1
                mm = c["metrics"]
                if mm[0] != mm[1] + mm[2] + mm[3] or mm[0] != mm[4] + mm[5] + mm[6]:
                    ctx.violations.append({"what": "C15: GET /metrics at a quiescent point breaks the identities: [total,http,grpc,redis,allowed,denied,errors] = %s" % mm,
                                           "input": {"session": [{"proto": ["http", "grpc", "resp"][o["proto"]], "sent": o["sent"], "wire": o["wire"]} for o in c["ops"]]}})
                elif mm != cum:
                    ctx.violations.append({"what": "C15: GET /metrics reports [total,http,grpc,redis,allowed,denied,errors] = %s at a quiescent point, but the clients of this server were told "
                                                   "outcomes that add up to %s (denied = number of denial decisions returned)" % (mm, cum),
                                           "input": {"last_session": [{"proto": ["http", "grpc", "resp"][o["proto"]], "sent": o["sent"], "wire": o["wire"]} for o in c["ops"]]}})
                    cum = list(mm)      # resynchronise: report each discrepancy once
            if sess_bad and prop != "C15":
                ctx.violations.append({"what": "%s: the wire answer differs from the library's answer for the same request - %s" % (prop, sess_bad),
                                       "input": {"session": [{"proto": ["http", "grpc", "resp"][o["proto"]], "sent": o["sent"], "wire": o["wire"], "library": o.get("lib")} for o in c["ops"]]}})
            terms.append("(%s, %s)" % (C.coq_bool(exact), C.coq_list(ops)))
            idx.append(n)
        # the Coq transport model (regenerated glue tables) is C12's; the other properties use the implementation-side oracles above
        mism = []
        if prop == "C12":
            mism, _ = C.coq_mismatches(ctx, "wire_" + prop, HEADER, "wire_case_ok", terms, shard=12)
        for j in mism[:5]:
            c = cases[idx[j]]
            exprs = ["wire_model %s" % C.coq_list([wreq_term(o["sent"]) for o in c["ops"]])]
            res = C.coq_eval(ctx, "wire_diag_%d" % j, HEADER, exprs)
            ctx.violations.append({"what": "%s: the answers on the wire differ from the library's answers for the same requests (one limiter behind the three transports, whole seconds, "
                                           "documented positions; malformed/rejected requests consume nothing)" % prop,
                                   "input": {"session": [{"proto": ["http", "grpc", "resp"][o["proto"]], "sent": o["sent"], "wire": o["wire"]} for o in c["ops"]]},
                                   "model": (res[0][:1500] if res else None)})
        n_ok += len(terms) - len(mism)
        n_eval += dist["ops"]
        if prop == "C15":
            dist["metrics_quiescent_points"] = metrics_points
        stats["fidelity"] = dist
        cov.setdefault("samples", []).append({"wire_session": cases[0]["ops"][:3]} if cases else {})
    # ---------------------------------------------------------------- persistent connections with an idle gap (C12)
    if prop in ("C12", "C09"):
        out = C.run_harness(ctx, bins["wire"], ["--server", server, "--mode", "idle", "--cases", 1 if quick else 6, "--seed", ctx.seed], timeout=2400)
        idle_rows = [r for r in _lines(out) if r.get("mode") == "idle"]
        for r in idle_rows:
            ws = r["wires"]
            inp = {"protocol": ["http", "grpc", "resp"][r["proto"]], "history": "ONE connection: 3 unit requests back to back (max_burst 2, 10 per 3 s = one token per 300 ms), 1000 ms idle, 1 more unit request"
                   + (" whose first 9 bytes were written BEFORE the idle gap" if r.get("split") else ""),
                   "first_three_took_ms": r.get("first3_ms"), "answers": ws}
            if r.get("first3_ms", 0) > 150:
                stats["idle_rounds_too_slow_to_judge"] = stats.get("idle_rounds_too_slow_to_judge", 0) + 1
                continue
            ok = (len(ws) == 4 and all("a" in w for w in ws) and [w["a"] for w in ws[:3]] == [True, True, False]
                  and ws[3]["a"] is True and ws[3]["rem"] == 1 and all(w["lim"] == 2 for w in ws))
            if not ok:
                ctx.violations.append({"what": prop + ": on a persistent %s connection the answers are not the library's for the times the requests arrive (after a 1000 ms idle gap - more than three emission intervals - "
                                               "the bucket is full again: the fourth request must be allowed with remaining 1)" % inp["protocol"], "input": inp})
            else:
                n_ok += 1
        n_eval += 4 * len(idle_rows)
        stats["idle_connections"] = {"connections": len(idle_rows)}
        long_rows = [r for r in _lines(out) if r.get("mode") == "long"] if prop == "C12" else []
        for r in long_rows:
            n_eval += r["answered_correctly"]
            if r["first_bad"] >= 0:
                ctx.violations.append({"what": "C12: on a long-lived RESP connection command #%d (0-based) is not answered with the library's decision (allowed, limit 1000, remaining %d): %s"
                                               % (r["first_bad"], 999 - r["first_bad"], json.dumps(r["bad_wire"])[:200]),
                                       "input": {"history": "ONE RESP connection, %d unit THROTTLE commands on one fresh key (max_burst 1000, 1 per 3600 s), %s; each command answered before the next is sent"
                                                 % (r["n"], ["key of 1500 bytes (every command spans two reads of the server)", "every command written as two segments (cut 4..12 bytes in)", "whole commands", "every command exactly %d bytes long (the server's read chunk)" % r.get("cmd_bytes", 0)][r["variant"]]),
                                                 "commands_answered_correctly_before": r["answered_correctly"]}})
            else:
                n_ok += 1
        stats["long_connections"] = {"connections": len(long_rows), "commands": sum(r["answered_correctly"] for r in long_rows)}
    # ---------------------------------------------------------------- simultaneous burst across protocols (C09)
    if prop == "C09":
        ncases = 150 if quick else 2500
        out = C.run_harness(ctx, bins["wire"], ["--server", server, "--mode", "burst", "--cases", ncases, "--seed", ctx.seed], timeout=2400)
        rows = [r for r in _lines(out) if r.get("mode") == "burst"]
        bd = {"bursts": len(rows), "requests": 0, "n_ge_2b": 0, "mixed_protocols": 0}
        for r in rows:
            ws = r["wires"]
            bd["requests"] += len(ws)
            bd["n_ge_2b"] += r["n"] >= 2 * r["b"]
            bd["mixed_protocols"] += len(set(r["protos"])) > 1
            inp = {"max_burst": r["b"], "simultaneous_unit_requests": r["n"], "protocols(0=http,1=grpc,2=resp)": r["protos"], "answers": ws}
            if any("a" not in w for w in ws):
                ctx.violations.append({"what": "C09: a simultaneous unit request was answered with an error", "input": inp})
                continue
            adm = [w for w in ws if w["a"]]
            den = [w for w in ws if not w["a"]]
            want = min(r["n"], r["b"])
            # class stamp-disorder (KNOWN_FINDINGS.txt, findings/F10-stamp-disorder.json): a request stamped earlier than one already
            # served is denied with retry_after 0 whole seconds (the emission interval is one hour) while budget remains, or is
            # admitted reporting a remaining budget one lower than its rank
            soft = sum(1 for w in den if w["retry"] == 0 and w["lim"] == r["b"])
            rems = sorted(w["rem"] for w in adm)
            base = r["b"] - len(adm)          # the k-th admitted request of a fresh key reports max_burst - k
            low = sum(1 for i, x in enumerate(rems) if x == base + i - 1)
            if len(adm) > want or len(adm) + soft < want:
                ctx.violations.append({"what": "C09: %d simultaneous unit requests on a fresh key with max_burst %d admitted %d (expected exactly %d)" % (r["n"], r["b"], len(adm), want), "input": inp})
            elif any(w["lim"] != r["b"] for w in ws) or any(x not in (base + i, base + i - 1) or x < 0 for i, x in enumerate(rems)):
                ctx.violations.append({"what": "C09: the admitted requests of a simultaneous burst do not report the remaining budgets of one shared bucket (lost update / per-transport state)", "input": inp})
            else:
                n_ok += 1
                if len(adm) < want or low:
                    bd["stamp_disorder_bursts"] = bd.get("stamp_disorder_bursts", 0) + 1
                    ctx.f10_hits = getattr(ctx, "f10_hits", 0) + 1
                    if len(adm) < want:
                        bd["stamp_disorder_shortfalls"] = bd.get("stamp_disorder_shortfalls", 0) + 1
                        if len(ctx.notes) < 3:
                            ctx.notes.append("stamp-disorder shortfall observed on the wire: " + json.dumps(inp)[:600])
        n_eval += bd["requests"]
        stats["burst"] = bd
        # pipelining RESP client (one connection, the byte stream cut inside a later command or longer than one read), then other protocols
        out = C.run_harness(ctx, bins["wire"], ["--server", server, "--mode", "pipeline", "--cases", 25 if quick else 400, "--seed", ctx.seed], timeout=2400)
        prow = [r for r in _lines(out) if r.get("mode") == "pipeline"]
        pl = {"pipelines": len(prow), "commands": 0, "cut_inside_a_command": 0, "longer_than_1024_bytes": 0}
        for r in prow:
            pl["commands"] += r["n"] + len(r["then"])
            pl["cut_inside_a_command"] += r["cut"] > 0
            pl["longer_than_1024_bytes"] += r["bytes"] > 1024
            allw = r["resp_replies"] + r["then"]
            inp = {"max_burst": r["b"], "history": "ONE RESP connection: %d unit THROTTLE commands on a fresh key (1 token per 3600 s) written as %s; all replies read; then %d unit requests over protocols %s (0=http,1=grpc), one after the other"
                   % (r["n"], ("two segments, the first ending %d bytes into the %d-byte stream (inside a command)" % (r["cut"], r["bytes"])) if r["cut"] else "one write of %d bytes" % r["bytes"], len(r["then"]), r["then_protos"]),
                   "resp_replies": r["resp_replies"], "extra_resp_replies": r["extra_replies"], "then": r["then"]}
            want = [{"a": i < r["b"], "lim": r["b"], "rem": max(r["b"] - 1 - i, 0)} for i in range(len(allw))]
            if len(r["resp_replies"]) != r["n"] or r["extra_replies"]:
                ctx.violations.append({"what": "C09: a pipeline of %d commands on one RESP connection was answered with %d replies (every request is applied to the one limiter exactly once)"
                                               % (r["n"], len(r["resp_replies"]) + r["extra_replies"]), "input": inp})
            elif any(any(g.get(k) != v for k, v in w.items()) for g, w in zip(allw, want)):
                ctx.violations.append({"what": "C09: the answers to a pipelined RESP client followed by other protocols are not those of ONE limiter applying every request exactly once, in order "
                                               "(request i is allowed iff i < max_burst and reports remaining max_burst-1-i)", "input": inp})
            else:
                n_ok += 1
        n_eval += pl["commands"]
        stats["pipeline"] = pl
    # ---------------------------------------------------------------- hostile prefix then probes (C11)
    if prop == "C11":
        ncases = 40 if quick else 600
        out = C.run_harness(ctx, bins["wire"], ["--server", server, "--mode", "poison", "--cases", ncases, "--seed", ctx.seed], timeout=2400)
        rows = _lines(out)
        pd = {"prefixes": 0, "hostile_requests": 0, "probes": 0}
        for r in rows:
            if r.get("mode") == "server_end" and not r["alive"]:
                ctx.violations.append({"what": "C11: the server process died", "input": {"seed": ctx.seed}})
            if r.get("mode") != "poison":
                continue
            pd["prefixes"] += 1
            pd["hostile_requests"] += len(r["prefix"])
            inp = {"hostile_prefix": r["prefix"], "probes": r["probes"], "health": r["health"]}
            bad = None
            if r.get("unresponsive"):
                bad = "after this hostile prefix the server stopped answering: requests on every protocol time out (the limiter task is stuck or gone)"
            elif not r["health"]:
                bad = "GET /health is no longer answered with 200 OK"
            for p in r["probes"]:
                pd["probes"] += 2
                b = p["b"]
                f, s2 = p["first"], p["second_other_proto"]
                want1 = {"a": True, "lim": b, "rem": b - 1, "retry": 0}
                want2 = {"a": True, "lim": b, "rem": b - 2, "retry": 0}
                if any(f.get(k) != v for k, v in want1.items()) or any(s2.get(k) != v for k, v in want2.items()):
                    bad = "after the hostile prefix a valid request on a fresh key (max_burst %d, 1 per 1000 s) is not answered with its correct decision on two fresh connections of protocol %d" % (b, p["proto"])
                if "dry_first" in p:
                    pd["probes"] += 2
                    wd1 = {"a": True, "lim": 1, "rem": 0, "retry": 0}
                    wd2 = {"a": False, "lim": 1, "rem": 0}
                    if any(p["dry_first"].get(k) != v for k, v in wd1.items()) or any(p["dry_second"].get(k) != v for k, v in wd2.items()):
                        bad = "after the hostile prefix a key with max_burst 1 is not answered allowed-then-denied on two fresh connections of protocol %d (the denial path no longer answers)" % p["proto"]
            sl = r.get("slow_client")
            if sl:
                pd["slow_client_commands"] = pd.get("slow_client_commands", 0) + len(sl["answers"])
                want = [{"a": True, "lim": sl["b"], "rem": sl["b"] - 1 - i, "retry": 0} for i in range(8)]
                got = sl["answers"]
                if len(got) != 8 or any(any(g.get(k) != v for k, v in w.items()) for g, w in zip(got, want)):
                    bad = ("a client that sends 8 valid THROTTLE commands one byte per write on ONE connection is not answered correctly on that connection "
                           "(after fragmented traffic the connection no longer serves well-formed requests): answers %s" % json.dumps(got)[:600])
                    inp["slow_client"] = sl
            if bad:
                ctx.violations.append({"what": "C11: " + bad, "input": inp})
            else:
                n_ok += 1
        n_eval += pd["hostile_requests"] + pd["probes"]
        stats["poison"] = pd
    cov["evaluations"] = cov.get("evaluations", 0) + n_eval
    cov["traces_validated_against_impl"] = cov.get("traces_validated_against_impl", 0) + n_ok
    cov["rule"] = cov.get("rule", "") + (" || real sockets: one server process (binary rebuilt from the working tree; periodic, adaptive, probabilistic store in turn; queue capacity 1, 2 or 100000) "
        "with HTTP+gRPC+RESP; sessions of 3..12 requests on fresh keys, each routed to a PRNG protocol and encoding variant (JSON field order / null or omitted quantity / unknown fields; RESP bulk vs "
        "integer arguments, command-name case; gRPC int32 extremes) with 1 in 4 malformed or rejected; bursts of 1..16 simultaneous unit requests over mixed protocols; hostile prefixes (C08 lattice "
        "corners, int32 extremes, garbage, oversize, deep nesting, abrupt close) followed by probes on fresh connections of every protocol")
    ctx.assumptions += ["wire timing: emission intervals are whole seconds and sessions shorter than 300 ms, so whole-second answers do not depend on the sub-second spacing; longer sessions compare allowed/limit/remaining only",
                        "hyper/axum/tonic/prost/serde are the real ones in the test and are abstracted in the model (JSON object, int32 message); the gRPC client uses hand-written messages with the published field numbers"]
