"""C06 - stores are interchangeable (= abstract map with per-entry expiry).
Theorems: Properties/C06.v.  T2: harness bin `store` drives the three real stores; every step's
return value, physical entry count and scheduling snapshot (hook H1) is compared with the model
inside Coq; the harness's own never-cleaned expiring map is the property oracle."""
import json
from .. import common as C
from .. import storeconv as SC

COQ_TARGETS = ["Corr/StoreCorr.vo"]
HEADER = "Require Import TC.Store.Stores TC.Corr.StoreCorr."


def run(ctx):
    bins = C.harness_build(ctx, "lib", ["store"])
    if not bins:
        return
    nseq, maxops = (900, 80) if ctx.tier == "quick" else (24000, 300)
    out = C.run_harness(ctx, bins["store"], ["--seed", ctx.seed, "--seqs", nseq, "--maxops", maxops])
    lines = [json.loads(l) for l in out.splitlines() if l.startswith("{")]
    cases = [c for c in lines if c.get("mode") != "panic"]
    for c in [c for c in lines if c.get("mode") == "panic"][:3]:
        ctx.violations.append({"what": "C06: a store operation panicked or failed where the abstract expiring map answers (last operation of the list): " + c["msg"][:300],
                               "input": {"cfg": c["cfg"], "ops": c["ops"]}})
    terms = [SC.case_term(c) for c in cases]
    dist = {"per": 0, "ada": 0, "pro": 0, "steps": 0, "get": 0, "set": 0, "cas": 0, "cleanups_observed": 0,
            "sequences_with_cleanup": 0, "write_success": 0, "write_fail": 0, "get_hit": 0, "get_miss": 0}
    distinct = set()
    for c in cases:
        dist[c["cfg"]["kind"]] += 1
        dist["cleanups_observed"] += c["cleanups"]
        if c["cleanups"]:
            dist["sequences_with_cleanup"] += 1
        for s in c["steps"]:
            dist["steps"] += 1
            dist[s["op"][0]] += 1
            if s["op"][0] == "get":
                dist["get_hit" if s["res"] is not None else "get_miss"] += 1
            else:
                dist["write_success" if s["res"] else "write_fail"] += 1
        if len(c["steps"]) >= 2:
            distinct.add(json.dumps([c["cfg"], [s["op"] for s in c["steps"]]]))
        if c["oracle"].startswith("bad"):
            ctx.violations.append({"what": "C06 oracle (abstract expiring map) on the implementation's own outputs: " + c["oracle"],
                                   "input": {"cfg": c["cfg"], "ops": [s["op"] for s in c["steps"]]}})
    mism, ok = C.coq_mismatches(ctx, "store", HEADER, "store_case_ok", terms, shard=40)
    for i in mism[:10]:
        diag = C.coq_eval(ctx, "store_mm", HEADER, ["store_case_diag (%s)" % terms[i]])
        c = cases[i]
        if not c["oracle"].startswith("bad"):
            ctx.broken.append("correspondence Store model vs %s store disagrees (abstract-map oracle holds on this sequence): cfg=%s first bad step/model view=%s ops=%s"
                              % (c["cfg"]["kind"], json.dumps(c["cfg"]), diag, json.dumps([s["op"] for s in c["steps"]])[:1500]))
    ctx.coverage.update({
        "evaluations": len(cases),
        "distinct_nontrivial": len(distinct),
        "rule": "PRNG operation sequences (get / set-if-absent / CAS; keys from pools of 1..200 incl. empty, 64 KiB, non-ASCII, one-byte-apart; "
                "values incl. i64::MIN/MAX; TTL 0, 1ns .. u64::MAX ns) on each store with degenerate and normal builder settings; times non-decreasing, "
                "chosen relative to pending expiries (-1/0/+1 ns) and to the store's next cleanup instant read through hook H1 (-1/0/+1 ns); "
                "non-trivial = at least 2 steps; distinct = by (config, operation list)",
        "samples": [{"cfg": c["cfg"], "ops": [s["op"] for s in c["steps"]][:6], "results": [s["res"] for s in c["steps"]][:6]} for c in cases[:3]],
        "input_distribution": dist,
        "traces_validated_against_impl": len(cases) - len(mism),
        "model_impl_disagreements": len(mism),
    })
    ctx.assumptions += [
        "HashMap (std/ahash/hashbrown) is a correct finite map; rehash/growth exercised by T2 only",
        "AdaptiveStore's memory-pressure trigger (HashMap::capacity) is an oracle bit, observed via the cleanup counter hook",
        "TTL domain < 2^64 ns, times <= year 2100 (SystemTime + Duration cannot overflow there)",
    ]
