"""Shared driver for C09 / C10 / C11: the real actor loop + real handle futures under an explicit
scheduler (harness/srv/src/bin/actor.rs, hook H2); implementation-side oracles (termination, one answer per
request, linearizability against a real sequential limiter) and model correspondence: the linearization
order found is replayed on the Coq model (Corr/ActorCorr.v) and must give the same whole-second answers."""
import json
from .. import common as C
from .. import limconv as LC

HEADER = "Require Import TC.Store.Stores TC.Limiter.KeyStep TC.Limiter.Limiter TC.Corr.StoreCorr TC.Corr.LimCorr TC.Corr.ActorCorr."

# which failure text belongs to which property
CLASS = [("deadlock", "C10"), ("no answer", "C10"), ("not linearizable", "C09"), ("panicked", "C11")]


def out_term(o):
    if o is None:
        return "None"
    if "err" in o:
        if o["err"] == "dead":
            return "Some Panic"      # never equal to a model answer: the actor model has no such reply while alive
        return "Some " + LC.out_term(o)
    return "Some (%s)" % LC.out_term(o)


def run_actor(ctx, prop):
    bins = C.harness_build(ctx, "srv", ["actor"])
    if not bins:
        return
    if ctx.tier == "quick":
        runs = [["--mode", "dfs", "--clients", 2, "--per", 2, "--depth", 7, "--emit-every", 400],
                ["--mode", "dfs", "--clients", 2, "--per", 2, "--depth", 5, "--cancel", 1, "--emit-every", 400],
                ["--mode", "dfs", "--clients", 3, "--per", 1, "--depth", 6, "--emit-every", 400],
                ["--mode", "sample", "--cases", 400],
                ["--mode", "stall", "--stall-ms", 1300]]
    else:
        runs = [["--mode", "dfs", "--clients", 2, "--per", 2, "--depth", 10, "--emit-every", 20000],
                ["--mode", "dfs", "--clients", 2, "--per", 3, "--depth", 9, "--emit-every", 5000],
                ["--mode", "dfs", "--clients", 2, "--per", 2, "--depth", 7, "--cancel", 1, "--emit-every", 5000],
                ["--mode", "dfs", "--clients", 3, "--per", 2, "--depth", 8, "--emit-every", 5000],
                ["--mode", "dfs", "--clients", 3, "--per", 1, "--depth", 6, "--cancel", 1, "--emit-every", 5000],
                ["--mode", "sample", "--cases", 6000, "--maxclients", 7],
                ["--mode", "stall", "--stall-ms", 1300], ["--mode", "stall", "--stall-ms", 5500]]
    if prop == "C11":
        # overflow-checked (debug) build of the same harness: arithmetic that only wraps in release unwinds the actor task here
        dbg = C.harness_build(ctx, "srv", ["actor"], profile="debug")
        if dbg:
            out = C.run_harness(ctx, dbg["actor"], ["--mode", "sample", "--cases", 500 if ctx.tier == "quick" else 6000, "--seed", ctx.seed + 900, "--hostile", 1], timeout=3000)
            nd = 0
            for l in out.splitlines():
                if not l.startswith("{") or '"summary"' in l:
                    continue
                d = json.loads(l)
                if d.get("mode") == "hang":
                    ctx.violations.append({"what": "C11: the actor did not finish a schedule within %d ms (livelock inside the limiter task)" % d["limit_ms"], "input": d["call"]})
                    ctx.broken[:] = [b for b in ctx.broken if "exited with 3" not in b]
                    continue
                nd += 1
                answers = [a for p in d["answers"] for a in p if a]
                if (not d["ok"] and "panicked" in d["what"]) or any(a.get("err") == "dead" for a in answers):
                    how = "unwound (panic)" if "panicked" in d.get("what", "") else "ended: requests are answered with the shut-down / dropped-response error"
                    ctx.violations.append({"what": "C11 (overflow-checked build): the actor loop %s while clients were still being served; every later request on every transport is refused" % how,
                                           "input": {"store": d["store"], "queue_capacity": d["cap"], "client_programs[key,max_burst,count,period,quantity,now_ns]": d["progs"],
                                                     "schedule": d["schedule"], "answers": d["answers"]}})
            ctx.coverage["debug_profile_schedules"] = nd
    schedules = 0
    emitted = []
    dist = {"exhaustive_runs": [], "sampled": 0, "with_cancellation": 0, "hostile_requests": 0, "cap1": 0, "stores": {}}
    for i, r in enumerate(runs):
        out = C.run_harness(ctx, bins["actor"], r + ["--seed", ctx.seed + i], timeout=3000)
        for l in out.splitlines():
            if not l.startswith("{"):
                continue
            d = json.loads(l)
            if d.get("mode") == "hang":
                ctx.violations.append({"what": "%s: the actor did not finish a schedule within %d ms (a request is neither answered nor failing: livelock inside the limiter task)" % (prop, d["limit_ms"]),
                                       "input": d["call"]})
                ctx.broken[:] = [b for b in ctx.broken if "exited with 3" not in b]
                continue
            if d.get("summary"):
                schedules += d["schedules"]
                if r[1] == "dfs":
                    dist["exhaustive_runs"].append({"args": " ".join(str(x) for x in r[2:]), "schedules": d["schedules"]})
                else:
                    dist["sampled"] += d["schedules"]
                continue
            emitted.append(d)
    terms = []
    idx = []
    for n, d in enumerate(emitted):
        dist["with_cancellation"] += any(any(c) for c in d["cancelled"])
        dist["cap1"] += d["cap"] == 1
        dist["stores"][d["store"]] = dist["stores"].get(d["store"], 0) + 1
        hostile = any(rq[1] > 3 or rq[1] <= 0 or rq[3] != 1 or rq[4] < 0 or rq[4] > 2 for p in d["progs"] for rq in p)
        dist["hostile_requests"] += hostile
        answers = [a for p in d["answers"] for a in p if a]
        dead = any(a.get("err") == "dead" for a in answers)
        inp = {"store": d["store"], "queue_capacity": d["cap"], "client_programs[key,max_burst,count,period,quantity,now_ns]": d["progs"],
               "schedule(i<k: poll client i; k: poll actor; k+1+i: client i abandons its pending request)": d["schedule"],
               "answers": d["answers"], "abandoned": d["cancelled"]}
        if not d["ok"]:
            owner = next((p for k, p in CLASS if k in d["what"]), "C09")
            # a schedule that is only non-linearizable because of what happened to an ABANDONED request is C10's, not C09's
            abandon_only = owner == "C09" and d.get("ok_without_cancel") is True
            if (owner == prop and not (prop == "C09" and abandon_only)) or (prop == "C11" and hostile and owner == "C09" and not abandon_only) or (prop == "C10" and abandon_only):
                ctx.violations.append({"what": "%s: %s" % (prop, d["what"]), "input": inp})
            continue
        if dead and prop == "C11":
            ctx.violations.append({"what": "C11: a request was answered with a shut-down / dropped-response error: the actor stopped serving", "input": inp})
            continue
        order = [(d["progs"][i][j], d["answers"][i][j]) for i, j in d["order"]]
        times = [rq[5] for rq, _ in order]
        monotone = all(a <= b for a, b in zip(times, times[1:]))
        dist["orders_with_time_regression"] = dist.get("orders_with_time_regression", 0) + (not monotone)
        if not monotone and d["clean"]:
            # timestamps regress along the processing order AND the store reclaims aggressively: the store may forget an entry
            # relative to a later timestamp (stale-forget, the C17 known finding), which the abstract expiring map of the model
            # does not do; such schedules are covered by the implementation-side oracles above only
            dist["not_replayed_on_model"] = dist.get("not_replayed_on_model", 0) + 1
            continue
        terms.append(C.coq_list(["(%s, %s)" % (LC.req_term(rq), out_term(a)) for rq, a in order]))
        idx.append(n)
    mism, _ = C.coq_mismatches(ctx, "actor_" + prop, HEADER, "actor_case_ok", terms, shard=60)
    for j in mism[:5]:
        d = emitted[idx[j]]
        ctx.broken.append("correspondence actor vs model: the linearization order found on the real actor, replayed on the model limiter (al_run + Flocq rate, whole seconds), "
                          "gives different answers: programs %s order %s answers %s" % (json.dumps(d["progs"]), d["order"], json.dumps(d["answers"])[:500]))
    ctx.coverage.update({
        "evaluations": schedules,
        "distinct_nontrivial": len(emitted),
        "rule": "real actor loop (unspawned future, hook H2) and real RateLimiterHandle::throttle futures polled with a no-op waker in EVERY order of length D over {poll client i, poll actor"
                "[, client i abandons]} followed by a fair drain, for 2-3 clients x 1-3 requests, queue capacity 1 and 2, all three stores (exhaustive runs listed); plus PRNG schedules with up to 7 clients, "
                "capacity 1/2/8, abandon actions and hostile requests (C08 lattice corners). Per schedule on the implementation: terminates, one answer per non-abandoned request, some "
                "interleaving respecting program order and real-time precedence replayed on one real sequential limiter gives the observed answers. evaluations = schedules executed; "
                "distinct_nontrivial = schedules whose linearization order was replayed on the Coq model",
        "samples": [{"store": d["store"], "cap": d["cap"], "schedule": d["schedule"], "order": d["order"], "answers": d["answers"]} for d in emitted[:2]],
        "input_distribution": dist,
        "traces_validated_against_impl": len(terms) - len(mism),
        "model_impl_disagreements": len(mism),
    })
    ctx.assumptions += ["tokio mpsc (bounded, FIFO, send waits for capacity) and oneshot channels behave as documented: they are REAL in the harness, MODELLED in Server/Actor.v",
                        "the scheduler uses a no-op waker and polls explicitly: wake-up correctness of tokio (a ready task is eventually polled) is assumed (fairness premise of the progress theorems)"]
