"""C14 - RESP encode/decode are inverse and every reply is exactly one frame.
Theorems: Properties/C14.v.  T2: real RespSerializer/RespParser on generated values (model
serialize and parse compared byte for byte), and real TCP connections: the reply stream of every
pipeline must re-parse into exactly one frame per command (Conn.v + Cmd.v model)."""
import json
from .. import common as C
from .. import respconv as RC
from . import conncheck

COQ_TARGETS = ["Corr/RespCorr.vo", "Corr/ConnCorr.vo"]


def _max_depth():
    """MAX_ARRAY_DEPTH as regenerated from resp.rs (T1)"""
    import re, os
    try:
        txt = open(os.path.join(C.COQ, "Generated", "Consts.v")).read()
        return int(re.search(r"MAX_ARRAY_DEPTH : Z := (\d+)", txt).group(1))
    except Exception:
        return 128


def run(ctx):
    bins = C.harness_build(ctx, "srv", ["resp"])
    if not bins:
        return
    nframes = 400 if ctx.tier == "quick" else 12000
    out = C.run_harness(ctx, bins["resp"], ["--mode", "frames", "--seed", ctx.seed + 77, "--cases", nframes, "--max-depth", _max_depth()])
    frames = [json.loads(l) for l in out.splitlines() if l.startswith("{")]
    pterms, sterms = [], []
    kinds = {}
    deep = 0
    for fr in frames:
        pterms.append("(%s, %s)" % (C.coq_bytes(fr["buf"]), RC.out_term(fr["out"])))
        sterms.append("(%s, %s)" % (RC.value_term(fr["value"]), C.coq_bytes(fr["enc"])))
        kinds[fr["value"]["t"]] = kinds.get(fr["value"]["t"], 0) + 1
        deep += fr["oracle"] == "deep"
        if fr["oracle"].startswith("bad"):
            ctx.violations.append({"what": "C14 oracle on the implementation: " + fr["oracle"], "input": {"value": fr["value"], "bytes": fr["buf"][:300]}})
    m1, _ = C.coq_mismatches(ctx, "c14_parse", RC.HEADER, "resp_case_ok", pterms, shard=40, scope="N_scope")
    m2, _ = C.coq_mismatches(ctx, "c14_ser", RC.HEADER, "ser_case_ok", sterms, shard=40, scope="N_scope")
    for i in m1[:5]:
        ctx.broken.append("correspondence RespParser vs Parse.v disagrees on the encoding of %s (impl: %s)" % (json.dumps(frames[i]["value"])[:300], json.dumps(frames[i]["out"])[:200]))
    for i in m2[:5]:
        ctx.broken.append("correspondence RespSerializer vs Parse.serialize disagrees on value %s" % json.dumps(frames[i]["value"])[:300])
    ctx.coverage.update({
        "evaluations": 2 * len(frames),
        "distinct_nontrivial": len(frames),
        "rule": "PRNG protocol values: all five kinds, empty/null/long strings, CR and LF inside bulk strings (and, for 1 in 6 values, inside simple strings/errors: "
                "not round-trippable, compared with the model only), non-ASCII, i64 extremes, nesting up to 4 plus wrappers of 120..200 array levels around the depth limit; "
                "the real encoding must equal the model's byte for byte; decode(encode v ++ trailing bytes) must give (v, |encode v|); every strict prefix must need more data",
        "samples": [{"value": frames[0]["value"], "encoding": frames[0]["enc"][:60]}] if frames else [],
        "input_distribution": {"values": len(frames), "kinds": kinds, "beyond_depth_limit": deep},
        "traces_validated_against_impl": 2 * len(frames) - len(m1) - len(m2),
        "model_impl_disagreements": len(m1) + len(m2),
    })
    conncheck.run_conn(ctx, {"C14"})
    conncheck.run_latereader(ctx)
    ctx.assumptions += ["str::to_uppercase is an oracle of the command-handler model (its output is a Rust String, hence valid UTF-8)",
                        "usize::to_string / i64::to_string = Decimal.print_Z (compared byte for byte on every generated value)"]
