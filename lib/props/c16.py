"""C16 - denied-key tracking is bounded, never overstates, exports safely.  Theorems: Properties/C16.v.
T2: adversarial denial streams on the real Metrics with the table snapshot (hook H3) after every update:
every real step must be a step of the model relation (trace acceptance, evaluated in Coq for small
table limits), Rust-side oracles for all limits, label escaping compared with the model."""
import json
from .. import common as C

COQ_TARGETS = ["Corr/DeniedCorr.vo"]
HEADER = "Require Import TC.Resp.Utf8 TC.Server.Denied TC.Server.Escape TC.Corr.DeniedCorr."


def tbl_term(t):
    return C.coq_list(["(%s, %s)" % (C.coq_bytes(k), C.z(c)) for k, c in t])


def run(ctx):
    bins = C.harness_build(ctx, "srv", ["metrics"])
    if not bins:
        return
    streams, maxlen, nesc = (60, 300, 600) if ctx.tier == "quick" else (600, 4000, 20000)
    out = C.run_harness(ctx, bins["metrics"], ["--mode", "denied", "--seed", ctx.seed, "--streams", streams, "--maxlen", maxlen])
    cases = [json.loads(l) for l in out.splitlines() if l.startswith("{")]
    terms = []
    idx = []
    dist = {"streams": len(cases), "denials": 0, "limits": {}, "steps_checked_in_coq": 0}
    for i, c in enumerate(cases):
        dist["denials"] += c["len"]
        dist["limits"][str(c["requested"])] = dist["limits"].get(str(c["requested"]), 0) + 1
        if c["oracle"] != "ok":
            ctx.violations.append({"what": "C16 oracle on the implementation: " + c["oracle"], "input": {"requested_max": c["requested"], "style": c["style"], "length": c["len"], "seed": ctx.seed, "stream": c["stream"]}})
        if c["steps"]:
            steps = c["steps"][:150]
            dist["steps_checked_in_coq"] += len(steps)
            obs = ["{| d_key := %s; d_prev := %s; d_next := %s; d_top := %s |}" % (C.coq_bytes(s["key"]), tbl_term(s["prev"]), tbl_term(s["next"]), tbl_term(s["top"])) for s in steps]
            terms.append("(%d%%nat, %s)" % (c["max"], C.coq_list(obs)))
            idx.append(i)
    mism, _ = C.coq_mismatches(ctx, "denied", HEADER, "denied_case_ok", terms, shard=4)
    for j in mism[:5]:
        c = cases[idx[j]]
        ctx.broken.append("trace acceptance: a step of the real denied-key table (max=%d) is not a step of Denied.v: stream %d style %d first steps %s"
                          % (c["max"], c["stream"], c["style"], json.dumps(c["steps"][:3])[:600]))
    # concurrent recorders + a scraper on one Metrics: at every join the report must still be exact / never overstate
    conc = {"rounds": 0, "events": 0, "scrapes": 0}
    for table, threads, rounds, events in ([(100, 8, 3, 4000), (3, 8, 2, 4000), (100, 32, 2, 1000)] if ctx.tier == "quick" else [(100, 8, 10, 20000), (3, 8, 6, 20000), (100, 32, 6, 5000), (10000, 16, 6, 10000), (0, 8, 2, 5000)]):
        o = C.run_harness(ctx, bins["metrics"], ["--mode", "threads", "--seed", ctx.seed + threads, "--table", table, "--rounds", rounds, "--threads", threads, "--events", events])
        for l in o.splitlines():
            if not l.startswith("{"):
                continue
            d = json.loads(l)
            conc["rounds"] += 1
            conc["events"] += d["events"]
            conc["scrapes"] += d.get("scrapes", 0)
            if d.get("top_oracle", "ok") != "ok":
                ctx.violations.append({"what": "C16 under concurrent recorders: " + d["top_oracle"],
                                       "input": {"harness": "metrics --mode threads", "table": table, "threads": threads, "events_per_thread": events, "round": d["round"], "seed": ctx.seed + threads,
                                                 "history": "every thread records a PRNG list of allowed/denied/error events over 10 short keys while one thread reads export_prometheus(); all recorders joined before the report is read"}})
                break
    out = C.run_harness(ctx, bins["metrics"], ["--mode", "escape", "--seed", ctx.seed, "--cases", nesc])
    esc = [json.loads(l) for l in out.splitlines() if l.startswith("{")]
    eterms = []
    for e in esc:
        if e["oracle"] != "ok":
            ctx.violations.append({"what": "C16 export oracle: " + e["oracle"], "input": {"key_code_points": e["key"]}})
        eterms.append("(%s, %s)" % (C.coq_bytes(e["key"]), C.coq_bytes(e["escaped"])))
    m2, _ = C.coq_mismatches(ctx, "escape", HEADER, "escape_case_ok", eterms, shard=100, scope="N_scope")
    for j in m2[:5]:
        ctx.broken.append("correspondence escape_prometheus_label vs Escape.v disagrees on key (code points) %s: real %s" % (esc[j]["key"], esc[j]["escaped"]))
    ctx.coverage.update({
        "evaluations": dist["denials"] + len(esc),
        "distinct_nontrivial": len(cases) + len(esc),
        "rule": "denial streams (few keys incl. empty / 256-byte / 257-byte / multi-byte-at-the-limit / quote / line-break keys; unbounded distinct keys; a heavy hitter arriving late; "
                "ties around the eviction threshold) against trackers built with requested sizes 0,1,2,3,10,100,10000,10^6; table snapshot after every update; for sizes <= 3 every step is "
                "checked in Coq against the model relation (eviction survivor choice and tie order are the implementation's); label escaping on keys of 0..11 PRNG code points biased to controls, "
                "quotes, backslashes, C1 controls, line/paragraph separators, astral plane; "
                "8-32 OS threads recording denials over 10 short keys while another thread scrapes: after every join the report is compared with the denials recorded (exact for tables >= 10, never above for table 3)",
        "samples": [{"requested": cases[0]["requested"], "first_steps": cases[0]["steps"][:2]}] + [{"key": esc[0]["key"], "escaped": esc[0]["escaped"]}] if cases and esc else [],
        "input_distribution": dict(dist, concurrent=conc),
        "traces_validated_against_impl": len(terms) - len(mism) + len(esc) - len(m2),
        "model_impl_disagreements": len(mism) + len(m2),
    })
    ctx.assumptions += ["HashMap drain/iteration order is unspecified: modelled as a relation; Vec::sort_by is a correct (stable) sort",
                        "char::is_control = general category Cc (U+0000-001F, U+007F-009F); UTF-8 encodes code points >= 128 with bytes >= 128 only"]
