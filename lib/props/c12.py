"""C12 - transport fidelity.  Theorems: Properties/C12.v over Server/Transport.v, which interprets the
field-mapping tables re-extracted from the transport sources on every run (T1), and Server/Serve.v.
T2: one real server process, requests routed to a PRNG protocol and encoding variant, answers compared
field by field with Serve.v run on the same requests (Corr/WireCorr.v)."""
from .. import common as C
from . import wirecheck

COQ_TARGETS = ["Corr/WireCorr.vo", "Properties/C12.vo"]


def run(ctx):
    wirecheck.run_wire(ctx, "C12")
    if not ctx.coverage.get("distinct_nontrivial"):
        ctx.coverage["distinct_nontrivial"] = ctx.coverage.get("wire", {}).get("fidelity", {}).get("sessions", 0)
    known, _fixed = C.load_known_findings()
    listed = [k for k in known if "property=C12" in k and "class=grpc-int32-range" in k]
    hits = getattr(ctx, "known_hits", 0)
    if hits and listed:
        ctx.known.append(("F8", "grpc-int32-range: a reset_after/retry_after above 2147483647 s reaches a gRPC client as 2147483647 (int32 fields of the published proto); HTTP and RESP carry the "
                                "library's value (witness findings/F8-grpc-int32-range.json reproduced=%s; %d occurrences in this run, all equal to the saturating model)"
                          % (getattr(ctx, "known_witness_reproduced", False), hits)))
    elif hits:
        ctx.violations.append({"what": "C12: gRPC durations beyond int32 observed but the class is not listed in KNOWN_FINDINGS.txt", "input": "see findings/F8-grpc-int32-range.json"})
    ctx.coverage["known_finding_occurrences"] = hits
