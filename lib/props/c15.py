"""C15 - metrics add up and match what clients were told.  Theorems: Properties/C15.v
(interleaving LTS of atomic increments; RESP denied <-> denial sent).
T2: OS threads recording PRNG event lists on the real Metrics, identities/export checked at every
join (quiescent point); real TCP connections: the counters must move exactly by the metrics events
the Cmd.v model assigns to the replies actually sent."""
import json
from .. import common as C
from . import conncheck, wirecheck

COQ_TARGETS = ["Corr/ConnCorr.vo"]


def run(ctx):
    bins = C.harness_build(ctx, "srv", ["metrics"])
    if not bins:
        return
    # the last shape: thousands of short rounds - a lost update is visible only if it is the LAST write before a join
    runs = [(20, 8, 10000), (6, 2, 5000), (4, 32, 3000), (5000, 4, 64)] if ctx.tier == "quick" else [(60, 64, 200000), (40, 8, 100000), (20, 2, 100000), (100000, 4, 64)]
    total_events = 0
    points = 0
    samples = []
    # smallest histories first: every single event kind x transport x key class x table size on a fresh Metrics
    out = C.run_harness(ctx, bins["metrics"], ["--mode", "events"])
    for l in out.splitlines():
        if l.startswith("{"):
            d = json.loads(l)
            points += 1
            total_events += 2
            if d["oracle"] != "ok":
                ctx.violations.append({"what": "C15: " + d["oracle"][4:], "input": {"transport(1=http,2=grpc,3=redis)": d["transport"], "event(0=allowed,1=denied,2=error)": d["kind"], "key_bytes": d["key_bytes"], "denied_key_table_size": d["table"]}})
    for rounds, threads, events in runs:
        out = C.run_harness(ctx, bins["metrics"], ["--mode", "threads", "--seed", ctx.seed + threads, "--rounds", rounds, "--threads", threads, "--events", events])
        for l in out.splitlines():
            if not l.startswith("{"):
                continue
            d = json.loads(l)
            points += 1
            total_events += d["events"]
            if len(samples) < 2:
                samples.append({"threads": d["threads"], "events_in_round": d["events"], "counters_at_join": d["counters"]})
            if d["oracle"] != "ok":
                ctx.violations.append({"what": "C15 oracle at a quiescent point: " + d["oracle"], "input": {"threads": d["threads"], "round": d["round"], "seed": ctx.seed + threads}})
    # thousands of very short rounds with a scraper racing the last recordings of each round
    out = C.run_harness(ctx, bins["metrics"], ["--mode", "scraperace", "--seed", ctx.seed, "--rounds", 6000 if ctx.tier == "quick" else 150000])
    for l in out.splitlines():
        if l.startswith("{"):
            d = json.loads(l)
            points += d["rounds"]
            total_events += d["events"]
            if d["oracle"] != "ok":
                ctx.violations.append({"what": "C15: " + d["oracle"][4:], "input": {"harness": "metrics --mode scraperace", "seed": ctx.seed, "rounds": d["rounds"],
                                       "history": "3 recorder threads record 1..3 events each per round while one thread calls export_prometheus() all the time; recorders joined, then /metrics is read"}})
    ctx.coverage.update({
        "evaluations": total_events,
        "distinct_nontrivial": points,
        "rule": "2..64 OS threads each recording a PRNG list of record_request / record_request_with_key (allowed and denied, keys incl. empty, 256/257-byte, multi-byte, quote, line break; denied-key table of size 0, 3 or 100) / record_error events on one Metrics; after every round all "
                "threads are joined (quiescent point) and the seven counters are compared with the events performed, with the identities and with the numbers parsed back from "
                "export_prometheus(); evaluations = events recorded, distinct_nontrivial = quiescent points checked",
        "samples": samples,
        "input_distribution": {"quiescent_points": points, "events": total_events},
        "traces_validated_against_impl": points,
    })
    conncheck.run_conn(ctx, {"C15"})
    # all three transports of one real server process: GET /metrics at every quiescent point vs what the clients were told
    wirecheck.run_wire(ctx, "C15")
    ctx.assumptions += ["atomicity of AtomicU64::fetch_add (total modification order per counter) - the interleaving model's premise",
                        "a quiescent point needs a happens-before edge to the reader (thread join / completed request), as the property itself does"]
