"""C08 - rate_limit is total.  Theorems: Properties/C08.v.
T2: boundary lattice over i64^4 (+ PRNG points), fresh and pre-populated keys, all stores,
under catch_unwind, in the release AND the debug (overflow-checks) profile, vs the Coq model."""
from .. import common as C
from .. import limcheck

COQ_TARGETS = limcheck.COQ_TARGETS


def run(ctx):
    if ctx.tier == "quick":
        rel = [("lattice", ["--stride", 9, "--random", 1500]), ("hist", ["--cases", 60, "--maxlen", 40, "--probes", 1])]
        dbg = [("lattice", ["--stride", 23, "--random", 400])]
    else:
        rel = [("lattice", ["--stride", 1, "--random", 100000]), ("hist", ["--cases", 3000, "--maxlen", 120, "--probes", 1])]
        dbg = [("lattice", ["--stride", 1, "--random", 100000])]
    rule = ("boundary lattice {0, +-1, 2, 2^31-1..2^31+1, 2^32-1..2^32+1, 2^53-1..2^53+1, floor(2^63/1e9)-1..+1, i64::MAX-1, i64::MAX, i64::MIN}^4 for "
            "(max_burst, count, period, quantity) (19^4 points; quick tier takes a PRNG-offset stride), plus PRNG points, timestamps {epoch, 1 ns, 2023, 2100, 2200}, "
            "fresh and pre-populated keys, every store type and builder setting, each call under catch_unwind; release profile and debug profile (overflow checks); "
            "plus in-domain histories whose probes land exactly on refill / retry / expiry instants (no panic, no internal error there either)")
    a = limcheck.run_modes(ctx, "C08", rel, {"C08", "C04"}, rule, profile="release")
    cov_rel = dict(ctx.coverage)
    b = limcheck.run_modes(ctx, "C08d", dbg, {"C08", "C04"}, rule, profile="debug")
    if a is not None and b is not None:
        cov = ctx.coverage
        cov["evaluations"] = cov_rel["evaluations"] + cov["evaluations"]
        cov["distinct_nontrivial"] = cov_rel["distinct_nontrivial"] + cov["distinct_nontrivial"]
        cov["traces_validated_against_impl"] = cov_rel["traces_validated_against_impl"] + cov["traces_validated_against_impl"]
        cov["input_distribution"] = {"release": cov_rel["input_distribution"], "debug_overflow_checks": cov["input_distribution"]}
        cov["exhaustive"] = ctx.tier == "thorough"
