"""C07 - state lives as long as it matters and is then reclaimed.  Theorems: Properties/C07.v.
T2: real RateLimiter over the three stores vs the Coq model (outcome, physical entry count and
scheduling snapshot after every request); oracles: requested lifetime within [E, 2BE]; the entry
count never exceeds the number of keys whose lifetime reaches the store's guarantee window; a
sweep runs at every guaranteed cleanup point."""
from .. import limcheck

COQ_TARGETS = limcheck.COQ_TARGETS


def run(ctx):
    if ctx.tier == "quick":
        modes = [("reclaim", ["--cases", 45, "--maxlen", 700]), ("hist", ["--cases", 120, "--maxlen", 50, "--probes", 0])]
    else:
        modes = [("reclaim", ["--cases", 240, "--maxlen", 6000]), ("hist", ["--cases", 4000, "--maxlen", 200, "--probes", 0])]
    limcheck.run_modes(ctx, "C07", modes, {"C07"},
        "reclaim mode: unbounded stream of fresh keys with a bounded active set (1, 3 or 20 keys), limits in D incl. max_burst = 1 and quantity 0, every store with "
        "cleanup enabled (periodic intervals 0..60 s, adaptive min/max/max_operations combinations, probabilistic N in {1,2,3,7,64,1000}), time steps straddling lifetimes "
        "and cleanup intervals; oracle: ghost map of each key's last requested lifetime (recording Store wrapper) bounds the entry count read through hook H1, and a sweep "
        "must be observed whenever the store's state before the write (hook snapshot) says a cleanup point is due; hist mode: lifetime in [E, 2BE] on every admitted write")
