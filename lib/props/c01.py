"""C01 - rate conformance (window bound).  Theorems: Properties/C01.v.
T2: real RateLimiter on PRNG histories vs the Coq limiter model; oracle: sliding-window sums."""
from .. import limcheck

COQ_TARGETS = limcheck.COQ_TARGETS


def run(ctx):
    n, ml = (260, 60) if ctx.tier == "quick" else (6000, 300)
    limcheck.run_modes(ctx, "C01", [("hist", ["--cases", n, "--maxlen", ml, "--probes", 0])], {"C01"},
        "per-key histories (1-3 keys with fixed limits in D: B in {1,2,3,5,10,100,2^20}, E from 1 ns to 9e15 ns) on every store type and builder setting; "
        "quantities 0, 1, B-1, B, B+1, remaining, remaining+1, 2B-2..2B, i64::MAX; timestamps non-decreasing, stepping by 0, 1ns, E-1/E/E+1, T-1/T/T+1, "
        "the previous retry_after and reset_after -1/0/+1 ns, the store's next cleanup instant -1/0/+1 ns (hook H1), 2BE+1; window oracle over all admitted pairs")
