"""C11 - no poison request.  Theorems: Properties/C11.v (actor survives every request the library answers;
C08 totality discharges the premise; a closed connection is inert).
T2: hostile requests through the real actor under the scheduler (actorcheck) + hostile prefixes on every
transport of one real server process followed by probes on fresh connections (wirecheck)."""
from . import actorcheck, wirecheck

COQ_TARGETS = ["Corr/ActorCorr.vo", "Properties/C11.vo"]


def run(ctx):
    actorcheck.run_actor(ctx, "C11")
    wirecheck.run_wire(ctx, "C11")
