"""Conversion of store-harness JSON cases into Coq terms of Corr/StoreCorr.v."""
from . import common as C


def cfg_term(cfg, snap0):
    k = cfg["kind"]
    if k == "per":
        return "CPer %s %s" % (C.z(snap0[0]), C.z(cfg["interval"]))
    if k == "ada":
        return "CAda %s %s %s %s %s" % (C.z(snap0[0]), C.z(snap0[1]), C.z(cfg["min"]), C.z(cfg["max"]), C.z(cfg["maxops"]))
    return "CPro %s" % C.z(cfg["prob"])


def op_term(op):
    if op[0] == "get":
        return "Get %s %s" % (C.z(op[1]), C.z(op[2]))
    if op[0] == "set":
        return "SetNX %s %s %s %s" % tuple(C.z(x) for x in op[1:5])
    return "Cas %s %s %s %s %s" % tuple(C.z(x) for x in op[1:6])


def res_term(op, res):
    if op[0] == "get":
        return "RGet %s" % C.coq_opt(res)
    return "RBool %s" % C.coq_bool(res)


def step_term(st):
    return "{| o_orc := %s; o_op := %s; o_res := %s; o_len := %s; o_snap := %s |}" % (
        C.coq_bool(st["cleaned"]), op_term(st["op"]), res_term(st["op"], st["res"]), C.z(st["len"]),
        C.coq_list([C.z(x) for x in st["snap"]]))


def case_term(case):
    return "(%s, %s)" % (cfg_term(case["cfg"], case["snap0"]), C.coq_list([step_term(s) for s in case["steps"]]))
