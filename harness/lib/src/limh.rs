//! Limiter-level helpers: recording store wrapper, request/outcome types, JSON, ideal bucket.
use crate::stores::*;
use std::cell::RefCell;
use std::panic::{catch_unwind, AssertUnwindSafe};
use std::rc::Rc;
use std::time::{Duration, SystemTime};
use throttlecrab::{CellError, Rate, RateLimiter, Store};

pub struct Inner {
    pub store: AnyStore,
    pub last_ttl: Option<u128>,
    pub writes: u64,
    pub gets: u64,
    /// ghost: the never-cleaned expiring map (key -> (value, expiry ns))
    pub ghost: std::collections::HashMap<String, (i64, i128)>,
    /// number of store calls made when the ghost entry of a key was written, and the timestamps of all store calls in order
    pub ghost_at: std::collections::HashMap<String, usize>,
    pub nows: Vec<i128>,
    /// the last `get` returned nothing although the ghost map shows a visible value
    pub last_get_stale: bool,
    /// the last `get` returned nothing for an entry the ghost map shows live, and NO call since its write reached its expiry
    pub last_get_lost: bool,
    /// latest timestamp any store call has carried so far: a sweep can only have reclaimed entries that expired by then
    pub max_now: i128,
    pub stale_events: u64,
}

#[derive(Clone)]
pub struct Rec(pub Rc<RefCell<Inner>>);

impl Store for Rec {
    fn compare_and_swap_with_ttl(&mut self, key: &str, old: i64, new: i64, ttl: Duration, now: SystemTime) -> Result<bool, String> {
        let mut i = self.0.borrow_mut();
        i.last_ttl = Some(ttl.as_nanos());
        i.writes += 1;
        i.max_now = i.max_now.max(time_to_ns(now));
        i.nows.push(time_to_ns(now));
        let r = i.store.compare_and_swap_with_ttl(key, old, new, ttl, now);
        if let Ok(true) = r {
            let at = i.nows.len();
            i.ghost_at.insert(key.to_string(), at);
            i.ghost.insert(key.to_string(), (new, time_to_ns(now) + ttl.as_nanos() as i128));
        }
        r
    }
    fn get(&self, key: &str, now: SystemTime) -> Result<Option<i64>, String> {
        let mut i = self.0.borrow_mut();
        i.gets += 1;
        let r = i.store.get(key, now);
        // stale-forget event (the known-finding class): the table lost an entry that is live at `now` AND some WRITE made AFTER
        // the entry was written carried a timestamp at or past its expiry (a sweep triggered at that later instant reclaims it
        // legitimately).  A live entry that is gone although no later call ever reached its expiry is NOT in the class.
        let gv = i.ghost.get(key).and_then(|(v, e)| if time_to_ns(now) < *e { Some((*v, *e)) } else { None });
        let since = i.ghost_at.get(key).copied().unwrap_or(0);
        i.last_get_stale = matches!(r, Ok(None)) && matches!(gv, Some((_, e)) if i.nows[since.min(i.nows.len())..].iter().any(|t| *t >= e));
        if matches!(r, Ok(None)) && gv.is_some() && !i.last_get_stale { i.last_get_lost = true; }
        if i.last_get_stale {
            i.stale_events += 1;
        }
        // only WRITES can sweep (get takes &self): lookups are not recorded in `nows` - the ghost run of coq/Store/NoLoss.v
        // (theorem C17_stale_forget_only_after_later_stamp) bumps on writes only
        i.max_now = i.max_now.max(time_to_ns(now));
        r
    }
    fn set_if_not_exists_with_ttl(&mut self, key: &str, value: i64, ttl: Duration, now: SystemTime) -> Result<bool, String> {
        let mut i = self.0.borrow_mut();
        i.last_ttl = Some(ttl.as_nanos());
        i.writes += 1;
        i.max_now = i.max_now.max(time_to_ns(now));
        i.nows.push(time_to_ns(now));
        let r = i.store.set_if_not_exists_with_ttl(key, value, ttl, now);
        if let Ok(true) = r {
            let at = i.nows.len();
            i.ghost_at.insert(key.to_string(), at);
            i.ghost.insert(key.to_string(), (value, time_to_ns(now) + ttl.as_nanos() as i128));
        }
        r
    }
}

pub struct Lim {
    pub rl: RateLimiter<Rec>,
    pub inner: Rc<RefCell<Inner>>,
    pub dead: bool,
}

#[derive(Clone, Debug, PartialEq)]
pub struct Req {
    pub key: u64,
    pub b: i64,
    pub count: i64,
    pub period: i64,
    pub q: i64,
    pub now: i128,
}

#[derive(Clone, Debug, PartialEq)]
pub enum Out {
    Ok { allowed: bool, limit: i64, remaining: i64, reset: u128, retry: u128 },
    ErrNeg,
    ErrInvalid,
    ErrInternal(String),
    Panic(String),
}

impl Out {
    pub fn json(&self) -> String {
        match self {
            Out::Ok { allowed, limit, remaining, reset, retry } => {
                format!("{{\"a\":{allowed},\"lim\":{limit},\"rem\":{remaining},\"reset\":\"{reset}\",\"retry\":\"{retry}\"}}")
            }
            Out::ErrNeg => "{\"err\":\"neg\"}".into(),
            Out::ErrInvalid => "{\"err\":\"invalid\"}".into(),
            Out::ErrInternal(m) => format!("{{\"err\":\"internal\",\"msg\":{:?}}}", m),
            Out::Panic(m) => format!("{{\"panic\":{:?}}}", m),
        }
    }
    pub fn allowed(&self) -> Option<bool> {
        match self {
            Out::Ok { allowed, .. } => Some(*allowed),
            _ => None,
        }
    }
}

impl Req {
    pub fn json(&self) -> String {
        format!("[{},{},{},{},{},{}]", self.key, self.b, self.count, self.period, self.q, self.now)
    }
}

impl Lim {
    pub fn new(cfg: &Cfg) -> Lim {
        let inner = Rc::new(RefCell::new(Inner { store: cfg.build(), last_ttl: None, writes: 0, gets: 0, ghost: Default::default(), ghost_at: Default::default(), nows: Vec::new(), last_get_stale: false, last_get_lost: false, max_now: i128::MIN, stale_events: 0 }));
        Lim { rl: RateLimiter::new(Rec(inner.clone())), inner, dead: false }
    }
    pub fn call(&mut self, r: &Req) -> Out {
        let ks = key_string(r.key);
        let tm = ns_to_time(r.now);
        self.inner.borrow_mut().last_ttl = None;
        self.inner.borrow_mut().last_get_stale = false;
        self.inner.borrow_mut().last_get_lost = false;
        let rl = &mut self.rl;
        crate::watchdog::enter(format!("{{\"rate_limit[key_id,max_burst,count,period,quantity,now_ns]\":[{},{},{},{},{},{}],\"store\":{:?}}}", r.key, r.b, r.count, r.period, r.q, r.now, self.inner.borrow().store.kind_name()));
        let res = catch_unwind(AssertUnwindSafe(|| rl.rate_limit(&ks, r.b, r.count, r.period, r.q, tm)));
        crate::watchdog::leave();
        match res {
            Err(e) => {
                let msg = if let Some(s) = e.downcast_ref::<&str>() { s.to_string() } else if let Some(s) = e.downcast_ref::<String>() { s.clone() } else { "?".into() };
                // a panic may have left a RefCell borrowed; rebuild is the caller's business
                self.dead = true;
                Out::Panic(msg)
            }
            Ok(Ok((allowed, r))) => Out::Ok { allowed, limit: r.limit, remaining: r.remaining, reset: r.reset_after.as_nanos(), retry: r.retry_after.as_nanos() },
            Ok(Err(CellError::NegativeQuantity(_))) => Out::ErrNeg,
            Ok(Err(CellError::InvalidRateLimit)) => Out::ErrInvalid,
            Ok(Err(CellError::Internal(m))) => Out::ErrInternal(m),
        }
    }
    pub fn len(&self) -> usize {
        self.inner.borrow().store.len()
    }
    pub fn cleanups(&self) -> u64 {
        self.inner.borrow().store.cleanups()
    }
    pub fn snapshot(&self) -> Vec<i128> {
        self.inner.borrow().store.snapshot()
    }
    pub fn last_ttl(&self) -> Option<u128> {
        self.inner.borrow().last_ttl
    }
    pub fn writes(&self) -> u64 {
        self.inner.borrow().writes
    }
    pub fn last_get_lost(&self) -> bool {
        self.inner.borrow().last_get_lost
    }
    pub fn last_get_stale(&self) -> bool {
        self.inner.borrow().last_get_stale
    }
}

/// emission interval as the properties define it: period / count_per_period in whole nanoseconds
/// (exact integer quotient, independent of the library's float computation)
pub fn emission_ns(count: i64, period: i64) -> u128 {
    if count <= 0 || period <= 0 {
        return Rate::from_count_and_period(count, period).period().as_nanos();
    }
    (period as u128) * 1_000_000_000 / (count as u128)
}

/// limits forced from the command line (`--limits count:period,...`): used by the failing-input
/// search when the rate computation disagrees with the exact quotient
pub fn forced_limits() -> Vec<(i64, i64)> {
    match crate::arg_value("--limits") {
        Some(s) => s.split(',').filter_map(|p| { let mut it = p.split(':'); Some((it.next()?.parse().ok()?, it.next()?.parse().ok()?)) }).collect(),
        None => vec![],
    }
}

/// The ideal token bucket of C01/C02, in ns units (exact integer arithmetic, i128).
#[derive(Clone, Debug)]
pub struct Bucket {
    pub e: i128,
    pub b: i128,
    pub lvl: i128,
    pub last: i128,
}

impl Bucket {
    pub fn full(e: i128, b: i128, t: i128) -> Bucket {
        Bucket { e, b, lvl: e * b, last: t }
    }
    pub fn level_at(&self, now: i128) -> i128 {
        (self.lvl + (now - self.last)).min(self.e * self.b)
    }
    pub fn step(&mut self, q: i128, now: i128) -> bool {
        let l = self.level_at(now);
        self.last = now;
        if self.e * q <= l {
            self.lvl = l - self.e * q;
            true
        } else {
            self.lvl = l;
            false
        }
    }
}

/// limits in the normal domain D, spanning E from 1 ns to hours
pub fn pick_limits(rng: &mut crate::Rng) -> (i64, i64, i64) {
    // (count, period) -> E
    let rates: [(i64, i64); 12] = [
        (1_000_000_000, 1), (1000, 1), (10, 1), (1, 1), (100, 60), (7, 60), (1, 60), (3, 1), (1, 3600), (1, 9_000_000), (999_999_937, 2), (60, 60),
    ];
    let forced = forced_limits();
    loop {
        let (count, period) = if !forced.is_empty() && rng.chance(2, 3) { *rng.pick(&forced) }
            else if rng.chance(1, 6) { (rng.range(1, 5000), rng.range(1, 100)) }
            else { *rng.pick(&rates) };
        let b = *rng.pick(&[1i64, 1, 2, 2, 3, 5, 10, 100, 1 << 20]);
        let e = emission_ns(count, period) as i128;
        if e >= 1 && e * (b as i128) <= (1i128 << 60) {
            return (b, count, period);
        }
    }
}
