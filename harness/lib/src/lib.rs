//! Shared helpers for the correspondence harness: deterministic PRNG, JSON output.
pub mod stores;
pub mod limh;
use std::fmt::Write as _;

/// splitmix64: every random choice of a run derives from one seed.
#[derive(Clone)]
pub struct Rng(pub u64);

impl Rng {
    pub fn new(seed: u64) -> Self {
        Rng(seed ^ 0x9E37_79B9_7F4A_7C15)
    }
    pub fn next(&mut self) -> u64 {
        self.0 = self.0.wrapping_add(0x9E37_79B9_7F4A_7C15);
        let mut z = self.0;
        z = (z ^ (z >> 30)).wrapping_mul(0xBF58_476D_1CE4_E5B9);
        z = (z ^ (z >> 27)).wrapping_mul(0x94D0_49BB_1331_11EB);
        z ^ (z >> 31)
    }
    /// uniform in 0..n (n > 0)
    pub fn below(&mut self, n: u64) -> u64 {
        self.next() % n
    }
    pub fn range(&mut self, lo: i64, hi: i64) -> i64 {
        // inclusive
        let span = (hi as i128 - lo as i128 + 1) as u128;
        (lo as i128 + (self.next() as u128 % span) as i128) as i64
    }
    pub fn pick<'a, T>(&mut self, xs: &'a [T]) -> &'a T {
        &xs[self.below(xs.len() as u64) as usize]
    }
    pub fn chance(&mut self, num: u64, den: u64) -> bool {
        self.below(den) < num
    }
    pub fn fork(&mut self) -> Rng {
        Rng(self.next())
    }
}

pub fn json_str(s: &[u8]) -> String {
    // keys are arbitrary bytes on our side: emit as array of ints when not plain ASCII
    let mut o = String::new();
    o.push('[');
    for (i, b) in s.iter().enumerate() {
        if i > 0 {
            o.push(',');
        }
        let _ = write!(o, "{}", b);
    }
    o.push(']');
    o
}

pub fn env_u64(name: &str, default: u64) -> u64 {
    std::env::var(name).ok().and_then(|v| v.parse().ok()).unwrap_or(default)
}

pub fn arg_value(name: &str) -> Option<String> {
    let args: Vec<String> = std::env::args().collect();
    for i in 0..args.len() {
        if args[i] == name && i + 1 < args.len() {
            return Some(args[i + 1].clone());
        }
        if let Some(v) = args[i].strip_prefix(&format!("{name}=")) {
            return Some(v.to_string());
        }
    }
    None
}

pub fn arg_u64(name: &str, default: u64) -> u64 {
    arg_value(name).and_then(|v| v.parse().ok()).unwrap_or(default)
}

/// Silence the default panic message (we catch panics and report them as outcomes).
pub fn quiet_panics() {
    std::panic::set_hook(Box::new(|_| {}));
}

/// Watchdog for calls into the code under test: a call that does not return within the limit is reported as a JSON line
/// {"mode":"hang",...} with the description of the call, and the process exits with code 3 (a livelock cannot be unwound).
pub mod watchdog {
    use std::sync::Mutex;
    use std::time::{Duration, Instant};
    static CUR: Mutex<Option<(Instant, String)>> = Mutex::new(None);
    pub fn start(limit_ms: u64) {
        std::thread::spawn(move || loop {
            std::thread::sleep(Duration::from_millis(200));
            let hung = { let g = CUR.lock().unwrap(); g.as_ref().filter(|(t, _)| t.elapsed() > Duration::from_millis(limit_ms)).map(|(_, d)| d.clone()) };
            if let Some(d) = hung {
                println!("{{\"mode\":\"hang\",\"limit_ms\":{limit_ms},\"call\":{d}}}");
                use std::io::Write;
                let _ = std::io::stdout().flush();
                std::process::exit(3);
            }
        });
    }
    /// `desc` must be a JSON value
    pub fn enter(desc: String) { *CUR.lock().unwrap() = Some((Instant::now(), desc)); }
    pub fn leave() { *CUR.lock().unwrap() = None; }
}
