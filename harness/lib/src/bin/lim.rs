//! Limiter correspondence + property oracles (C01-C05, C07, C08, C17).
//! One JSON line per case: configuration, initial scheduling snapshot, every request with the
//! implementation's outcome, entry count, cleanup flag, snapshot and requested TTL, plus the
//! verdicts of the property oracles evaluated on the implementation's own behaviour.
use std::collections::HashMap;
use tcv_lib::limh::*;
use tcv_lib::stores::*;
use tcv_lib::*;

struct Step {
    req: Req,
    out: Out,
    cleaned: bool,
    len: usize,
    snap: Vec<i128>,
    ttl: Option<u128>,
    sf: bool,
    lost: bool,
}

fn step_json(s: &Step) -> String {
    let snap: Vec<String> = s.snap.iter().map(|x| x.to_string()).collect();
    format!(
        "{{\"req\":{},\"out\":{},\"cleaned\":{},\"len\":{},\"snap\":[{}],\"ttl\":{},\"sf\":{},\"lost\":{}}}",
        s.req.json(), s.out.json(), s.cleaned, s.len, snap.join(","),
        match s.ttl { Some(t) => format!("\"{t}\""), None => "null".into() }, s.sf, s.lost
    )
}

fn do_step(lim: &mut Lim, req: &Req) -> Step {
    let c0 = lim.cleanups();
    let out = lim.call(req);
    if lim.dead {
        return Step { req: req.clone(), out, cleaned: false, len: 0, snap: vec![], ttl: None, sf: false, lost: false };
    }
    Step { req: req.clone(), out, cleaned: lim.cleanups() != c0, len: lim.len(), snap: lim.snapshot(), ttl: lim.last_ttl(), sf: lim.last_get_stale(), lost: lim.last_get_lost() }
}

fn replay(cfg: &Cfg, reqs: &[Req]) -> Lim {
    let mut l = Lim::new(cfg);
    for r in reqs { let _ = l.call(r); }
    l
}

struct Viol { prop: &'static str, step: usize, what: String }

fn viol_json(v: &[Viol]) -> String {
    let items: Vec<String> = v.iter().map(|x| format!("{{\"prop\":\"{}\",\"step\":{},\"what\":{:?}}}", x.prop, x.step, x.what)).collect();
    format!("[{}]", items.join(","))
}

fn emit(mode: &str, cfg: &Cfg, snap0: &[i128], steps: &[Step], viol: &[Viol], extra: &str) {
    let snap0_s: Vec<String> = snap0.iter().map(|x| x.to_string()).collect();
    let st: Vec<String> = steps.iter().map(step_json).collect();
    println!("{{\"mode\":\"{mode}\",\"cfg\":{},\"snap0\":[{}],\"steps\":[{}],\"viol\":{}{extra}}}", cfg.json(), snap0_s.join(","), st.join(","), viol_json(viol));
}

const YEAR2100: i128 = 4_102_444_800_000_000_000;

fn base_time(rng: &mut Rng, cfg: &Cfg, snap0: &[i128]) -> i128 {
    let wall = time_to_ns(std::time::SystemTime::now());
    match rng.below(5) {
        0 => 1_700_000_000_000_000_000,
        1 => wall + 86_400_000_000_000,
        2 => if cfg.kind() != "pro" { snap0[0] - 2 } else { wall },
        3 => rng.range(0, 5_000_000_000) as i128,                 // right after the epoch
        _ => wall + rng.range(0, 10_000_000_000) as i128,
    }
}

/// generic per-key histories with fixed limits and non-decreasing times (C01, C02, C03, C07-lifetime)
fn mode_hist(rng: &mut Rng, n_cases: u64, max_len: u64, probes: bool) {
    for case in 0..n_cases {
        let cfg = random_cfg(rng, case);
        let mut lim = Lim::new(&cfg);
        let snap0 = lim.snapshot();
        let nkeys = *rng.pick(&[1u64, 1, 1, 2, 3]);
        let limits: Vec<(i64, i64, i64)> = (0..nkeys).map(|_| pick_limits(rng)).collect();
        let es: Vec<i128> = limits.iter().map(|l| emission_ns(l.1, l.2) as i128).collect();
        let mut now = base_time(rng, &cfg, &snap0);
        let n = rng.range(1, max_len as i64) as usize;
        let mut steps: Vec<Step> = Vec::new();
        let mut viol: Vec<Viol> = Vec::new();
        let mut buckets: HashMap<u64, Bucket> = HashMap::new();
        let mut last_out: HashMap<u64, (Out, i128)> = HashMap::new();
        let key_off = if rng.chance(1, 3) { 5 } else { 20 };
        for i in 0..n {
            let ki = rng.below(nkeys) as usize;
            let key = key_off + ki as u64;
            let (b, count, period) = limits[ki];
            let e = es[ki];
            let t_tol = e * (b as i128 - 1);
            // next instant
            let snap = lim.snapshot();
            let next_cleanup: Option<i128> = if cfg.kind() == "pro" { None } else { Some(snap[0]) };
            let (lretry, lreset, lnow) = match last_out.get(&key) {
                Some((Out::Ok { reset, retry, .. }, t)) => (*retry as i128, *reset as i128, *t),
                _ => (0, 0, now),
            };
            let cand: i128 = match rng.below(22) {
                0 | 1 | 2 => now,
                3 => now + 1,
                4 => now + e - 1,
                5 => now + e,
                6 => now + e + 1,
                7 => now + t_tol - 1,
                8 => now + t_tol,
                9 => now + t_tol + 1,
                10 => lnow + lretry - 1,
                11 => lnow + lretry,
                12 => lnow + lretry + 1,
                13 => lnow + lreset - 1,
                14 => lnow + lreset,
                15 => lnow + lreset + 1,
                16 => next_cleanup.map(|x| x - 1).unwrap_or(now + e / 2),
                17 => next_cleanup.unwrap_or(now + e / 3),
                18 => next_cleanup.map(|x| x + 1).unwrap_or(now + 2 * e),
                19 => now + 2 * e * (b as i128) + 1,
                20 => now + (rng.next() as i128 % (e * (b as i128) + 1)),
                _ => now + (rng.next() as i128 % (e + 1)),
            };
            now = cand.max(now).min(YEAR2100);
            let lrem = match last_out.get(&key) { Some((Out::Ok { remaining, .. }, _)) => *remaining, _ => b };
            let q: i64 = match rng.below(16) {
                0 => 0,
                1 | 2 | 3 | 4 => 1,
                5 => 2,
                6 => (b - 1).max(0),
                7 => b,
                8 => b + 1,
                9 => lrem,
                10 => lrem + 1,
                11 => 2 * b - 2,
                12 => 2 * b - 1,
                13 => 2 * b,
                14 => i64::MAX,
                _ => rng.range(0, b + 1),
            };
            let q = q.max(0);
            let req = Req { key, b, count, period, q, now };
            let st = do_step(&mut lim, &req);
            // ---- oracles on the implementation's own behaviour
            let bk = buckets.entry(key).or_insert_with(|| Bucket::full(e, b as i128, now));
            let ideal = bk.step(q as i128, now);
            match &st.out {
                Out::Ok { allowed, limit, remaining, reset, retry } => {
                    if *allowed != ideal {
                        viol.push(Viol { prop: "C02", step: i, what: format!("decision {} but ideal token bucket (B={b},E={e}ns) says {}", allowed, ideal) });
                    }
                    if *limit != b || *remaining < 0 || *remaining > b {
                        viol.push(Viol { prop: "C03", step: i, what: format!("limit={limit} remaining={remaining} for max_burst={b}") });
                    }
                    if (*retry == 0) != *allowed {
                        viol.push(Viol { prop: "C03", step: i, what: format!("retry_after={retry} but allowed={allowed}") });
                    }
                    if *allowed && q > 0 {
                        match st.ttl {
                            Some(ttl) => {
                                if ttl != *reset {
                                    viol.push(Viol { prop: "C03", step: i, what: format!("reset_after={reset} differs from the lifetime asked from the store {ttl}") });
                                }
                                let (lo, hi) = (e as u128, 2 * (b as u128) * (e as u128));
                                if ttl < lo || ttl > hi {
                                    viol.push(Viol { prop: "C07", step: i, what: format!("store lifetime {ttl}ns outside [E, 2*B*E] = [{lo}, {hi}]") });
                                }
                                // the state influences decisions until the ideal bucket is full again
                                let needed = (e * (b as i128) - buckets[&key].lvl) as u128;
                                if ideal && ttl < needed {
                                    viol.push(Viol { prop: "C07", step: i, what: format!("store lifetime {ttl}ns is shorter than the {needed}ns during which this state still influences decisions (time to regain the full burst)") });
                                }
                            }
                            None => viol.push(Viol { prop: "C07", step: i, what: "admitted request wrote nothing to the store".into() }),
                        }
                    } else if st.ttl.is_some() {
                        viol.push(Viol { prop: "C04", step: i, what: "denied or zero-quantity request wrote to the store".into() });
                    }
                }
                other => viol.push(Viol { prop: "C08", step: i, what: format!("valid request gave {:?}", other) }),
            }
            last_out.insert(key, (st.out.clone(), now));
            steps.push(st);
            if lim.dead { break; }
        }
        // C01 oracle: sliding windows over admitted quantities per key
        for ki in 0..nkeys as usize {
            let key = key_off + ki as u64;
            let (b, _, _) = limits[ki];
            let e = es[ki];
            let adm: Vec<(i128, i128, usize)> = steps.iter().enumerate()
                .filter(|(_, s)| s.req.key == key && s.out.allowed() == Some(true))
                .map(|(i, s)| (s.req.now, s.req.q as i128, i)).collect();
            'w: for a in 0..adm.len() {
                let mut sum: i128 = 0;
                for c in a..adm.len() {
                    sum += adm[c].1;
                    // sum <= B + (t2-t1)/E  <=>  E*(sum-B) <= t2-t1
                    if e * (sum - b as i128) > adm[c].0 - adm[a].0 {
                        viol.push(Viol { prop: "C01", step: adm[c].2, what: format!("window [{},{}] admitted {} > {} + {}ns/{}ns", adm[a].0, adm[c].0, sum, b, adm[c].0 - adm[a].0, e) });
                        break 'w;
                    }
                }
            }
        }
        // C03 probing oracle: each probed response from a copy of the state it was produced in
        if probes && !lim.dead {
            let reqs: Vec<Req> = steps.iter().map(|s| s.req.clone()).collect();
            let nprobe = steps.len().min(6);
            for _ in 0..nprobe {
                let i = rng.below(steps.len() as u64) as usize;
                let s = &steps[i];
                if let Out::Ok { allowed, remaining, reset, retry, .. } = &s.out {
                    let r0 = &s.req;
                    let (b, e) = (r0.b, emission_ns(r0.count, r0.period) as i128);
                    // remaining is exact
                    let mut l1 = replay(&cfg, &reqs[..=i]);
                    let o1 = l1.call(&Req { q: *remaining, ..r0.clone() });
                    if o1.allowed() != Some(true) {
                        viol.push(Viol { prop: "C03", step: i, what: format!("remaining={remaining} but a request for {remaining} right after is not admitted: {:?}", o1) });
                    }
                    let mut l2 = replay(&cfg, &reqs[..=i]);
                    let o2 = l2.call(&Req { q: *remaining + 1, ..r0.clone() });
                    if o2.allowed() != Some(false) {
                        viol.push(Viol { prop: "C03", step: i, what: format!("remaining={remaining} but a request for {} right after is admitted", remaining + 1) });
                    }
                    // retry_after is exact for denied requests of quantity <= burst
                    if !*allowed && r0.q <= b {
                        let mut l3 = replay(&cfg, &reqs[..i]);
                        let o3 = l3.call(&Req { now: r0.now + *retry as i128, ..r0.clone() });
                        if o3.allowed() != Some(true) {
                            viol.push(Viol { prop: "C03", step: i, what: format!("denied with retry_after={retry}ns but repeating it then is not admitted: {:?}", o3) });
                        }
                        if matches!(o3, Out::Panic(_) | Out::ErrInternal(_)) { viol.push(Viol { prop: "C08", step: i, what: format!("valid request repeated exactly retry_after={retry}ns after step {i} gave {:?}", o3) }); }
                        if *retry > 0 {
                            let mut l4 = replay(&cfg, &reqs[..i]);
                            let o4 = l4.call(&Req { now: r0.now + *retry as i128 - 1, ..r0.clone() });
                            if o4.allowed() != Some(false) {
                                viol.push(Viol { prop: "C03", step: i, what: format!("denied with retry_after={retry}ns but repeating it 1ns earlier is admitted") });
                            }
                        }
                    }
                    // after reset_after the key behaves as never seen (and the full burst is back)
                    let t2 = r0.now + *reset as i128 + if rng.chance(1, 2) { 0 } else { rng.range(0, 1000) as i128 };
                    if t2 <= YEAR2100 {
                        let q2 = *rng.pick(&[0i64, 1, b, b + 1]);
                        let mut l5 = replay(&cfg, &reqs[..=i]);
                        let o5 = l5.call(&Req { q: q2, now: t2, ..r0.clone() });
                        let mut fresh = Lim::new(&cfg);
                        let o6 = fresh.call(&Req { q: q2, now: t2, key: 999, ..r0.clone() });
                        if o5 != o6 {
                            viol.push(Viol { prop: "C03", step: i, what: format!("after reset_after={reset}ns (t={t2}) request q={q2} answers {:?}, a never-seen key answers {:?}", o5, o6) });
                        }
                        if matches!(o5, Out::Panic(_) | Out::ErrInternal(_)) { viol.push(Viol { prop: "C08", step: i, what: format!("valid request (q={q2}) stamped t={t2}, at or just after the expiry instant of step {i}'s state, gave {:?}", o5) }); }
                    }
                    let _ = e;
                    // C08 on the probes as well (they land exactly on refill and expiry instants): a valid request never panics
                    // and never gets the internal error
                    for (nm, o) in [("remaining", &o1), ("remaining+1", &o2)] {
                        if matches!(o, Out::Panic(_) | Out::ErrInternal(_)) { viol.push(Viol { prop: "C08", step: i, what: format!("probe `{nm}` right after step {i} gave {:?}", o) }); }
                    }
                }
            }
        }
        emit("hist", &cfg, &snap0, &steps, &viol, "");
    }
}


/// C04: no-effect requests (denied, quantity 0, invalid) inserted into an arbitrary base history
fn mode_insert(rng: &mut Rng, n_cases: u64, max_len: u64) {
    for case in 0..n_cases {
        let cfg = random_cfg(rng, case);
        let nkeys = *rng.pick(&[1u64, 2, 3, 6]);
        let mixed_limits = rng.chance(1, 3);
        let limits: Vec<(i64, i64, i64)> = (0..nkeys).map(|_| pick_limits(rng)).collect();
        let probe = Lim::new(&cfg);
        let snap_probe = probe.snapshot();
        let mut now = base_time(rng, &cfg, &snap_probe);
        let n = rng.range(1, max_len as i64) as usize;
        // base history
        let mut base: Vec<Req> = Vec::new();
        for _ in 0..n {
            let ki = rng.below(nkeys) as usize;
            let (b, count, period) = if mixed_limits && rng.chance(1, 2) { pick_limits(rng) } else { limits[ki] };
            let e = emission_ns(count, period) as i128;
            now += match rng.below(6) { 0 | 1 => 0, 2 => 1, 3 => e, 4 => rng.next() as i128 % (e * (b as i128) + 1), _ => rng.next() as i128 % (e + 1) };
            now = now.min(YEAR2100);
            let q = match rng.below(6) { 0 => 0, 1 | 2 => 1, 3 => b, 4 => b + 1, _ => rng.range(0, b + 1) };
            base.push(Req { key: 30 + ki as u64, b, count, period, q, now });
        }
        // extended history: base + inserted no-effect requests
        let mut ext: Vec<(Req, bool)> = Vec::new(); // (request, is_base)
        let mut prev_t = base[0].now;
        for (i, r) in base.iter().enumerate() {
            let n_ins = match rng.below(4) { 0 => 0, 1 | 2 => 1, _ => 3 };
            for _ in 0..n_ins {
                let ki = rng.below(nkeys) as usize;
                let (b, count, period) = if rng.chance(1, 3) { pick_limits(rng) } else { limits[ki] };
                let t = if r.now > prev_t { prev_t + (rng.next() as i128 % (r.now - prev_t + 1)) } else { prev_t };
                let key = 30 + ki as u64;
                let ins = match rng.below(7) {
                    0 | 1 => Req { key, b, count, period, q: 0, now: t },                 // zero quantity
                    2 | 3 => Req { key, b, count, period, q: b + 1 + rng.range(0, 3), now: t }, // always denied
                    4 => Req { key, b, count, period, q: -1 - rng.range(0, 5), now: t },  // negative quantity
                    5 => Req { key, b: *rng.pick(&[0i64, -1, i64::MIN]), count, period, q: 1, now: t },
                    _ => Req { key, b, count: *rng.pick(&[0i64, -7]), period: *rng.pick(&[0i64, 60, -1]), q: 1, now: t },
                };
                prev_t = t;
                ext.push((ins, false));
            }
            let _ = i;
            prev_t = r.now;
            ext.push((r.clone(), true));
        }
        let mut la = Lim::new(&cfg);
        let base_out: Vec<Out> = base.iter().map(|r| la.call(r)).collect();
        let mut lb = Lim::new(&cfg);
        let snap0 = lb.snapshot();
        let mut steps: Vec<Step> = Vec::new();
        let mut viol: Vec<Viol> = Vec::new();
        let mut bi = 0usize;
        for (r, is_base) in &ext {
            let len_before = lb.len();
            let writes_before = lb.writes();
            let st = do_step(&mut lb, r);
            let i = steps.len();
            if *is_base {
                if st.out != base_out[bi] {
                    viol.push(Viol { prop: "C04", step: i, what: format!("response {:?} differs from the response {:?} in the history without the inserted no-effect requests", st.out, base_out[bi]) });
                }
                bi += 1;
            } else {
                match &st.out {
                    Out::ErrNeg | Out::ErrInvalid => {
                        if lb.len() != len_before || lb.writes() != writes_before {
                            viol.push(Viol { prop: "C04", step: i, what: "rejected request created stored state / touched the store".into() });
                        }
                    }
                    Out::Ok { allowed, .. } => {
                        if *allowed && r.q != 0 { viol.push(Viol { prop: "C04", step: i, what: "harness error: inserted request was admitted".into() }); }
                        if !*allowed && lb.writes() != writes_before { viol.push(Viol { prop: "C04", step: i, what: "denied request wrote to the store".into() }); }
                    }
                    other => viol.push(Viol { prop: "C08", step: i, what: format!("{:?}", other) }),
                }
            }
            steps.push(st);
            if lb.dead { break; }
        }
        emit("insert", &cfg, &snap0, &steps, &viol, &format!(",\"mixed_limits\":{mixed_limits}"));
    }
}


/// C05: interleave per-key histories (victims with fixed limits in D) with arbitrary traffic on
/// many other keys; each victim's responses must equal its solo run on a fresh limiter
fn mode_interleave(rng: &mut Rng, n_cases: u64, max_len: u64, noise_keys: u64, disorder: bool) {
    for case in 0..n_cases {
        let cfg = random_cfg(rng, case);
        let nvict = *rng.pick(&[1u64, 2, 3]);
        let limits: Vec<(i64, i64, i64)> = (0..nvict).map(|_| pick_limits(rng)).collect();
        let mut lim = Lim::new(&cfg);
        let snap0 = lim.snapshot();
        let mut now = base_time(rng, &cfg, &snap0);
        let n = rng.range(2, max_len as i64) as usize;
        let nnoise = if rng.chance(1, 3) { noise_keys } else { *rng.pick(&[1u64, 3, 40]) };
        // victims use key ids 0..17 (the special strings: empty, 64 KiB, one byte apart, non-ASCII)
        let vkeys: Vec<u64> = match rng.below(5) { 0 => vec![10, 11, 0], 1 => vec![5, 6, 15], 2 => vec![8, 7, 18], 3 => vec![0, 17, 7], _ => vec![1, 3, 4] };
        let mut steps: Vec<Step> = Vec::new();
        let mut viol: Vec<Viol> = Vec::new();
        let mut fresh_noise = 0u64;
        // with `disorder` every victim key runs on its own (non-decreasing) clock, so the merged
        // history is not globally ordered
        let mut vclock: Vec<i128> = (0..nvict).map(|i| now - (i as i128) * 50_000_000).collect();
        // expiry instant of each victim's stored state (time of its last admitted write + reset_after)
        let mut vexp: Vec<Option<i128>> = vec![None; nvict as usize];
        for _ in 0..n {
            now += match rng.below(6) { 0 | 1 => 0, 2 => 1, 3 => rng.range(0, 1_000_000) as i128, 4 => rng.range(0, 2_000_000_000) as i128, _ => rng.range(0, 70_000_000_000) as i128 };
            now = now.min(YEAR2100);
            let req = if rng.chance(1, 3) {
                let vi = rng.below(nvict) as usize;
                let (b, count, period) = limits[vi];
                let now = if disorder {
                    let e = emission_ns(count, period) as i128;
                    vclock[vi] = (vclock[vi] + (rng.next() as i128 % (e / 2 + 2))).min(YEAR2100);
                    vclock[vi]
                } else {
                    // 1 in 4: land exactly on (or 1 ns around) the instant the victim's stored state expires - whether a sweep is
                    // due at that moment depends on the OTHER keys' traffic
                    if let Some(ex) = vexp[vi] { if ex >= now && ex <= YEAR2100 && rng.chance(1, 4) { now = (ex + *rng.pick(&[0i128, 0, 0, -1, 1])).max(now); } }
                    now
                };
                let q = match rng.below(5) { 0 => 0, 1 | 2 => 1, 3 => b, _ => rng.range(0, b + 1) };
                Req { key: vkeys[vi], b, count, period, q, now }
            } else {
                // noise: other keys, arbitrary parameters
                let key = if rng.chance(1, 2) { fresh_noise += 1; 1000 + fresh_noise } else { 1000 + rng.below(nnoise) };
                let (b, count, period) = if rng.chance(1, 5) { (*rng.pick(&[0i64, -1, i64::MAX, 1 << 40]), *rng.pick(&[0i64, 1, i64::MAX]), *rng.pick(&[-1i64, 1, i64::MAX])) } else { pick_limits(rng) };
                Req { key, b, count, period, q: *rng.pick(&[0i64, 1, 1, 2, -1, i64::MAX]), now }
            };
            let st = do_step(&mut lim, &req);
            if let Some(vi) = vkeys.iter().take(nvict as usize).position(|&k| k == req.key) {
                if let Out::Ok { allowed: true, reset, .. } = &st.out { if req.q > 0 { vexp[vi] = Some(req.now + *reset as i128); } }
            }
            steps.push(st);
            if lim.dead { break; }
        }
        // solo runs (fresh limiter, possibly another store type)
        for vi in 0..nvict as usize {
            let solo_cfg = if rng.chance(1, 2) { cfg.clone() } else { random_cfg(rng, case + 1 + vi as u64) };
            let mut solo = Lim::new(&solo_cfg);
            for (i, s) in steps.iter().enumerate() {
                if s.req.key == vkeys[vi] {
                    let o = solo.call(&s.req);
                    if o != s.out {
                        viol.push(Viol { prop: "C05", step: i, what: format!("key answered {:?} in the interleaved history but {:?} when run alone ({})", s.out, o, solo_cfg.json()) });
                        break;
                    }
                }
            }
        }
        // every OTHER key as well (the property is about each key's projection): with a globally ordered history the answers
        // of a noise key, whatever its limits, equal its solo run too
        if !disorder && viol.is_empty() {
            let mut by_key: std::collections::BTreeMap<u64, Vec<usize>> = std::collections::BTreeMap::new();
            for (i, s) in steps.iter().enumerate() { if !vkeys.iter().take(nvict as usize).any(|&k| k == s.req.key) { by_key.entry(s.req.key).or_default().push(i); } }
            'keys: for (_, idx) in by_key.iter().filter(|(_, v)| v.len() >= 2) {
                let mut solo = Lim::new(&cfg);
                for &i in idx {
                    let o = solo.call(&steps[i].req);
                    if o != steps[i].out {
                        viol.push(Viol { prop: "C05", step: i, what: format!("key answered {:?} in the interleaved history but {:?} when run alone ({})", steps[i].out, o, cfg.json()) });
                        break 'keys;
                    }
                }
            }
        }
        emit("interleave", &cfg, &snap0, &steps, &viol, "");
    }
}


/// C07 reclamation: unbounded stream of fresh keys with a bounded active set; the number of
/// physically stored entries must stay within the bound implied by the store's guaranteed
/// cleanup points (ghost map of every key's last requested lifetime)
fn mode_reclaim(rng: &mut Rng, n_cases: u64, max_len: u64) {
    for case in 0..n_cases {
        // cleanup-enabled configurations only
        let cfg = match case % 3 {
            0 => Cfg::Periodic { capacity: *rng.pick(&[0usize, 16, 1000]), interval_ns: *rng.pick(&[0u64, 1_000_000, 1_000_000_000, 60_000_000_000]) },
            1 => Cfg::Adaptive { capacity: *rng.pick(&[0usize, 16, 1000]), min_ns: *rng.pick(&[0u64, 1_000_000, 1_000_000_000]),
                                 max_ns: *rng.pick(&[1_000_000u64, 5_000_000_000, 300_000_000_000]), max_ops: *rng.pick(&[1usize, 7, 100, 100_000]) },
            _ => Cfg::Probabilistic { capacity: *rng.pick(&[0usize, 16, 1000]), prob: *rng.pick(&[1u64, 2, 3, 7, 64, 1000]) },
        };
        let mut lim = Lim::new(&cfg);
        let snap0 = lim.snapshot();
        let wall = time_to_ns(std::time::SystemTime::now());
        let mut now: i128 = wall + 10_000_000_000 + rng.range(0, 1_000_000_000) as i128;
        let (b, count, period) = pick_limits(rng);
        let e = emission_ns(count, period) as i128;
        let n = rng.range(10, max_len as i64) as usize;
        let active = *rng.pick(&[1u64, 3, 20]);
        let w: i128 = match cfg { Cfg::Periodic { interval_ns, .. } => interval_ns as i128,
                                  Cfg::Adaptive { min_ns, max_ns, .. } => (5_000_000_000i128).max(min_ns as i128).max(max_ns as i128), _ => 0 };
        let mut ghost: HashMap<u64, i128> = HashMap::new();
        let mut steps: Vec<Step> = Vec::new();
        let mut viol: Vec<Viol> = Vec::new();
        let mut next_key = 2000u64;
        let mut max_len_seen = 0usize;
        let mut t_last_sweep: i128 = i128::MIN;
        for i in 0..n {
            now += match rng.below(5) { 0 => 0, 1 => e, 2 => rng.next() as i128 % (2 * e * b as i128 + 1), 3 => rng.range(0, 1_000_000) as i128, _ => (w + 1).min(100_000_000_000) };
            now = now.min(YEAR2100);
            // bounded active set: the last `active` keys; a new key replaces the oldest now and then
            if rng.chance(1, 2) { next_key += 1; }
            let key = next_key - rng.below(active.min(next_key - 1999));
            let q = match rng.below(4) { 0 => 0, 1 => b, _ => 1 };
            let req = Req { key, b, count, period, q, now };
            let snap_before = lim.snapshot();
            let st = do_step(&mut lim, &req);
            if lim.dead { steps.push(st); break; }
            let wrote = st.ttl.is_some();
            if let (Some(ttl), Some(true)) = (st.ttl, st.out.allowed()) { ghost.insert(key, now + ttl as i128); }
            if wrote {
                // guaranteed cleanup points
                let due = match cfg {
                    Cfg::Periodic { .. } => now >= snap_before[0],
                    Cfg::Adaptive { max_ops, .. } => now >= snap_before[0] || (snap_before[3] + 1) >= max_ops as i128,
                    Cfg::Probabilistic { prob, .. } => (snap_before[0] + 1) % (prob as i128) == 0,
                };
                if due && !st.cleaned {
                    viol.push(Viol { prop: "C07", step: i, what: format!("guaranteed cleanup point reached (store state before the write {:?}) but no sweep ran", snap_before) });
                }
                if st.cleaned { t_last_sweep = now; }
                let bound = match cfg {
                    // everything that survived the last sweep (expiry > its time) plus what was written since
                    Cfg::Probabilistic { .. } => ghost.values().filter(|x| **x > t_last_sweep || **x >= now).count(),
                    _ => ghost.values().filter(|x| **x >= now - w).count(),
                };
                if st.len > bound {
                    viol.push(Viol { prop: "C07", step: i, what: format!("{} entries stored after a write at t={now}, but only {} keys have a lifetime reaching t-W (W={w}ns)", st.len, bound) });
                }
            }
            // lifetime clause, physical side: a state whose requested lifetime has not passed must still be held
            // (a sweep that drops it makes forgetting distinguishable from remembering)
            let live = ghost.values().filter(|x| **x > now).count();
            if st.len < live {
                viol.push(Viol { prop: "C07", step: i, what: format!("{} keys have a requested lifetime reaching past t={now}, but only {} entries are stored (state dropped before its lifetime ended; sweep ran at this step: {})", live, st.len, st.cleaned) });
            }
            max_len_seen = max_len_seen.max(st.len);
            steps.push(st);
        }
        emit("reclaim", &cfg, &snap0, &steps, &viol, &format!(",\"keys_used\":{},\"max_entries\":{}", next_key - 1999, max_len_seen));
    }
}


/// C17: timestamps out of order (jitter, multi-second backward steps, oscillation across expiry
/// and cleanup instants), aggressive cleanup.  Oracles: no panic / error; window bound with the
/// slack J (largest regression of the history); a regressed request never sees more budget than
/// at the latest timestamp.  `sf` marks calls whose lookup hit a stale-forget event.
fn mode_regress(rng: &mut Rng, n_cases: u64, max_len: u64) {
    for case in 0..n_cases {
        let cfg = match rng.below(4) {
            0 => Cfg::Probabilistic { capacity: 16, prob: *rng.pick(&[1u64, 2, 3]) },
            1 => Cfg::Periodic { capacity: 16, interval_ns: *rng.pick(&[0u64, 1_000_000, 1_000_000_000]) },
            2 => Cfg::Adaptive { capacity: 16, min_ns: 0, max_ns: *rng.pick(&[0u64, 1_000_000]), max_ops: *rng.pick(&[0usize, 1, 3]) },
            _ => random_cfg(rng, case),
        };
        let mut lim = Lim::new(&cfg);
        let snap0 = lim.snapshot();
        let nkeys = *rng.pick(&[1u64, 1, 2, 4]);
        let limits: Vec<(i64, i64, i64)> = (0..nkeys).map(|_| pick_limits(rng)).collect();
        let es: Vec<i128> = limits.iter().map(|l| emission_ns(l.1, l.2) as i128).collect();
        let wall = time_to_ns(std::time::SystemTime::now());
        let base = wall + 100_000_000_000 + rng.range(0, 1_000_000_000) as i128;
        let mut now = base;
        let mut latest = base;
        let n = rng.range(2, max_len as i64) as usize;
        let style = rng.below(5); // 0 jitter, 1 big backward steps, 2 oscillation, 3 per-key clocks, 4 other keys stamped ahead
        let mut key_clock: Vec<i128> = (0..nkeys).map(|i| base + (i as i128) * 20_000_000).collect();
        let mut steps: Vec<Step> = Vec::new();
        let mut viol: Vec<Viol> = Vec::new();
        let mut j_max: i128 = 0;
        for i in 0..n {
            let ki = rng.below(nkeys) as usize;
            let (b, count, period) = limits[ki];
            let e = es[ki];
            now = match style {
                0 => latest + rng.range(-(e.min(5_000_000) as i64), e.min(20_000_000) as i64) as i128,
                1 => if rng.chance(1, 4) { latest - rng.range(0, 5_000_000_000) as i128 } else { latest + (rng.next() as i128 % (e + 1)) },
                2 => { let span = 2 * e * (b as i128) + 2; base + (rng.next() as i128 % span) * (1 + (i as i128 % 3)) }
                3 => { key_clock[ki] += rng.next() as i128 % (e + 1); key_clock[ki] }
                _ => {
                    // key 0 is the victim on its own slow clock; the others are stamped far ahead of it
                    if ki == 0 { key_clock[0] += rng.next() as i128 % (es[0] / 4 + 1); key_clock[0] }
                    else { key_clock[0] + 2 * es[0] * (limits[0].0 as i128) + (rng.next() as i128 % (es[0] + 1)) }
                }
            };
            now = now.max(0).min(YEAR2100);
            if latest - now > j_max { j_max = latest - now; }
            if now > latest { latest = now; }
            let q = match rng.below(6) { 0 => 0, 1 | 2 => 1, 3 => b, 4 => b + 1, _ => rng.range(0, b + 1) };
            let req = Req { key: 40 + ki as u64, b, count, period, q, now };
            let st = do_step(&mut lim, &req);
            match &st.out {
                Out::Ok { .. } => {}
                other => viol.push(Viol { prop: "C17", step: i, what: format!("valid request with an out-of-order timestamp gave {:?}", other) }),
            }
            steps.push(st);
            if lim.dead { break; }
        }
        // window bound with slack J, per key
        for ki in 0..nkeys as usize {
            let key = 40 + ki as u64;
            let (b, _, _) = limits[ki];
            let e = es[ki];
            let mut adm: Vec<(i128, i128, usize)> = steps.iter().enumerate()
                .filter(|(_, s)| s.req.key == key && s.out.allowed() == Some(true))
                .map(|(i, s)| (s.req.now, s.req.q as i128, i)).collect();
            adm.sort();
            'w: for a in 0..adm.len() {
                let mut sum: i128 = 0;
                let mut last_step = 0usize;
                for c in a..adm.len() {
                    sum += adm[c].1;
                    last_step = last_step.max(adm[c].2);
                    if e * (sum - b as i128) > adm[c].0 - adm[a].0 + j_max {
                        viol.push(Viol { prop: "C17", step: last_step, what: format!("window [{},{}] admitted {} > {} + ({}ns + J={}ns)/{}ns", adm[a].0, adm[c].0, sum, b, adm[c].0 - adm[a].0, j_max, e) });
                        break 'w;
                    }
                }
            }
        }
        // budget probe: what is admitted at a regressed timestamp is admitted at the latest one
        if !lim.dead && !steps.is_empty() {
            let reqs: Vec<Req> = steps.iter().map(|s| s.req.clone()).collect();
            for _ in 0..4 {
                let i = rng.below(steps.len() as u64) as usize;
                let r0 = &steps[i].req;
                let m = reqs[..=i].iter().map(|r| r.now).max().unwrap();
                if r0.now < m && steps[i].out.allowed() == Some(true) && r0.q > 0 {
                    let mut l2 = replay(&cfg, &reqs[..i]);
                    let o2 = l2.call(&Req { now: m, ..r0.clone() });
                    if o2.allowed() != Some(true) {
                        viol.push(Viol { prop: "C17", step: i, what: format!("quantity {} admitted at the regressed timestamp {} but denied at the latest timestamp {}", r0.q, r0.now, m) });
                    }
                }
            }
        }
        emit("regress", &cfg, &snap0, &steps, &viol, &format!(",\"J\":{j_max}"));
    }
}


/// the canonical stale-forget history of KNOWN_FINDINGS.txt (C17 / C05): victim key max_burst 2,
/// 10 ms per token, quantity 2 at t0+i ms; after each, another key stamped t0+20+i ms;
/// ProbabilisticStore sweeping on every write
fn mode_witness_f7() {
    let cfg = Cfg::Probabilistic { capacity: 1000, prob: 1 };
    let mut lim = Lim::new(&cfg);
    let snap0 = lim.snapshot();
    let t0: i128 = 1_700_000_000_000_000_000;
    let ms: i128 = 1_000_000;
    let mut steps: Vec<Step> = Vec::new();
    let mut viol: Vec<Viol> = Vec::new();
    for i in 0..10i128 {
        steps.push(do_step(&mut lim, &Req { key: 40, b: 2, count: 100, period: 1, q: 2, now: t0 + i * ms }));
        steps.push(do_step(&mut lim, &Req { key: 100 + i as u64, b: 2, count: 100, period: 1, q: 1, now: t0 + (20 + i) * ms }));
    }
    let adm: i128 = steps.iter().filter(|s| s.req.key == 40 && s.out.allowed() == Some(true)).map(|s| s.req.q as i128).sum();
    let j: i128 = 19 * ms;
    if 10 * ms * (adm - 2) > 9 * ms + j {
        viol.push(Viol { prop: "C17", step: steps.len() - 2, what: format!("window [{},{}] admitted {} > 2 + (9ms + J=19ms)/10ms", t0, t0 + 9 * ms, adm) });
    }
    // C05 view: the victim alone
    let mut solo = Lim::new(&cfg);
    for (i, s) in steps.iter().enumerate() {
        if s.req.key == 40 {
            let o = solo.call(&s.req);
            if o != s.out { viol.push(Viol { prop: "C05", step: i, what: format!("key answered {:?} in the interleaved history but {:?} when run alone", s.out, o) }); break; }
        }
    }
    emit("witness_f7", &cfg, &snap0, &steps, &viol, ",\"J\":19000000");
}

/// C08: boundary lattice over i64^4, fresh and pre-populated keys
fn mode_lattice(rng: &mut Rng, n_random: u64, stride: u64) {
    let giga: i64 = 1_000_000_000;
    let lat: Vec<i64> = vec![
        0, 1, -1, 2, (1 << 31) - 1, 1 << 31, (1 << 31) + 1, (1u64 << 32) as i64 - 1, 1 << 32, (1 << 32) + 1,
        (1 << 53) - 1, 1 << 53, (1 << 53) + 1, i64::MAX / giga - 1, i64::MAX / giga, i64::MAX / giga + 1,
        i64::MAX - 1, i64::MAX, i64::MIN,
    ];
    let times: [i128; 5] = [0, 1, 1_700_000_000_000_000_000, YEAR2100, 7_258_118_400_000_000_000 /* 2200 */];
    let mut idx: u64 = 0;
    let mut batch: Vec<Step> = Vec::new();
    let mut viol: Vec<Viol> = Vec::new();
    let mut cfg = random_cfg(rng, 0);
    let mut lim = Lim::new(&cfg);
    let mut snap0 = lim.snapshot();
    let mut case_no = 0u64;
    let mut flush = |cfg: &Cfg, snap0: &Vec<i128>, batch: &mut Vec<Step>, viol: &mut Vec<Viol>| {
        if !batch.is_empty() { emit("lattice", cfg, snap0, batch, viol, ""); }
        batch.clear();
        viol.clear();
    };
    let mut points: Vec<(i64, i64, i64, i64)> = Vec::new();
    for &b in &lat { for &c in &lat { for &p in &lat { for &q in &lat {
        idx += 1;
        if stride <= 1 || idx % stride == rng.0 % stride { points.push((b, c, p, q)); }
    } } } }
    for _ in 0..n_random {
        let mut pick = |rng: &mut Rng| -> i64 {
            match rng.below(4) {
                0 => *rng.pick(&lat),
                1 => rng.range(-3, 1000),
                2 => rng.next() as i64,
                _ => (1i64 << rng.below(63)) + rng.range(-1, 1),
            }
        };
        points.push((pick(rng), pick(rng), pick(rng), pick(rng)));
    }
    for (pi, &(b, c, p, q)) in points.iter().enumerate() {
        // fresh limiter every 24 points (also after a panic); alternating fresh / pre-populated key
        if pi % 24 == 0 || lim.dead {
            flush(&cfg, &snap0, &mut batch, &mut viol);
            case_no += 1;
            cfg = random_cfg(rng, case_no);
            lim = Lim::new(&cfg);
            snap0 = lim.snapshot();
        }
        let now = *rng.pick(&times);
        let prepop = pi % 2 == 1;
        let key = if prepop { 1 } else { 1000 + pi as u64 };
        if prepop && rng.chance(1, 2) {
            // populate the key under ordinary limits first
            let r0 = Req { key, b: 3, count: 10, period: 1, q: 2, now };
            let st0 = do_step(&mut lim, &r0);
            batch.push(st0);
            if lim.dead { continue; }
        }
        let req = Req { key, b, count: c, period: p, q, now };
        let writes_before = lim.writes();
        let len_before = lim.len();
        let st = do_step(&mut lim, &req);
        let i = batch.len();
        match &st.out {
            Out::Panic(m) => viol.push(Viol { prop: "C08", step: i, what: format!("panic: {m}") }),
            Out::ErrInternal(m) => viol.push(Viol { prop: "C08", step: i, what: format!("internal error with a built-in store: {m}") }),
            Out::ErrNeg => {
                if q >= 0 { viol.push(Viol { prop: "C08", step: i, what: "negative-quantity error for non-negative quantity".into() }); }
                if lim.writes() != writes_before || lim.len() != len_before { viol.push(Viol { prop: "C04", step: i, what: "rejected request touched the store".into() }); }
            }
            Out::ErrInvalid => {
                if q < 0 || (b > 0 && c > 0 && p > 0) { viol.push(Viol { prop: "C08", step: i, what: "invalid-parameters error for valid parameters / wrong error precedence".into() }); }
                if lim.writes() != writes_before || lim.len() != len_before { viol.push(Viol { prop: "C04", step: i, what: "rejected request touched the store".into() }); }
            }
            Out::Ok { allowed, limit, remaining, retry, .. } => {
                if q < 0 || b <= 0 || c <= 0 || p <= 0 {
                    viol.push(Viol { prop: "C08", step: i, what: "invalid request was not rejected".into() });
                } else {
                    if *limit != b || *remaining < 0 || *remaining > b { viol.push(Viol { prop: "C08", step: i, what: format!("limit={limit} remaining={remaining} for max_burst={b}") }); }
                    if (*retry == 0) != *allowed { viol.push(Viol { prop: "C08", step: i, what: format!("retry_after={retry} but allowed={allowed}") }); }
                    if !prepop && q <= b && !*allowed { viol.push(Viol { prop: "C08", step: i, what: "first request of quantity <= max_burst on a fresh key was denied".into() }); }
                }
            }
        }
        batch.push(st);
    }
    flush(&cfg, &snap0, &mut batch, &mut viol);
}

fn main() {
    quiet_panics();
    tcv_lib::watchdog::start(arg_u64("--call-limit-ms", 5000));
    let seed = arg_u64("--seed", 1);
    let mode = arg_value("--mode").unwrap_or_else(|| "hist".into());
    let n = arg_u64("--cases", 200);
    let max_len = arg_u64("--maxlen", 60);
    let mut rng = Rng::new(seed ^ 0x11a1);
    match mode.as_str() {
        "hist" => mode_hist(&mut rng, n, max_len, arg_u64("--probes", 1) == 1),
        "insert" => mode_insert(&mut rng, n, max_len),
        "interleave" => mode_interleave(&mut rng, n, max_len, arg_u64("--noise", 3000), arg_u64("--disorder", 0) == 1),
        "reclaim" => mode_reclaim(&mut rng, n, max_len),
        "regress" => mode_regress(&mut rng, n, max_len),
        "witness_f7" => mode_witness_f7(),
        "lattice" => mode_lattice(&mut rng, arg_u64("--random", 2000), arg_u64("--stride", 1)),
        _ => { eprintln!("unknown mode"); std::process::exit(2); }
    }
}
