//! C06/C07 correspondence: drives the three real stores with operation sequences whose times
//! straddle every cleanup trigger, prints one JSON line per sequence with each step's
//! result, physical entry count, cleanup flag and scheduling snapshot, and runs the abstract
//! expiring map (never cleaned) alongside as the property oracle.
use std::collections::HashMap;
use std::time::Duration;
use tcv_lib::stores::*;
use tcv_lib::*;
use throttlecrab::Store;

#[derive(Clone)]
enum Op {
    Get(u64, i128),
    SetNx(u64, i64, u64, i128),
    Cas(u64, i64, i64, u64, i128),
}

fn pick_val(rng: &mut Rng) -> i64 {
    match rng.below(6) {
        0 => i64::MIN,
        1 => i64::MAX,
        2 => 0,
        3 => -1,
        _ => rng.range(-5, 5),
    }
}

fn pick_long_ttl(rng: &mut Rng) -> u64 {
    // 100 years = 3_155_760_000 s
    *rng.pick(&[u64::MAX, 6_311_520_000_000_000_000, 4_733_640_000_000_000_000, 3_155_760_000_000_000_001, 3_155_760_000_000_000_000, 3_155_759_999_999_999_999, 4_000_000_000_000_000_000])
}

fn pick_ttl(rng: &mut Rng) -> u64 {
    match rng.below(8) {
        0 => 0,
        1 => 1,
        2 => 2,
        3 => 1000,
        4 => 1_000_000_000,
        5 => 5_000_000_000,
        6 => u64::MAX,
        _ => rng.range(1, 3_000_000_000) as u64,
    }
}

fn main() {
    quiet_panics();
    let seed = arg_u64("--seed", 1);
    let n_seq = arg_u64("--seqs", 300);
    let max_ops = arg_u64("--maxops", 60);
    let disordered = arg_u64("--disordered", 0) == 1;
    let mut rng = Rng::new(seed ^ 0x5707e);

    for seq in 0..n_seq {
        let cfg = random_cfg(&mut rng, seq);
        let mut st = cfg.build();
        let snap0 = st.snapshot();
        // abstract map oracle: key -> (value, expiry)
        let mut abs: HashMap<u64, (i64, i128)> = HashMap::new();
        let nkeys = *rng.pick(&[1u64, 2, 3, 8, 19, 200]);
        let key_base = if rng.chance(1, 4) { 100 } else { 0 };
        // time base: around the store's first cleanup instant so that trigger boundaries are hit
        let wall = time_to_ns(std::time::SystemTime::now());
        let mut now: i128 = match rng.below(4) {
            0 => 1_700_000_000_000_000_000,           // before the wall clock: time trigger never fires first
            1 => wall + 86_400_000_000_000,          // far after
            2 => if cfg.kind() != "pro" { snap0[0] - 3 } else { wall },
            _ => wall + rng.range(0, 10_000_000_000) as i128,
        };
        // "century" sequences: the whole time domain of the properties (1970..2100) with lifetimes above 100 years - a key written
        // in the 1970s with 150..584 years to live is still there in 2099
        let century = seq % 8 == 5;
        if century { now = 1_000_000_000 + rng.range(0, 1_000_000_000) as i128; }
        let nops = rng.range(1, max_ops as i64) as usize;
        let expire_heavy = rng.chance(1, 5);
        let mut pending_ttls: Vec<i128> = Vec::new();
        let mut out = String::new();
        let mut oracle = "ok".to_string();
        let mut cleanups_prev = st.cleanups();
        let mut n_cleanups = 0u64;
        let mut max_t = now;
        let mut ordered = true;
        let mut ops_json: Vec<String> = Vec::new();
        let mut panicked: Option<String> = None;
        for i in 0..nops {
            // choose the next instant
            let snap = st.snapshot();
            let next_cleanup: Option<i128> = if cfg.kind() == "pro" { None } else { Some(snap[0]) };
            let choice = rng.below(12);
            let mut t = match choice {
                0 | 1 => now,
                2 => now + 1,
                3 => if let Some(e) = pending_ttls.last() { *e - 1 } else { now + 1 },
                4 => if let Some(e) = pending_ttls.last() { *e } else { now + 2 },
                5 => if let Some(e) = pending_ttls.last() { *e + 1 } else { now + 3 },
                6 => next_cleanup.map(|n| n - 1).unwrap_or(now + 5),
                7 => next_cleanup.unwrap_or(now + 7),
                8 => next_cleanup.map(|n| n + 1).unwrap_or(now + 11),
                9 => now + rng.range(0, 2_000_000_000) as i128,
                10 => now + rng.range(0, 1000) as i128,
                _ => now + 1_000_000,
            };
            if century && rng.chance(1, 3) { t = now + *rng.pick(&[3_155_760_000_000_000_000i128, 3_200_000_000_000_000_000, 1_000_000_000_000_000_000, 3_155_759_999_999_999_999]); }
            if disordered {
                if rng.chance(1, 3) { t = now - rng.range(0, 3_000_000_000) as i128; }
            } else if t < now {
                t = now;
            }
            if t < 0 { t = 0; }
            if t > 4_102_444_800_000_000_000 { t = 4_102_444_800_000_000_000; } // year 2100
            if t < max_t { ordered = false; }
            if t > max_t { max_t = t; }
            now = t;
            let key = key_base + if expire_heavy { (i as u64) % nkeys } else { rng.below(nkeys) };
            let ks = key_string(key);
            let tm = ns_to_time(now);
            let cur_abs = abs.get(&key).and_then(|(v, e)| if now < *e { Some(*v) } else { None });
            let op = match rng.below(10) {
                0 | 1 => Op::Get(key, now),
                2 | 3 | 4 | 5 => Op::SetNx(key, pick_val(&mut rng), if century { pick_long_ttl(&mut rng) } else if expire_heavy { 1 } else { pick_ttl(&mut rng) }, now),
                _ => {
                    let old = if rng.chance(2, 3) { cur_abs.unwrap_or_else(|| pick_val(&mut rng)) } else { pick_val(&mut rng) };
                    Op::Cas(key, old, pick_val(&mut rng), if century && rng.chance(2, 3) { pick_long_ttl(&mut rng) } else { pick_ttl(&mut rng) }, now)
                }
            };
            let op_json = match op {
                Op::Get(k, t) => format!("[\"get\",{k},{t}]"),
                Op::SetNx(k, v, ttl, t) => format!("[\"set\",{k},{v},{ttl},{t}]"),
                Op::Cas(k, o, n, ttl, t) => format!("[\"cas\",{k},{o},{n},{ttl},{t}]"),
            };
            ops_json.push(op_json.clone());
            let stepped = std::panic::catch_unwind(std::panic::AssertUnwindSafe(|| match op {
                Op::Get(_, _) => {
                    let r = st.get(&ks, tm).unwrap();
                    (match r { Some(v) => format!("{v}"), None => "null".into() }, match cur_abs { Some(v) => format!("{v}"), None => "null".into() })
                }
                Op::SetNx(_, v, ttl, _) => {
                    let r = st.set_if_not_exists_with_ttl(&ks, v, Duration::from_nanos(ttl), tm).unwrap();
                    let a = cur_abs.is_none();
                    if a { abs.insert(key, (v, now + ttl as i128)); pending_ttls.push(now + ttl as i128); }
                    (format!("{r}"), format!("{a}"))
                }
                Op::Cas(_, old, new, ttl, _) => {
                    let r = st.compare_and_swap_with_ttl(&ks, old, new, Duration::from_nanos(ttl), tm).unwrap();
                    let a = cur_abs == Some(old);
                    if a { abs.insert(key, (new, now + ttl as i128)); pending_ttls.push(now + ttl as i128); }
                    (format!("{r}"), format!("{a}"))
                }
            }));
            let (res_json, abs_json) = match stepped {
                Ok(x) => x,
                Err(e) => {
                    // a store operation that panics (or returns Err) is not the abstract map's answer: report the sequence so far
                    let msg = e.downcast_ref::<String>().cloned().or_else(|| e.downcast_ref::<&str>().map(|m| m.to_string())).unwrap_or_default();
                    panicked = Some(msg);
                    break;
                }
            };
            if ordered && res_json != abs_json && oracle == "ok" {
                oracle = format!("bad:step {i} store returned {res_json}, abstract expiring map {abs_json}");
            }
            let cl = st.cleanups();
            let cleaned = cl != cleanups_prev;
            if cleaned { n_cleanups += cl - cleanups_prev; }
            cleanups_prev = cl;
            let snap = st.snapshot();
            let snap_s: Vec<String> = snap.iter().map(|x| x.to_string()).collect();
            if i > 0 { out.push(','); }
            out.push_str(&format!("{{\"op\":{op_json},\"res\":{res_json},\"cleaned\":{cleaned},\"len\":{},\"snap\":[{}]}}", st.len(), snap_s.join(",")));
        }
        if let Some(msg) = panicked {
            println!("{{\"mode\":\"panic\",\"cfg\":{},\"ordered\":{ordered},\"msg\":{:?},\"ops\":[{}]}}", cfg.json(), msg, ops_json.join(","));
            continue;
        }
        let snap0_s: Vec<String> = snap0.iter().map(|x| x.to_string()).collect();
        println!("{{\"cfg\":{},\"snap0\":[{}],\"ordered\":{ordered},\"cleanups\":{n_cleanups},\"oracle\":\"{oracle}\",\"steps\":[{out}]}}",
            cfg.json(), snap0_s.join(","));
    }
}
