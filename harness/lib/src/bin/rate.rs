//! C18 correspondence: calls the real Rate constructors and prints one JSON line per case.
//!   {"k":"gen","count":c,"period":p,"ns":"<as_nanos>","oracle":"ok|bad:<why>|na"}
//!   {"k":"unit","unit":0..3,"n":n,"ns":"<as_nanos>"|null,"oracle":...}
use std::panic::catch_unwind;
use tcv_lib::*;
use throttlecrab::Rate;

fn gen_case(count: i64, period: i64) {
    let r = catch_unwind(|| Rate::from_count_and_period(count, period).period().as_nanos());
    let (ns, oracle) = match r {
        Err(_) => ("null".to_string(), "bad:panic".to_string()),
        Ok(ns) => {
            let oracle = if count <= 0 || period <= 0 {
                if ns == (u64::MAX as u128) * 1_000_000_000 { "ok".into() } else { "bad:invalid-args-not-blocking".to_string() }
            } else if period <= 9_000_000 && (count as u128) <= (period as u128) * 1_000_000_000 {
                // property domain: E*count <= period*1e9 < (E+1)*count
                let p = (period as u128) * 1_000_000_000;
                let c = count as u128;
                if ns * c <= p && p < (ns + 1) * c { "ok".into() } else { format!("bad:bracket E={ns}") }
            } else {
                "na".into()
            };
            (format!("\"{ns}\""), oracle)
        }
    };
    println!("{{\"k\":\"gen\",\"count\":{count},\"period\":{period},\"ns\":{ns},\"oracle\":\"{oracle}\"}}");
}

fn unit_case(unit: usize, n: u64) {
    let secs = [1i64, 60, 3600, 86400][unit];
    let r = catch_unwind(|| match unit {
        0 => Rate::per_second(n),
        1 => Rate::per_minute(n),
        2 => Rate::per_hour(n),
        _ => Rate::per_day(n),
    }.period().as_nanos());
    let in_dom = n >= 1 && n <= u32::MAX as u64;
    let (ns, oracle) = match r {
        Err(_) => ("null".to_string(), if in_dom { "bad:panic".to_string() } else { "na".into() }),
        Ok(ns) => {
            let oracle = if in_dom {
                let g = catch_unwind(|| Rate::from_count_and_period(n as i64, secs).period().as_nanos());
                match g {
                    Ok(g) if g == ns => "ok".to_string(),
                    Ok(g) => format!("bad:unit {ns} vs general {g}"),
                    Err(_) => "bad:panic".into(),
                }
            } else { "na".into() };
            (format!("\"{ns}\""), oracle)
        }
    };
    println!("{{\"k\":\"unit\",\"unit\":{unit},\"n\":{n},\"ns\":{ns},\"oracle\":\"{oracle}\"}}");
}

fn main() {
    quiet_panics();
    let seed = arg_u64("--seed", 1);
    let n_random = arg_u64("--random", 2000);
    let mut rng = Rng::new(seed);

    // boundary lattice
    let periods: Vec<i64> = vec![1, 2, 3, 59, 60, 61, 3599, 3600, 86400, 1_000_000, 8_999_999, 9_000_000];
    for &p in &periods {
        let pe = (p as i128) * 1_000_000_000;
        let mut counts: Vec<i128> = vec![1, 2, 3, 7, 10, 99, 100, 101, 1000, 999_999_999, 1_000_000_000, 1_000_000_001,
            (1 << 31) - 1, 1 << 31, (1 << 32) - 1, 1 << 32, (1 << 32) + 1, pe - 1, pe, pe / 2, pe / 2 + 1, pe / 3, pe / 3 + 1, pe / 7];
        // divisors and near-divisors of period*1e9
        for d in [2i128, 3, 4, 5, 6, 8, 9, 10, 16, 25, 125, 1024, 15625, 1_953_125] {
            if pe % d == 0 { counts.push(d); counts.push(pe / d); counts.push(pe / d - 1); counts.push(pe / d + 1); }
        }
        for c in counts {
            if c >= 1 && c <= pe { gen_case(c as i64, p); }
        }
    }
    // invalid arguments
    for &c in &[0i64, -1, i64::MIN, 1, 5, i64::MAX] {
        for &p in &[0i64, -1, i64::MIN, 1, 60, i64::MAX] {
            if c <= 0 || p <= 0 { gen_case(c, p); }
        }
    }
    // outside the property's domain but inside the model's: huge values, rounding of i64 -> f64
    for &c in &[1i64, 3, (1 << 53) - 1, 1 << 53, (1 << 53) + 1, i64::MAX - 1, i64::MAX, 9_007_199_254_740_993] {
        for &p in &[9_000_001i64, 9_007_199, 9_007_200, 1 << 31, 1 << 32, (1 << 53) + 1, 9_223_372_036, 9_223_372_037, i64::MAX / 2, i64::MAX] {
            gen_case(c, p);
        }
    }
    // random points in the domain: mixture of small counts, near-divisors and uniform
    for _ in 0..n_random {
        let p = match rng.below(4) {
            0 => *rng.pick(&[1i64, 60, 3600, 86400]),
            1 => rng.range(1, 100),
            _ => rng.range(1, 9_000_000),
        };
        let pe = (p as i128) * 1_000_000_000;
        let c: i128 = match rng.below(5) {
            0 => rng.range(1, 1000) as i128,
            1 => { let d = rng.range(1, 1_000_000) as i128; (pe / d + rng.range(-1, 1) as i128).max(1) }
            2 => { let e = rng.range(1, 100_000) as i128; (pe / e + rng.range(-2, 2) as i128).max(1) }
            3 => (rng.next() as i128 % pe).max(1),
            _ => 1i128 << rng.below(53),
        };
        let c = c.min(pe).max(1);
        gen_case(c as i64, p);
    }
    // unit constructors
    let ns: Vec<u64> = vec![0, 1, 2, 3, 7, 9, 10, 60, 100, 999, 1000, 1001, 86400, 86401, 999_999_999, 1_000_000_000, 1_000_000_001,
        (1 << 31) - 1, 1 << 31, (1 << 32) - 2, (1 << 32) - 1, 1 << 32, (1 << 32) + 1, (1 << 32) + 7, u64::MAX];
    for unit in 0..4 {
        for &n in &ns { unit_case(unit, n); }
        for _ in 0..(n_random / 8) {
            let n = match rng.below(3) { 0 => rng.range(1, 100_000) as u64, 1 => rng.range(1, u32::MAX as i64) as u64, _ => 1u64 << rng.below(32) };
            unit_case(unit, n);
        }
    }
}
