//! Uniform access to the three real stores, with the verification hooks.
use std::time::{Duration, SystemTime, UNIX_EPOCH};
use throttlecrab::{AdaptiveStore, PeriodicStore, ProbabilisticStore, Store};

#[derive(Clone, Debug)]
pub enum Cfg {
    Periodic { capacity: usize, interval_ns: u64 },
    Adaptive { capacity: usize, min_ns: u64, max_ns: u64, max_ops: usize },
    Probabilistic { capacity: usize, prob: u64 },
}

pub enum AnyStore {
    P(PeriodicStore),
    A(AdaptiveStore),
    B(ProbabilisticStore),
}

pub fn ns_to_time(ns: i128) -> SystemTime {
    if ns >= 0 {
        UNIX_EPOCH + Duration::new((ns / 1_000_000_000) as u64, (ns % 1_000_000_000) as u32)
    } else {
        let m = -ns;
        UNIX_EPOCH - Duration::new((m / 1_000_000_000) as u64, (m % 1_000_000_000) as u32)
    }
}

pub fn time_to_ns(t: SystemTime) -> i128 {
    match t.duration_since(UNIX_EPOCH) {
        Ok(d) => d.as_nanos() as i128,
        Err(e) => -(e.duration().as_nanos() as i128),
    }
}

impl Cfg {
    pub fn build(&self) -> AnyStore {
        match *self {
            Cfg::Periodic { capacity, interval_ns } => AnyStore::P(
                PeriodicStore::builder().capacity(capacity).cleanup_interval(Duration::from_nanos(interval_ns)).build(),
            ),
            Cfg::Adaptive { capacity, min_ns, max_ns, max_ops } => AnyStore::A(
                AdaptiveStore::builder()
                    .capacity(capacity)
                    .min_interval(Duration::from_nanos(min_ns))
                    .max_interval(Duration::from_nanos(max_ns))
                    .max_operations(max_ops)
                    .build(),
            ),
            Cfg::Probabilistic { capacity, prob } => {
                AnyStore::B(ProbabilisticStore::builder().capacity(capacity).cleanup_probability(prob).build())
            }
        }
    }
    pub fn kind(&self) -> &'static str {
        match self {
            Cfg::Periodic { .. } => "per",
            Cfg::Adaptive { .. } => "ada",
            Cfg::Probabilistic { .. } => "pro",
        }
    }
    /// JSON: kind-specific parameters (capacity is not part of the model)
    pub fn json(&self) -> String {
        match *self {
            Cfg::Periodic { capacity, interval_ns } => format!("{{\"kind\":\"per\",\"capacity\":{capacity},\"interval\":{interval_ns}}}"),
            Cfg::Adaptive { capacity, min_ns, max_ns, max_ops } => {
                format!("{{\"kind\":\"ada\",\"capacity\":{capacity},\"min\":{min_ns},\"max\":{max_ns},\"maxops\":{max_ops}}}")
            }
            Cfg::Probabilistic { capacity, prob } => format!("{{\"kind\":\"pro\",\"capacity\":{capacity},\"prob\":{prob}}}"),
        }
    }
}

impl AnyStore {
    pub fn kind_name(&self) -> &'static str { match self { AnyStore::P(_) => "periodic", AnyStore::A(_) => "adaptive", AnyStore::B(_) => "probabilistic" } }
    pub fn len(&self) -> usize {
        match self {
            AnyStore::P(s) => s.verif_len(),
            AnyStore::A(s) => s.verif_len(),
            AnyStore::B(s) => s.verif_len(),
        }
    }
    pub fn cleanups(&self) -> u64 {
        match self {
            AnyStore::P(s) => s.verif_cleanups(),
            AnyStore::A(s) => s.verif_cleanups(),
            AnyStore::B(s) => s.verif_cleanups(),
        }
    }
    pub fn snapshot(&self) -> Vec<i128> {
        match self {
            AnyStore::P(s) => s.verif_snapshot(),
            AnyStore::A(s) => s.verif_snapshot(),
            AnyStore::B(s) => s.verif_snapshot(),
        }
    }
}

impl Store for AnyStore {
    fn compare_and_swap_with_ttl(&mut self, key: &str, old: i64, new: i64, ttl: Duration, now: SystemTime) -> Result<bool, String> {
        match self {
            AnyStore::P(s) => s.compare_and_swap_with_ttl(key, old, new, ttl, now),
            AnyStore::A(s) => s.compare_and_swap_with_ttl(key, old, new, ttl, now),
            AnyStore::B(s) => s.compare_and_swap_with_ttl(key, old, new, ttl, now),
        }
    }
    fn get(&self, key: &str, now: SystemTime) -> Result<Option<i64>, String> {
        match self {
            AnyStore::P(s) => s.get(key, now),
            AnyStore::A(s) => s.get(key, now),
            AnyStore::B(s) => s.get(key, now),
        }
    }
    fn set_if_not_exists_with_ttl(&mut self, key: &str, value: i64, ttl: Duration, now: SystemTime) -> Result<bool, String> {
        match self {
            AnyStore::P(s) => s.set_if_not_exists_with_ttl(key, value, ttl, now),
            AnyStore::A(s) => s.set_if_not_exists_with_ttl(key, value, ttl, now),
            AnyStore::B(s) => s.set_if_not_exists_with_ttl(key, value, ttl, now),
        }
    }
}

/// Pool of key strings: id -> string, distinct by exact bytes (empty, long, non-ASCII, one byte apart).
pub fn key_string(id: u64) -> String {
    match id {
        0 => String::new(),
        1 => "a".to_string(),
        2 => "b".to_string(),
        3 => "a ".to_string(),
        4 => "A".to_string(),
        5 => "ключ".to_string(),
        6 => "ключ\u{0301}".to_string(),
        7 => "k\0".to_string(),
        8 => "k".to_string(),
        9 => "\u{1F980}".to_string(),
        10 => "x".repeat(65536),
        11 => { let mut s = "x".repeat(65535); s.push('y'); s }
        12 => "user:123".to_string(),
        13 => "user:124".to_string(),
        14 => "\r\n".to_string(),
        15 => "e\u{301}".to_string(),
        16 => "\u{e9}".to_string(),
        // keys that differ only by trailing / only consist of NUL bytes (zero-padding hashers alias them with 8, 7 and 0)
        17 => "\0".repeat(12),
        18 => "k\0\0\0\0\0\0\0".to_string(),
        n => format!("key:{n}"),
    }
}

pub fn random_cfg(rng: &mut crate::Rng, kind: u64) -> Cfg {
    let capacity = *rng.pick(&[0usize, 1, 4, 16, 1000]);
    match kind % 3 {
        0 => Cfg::Periodic {
            capacity,
            interval_ns: *rng.pick(&[0u64, 1, 1000, 1_000_000_000, 60_000_000_000, 1u64 << 62]),
        },
        1 => Cfg::Adaptive {
            capacity,
            min_ns: *rng.pick(&[0u64, 1, 1_000_000, 1_000_000_000, 5_000_000_000, 400_000_000_000]),
            max_ns: *rng.pick(&[0u64, 1, 1_000_000_000, 5_000_000_000, 300_000_000_000, 1u64 << 62]),
            max_ops: *rng.pick(&[0usize, 1, 2, 3, 10, 1000, 100_000]),
        },
        _ => Cfg::Probabilistic {
            capacity,
            prob: *rng.pick(&[0u64, 1, 2, 3, 7, 10, 1000, 1u64 << 32, 2654435761, u64::MAX]),
        },
    }
}
