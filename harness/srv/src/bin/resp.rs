//! C13/C14 correspondence: the real RespParser / RespSerializer on generated inputs.
//! modes: enum (all strings up to a length over the protocol alphabet, compact codes),
//!        frames (generated values: serialize, parse, mutate, split), sessions (one parser
//!        instance fed a sequence of buffers)
use std::panic::{catch_unwind, AssertUnwindSafe};
use tcv_srv::*;
use throttlecrab_server::transport::redis::resp::{RespParser, RespSerializer, RespValue};

const ALPHABET: [u8; 14] = [b'+', b'-', b':', b'$', b'*', b'0', b'1', b'9', b'\r', b'\n', b'a', 0xC3, 0xA9, 0xFF];

/// outcome JSON: {"ok":[value,consumed]} | "more" | "err" | "panic"
fn outcome_json(p: &mut RespParser, data: &[u8]) -> String {
    let r = catch_unwind(AssertUnwindSafe(|| p.parse(data)));
    match r {
        Err(_) => "\"panic\"".to_string(),
        Ok(Err(_)) => "\"err\"".to_string(),
        Ok(Ok(None)) => "\"more\"".to_string(),
        Ok(Ok(Some((v, c)))) => format!("{{\"ok\":[{},{}]}}", value_json(&v), c),
    }
}

fn mode_enum(maxlen: usize) {
    // canonical order: by length, then lexicographic in alphabet index (last position fastest)
    for len in 0..=maxlen {
        let total = ALPHABET.len().pow(len as u32);
        let mut line = String::with_capacity(total + 16);
        let mut oks: Vec<String> = Vec::new();
        for idx in 0..total {
            let mut data = vec![0u8; len];
            let mut x = idx;
            for pos in (0..len).rev() { data[pos] = ALPHABET[x % ALPHABET.len()]; x /= ALPHABET.len(); }
            let mut p = RespParser::new();
            let r = catch_unwind(AssertUnwindSafe(|| p.parse(&data)));
            match r {
                Err(_) => line.push('P'),
                Ok(Err(_)) => line.push('E'),
                Ok(Ok(None)) => line.push('M'),
                Ok(Ok(Some((v, c)))) => { line.push('O'); oks.push(format!("[{},{},{}]", idx, value_json(&v), c)); }
            }
        }
        println!("{{\"mode\":\"enum\",\"len\":{len},\"codes\":\"{line}\",\"oks\":[{}]}}", oks.join(","));
    }
}

fn gen_string(rng: &mut Rng, allow_crlf: bool) -> String {
    let n = match rng.below(6) { 0 => 0, 1 => 1, 2 => 2, 3 => rng.below(8), 4 => rng.below(40), _ => rng.below(300) } as usize;
    let mut s = String::new();
    for _ in 0..n {
        let c = match rng.below(12) {
            0 => if allow_crlf { '\r' } else { 'r' },
            1 => if allow_crlf { '\n' } else { 'n' },
            2 => '\u{e9}',
            3 => '\u{1F980}',
            4 => '\0',
            5 => ' ',
            6 => '\'',
            7 => '$',
            8 => '*',
            _ => (b'a' + rng.below(26) as u8) as char,
        };
        s.push(c);
    }
    s
}

fn gen_value(rng: &mut Rng, depth: u32, crlf_in_lines: bool) -> RespValue {
    let k = if depth == 0 { rng.below(5) } else { rng.below(7) };
    match k {
        0 => RespValue::SimpleString(gen_string(rng, crlf_in_lines)),
        1 => RespValue::Error(gen_string(rng, crlf_in_lines)),
        2 => RespValue::Integer(*rng.pick(&[0i64, 1, -1, 42, i64::MAX, i64::MIN, 1_000_000_007, -9_999])),
        3 => RespValue::BulkString(Some(gen_string(rng, true))),
        4 => RespValue::BulkString(None),
        _ => {
            let n = match rng.below(5) { 0 => 0, 1 => 1, 2 => 2, _ => rng.below(6) } as usize;
            RespValue::Array((0..n).map(|_| gen_value(rng, depth - 1, crlf_in_lines)).collect())
        }
    }
}

fn nest(v: RespValue, levels: usize) -> RespValue {
    let mut v = v;
    for _ in 0..levels { v = RespValue::Array(vec![v]); }
    v
}

/// number of nested array levels
fn adepth(v: &RespValue) -> usize {
    match v { RespValue::Array(l) => 1 + l.iter().map(adepth).max().unwrap_or(0), _ => 0 }
}

fn mode_frames(rng: &mut Rng, n: u64) {
    let max_depth = arg_u64("--max-depth", 128) as usize;
    // fixed edge values first, whatever the seed: the smallest frames of every kind, arrays of minimal elements, the limits
    let edge: Vec<RespValue> = {
        use RespValue::*;
        let ss = |s: &str| SimpleString(s.to_string());
        let mut e = vec![ss(""), Error(String::new()), Integer(0), Integer(-1), Integer(i64::MIN), Integer(i64::MAX), BulkString(None), BulkString(Some(String::new())),
                         BulkString(Some("\r\n".into())), Array(vec![]), Array(vec![Array(vec![])]),
                         Array(vec![ss("")]), Array(vec![Error(String::new())]), Array(vec![ss(""), ss("")]), Array(vec![ss(""), Error(String::new()), ss("")]),
                         Array((0..7).map(|_| ss("")).collect()), Array(vec![BulkString(None)]), Array(vec![BulkString(Some(String::new()))]), Array(vec![Integer(0)]),
                         Array(vec![Array(vec![ss("")]), ss("")]), Array(vec![BulkString(Some("PING".into())), Array(vec![ss("")])])];
        for d in [1usize, 2, 126, 127, 128, 129] { e.push(nest(Integer(42), d)); e.push(nest(ss(""), d)); e.push(nest(Array(vec![]), d)); }
        e
    };
    for i in 0..n {
        // 1 in 6 values carries CR/LF inside simple strings / errors (not round-trippable; still compared with the model)
        let fixed = (i as usize) < edge.len();
        let crlf_lines = !fixed && rng.chance(1, 6);
        let mut v = if fixed { edge[i as usize].clone() } else { gen_value(rng, 4, crlf_lines) };
        // deep nesting around the limit
        if !fixed && rng.chance(1, 8) { v = nest(v, *rng.pick(&[120usize, 126, 127, 128, 129, 200])); }
        let enc = RespSerializer::serialize(&v);
        let rest_len = if fixed { 0 } else { rng.below(4) as usize };
        let mut buf = enc.clone();
        for _ in 0..rest_len { buf.push(*rng.pick(&ALPHABET)); }
        let mut p = RespParser::new();
        let full = outcome_json(&mut p, &buf);
        // property oracle (C14): for a round-trippable value the decode gives the value back and consumes exactly the encoding
        let mut oracle = "na".to_string();
        let mut p2 = RespParser::new();
        let back = catch_unwind(AssertUnwindSafe(|| p2.parse(&buf)));
        if !crlf_lines {
            oracle = match &back {
                Ok(Ok(Some((v2, c)))) if *v2 == v && *c == enc.len() => "ok".into(),
                Ok(Err(e)) if adepth(&v) <= max_depth => format!("bad:a well-formed value with {} nested array levels (limit {max_depth}) is encoded but its encoding is refused by the decoder: {e}", adepth(&v)),
                Ok(Err(_)) => "deep".into(), // beyond the nesting limit
                other => format!("bad:decode of encode gave {:?}", other.as_ref().map(|r| r.as_ref().map(|o| o.as_ref().map(|(_, c)| *c)).map_err(|e| e.to_string()))),
            };
        }
        // every strict prefix of the encoding needs more data; every split gives the same result
        let mut prefix_bad = String::new();
        let step = if enc.len() > 400 { enc.len() / 97 + 1 } else { 1 };
        let mut cut = 0;
        while cut < enc.len() {
            let mut p3 = RespParser::new();
            match catch_unwind(AssertUnwindSafe(|| p3.parse(&enc[..cut]))) {
                Ok(Ok(None)) => {}
                Ok(Err(_)) if oracle == "deep" => {}
                other => { if oracle == "ok" && prefix_bad.is_empty() { prefix_bad = format!("bad:strict prefix of length {cut} gave {:?}", other.map(|r| r.map(|o| o.map(|(_, c)| c)).map_err(|e| e.to_string()))); } }
            }
            cut += step;
        }
        if !prefix_bad.is_empty() { oracle = prefix_bad; }
        // a mutation of the frame, compared with the model only
        let mut m = buf.clone();
        if !m.is_empty() {
            let pos = rng.below(m.len() as u64) as usize;
            match rng.below(3) { 0 => { m[pos] = *rng.pick(&ALPHABET); } 1 => { m.remove(pos); } _ => { m.insert(pos, *rng.pick(&ALPHABET)); } }
        }
        let mut p4 = RespParser::new();
        let mutated = outcome_json(&mut p4, &m);
        println!("{{\"mode\":\"frame\",\"i\":{i},\"value\":{},\"enc\":{},\"buf\":{},\"out\":{},\"mut\":{},\"mut_out\":{},\"oracle\":{:?}}}",
            value_json(&v), bytes_json(&enc), bytes_json(&buf), full, bytes_json(&m), mutated, oracle);
    }
}

fn hostile(rng: &mut Rng) -> Vec<u8> {
    match rng.below(10) {
        0 => b"$536870913\r\n".to_vec(),
        1 => b"$536870912\r\nab".to_vec(),
        2 => b"*1048577\r\n".to_vec(),
        3 => b"*1048576\r\n:1\r\n".to_vec(),
        4 => b"$-2\r\n".to_vec(),
        5 => b"*-1\r\n".to_vec(),
        6 => b"$9223372036854775808\r\n".to_vec(),
        7 => { let mut v = Vec::new(); for _ in 0..rng.range(120, 135) { v.extend_from_slice(b"*1\r\n"); } v.extend_from_slice(b":1\r\n"); v }
        8 => b":+5\r\n:-0\r\n:00012\r\n".to_vec(),
        _ => { let mut v = Vec::new(); for _ in 0..rng.below(12) { v.push(*rng.pick(&ALPHABET)); } v }
    }
}

/// one parser instance fed a sequence of buffers (depth leaks across calls would show here)
fn mode_sessions(rng: &mut Rng, n: u64) {
    for i in 0..n {
        let mut p = RespParser::new();
        let k = rng.range(1, 6);
        let mut items: Vec<String> = Vec::new();
        for _ in 0..k {
            let data = match rng.below(4) {
                0 => hostile(rng),
                1 => { let v = gen_value(rng, 3, false); let e = RespSerializer::serialize(&v); let cut = rng.below(e.len() as u64 + 1) as usize; e[..cut].to_vec() }
                2 => { let v = nest(RespValue::Integer(1), *rng.pick(&[1usize, 3, 127, 128])); let e = RespSerializer::serialize(&v); let cut = rng.below(e.len() as u64 + 1) as usize; e[..cut].to_vec() }
                _ => RespSerializer::serialize(&gen_value(rng, 3, false)),
            };
            let out = outcome_json(&mut p, &data);
            items.push(format!("{{\"buf\":{},\"out\":{}}}", bytes_json(&data), out));
        }
        println!("{{\"mode\":\"session\",\"i\":{i},\"steps\":[{}]}}", items.join(","));
    }
}

fn main() {
    quiet_panics();
    let seed = arg_u64("--seed", 1);
    let mode = arg_value("--mode").unwrap_or_else(|| "frames".into());
    let mut rng = Rng::new(seed ^ 0x4e59);
    match mode.as_str() {
        "enum" => mode_enum(arg_u64("--maxlen", 4) as usize),
        "frames" => mode_frames(&mut rng, arg_u64("--cases", 300)),
        "sessions" => mode_sessions(&mut rng, arg_u64("--cases", 300)),
        _ => std::process::exit(2),
    }
}
