//! C09 / C10 / C11 correspondence: the real actor loop (hook H2: unspawned future) and real
//! RateLimiterHandle::throttle futures polled by a deterministic scheduler with a no-op waker.
//! Every schedule: all poll orders of length D over {client 0..k-1, actor, cancel i} (exhaustive
//! DFS for small k, D; PRNG-sampled otherwise), then a fair round-robin drain.  Checked on the
//! implementation: termination (no deadlock), exactly one answer per non-abandoned request, and
//! linearizability - some interleaving of the clients' programs (respecting program order and
//! real-time precedence) replayed on ONE fresh sequential limiter gives exactly the answers seen.
use std::future::Future;
use std::pin::Pin;
use std::sync::Arc;
use std::task::{Context, Poll, RawWaker, RawWakerVTable, Waker};
use std::time::{Duration, UNIX_EPOCH};
use tcv_srv::*;
use throttlecrab::{AdaptiveStore, PeriodicStore, ProbabilisticStore, RateLimiter};
use throttlecrab_server::actor::{RateLimiterActor, RateLimiterHandle};
use throttlecrab_server::metrics::Metrics;
use throttlecrab_server::types::{ThrottleRequest, ThrottleResponse};

fn noop_waker() -> Waker {
    fn clone(_: *const ()) -> RawWaker { RawWaker::new(std::ptr::null(), &VTABLE) }
    fn noop(_: *const ()) {}
    static VTABLE: RawWakerVTable = RawWakerVTable::new(clone, noop, noop, noop);
    unsafe { Waker::from_raw(RawWaker::new(std::ptr::null(), &VTABLE)) }
}

#[derive(Clone, Debug)]
struct Rq { key: u64, b: i64, count: i64, period: i64, q: i64, now_ns: u64 }
impl Rq {
    fn to_req(&self) -> ThrottleRequest {
        ThrottleRequest { key: format!("k{}", self.key), max_burst: self.b, count_per_period: self.count, period: self.period, quantity: self.q,
            timestamp: UNIX_EPOCH + Duration::from_nanos(self.now_ns) }
    }
    fn json(&self) -> String { format!("[{},{},{},{},{},{}]", self.key, self.b, self.count, self.period, self.q, self.now_ns) }
}

#[derive(Clone, Debug, PartialEq)]
enum Ans { Ok(bool, i64, i64, i64, i64), Err(String) }
impl Ans {
    fn from(r: &anyhow::Result<ThrottleResponse>) -> Ans {
        match r { Ok(t) => Ans::Ok(t.allowed, t.limit, t.remaining, t.reset_after, t.retry_after), Err(e) => Ans::Err(e.to_string()) }
    }
    fn json(&self) -> String {
        match self {
            Ans::Ok(a, l, r, rs, rt) => format!("{{\"a\":{a},\"lim\":{l},\"rem\":{r},\"reset\":{rs},\"retry\":{rt}}}"),
            Ans::Err(m) => {
                let kind = if m.contains("negative quantity") { "neg" } else if m.contains("invalid rate limit") { "invalid" } else if m.contains("shut down") || m.contains("dropped response") { "dead" } else { "internal" };
                format!("{{\"err\":\"{kind}\"}}")
            }
        }
    }
}

type Fut = Pin<Box<dyn Future<Output = anyhow::Result<ThrottleResponse>>>>;

struct Client { prog: Vec<Rq>, next: usize, cur: Option<Fut>, first_poll_step: Vec<Option<usize>>, done_step: Vec<Option<usize>>, answers: Vec<Option<Ans>>, cancelled: Vec<bool> }

#[derive(Clone, Copy, Debug)]
enum StoreKind { Per, Ada, Pro }

fn per(clean: bool) -> PeriodicStore { PeriodicStore::builder().capacity(16).cleanup_interval(if clean { Duration::from_nanos(1) } else { Duration::from_secs(1_000_000_000) }).build() }
fn ada(clean: bool) -> AdaptiveStore { if clean { AdaptiveStore::builder().capacity(16).max_operations(1).build() } else { AdaptiveStore::builder().capacity(16).max_operations(usize::MAX).min_interval(Duration::from_secs(1_000_000_000)).max_interval(Duration::from_secs(2_000_000_000)).build() } }
fn pro(clean: bool) -> ProbabilisticStore { ProbabilisticStore::builder().capacity(16).cleanup_probability(if clean { 1 } else { 1 << 40 }).build() }
fn make(kind: StoreKind, cap: usize, clean: bool) -> (RateLimiterHandle, Pin<Box<dyn Future<Output = ()>>>) {
    let m = Arc::new(Metrics::builder().max_denied_keys(0).build());
    match kind {
        StoreKind::Per => { let (h, f) = RateLimiterActor::verif_unspawned_periodic(cap, per(clean), m); (h, Box::pin(f)) }
        StoreKind::Ada => { let (h, f) = RateLimiterActor::verif_unspawned_adaptive(cap, ada(clean), m); (h, Box::pin(f)) }
        StoreKind::Pro => { let (h, f) = RateLimiterActor::verif_unspawned_probabilistic(cap, pro(clean), m); (h, Box::pin(f)) }
    }
}

fn seq_answers(kind: StoreKind, clean: bool, order: &[&Rq]) -> Vec<Ans> {
    // ONE fresh sequential limiter of the same store type
    let run = |rl: &mut dyn FnMut(&Rq) -> Ans| order.iter().map(|r| rl(r)).collect::<Vec<_>>();
    let conv = |res: Result<(bool, throttlecrab::RateLimitResult), throttlecrab::CellError>| -> Ans {
        match res {
            Ok((a, r)) => Ans::Ok(a, r.limit, r.remaining, r.reset_after.as_secs() as i64, r.retry_after.as_secs() as i64),
            Err(e) => Ans::Err(format!("Rate limit check failed: {e}")),
        }
    };
    match kind {
        StoreKind::Per => { let mut l = RateLimiter::new(per(clean));
            run(&mut |r| conv(l.rate_limit(&format!("k{}", r.key), r.b, r.count, r.period, r.q, UNIX_EPOCH + Duration::from_nanos(r.now_ns)))) }
        StoreKind::Ada => { let mut l = RateLimiter::new(ada(clean));
            run(&mut |r| conv(l.rate_limit(&format!("k{}", r.key), r.b, r.count, r.period, r.q, UNIX_EPOCH + Duration::from_nanos(r.now_ns)))) }
        StoreKind::Pro => { let mut l = RateLimiter::new(pro(clean));
            run(&mut |r| conv(l.rate_limit(&format!("k{}", r.key), r.b, r.count, r.period, r.q, UNIX_EPOCH + Duration::from_nanos(r.now_ns)))) }
    }
}

struct Outcome { progs_all: Vec<Vec<Rq>>, dequeued: usize, ok_without_cancel: Option<bool>, ok: bool, what: String, order: Vec<(usize, usize)>, answers: Vec<Vec<Option<Ans>>>, cancelled: Vec<Vec<bool>>, steps: usize }

/// actions: 0..k-1 poll client i; k poll actor; k+1+i cancel client i's pending request
fn run_schedule(kind: StoreKind, cap: usize, clean: bool, progs: &[Vec<Rq>], schedule: &[usize]) -> Outcome {
    let k = progs.len();
    throttlecrab_server::actor::VERIF_DEQUEUED.store(0, std::sync::atomic::Ordering::SeqCst);
    let (handle, mut actor) = make(kind, cap, clean);
    let waker = noop_waker();
    let mut cx = Context::from_waker(&waker);
    let mut cl: Vec<Client> = progs.iter().map(|p| Client { prog: p.clone(), next: 0, cur: None, first_poll_step: vec![None; p.len()], done_step: vec![None; p.len()], answers: vec![None; p.len()], cancelled: vec![false; p.len()] }).collect();
    let mut step = 0usize;
    let mut actor_done = false;
    let mut panicked = false;
    let poll_client = |c: &mut Client, step: usize, cx: &mut Context, handle: &RateLimiterHandle| {
        if c.next >= c.prog.len() { return; }
        if c.cur.is_none() {
            let h = handle.clone();
            let rq = c.prog[c.next].to_req();
            c.cur = Some(Box::pin(async move { h.throttle(rq).await }));
            c.first_poll_step[c.next] = Some(step);
        }
        if let Poll::Ready(r) = c.cur.as_mut().unwrap().as_mut().poll(cx) {
            c.answers[c.next] = Some(Ans::from(&r));
            c.done_step[c.next] = Some(step);
            c.cur = None;
            c.next += 1;
        }
    };
    for &a in schedule {
        step += 1;
        // stall action: nothing is scheduled for STALL_MS of real time (a starved limiter task / a deep backlog)
        if a == usize::MAX { std::thread::sleep(Duration::from_millis(STALL_MS.load(std::sync::atomic::Ordering::SeqCst))); continue; }
        if a < k { poll_client(&mut cl[a], step, &mut cx, &handle); }
        else if a == k { if !actor_done { match std::panic::catch_unwind(std::panic::AssertUnwindSafe(|| actor.as_mut().poll(&mut cx))) { Ok(Poll::Ready(())) => actor_done = true, Ok(Poll::Pending) => {}, Err(_) => { actor_done = true; panicked = true; } } } }
        else {
            let i = a - k - 1;
            let c = &mut cl[i];
            if c.next < c.prog.len() && c.cur.is_some() { c.cur = None; c.cancelled[c.next] = true; c.done_step[c.next] = Some(step); c.next += 1; }
        }
    }
    // fair drain: round-robin until every client is done
    let mut rounds = 0;
    while cl.iter().any(|c| c.next < c.prog.len()) {
        rounds += 1;
        if rounds > 10_000 { return Outcome { progs_all: cl.iter().map(|c| c.prog.clone()).collect(), dequeued: 0, ok_without_cancel: None, ok: false, what: "deadlock: clients still pending after 10000 fair rounds of polling every client and the actor".into(), order: vec![], answers: cl.iter().map(|c| c.answers.clone()).collect(), cancelled: cl.iter().map(|c| c.cancelled.clone()).collect(), steps: step }; }
        for i in 0..k { step += 1; poll_client(&mut cl[i], step, &mut cx, &handle); }
        step += 1;
        if !actor_done { match std::panic::catch_unwind(std::panic::AssertUnwindSafe(|| actor.as_mut().poll(&mut cx))) { Ok(Poll::Ready(())) => actor_done = true, Ok(Poll::Pending) => {}, Err(_) => { actor_done = true; panicked = true; } } }
    }
    if panicked { return Outcome { progs_all: cl.iter().map(|c| c.prog.clone()).collect(), dequeued: 0, ok_without_cancel: None, ok: false, what: "the actor loop panicked while serving a request (C11: one request must not take the service down)".into(), order: vec![], answers: cl.iter().map(|c| c.answers.clone()).collect(), cancelled: cl.iter().map(|c| c.cancelled.clone()).collect(), steps: step }; }
    // drain what abandoned requests left in the queue, then read how many messages the actor took from the queue (hook H2b)
    for _ in 0..3 { if !actor_done { let _ = std::panic::catch_unwind(std::panic::AssertUnwindSafe(|| actor.as_mut().poll(&mut cx))); } }
    let dequeued = throttlecrab_server::actor::VERIF_DEQUEUED.load(std::sync::atomic::Ordering::SeqCst) as usize;
    let answered: usize = cl.iter().map(|c| c.answers.iter().filter(|a| a.is_some()).count()).sum();
    // abandoned requests that had reached the queue: they must be applied (C10: budget accounting of requests already queued)
    let cancelled_in = dequeued.saturating_sub(answered);
    // probes after everything else: one zero-quantity request per key with the limits of the last request on that key
    {
        let mut last: std::collections::BTreeMap<u64, Rq> = std::collections::BTreeMap::new();
        let mut tmax = 0u64;
        for c in cl.iter() { for r in c.prog.iter() { tmax = tmax.max(r.now_ns); if r.b > 0 && r.count > 0 && r.period > 0 { last.insert(r.key, r.clone()); } } }
        let prog: Vec<Rq> = last.values().map(|r| Rq { q: 0, now_ns: tmax, ..r.clone() }).collect();
        let n = prog.len();
        let mut pc = Client { prog, next: 0, cur: None, first_poll_step: vec![None; n], done_step: vec![None; n], answers: vec![None; n], cancelled: vec![false; n] };
        let mut rounds = 0;
        while pc.next < pc.prog.len() && rounds < 1000 {
            rounds += 1; step += 1;
            poll_client(&mut pc, step, &mut cx, &handle);
            if !actor_done { let _ = std::panic::catch_unwind(std::panic::AssertUnwindSafe(|| actor.as_mut().poll(&mut cx))); }
        }
        cl.push(pc);
    }
    // linearizability search over interleavings (program order per client; an abandoned request is in the order iff it reached the queue)
    let answers: Vec<Vec<Option<Ans>>> = cl.iter().map(|c| c.answers.clone()).collect();
    let cancelled: Vec<Vec<bool>> = cl.iter().map(|c| c.cancelled.clone()).collect();
    let mut found: Option<Vec<(usize, usize)>> = None;
    let mut order: Vec<(usize, usize)> = Vec::new();
    fn rec(kind: StoreKind, clean: bool, cancelled_in: usize, cl: &[Client], pos: &mut Vec<usize>, order: &mut Vec<(usize, usize)>, found: &mut Option<Vec<(usize, usize)>>) {
        if found.is_some() { return; }
        if (0..cl.len()).all(|i| pos[i] >= cl[i].prog.len()) {
            if order.iter().filter(|&&(i, j)| cl[i].cancelled[j]).count() != cancelled_in { return; }
            let reqs: Vec<&Rq> = order.iter().map(|&(i, j)| &cl[i].prog[j]).collect();
            let seq = seq_answers(kind, clean, &reqs);
            for (n, &(i, j)) in order.iter().enumerate() {
                if let Some(a) = &cl[i].answers[j] { if *a != seq[n] { return; } }
            }
            *found = Some(order.clone());
            return;
        }
        for i in 0..cl.len() {
            if pos[i] >= cl[i].prog.len() { continue; }
            let j = pos[i];
            // real-time precedence: every request completed before (i, j) was first polled must already be placed
            let mut ok = true;
            if let Some(fp) = cl[i].first_poll_step[j] {
                for i2 in 0..cl.len() { for j2 in pos[i2]..cl[i2].prog.len() {
                    if (i2, j2) != (i, j) && !cl[i2].cancelled[j2] { if let Some(d) = cl[i2].done_step[j2] { if d < fp { ok = false; } } }
                } }
            }
            if !ok { continue; }
            pos[i] += 1;
            order.push((i, j));
            rec(kind, clean, cancelled_in, cl, pos, order, found);
            order.pop();
            // an abandoned request may also never have reached the actor
            if cl[i].cancelled[j] { rec(kind, clean, cancelled_in, cl, pos, order, found); }
            pos[i] -= 1;
            if found.is_some() { return; }
        }
    }
    let mut pos = vec![0usize; cl.len()];
    rec(kind, clean, cancelled_in, &cl, &mut pos, &mut order, &mut found);
    // every non-abandoned request has exactly one answer
    for c in &cl { for j in 0..c.prog.len() { if !c.cancelled[j] && c.answers[j].is_none() { return Outcome { progs_all: cl.iter().map(|c| c.prog.clone()).collect(), dequeued: 0, ok_without_cancel: None, ok: false, what: "a request that was not abandoned has no answer".into(), order: vec![], answers, cancelled, steps: step }; } } }
    match found {
        Some(o) => Outcome { progs_all: cl.iter().map(|c| c.prog.clone()).collect(), dequeued, ok_without_cancel: None, ok: true, what: String::new(), order: o, answers, cancelled, steps: step },
        None => Outcome { progs_all: cl.iter().map(|c| c.prog.clone()).collect(), dequeued: 0, ok_without_cancel: None, ok: false, what: "not linearizable: no interleaving of the clients' programs (program order, real-time precedence) replayed on one sequential limiter gives the observed answers".into(), order: vec![], answers, cancelled, steps: step },
    }
}

/// a failing schedule with abandon actions is re-run without them: is the abandonment what breaks it?
fn run_schedule_x(kind: StoreKind, cap: usize, clean: bool, progs: &[Vec<Rq>], schedule: &[usize]) -> Outcome {
    {
        let p: Vec<String> = progs.iter().map(|c| format!("[{}]", c.iter().map(|r| r.json()).collect::<Vec<_>>().join(","))).collect();
        tcv_srv::watchdog::enter(format!("{{\"store\":\"{:?}\",\"cap\":{cap},\"clean\":{clean},\"progs\":[{}],\"schedule\":{:?}}}", kind, p.join(","), schedule));
    }
    let mut o = run_schedule(kind, cap, clean, progs, schedule);
    tcv_srv::watchdog::leave();
    let k = progs.len();
    if !o.ok && schedule.iter().any(|&a| a > k) {
        let s2: Vec<usize> = schedule.iter().cloned().filter(|&a| a <= k).collect();
        o.ok_without_cancel = Some(run_schedule(kind, cap, clean, progs, &s2).ok);
    }
    o
}

fn gen_progs(rng: &mut Rng, k: usize, per: usize, hostile: bool) -> Vec<Vec<Rq>> {
    let t0: u64 = 1_700_000_000_000_000_000;
    let ordered = rng.chance(2, 3);
    // contention style (2 of 5 program sets): every client sends the SAME request (one key, same limits, quantity 1) with
    // timestamps spread over a few emission intervals - denials next to later-stamped identical requests, full and refilled buckets
    if !hostile && rng.chance(2, 5) {
        let b = *rng.pick(&[1i64, 1, 2]);
        let count = *rng.pick(&[1i64, 1, 10]);
        let step: u64 = if count == 1 { 1_000_000_000 } else { 100_000_000 };
        return (0..k).map(|_| (0..per).map(|_| Rq { key: 0, b, count, period: 1, q: 1, now_ns: t0 + rng.below(4) * step }).collect()).collect();
    }
    (0..k).map(|_| (0..per).map(|j| {
        if hostile && rng.chance(1, 3) {
            Rq { key: rng.below(2), b: *rng.pick(&[i64::MAX, 0, -1, 1 << 32, 2147483647]), count: *rng.pick(&[1i64, i64::MAX, 0]), period: *rng.pick(&[i64::MAX, 1, -5, 9223372036]), q: *rng.pick(&[1i64, -1, i64::MAX, 0]), now_ns: t0 + rng.below(3_000_000_000) }
        } else {
            Rq { key: rng.below(2), b: *rng.pick(&[1i64, 2, 3]), count: *rng.pick(&[1i64, 10]), period: 1, q: *rng.pick(&[1i64, 1, 2, 0]), now_ns: if ordered { t0 + j as u64 * 500_000_000 } else { t0 + rng.below(4) * 500_000_000 } }
        }
    }).collect()).collect()
}

fn emit(kind: StoreKind, cap: usize, clean: bool, progs: &[Vec<Rq>], schedule: &[usize], o: &Outcome) {
    let _ = progs;
    let p: Vec<String> = o.progs_all.iter().map(|c| format!("[{}]", c.iter().map(|r| r.json()).collect::<Vec<_>>().join(","))).collect();
    let ans: Vec<String> = o.answers.iter().map(|c| format!("[{}]", c.iter().map(|a| a.as_ref().map(|x| x.json()).unwrap_or("null".into())).collect::<Vec<_>>().join(","))).collect();
    let ord: Vec<String> = o.order.iter().map(|(i, j)| format!("[{i},{j}]")).collect();
    let sch: Vec<String> = schedule.iter().map(|x| x.to_string()).collect();
    let canc: Vec<String> = o.cancelled.iter().map(|c| format!("[{}]", c.iter().map(|b| b.to_string()).collect::<Vec<_>>().join(","))).collect();
    println!("{{\"store\":\"{:?}\",\"cap\":{cap},\"clean\":{clean},\"progs\":[{}],\"schedule\":[{}],\"dequeued\":{},\"ok\":{},\"ok_without_cancel\":{},\"what\":{:?},\"order\":[{}],\"answers\":[{}],\"cancelled\":[{}],\"steps\":{}}}",
        kind, p.join(","), sch.join(","), o.dequeued, o.ok, o.ok_without_cancel.map(|b| b.to_string()).unwrap_or("null".into()), o.what, ord.join(","), ans.join(","), canc.join(","), o.steps);
}

static STALL_MS: std::sync::atomic::AtomicU64 = std::sync::atomic::AtomicU64::new(1300);

fn main() {
    tcv_srv::watchdog::start(arg_u64("--call-limit-ms", 8000));
    // a runtime context with the time driver, so that code under test that arms a timer (tokio::time::timeout, sleep) works
    // under the explicit scheduler instead of panicking; one worker thread turns the timer wheel in real time
    let rt = tokio::runtime::Builder::new_multi_thread().worker_threads(1).enable_time().build().expect("runtime");
    let _guard = rt.enter();
    let seed = arg_u64("--seed", 1);
    let mode = arg_value("--mode").unwrap_or_else(|| "dfs".into());
    let mut rng = Rng::new(seed ^ 0xac70);
    let emit_every = arg_u64("--emit-every", 500);
    let mut total = 0u64;
    let mut bad = 0u64;
    match mode.as_str() {
        "dfs" => {
            // exhaustive: all schedules of length D over k clients + actor (+ cancel actions)
            let k = arg_u64("--clients", 2) as usize;
            let per = arg_u64("--per", 2) as usize;
            let d = arg_u64("--depth", 7) as usize;
            let with_cancel = arg_u64("--cancel", 0) == 1;
            let nact = if with_cancel { 2 * k + 1 } else { k + 1 };
            for kind in [StoreKind::Per, StoreKind::Ada, StoreKind::Pro] {
                for (cap, clean) in [(1usize, true), (2, false), (2, true), (1, false), (2, false), (8, false)] {
                    let progs = gen_progs(&mut rng, k, per, false);
                    let n = nact.pow(d as u32);
                    for code in 0..n {
                        let mut s = Vec::with_capacity(d);
                        let mut x = code;
                        for _ in 0..d { s.push(x % nact); x /= nact; }
                        let o = run_schedule_x(kind, cap, clean, &progs, &s);
                        total += 1;
                        if !o.ok { bad += 1; if bad <= 5 { emit(kind, cap, clean, &progs, &s, &o); } }
                        else if total % emit_every == 0 { emit(kind, cap, clean, &progs, &s, &o); }
                    }
                }
            }
        }
        "stall" => {
            // a request is queued and then nothing runs for a while (the limiter task starved, or a deep backlog in front of it):
            // the caller must simply keep waiting; once the limiter runs, every request gets the answer of some sequential order
            STALL_MS.store(arg_u64("--stall-ms", 1300), std::sync::atomic::Ordering::SeqCst);
            let t0: u64 = 1_700_000_000_000_000_000;
            for kind in [StoreKind::Per, StoreKind::Ada, StoreKind::Pro] {
                for cap in [1usize, 8] {
                    let progs = vec![vec![Rq { key: 9, b: 1, count: 1, period: 3600, q: 1, now_ns: t0 }],
                                     vec![Rq { key: 9, b: 1, count: 1, period: 3600, q: 1, now_ns: t0 + 1 }]];
                    let s = vec![0usize, usize::MAX, 0, 2, 0, 1, 2, 1];
                    let o = run_schedule(kind, cap, false, &progs, &s);
                    total += 1;
                    if !o.ok { bad += 1; }
                    emit(kind, cap, false, &progs, &s, &o);
                }
            }
        }
        "witness_f10" => {
            // known finding stamp-disorder, the mechanism on the real actor: two unit requests on a fresh key (max_burst 2,
            // one token per hour) stamped 1 microsecond apart and queued in the opposite order of their stamps
            let t0: u64 = 1_700_000_000_000_000_000;
            for kind in [StoreKind::Per, StoreKind::Ada, StoreKind::Pro] {
                let progs = vec![vec![Rq { key: 7, b: 2, count: 1, period: 3600, q: 1, now_ns: t0 + 1000 }], vec![Rq { key: 7, b: 2, count: 1, period: 3600, q: 1, now_ns: t0 }]];
                let s = vec![0usize, 1, 2, 2, 0, 1];
                let o = run_schedule(kind, 2, false, &progs, &s);
                total += 1;
                if !o.ok { bad += 1; }
                emit(kind, 2, false, &progs, &s, &o);
            }
        }
        _ => {
            // sampled schedules: more clients, longer programs, hostile requests (C11), larger capacities
            let n = arg_u64("--cases", 300);
            // fixed hostile programs first, whatever the seed: the request that killed the pinned tree, extreme-but-legal limits used
            // twice on one key (future TAT + saturated retention), counts that truncate to 0 as u32, i64 extremes
            let t0: u64 = 1_700_000_000_000_000_000;
            let nasty: Vec<(i64, i64, i64, i64)> = vec![(i64::MAX, 1, i64::MAX, 1), (10, 1, 2147483647, 1), (2147483647, 1, 9223372036, 1), (5, 4294967296, 1, 1),
                (5, 1 << 62, 1, 1), (i64::MAX, i64::MAX, i64::MAX, i64::MAX), (2, 1, 9223372037, 2), (1, i64::MAX, 1, 1), (4294967297, 3, 7, 4294967296)];
            for (b, count, period, q) in nasty {
                for kind in [StoreKind::Per, StoreKind::Ada, StoreKind::Pro] {
                    let mk = |dt: u64| Rq { key: 0, b, count, period, q, now_ns: t0 + dt };
                    let progs = vec![vec![mk(0), mk(1_000_000_000)], vec![mk(500_000_000), Rq { key: 1, b: 2, count: 1, period: 1, q: 1, now_ns: t0 + 2_000_000_000 }]];
                    let s: Vec<usize> = vec![0, 1, 2, 0, 1, 2, 0, 1, 2];
                    let o = run_schedule_x(kind, 2, false, &progs, &s);
                    total += 1;
                    if !o.ok { bad += 1; }
                    emit(kind, 2, false, &progs, &s, &o);
                }
            }
            for _ in 0..n {
                let k = rng.range(1, arg_u64("--maxclients", 8) as i64) as usize;
                let per = rng.range(1, 3) as usize;
                let kind = *rng.pick(&[StoreKind::Per, StoreKind::Ada, StoreKind::Pro]);
                let cap = *rng.pick(&[1usize, 1, 2, 8]);
                let hostile = rng.chance(1, 2) || arg_u64("--hostile", 0) == 1;
                // keep the linearizability search small: at most 7 requests in total
                let (k, per) = if k * per > 7 { (7 / per, per) } else { (k, per) };
                let k = k.max(1);
                let progs = gen_progs(&mut rng, k, per, hostile);
                let len = rng.range(0, 40) as usize;
                let with_cancel = rng.chance(1, 3);
                let nact = if with_cancel { 2 * k + 1 } else { k + 1 };
                let s: Vec<usize> = (0..len).map(|_| rng.below(nact as u64) as usize).collect();
                let clean = rng.chance(1, 2);
                let o = run_schedule_x(kind, cap, clean, &progs, &s);
                total += 1;
                if !o.ok { bad += 1; }
                emit(kind, cap, clean, &progs, &s, &o);
            }
        }
    }
    println!("{{\"summary\":true,\"schedules\":{total},\"bad\":{bad}}}");
}
