//! RESP connection-level correspondence (C10, C13, C14, C15-RESP): a real RedisTransport +
//! limiter actor in this process, real TCP connections fed pipelined command streams in chosen
//! chunkings; records the reply byte stream and the metrics deltas of every connection.
use std::io::{Read, Write};
use std::net::{TcpListener, TcpStream};
use std::sync::Arc;
use std::sync::atomic::Ordering;
use std::time::Duration;
use tcv_srv::*;
use throttlecrab::PeriodicStore;
use throttlecrab_server::actor::RateLimiterActor;
use throttlecrab_server::metrics::Metrics;
use throttlecrab_server::transport::Transport;
use throttlecrab_server::transport::redis::RedisTransport;

fn free_port() -> u16 {
    let l = TcpListener::bind("127.0.0.1:0").unwrap();
    l.local_addr().unwrap().port()
}

fn bulk(s: &[u8]) -> Vec<u8> {
    let mut v = format!("${}\r\n", s.len()).into_bytes();
    v.extend_from_slice(s);
    v.extend_from_slice(b"\r\n");
    v
}
fn array(items: &[Vec<u8>]) -> Vec<u8> {
    let mut v = format!("*{}\r\n", items.len()).into_bytes();
    for i in items { v.extend_from_slice(i); }
    v
}
fn int(n: i64) -> Vec<u8> { format!(":{n}\r\n").into_bytes() }

fn rand_name(rng: &mut Rng) -> Vec<u8> {
    if rng.chance(1, 5) {
        return match rng.below(4) { 0 => b"X\r\n+OK".to_vec(), 1 => b"a\r\n".to_vec(), 2 => b"\r\n:1".to_vec(), _ => b"get\r\n$-1".to_vec() };
    }
    let n = rng.below(8) as usize + 1;
    let mut s = String::new();
    for _ in 0..n {
        s.push(match rng.below(14) { 0 => '\r', 1 => '\n', 2 => '\u{e9}', 3 => '\u{131}', 4 => '\'', 5 => ' ', 6 => '\u{df}', _ => (b'a' + rng.below(26) as u8) as char });
    }
    s.into_bytes()
}

/// one command frame; `key_ix` selects the throttle key so that budgets are tracked per key
fn gen_command(rng: &mut Rng, conn_id: u64) -> Vec<u8> {
    let case = |rng: &mut Rng, s: &str| -> Vec<u8> { s.chars().map(|c| if rng.chance(1, 2) { c.to_ascii_lowercase() } else { c.to_ascii_uppercase() }).collect::<String>().into_bytes() };
    match rng.below(20) {
        0 | 1 => array(&[bulk(&case(rng, "ping"))]),
        2 => array(&[bulk(&case(rng, "ping")), bulk(format!("tag{}", rng.below(1000)).as_bytes())]),
        // PING echoes its argument with its type: arguments that look like the server's own replies (+OK of QUIT, +PONG, an error
        // line, a null, a denial array) must be echoed like any other and change nothing else
        3 => array(&[bulk(b"PING"), match rng.below(11) { 0 => bulk(b"a\r\nb"), 1 => int(7), 2 => b"+x\r\n".to_vec(), 3 => array(&[int(0), int(0), int(0), int(0), int(0)]), 4 => array(&[int(1), bulk(b"z")]),
            5 | 6 => b"+OK\r\n".to_vec(), 7 => b"+PONG\r\n".to_vec(), 8 => b"-ERR unknown command 'X'\r\n".to_vec(), 9 => b"$-1\r\n".to_vec(), _ => b"+QUIT\r\n".to_vec() }]),
        4 => array(&[bulk(b"PING"), bulk(b"a"), bulk(b"b")]),
        5 | 6 | 7 | 8 | 9 => {
            // THROTTLE key 3 1 9000000 [q]  (no refill during the run: emission interval 104 days)
            let key = format!("c{}k{}", conn_id, rng.below(3));
            let num = |rng: &mut Rng, n: i64| if rng.chance(1, 2) { bulk(n.to_string().as_bytes()) } else { int(n) };
            let mut items = vec![bulk(&case(rng, "throttle")), bulk(key.as_bytes()), num(rng, 3), num(rng, 1), num(rng, 9_000_000)];
            if rng.chance(1, 2) { let qv = *rng.pick(&[1i64, 1, 1, 2, 0]); items.push(num(rng, qv)); }
            array(&items)
        }
        10 => {
            // invalid / malformed THROTTLE
            let key = format!("c{}bad", conn_id);
            match rng.below(12) {
                0 => array(&[bulk(b"THROTTLE"), bulk(key.as_bytes()), int(3), int(1)]),
                1 => array(&[bulk(b"THROTTLE"), bulk(key.as_bytes()), int(3), int(1), int(60), int(1), int(9)]),
                2 => array(&[bulk(b"THROTTLE"), bulk(key.as_bytes()), bulk(b"abc"), int(1), int(60)]),
                3 => array(&[bulk(b"THROTTLE"), bulk(key.as_bytes()), int(0), int(1), int(60)]),
                4 => array(&[bulk(b"THROTTLE"), bulk(key.as_bytes()), int(3), int(-1), int(60)]),
                5 => array(&[bulk(b"THROTTLE"), bulk(key.as_bytes()), int(3), int(1), int(60), int(-2)]),
                6 => array(&[bulk(b"THROTTLE"), b"$-1\r\n".to_vec(), int(3), int(1), int(60)]),
                7 => array(&[bulk(b"THROTTLE"), int(5), int(3), int(1), int(60)]),
                8 => {
                    // the same not-a-bulk-string key five times (integer / null / array key): refused five times, whatever came before
                    let k: Vec<u8> = match rng.below(3) { 0 => int(4000 + conn_id as i64), 1 => b"$-1\r\n".to_vec(), _ => array(&[bulk(key.as_bytes())]) };
                    let one = array(&[bulk(b"THROTTLE"), k, int(3), int(1), int(9_000_000)]);
                    let mut five = Vec::new();
                    for _ in 0..5 { five.extend_from_slice(&one); }
                    five
                }
                _ => {
                    // client text with line breaks / frame look-alikes in every argument position
                    let evil: &[&[u8]] = &[b"10\r\n", b"+PONG\r\n+PONG", b"1\r\n:1", b"\r\n", b"7\n", b"x\r\n$-1"];
                    // numeric positions only: a line break inside the KEY is a valid request (and the key must stay unique per connection)
                    let pos = 1 + rng.below(4) as usize;
                    let mut items = vec![bulk(b"THROTTLE"), bulk(key.as_bytes()), int(3), int(1), int(60), int(1)];
                    let e: &[u8] = evil[rng.below(evil.len() as u64) as usize]; items[1 + pos] = bulk(e);
                    if pos < 4 && rng.chance(1, 2) { items.truncate(5); }
                    if rng.chance(1, 3) { items[1] = bulk(format!("c{}\r\n+k", conn_id).as_bytes()); }
                    array(&items)
                }
            }
        }
        11 => array(&[bulk(&rand_name(rng))]),
        12 => array(&[bulk(&rand_name(rng)), bulk(b"arg")]),
        13 => array(&[]),
        14 => match rng.below(4) { 0 => b"+OK\r\n".to_vec(), 1 => int(1), 2 => b"$-1\r\n".to_vec(), _ => bulk(b"PING") },
        15 => array(&[int(1), bulk(b"x")]),
        16 => array(&[b"$-1\r\n".to_vec()]),
        17 => array(&[bulk("p\u{131}ng".as_bytes())]),
        18 => {
            // numeric header lines padded with zeros / a plus sign (str::parse::<i64> accepts them), up to 40 characters long
            let z = "0".repeat(rng.range(1, 40) as usize);
            match rng.below(5) {
                0 => format!("*1\r\n${z}4\r\nPING\r\n").into_bytes(),
                1 => format!("*{z}1\r\n$4\r\nPING\r\n").into_bytes(),
                2 => format!("*2\r\n$4\r\nPING\r\n:+{z}7\r\n").into_bytes(),
                3 => format!("*2\r\n$4\r\nPING\r\n:-{z}7\r\n").into_bytes(),
                _ => format!("*+{z}1\r\n$+{z}4\r\nPING\r\n").into_bytes(),
            }
        }
        _ => array(&[bulk(b"PING"), bulk(&vec![b'x'; rng.below(3000) as usize])]),
    }
}

fn split(rng: &mut Rng, data: &[u8]) -> Vec<Vec<u8>> {
    let mut chunks = Vec::new();
    let style = rng.below(5);
    let mut i = 0;
    while i < data.len() {
        let n = match style { 0 => data.len(), 1 => 1, 2 => rng.below(5) as usize + 1, 3 => rng.below(700) as usize + 1, _ => if rng.chance(1, 2) { 1 } else { rng.below(40) as usize + 1 } };
        let e = (i + n).min(data.len());
        chunks.push(data[i..e].to_vec());
        i = e;
    }
    chunks
}

fn run_conn(port: u16, chunks: &[Vec<u8>], pause_us: u64) -> (Vec<u8>, bool) {
    let mut s = TcpStream::connect(("127.0.0.1", port)).unwrap();
    s.set_nodelay(true).unwrap();
    s.set_read_timeout(Some(Duration::from_millis(3000))).unwrap();
    // replies are read WHILE writing: when the server closes on a protocol error with client bytes still
    // unread, the kernel answers with RST and anything the client has not read yet can be discarded
    let mut rs = s.try_clone().unwrap();
    let reader = std::thread::spawn(move || {
        let mut out = Vec::new();
        let mut buf = [0u8; 4096];
        loop {
            match rs.read(&mut buf) {
                Ok(0) => break,
                Ok(n) => out.extend_from_slice(&buf[..n]),
                Err(_) => break,
            }
        }
        out
    });
    let mut write_failed = false;
    for c in chunks {
        if s.write_all(c).is_err() { write_failed = true; break; }
        if pause_us > 0 { std::thread::sleep(Duration::from_micros(pause_us)); }
    }
    let _ = s.shutdown(std::net::Shutdown::Write);
    let out = reader.join().unwrap_or_default();
    (out, write_failed)
}

/// C14 / C10 under back-pressure: a client pipelines `n` PING commands with `size`-byte payloads on one connection and does NOT
/// read until its own writes stall (the server's send path is full by then), then reads everything.  The reply stream must be
/// exactly the echoes, in order: one well-formed frame per command, nothing missing or cut.
fn mode_latereader(port: u16, rounds: u64) {
    for round in 0..rounds {
        let (n, size) = if round % 2 == 0 { (400usize, 40_000usize) } else { (1500, 9_000) };
        let payload = |i: usize| -> Vec<u8> { let mut p = format!("<{i:06}>").into_bytes(); p.resize(size, b'a' + (i % 26) as u8); p };
        let mut expected: Vec<u8> = Vec::with_capacity(n * (size + 16));
        for i in 0..n { expected.extend_from_slice(&bulk(&payload(i))); }
        let mut s = TcpStream::connect(("127.0.0.1", port)).unwrap();
        s.set_write_timeout(Some(Duration::from_millis(250))).unwrap();
        s.set_read_timeout(Some(Duration::from_millis(4000))).unwrap();
        let mut rs = s.try_clone().unwrap();
        let mut reader: Option<std::thread::JoinHandle<Vec<u8>>> = None;
        let mut stalled_at: i64 = -1;
        let want = expected.len();
        let spawn_reader = move || std::thread::spawn(move || { let mut out = Vec::new(); let mut buf = vec![0u8; 65536]; while out.len() < want { match rs.read(&mut buf) { Ok(0) | Err(_) => break, Ok(k) => out.extend_from_slice(&buf[..k]) } } out });
        let mut spawn_reader = Some(spawn_reader);
        let mut write_error = String::new();
        'w: for i in 0..n {
            let cmd = array(&[bulk(b"PING"), bulk(&payload(i))]);
            let mut off = 0;
            while off < cmd.len() {
                match s.write(&cmd[off..]) {
                    Ok(0) => { write_error = "write returned 0".into(); break 'w; }
                    Ok(k) => off += k,
                    Err(e) if e.kind() == std::io::ErrorKind::WouldBlock || e.kind() == std::io::ErrorKind::TimedOut => {
                        // our writes stall: the server no longer reads because it cannot write - start reading now
                        if let Some(f) = spawn_reader.take() { stalled_at = i as i64; reader = Some(f()); }
                    }
                    Err(e) => { write_error = e.to_string(); break 'w; }
                }
            }
        }
        if let Some(f) = spawn_reader.take() { reader = Some(f()); }
        let got = reader.unwrap().join().unwrap_or_default();
        let first_diff = got.iter().zip(expected.iter()).position(|(a, b)| a != b).map(|p| p as i64).unwrap_or(if got.len() == expected.len() { -1 } else { got.len().min(expected.len()) as i64 });
        let frame = size + 2 + format!("${size}\r\n").len();
        println!("{{\"mode\":\"latereader\",\"round\":{round},\"commands\":{n},\"payload_bytes\":{size},\"client_stalled_at_command\":{stalled_at},\"reply_bytes\":{},\"expected_bytes\":{},\"first_difference_at_byte\":{first_diff},\"in_reply_number\":{},\"write_error\":{:?}}}",
            got.len(), expected.len(), if first_diff >= 0 { first_diff / frame as i64 } else { -1 }, write_error);
    }
}

/// C10: connection drops at every byte offset.  A pipeline of n THROTTLE commands (quantity 1, fresh key, no refill) is
/// cut at `offset`, the socket is closed abruptly without reading; afterwards a probe (quantity 0) on a new connection
/// reports the key's remaining budget, and a well-behaved client running alongside must get exactly its own answers.
fn mode_drops(port: u16, rng: &mut Rng, cases: u64) {
    let b = 6i64;
    let probe = |key: &str| -> Option<(i64, i64)> {
        let cmd = array(&[bulk(b"THROTTLE"), bulk(key.as_bytes()), int(b), int(1), int(9_000_000), int(0)]);
        let (reply, _) = run_conn(port, &[cmd], 0);
        // *5 :a :lim :rem :reset :retry
        let t = String::from_utf8_lossy(&reply).to_string();
        let v: Vec<i64> = t.split("\r\n").filter_map(|l| l.strip_prefix(':').and_then(|x| x.parse().ok())).collect();
        if v.len() == 5 { Some((v[0], v[2])) } else { None }
    };
    for case in 0..cases {
        let n = rng.range(1, 4) as usize;
        let mk = |key: &str| -> Vec<u8> { let mut st = Vec::new(); for _ in 0..n { st.extend_from_slice(&array(&[bulk(b"THROTTLE"), bulk(key.as_bytes()), int(b), int(1), int(9_000_000)])); } st };
        let len = mk("d0_0").len();
        let offsets: Vec<usize> = if rng.chance(1, 3) { (0..=len).collect() } else { (0..12).map(|_| rng.below(len as u64 + 1) as usize).collect() };
        let mut rows = Vec::new();
        for (oi, &off) in offsets.iter().enumerate() {
            let key = format!("d{case}_{oi}");
            let stream = mk(&key);
            let frame = stream.len() / n;
            let complete = off.min(stream.len()) / frame;
            // a bystander on its own key, started before the drop and finished after it
            let bkey = format!("d{case}_{oi}_bystander");
            let mut by = TcpStream::connect(("127.0.0.1", port)).unwrap();
            by.set_read_timeout(Some(Duration::from_millis(3000))).unwrap();
            let bcmd = array(&[bulk(b"THROTTLE"), bulk(bkey.as_bytes()), int(b), int(1), int(9_000_000)]);
            let _ = by.write_all(&bcmd);
            {
                let mut s = TcpStream::connect(("127.0.0.1", port)).unwrap();
                s.set_nodelay(true).unwrap();
                let _ = s.write_all(&stream[..off.min(stream.len())]);
                if rng.chance(1, 2) { let _ = s.shutdown(std::net::Shutdown::Both); }
                drop(s);
            }
            let _ = by.write_all(&bcmd);
            let mut got = Vec::new();
            let mut buf = [0u8; 512];
            while got.iter().filter(|&&c| c == b'*').count() < 2 || !got.ends_with(b"\r\n") || got.len() < 40 {
                match by.read(&mut buf) { Ok(0) | Err(_) => break, Ok(k) => got.extend_from_slice(&buf[..k]) }
            }
            let bt = String::from_utf8_lossy(&got).to_string();
            let bv: Vec<i64> = bt.split("\r\n").filter_map(|l| l.strip_prefix(':').and_then(|x| x.parse().ok())).collect();
            let bystander_ok = bv.len() == 10 && bv[0] == 1 && bv[2] == b - 1 && bv[5] == 1 && bv[7] == b - 2;
            // the dropped connection's commands are served (or not) asynchronously: wait until the budget is stable
            let mut last = None;
            for _ in 0..40 { std::thread::sleep(Duration::from_millis(2)); let p = probe(&key); if p == last && p.is_some() { break; } last = p; }
            let (pa, prem) = last.unwrap_or((-1, -1));
            rows.push(format!("{{\"offset\":{off},\"complete\":{complete},\"probe_allowed\":{pa},\"remaining\":{prem},\"bystander_ok\":{bystander_ok}}}"));
        }
        println!("{{\"mode\":\"drops\",\"case\":{case},\"commands\":{n},\"burst\":{b},\"stream_len\":{len},\"rows\":[{}]}}", rows.join(","));
    }
}

fn main() {
    let seed = arg_u64("--seed", 1);
    let n_cases = arg_u64("--cases", 100);
    let max_cmds = arg_u64("--maxcmds", 12);
    let rt = tokio::runtime::Builder::new_multi_thread().worker_threads(2).enable_all().build().unwrap();
    let metrics = Arc::new(Metrics::builder().max_denied_keys(100).build());
    let port = free_port();
    {
        let _g = rt.enter();
        let store = PeriodicStore::builder().capacity(1000).cleanup_interval(Duration::from_secs(3600)).build();
        let limiter = RateLimiterActor::spawn_periodic(arg_u64("--buffer", 4) as usize, store, Arc::clone(&metrics));
        let transport = RedisTransport::new("127.0.0.1", port, Arc::clone(&metrics)).unwrap();
        rt.spawn(async move { let _ = transport.start(limiter).await; });
    }
    // wait for the listener
    for _ in 0..200 { if TcpStream::connect(("127.0.0.1", port)).is_ok() { break; } std::thread::sleep(Duration::from_millis(10)); }
    let snap = |m: &Metrics| -> [u64; 7] { [m.total_requests.load(Ordering::Relaxed), m.http_requests.load(Ordering::Relaxed), m.grpc_requests.load(Ordering::Relaxed),
        m.redis_requests.load(Ordering::Relaxed), m.requests_allowed.load(Ordering::Relaxed), m.requests_denied.load(Ordering::Relaxed), m.requests_errors.load(Ordering::Relaxed)] };
    let mut rng = Rng::new(seed ^ 0xc044);
    if arg_value("--mode").as_deref() == Some("drops") { mode_drops(port, &mut rng, n_cases); std::process::exit(0); }
    if arg_value("--mode").as_deref() == Some("latereader") { mode_latereader(port, n_cases); std::process::exit(0); }
    for case in 0..n_cases {
        let ncmd = rng.range(1, max_cmds as i64) as usize;
        let mut stream = Vec::new();
        // the same pipeline once more with fresh throttle keys, sent in a single write: the
        // implementation-only oracle for chunking independence
        let mut stream_single = Vec::new();
        let mut rng_twin = rng.clone();
        let mut names: Vec<Vec<u8>> = Vec::new();
        // bytes sent AFTER something that makes the server close the connection (protocol error, QUIT, buffer limit) can
        // be unread when it closes: TCP then answers RST and replies the client has not read yet may be discarded.
        // Two thirds of the closing items are therefore the last bytes of the stream (exact comparison); the others
        // are followed by more commands and flagged rst_possible (prefix comparison).
        let mut rst_possible = false;
        let mut closed = false;
        for _ in 0..ncmd {
            let errs: [&[u8]; 4] = [b"!", b":12x\r\n", b"$536870913\r\n", b"*1\r\n$2\r\n\xff\xfe\r\n"];
            let c2 = if rng_twin.chance(1, 40) { errs[rng_twin.below(4) as usize].to_vec() }
            else if rng_twin.chance(1, 30) { array(&[bulk(if rng_twin.chance(1, 2) { b"QUIT" } else { b"quit" })]) }
            else { gen_command(&mut rng_twin, case + 1_000_000) };
            stream_single.extend_from_slice(&c2);
            let mut closing = false;
            let c = if rng.chance(1, 40) { closing = true; errs[rng.below(4) as usize].to_vec() }
            else if rng.chance(1, 30) { closing = true; array(&[bulk(if rng.chance(1, 2) { b"QUIT" } else { b"quit" })]) }
            else { gen_command(&mut rng, case) };
            stream.extend_from_slice(&c);
            if closed { rst_possible = true; }
            if closing {
                closed = true;
                let stop = rng.chance(2, 3); let _ = rng_twin.chance(2, 3);
                if stop { break; }
            }
        }
        // frames around the 64 KiB buffer limit followed by more pipelined commands, cut at / next to the frame boundary
        let near_cap = case % 16 == 3 || rng.chance(1, 40);
        let mut forced_chunks: Option<Vec<Vec<u8>>> = None;
        if near_cap {
            let target: usize = 65536 + *rng.pick(&[0i64, 0, 1, -1, 2, -2, 1023, 1024, -1023, -1024, 500, -500, 3000]) as usize;
            let mut n = target - 40;
            // an unknown command with one huge argument: the reply is a short error line
            let frame = loop { let f = array(&[bulk(b"BIGARG"), bulk(&vec![b'a'; n])]); if f.len() >= target { break f; } n += 1; };
            let mut st = Vec::new();
            if rng.chance(1, 2) { st.extend_from_slice(&array(&[bulk(b"PING"), bulk(b"first")])); }
            let pre = st.len();
            st.extend_from_slice(&frame);
            st.extend_from_slice(&array(&[bulk(b"PING"), bulk(b"after")]));
            if rng.chance(1, 2) { st.extend_from_slice(&array(&[bulk(b"PING")])); }
            stream = st.clone();
            stream_single = st;
            let cut = match rng.below(6) { 0 => pre + frame.len(), 1 => 1, 2 => pre + frame.len() - 1, 3 => pre + frame.len() + 1, 4 => stream.len(), _ => rng.below(stream.len() as u64 - 1) as usize + 1 };
            let cut = cut.min(stream.len());
            let mut ch = vec![stream[..cut].to_vec()];
            if cut < stream.len() { ch.push(stream[cut..].to_vec()); }
            forced_chunks = Some(ch);
            rst_possible = true;
        }
        // streams whose length is an exact multiple of the server's 1024-byte read chunk (a final unknown command with one padding argument: its reply is a short error line): the last
        // read fills the chunk exactly and nothing follows it
        let aligned = !near_cap && !closed && case % 8 == 6;
        if aligned {
            for st in [&mut stream, &mut stream_single] {
                let mut padlen = 1usize;
                loop { let f = array(&[bulk(b"PADDING"), bulk(&vec![b'p'; padlen])]); if (st.len() + f.len()) % 1024 == 0 { st.extend_from_slice(&f); break; } padlen += 1; }
            }
            if rng.chance(1, 2) { forced_chunks = Some(vec![stream.clone()]); }
        }
        // optionally leave the last frame incomplete
        if !near_cap && !closed && !aligned && rng.chance(1, 8) && stream.len() > 2 { let cut = rng.below(3) as usize + 1; stream.truncate(stream.len() - cut.min(stream.len() - 1)); stream_single.truncate(stream_single.len() - cut.min(stream_single.len() - 1)); }
        let chunks = match forced_chunks { Some(c) => c, None => split(&mut rng, &stream) };
        let before = snap(&metrics);
        let (reply, wf) = run_conn(port, &chunks, if chunks.len() > 400 { 0 } else { 300 });
        // let the server finish bookkeeping of this connection
        std::thread::sleep(Duration::from_millis(2));
        let after = snap(&metrics);
        let (reply_single, _) = run_conn(port, &[stream_single.clone()], 0);
        std::thread::sleep(Duration::from_millis(1));
        let delta: Vec<String> = (0..7).map(|i| (after[i] - before[i]).to_string()).collect();
        // upper-casing oracle for every bulk string that may be a command name: computed with the same std function
        let mut uppers: Vec<String> = Vec::new();
        {
            // scan the stream for bulk strings (best effort: exact for well-formed parts)
            let mut p = throttlecrab_server::transport::redis::resp::RespParser::new();
            let mut off = 0;
            while off < stream.len() {
                match p.parse(&stream[off..]) {
                    Ok(Some((v, c))) => {
                        if let throttlecrab_server::transport::redis::resp::RespValue::Array(a) = &v {
                            if let Some(throttlecrab_server::transport::redis::resp::RespValue::BulkString(Some(n))) = a.first() {
                                if !names.contains(&n.as_bytes().to_vec()) { names.push(n.as_bytes().to_vec()); uppers.push(format!("[{},{}]", bytes_json(n.as_bytes()), bytes_json(n.to_uppercase().as_bytes()))); }
                            }
                        }
                        off += c;
                    }
                    _ => break,
                }
            }
        }
        let sizes: Vec<String> = chunks.iter().map(|c| c.len().to_string()).collect();
        println!("{{\"case\":{case},\"rst_possible\":{rst_possible},\"stream\":{},\"sizes\":[{}],\"reply\":{},\"reply_single\":{},\"write_failed\":{wf},\"delta\":[{}],\"upper\":[{}]}}",
            bytes_json(&stream), sizes.join(","), bytes_json(&reply), bytes_json(&reply_single), delta.join(","), uppers.join(","));
    }
    std::process::exit(0);
}
