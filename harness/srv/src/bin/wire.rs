//! C09 / C11 / C12 on real sockets: ONE real `throttlecrab-server` process (the binary built from
//! /repo's working tree) with HTTP, gRPC and RESP enabled; independent clients: raw TCP for HTTP and
//! RESP, and for gRPC tonic's generic client with hand-written prost messages whose tags are the
//! published proto's (NOT the code generated from the tree's proto file).
use std::process::{Child, Command, Stdio};
use std::time::{Duration, Instant};
use tcv_srv::*;
use tokio::io::{AsyncReadExt, AsyncWriteExt};
use tokio::net::TcpStream;

#[derive(Clone, PartialEq, prost::Message)]
struct PReq {
    #[prost(string, tag = "1")] key: String,
    #[prost(int32, tag = "2")] max_burst: i32,
    #[prost(int32, tag = "3")] count_per_period: i32,
    #[prost(int32, tag = "4")] period: i32,
    #[prost(int32, tag = "5")] quantity: i32,
}
#[derive(Clone, PartialEq, prost::Message)]
struct PResp {
    #[prost(bool, tag = "1")] allowed: bool,
    #[prost(int32, tag = "2")] limit: i32,
    #[prost(int32, tag = "3")] remaining: i32,
    #[prost(int32, tag = "4")] retry_after: i32,
    #[prost(int32, tag = "5")] reset_after: i32,
}

#[derive(Clone, Debug)]
enum Wire { Ok { a: bool, lim: i64, rem: i64, reset: i64, retry: i64 }, Err(String), Broken(String) }
impl Wire {
    fn json(&self) -> String {
        match self {
            Wire::Ok { a, lim, rem, reset, retry } => format!("{{\"a\":{a},\"lim\":{lim},\"rem\":{rem},\"reset\":{reset},\"retry\":{retry}}}"),
            Wire::Err(k) => format!("{{\"err\":{:?}}}", k),
            Wire::Broken(k) => format!("{{\"broken\":{:?}}}", k),
        }
    }
}

struct Server { child: Child, http: u16, grpc: u16, redis: u16 }
impl Drop for Server { fn drop(&mut self) { let _ = self.child.kill(); let _ = self.child.wait(); } }

fn free_port() -> u16 { std::net::TcpListener::bind("127.0.0.1:0").unwrap().local_addr().unwrap().port() }

async fn start_server(exe: &str, store: &str, buffer: usize) -> Server {
    for _attempt in 0..5 {
        let (h, g, r) = (free_port(), free_port(), free_port());
        let child = Command::new(exe)
            .args(["--http", "--http-host", "127.0.0.1", "--http-port", &h.to_string(), "--grpc", "--grpc-host", "127.0.0.1", "--grpc-port", &g.to_string(),
                   "--redis", "--redis-host", "127.0.0.1", "--redis-port", &r.to_string(), "--store", store, "--buffer-size", &buffer.to_string(), "--log-level", "error",
                   "--store-capacity", "64", "--store-cleanup-interval", "1", "--store-cleanup-probability", "3", "--store-min-interval", "1", "--store-max-interval", "2", "--store-max-operations", "5"])
            .stdin(Stdio::null()).stdout(Stdio::null()).stderr(Stdio::null()).spawn().expect("spawn server");
        let mut s = Server { child, http: h, grpc: g, redis: r };
        let t0 = Instant::now();
        let mut up = false;
        while t0.elapsed() < Duration::from_secs(10) {
            if let Ok(Some(_)) = s.child.try_wait() { break; }
            let ok = TcpStream::connect(("127.0.0.1", h)).await.is_ok() && TcpStream::connect(("127.0.0.1", g)).await.is_ok() && TcpStream::connect(("127.0.0.1", r)).await.is_ok();
            if ok { up = true; break; }
            tokio::time::sleep(Duration::from_millis(20)).await;
        }
        if up { return s; }
    }
    panic!("server did not start");
}

#[derive(Clone, Debug)]
struct LReq { key: String, b: i64, count: i64, period: i64, q: Option<i64> }
impl LReq { fn json(&self) -> String { format!("[{:?},{},{},{},{}]", self.key, self.b, self.count, self.period, self.q.map(|x| x.to_string()).unwrap_or("null".into())) } }

/// requests that got no reply at all; after two of them the server is given up as unresponsive (every further request
/// would cost another time-out)
static NO_REPLY: std::sync::atomic::AtomicU64 = std::sync::atomic::AtomicU64::new(0);
fn unresponsive() -> bool { NO_REPLY.load(std::sync::atomic::Ordering::SeqCst) >= 2 }

async fn with_timeout<F: std::future::Future<Output = Wire>>(f: F) -> Wire {
    if unresponsive() { return Wire::Broken("not sent: the server stopped answering".into()); }
    match tokio::time::timeout(Duration::from_secs(4), f).await {
        Ok(w) => w,
        Err(_) => { NO_REPLY.fetch_add(1, std::sync::atomic::Ordering::SeqCst); Wire::Broken("no reply within 4 s".into()) }
    }
}

/// raw HTTP/1.1 exchange on a fresh connection; returns (status, body)
async fn http_raw(port: u16, bytes: &[u8], close_early: bool) -> Result<(u16, String), String> {
    let mut s = TcpStream::connect(("127.0.0.1", port)).await.map_err(|e| e.to_string())?;
    s.write_all(bytes).await.map_err(|e| e.to_string())?;
    if close_early { return Ok((0, String::new())); }
    let mut buf = Vec::new();
    let mut tmp = [0u8; 4096];
    loop {
        let n = s.read(&mut tmp).await.map_err(|e| e.to_string())?;
        if n == 0 { break; }
        buf.extend_from_slice(&tmp[..n]);
        if let Some(pos) = find(&buf, b"\r\n\r\n") {
            let head = String::from_utf8_lossy(&buf[..pos]).to_lowercase();
            if let Some(cl) = head.lines().find_map(|l| l.strip_prefix("content-length:").map(|v| v.trim().parse::<usize>().unwrap_or(0))) {
                if buf.len() >= pos + 4 + cl { break; }
            } else if !head.contains("transfer-encoding") { break; }
        }
    }
    let pos = find(&buf, b"\r\n\r\n").ok_or("no header end")?;
    let head = String::from_utf8_lossy(&buf[..pos]).to_string();
    let status: u16 = head.split_whitespace().nth(1).and_then(|x| x.parse().ok()).ok_or("no status")?;
    Ok((status, String::from_utf8_lossy(&buf[pos + 4..]).to_string()))
}
fn find(h: &[u8], n: &[u8]) -> Option<usize> { h.windows(n.len()).position(|w| w == n) }

fn http_post(body: &str) -> Vec<u8> {
    format!("POST /throttle HTTP/1.1\r\nHost: x\r\nContent-Type: application/json\r\nContent-Length: {}\r\nConnection: close\r\n\r\n{}", body.len(), body).into_bytes()
}

fn http_body(r: &LReq, variant: u64) -> String {
    let mut fields = vec![format!("\"key\":{}", serde_json::to_string(&r.key).unwrap()), format!("\"max_burst\":{}", r.b), format!("\"count_per_period\":{}", r.count), format!("\"period\":{}", r.period)];
    match r.q { Some(q) => fields.push(format!("\"quantity\":{q}")), None => if variant % 2 == 1 { fields.push("\"quantity\":null".into()) } }
    if variant % 3 == 1 { fields.push("\"unknown_field\":[1,{\"x\":2}]".into()); }
    // field order variants
    let k = (variant / 6) as usize % fields.len();
    fields.rotate_left(k);
    if variant % 5 == 2 { fields.reverse(); }
    format!("{{{}}}", fields.join(if variant % 4 == 3 { " ,\n " } else { "," }))
}

fn parse_http(res: Result<(u16, String), String>) -> Wire {
    match res {
        Err(e) => Wire::Broken(format!("http transport: {e}")),
        Ok((200, body)) => {
            let v: serde_json::Value = match serde_json::from_str(&body) { Ok(v) => v, Err(_) => return Wire::Broken(format!("200 with non-JSON body {body:?}")) };
            let o = match v.as_object() { Some(o) => o, None => return Wire::Broken("200 with non-object".into()) };
            let g = |n: &str| o.get(n).and_then(|x| x.as_i64());
            match (o.get("allowed").and_then(|x| x.as_bool()), g("limit"), g("remaining"), g("reset_after"), g("retry_after")) {
                (Some(a), Some(lim), Some(rem), Some(reset), Some(retry)) if o.len() == 5 => Wire::Ok { a, lim, rem, reset, retry },
                _ => Wire::Broken(format!("200 with unexpected fields {body}")),
            }
        }
        Ok((st, body)) if (400..600).contains(&st) => Wire::Err(format!("http{st}:{}", body.chars().take(80).collect::<String>())),
        Ok((st, _)) => Wire::Broken(format!("unexpected status {st}")),
    }
}

async fn grpc_req(port: u16, r: &LReq) -> Wire {
    let ep = match tonic::transport::Channel::from_shared(format!("http://127.0.0.1:{port}")) { Ok(e) => e, Err(e) => return Wire::Broken(e.to_string()) };
    let ch = match ep.connect().await { Ok(c) => c, Err(e) => return Wire::Broken(format!("grpc connect: {e}")) };
    let mut g = tonic::client::Grpc::new(ch);
    if let Err(e) = g.ready().await { return Wire::Broken(format!("grpc ready: {e}")); }
    let codec: tonic_prost::ProstCodec<PReq, PResp> = tonic_prost::ProstCodec::default();
    let path = tonic::codegen::http::uri::PathAndQuery::from_static("/throttlecrab.RateLimiter/Throttle");
    let req = PReq { key: r.key.clone(), max_burst: r.b as i32, count_per_period: r.count as i32, period: r.period as i32, quantity: r.q.unwrap_or(0) as i32 };
    match g.unary(tonic::Request::new(req), path, codec).await {
        Ok(resp) => { let m = resp.into_inner(); Wire::Ok { a: m.allowed, lim: m.limit as i64, rem: m.remaining as i64, reset: m.reset_after as i64, retry: m.retry_after as i64 } }
        Err(st) => Wire::Err(format!("grpc:{:?}:{}", st.code(), st.message().chars().take(80).collect::<String>())),
    }
}

fn resp_cmd(r: &LReq, variant: u64) -> Vec<u8> {
    let name = *["THROTTLE", "throttle", "Throttle", "tHrOtTlE"].get((variant % 4) as usize).unwrap();
    let mut args: Vec<(bool, String)> = vec![(false, name.into()), (false, r.key.clone()), (true, r.b.to_string()), (true, r.count.to_string()), (true, r.period.to_string())];
    if let Some(q) = r.q { args.push((true, q.to_string())); }
    let ints = (variant / 4) % 3; // 0: all bulk, 1: numbers as RESP integers, 2: mixed
    let mut out = format!("*{}\r\n", args.len()).into_bytes();
    for (i, (num, a)) in args.iter().enumerate() {
        if *num && (ints == 1 || (ints == 2 && i % 2 == 0)) { out.extend_from_slice(format!(":{a}\r\n").as_bytes()); }
        else { out.extend_from_slice(format!("${}\r\n", a.len()).as_bytes()); out.extend_from_slice(a.as_bytes()); out.extend_from_slice(b"\r\n"); }
    }
    out
}

/// reads one reply frame (simple/error/integer/bulk/array of integers)
async fn resp_exchange(port: u16, bytes: &[u8]) -> Wire {
    let mut s = match TcpStream::connect(("127.0.0.1", port)).await { Ok(s) => s, Err(e) => return Wire::Broken(format!("resp connect: {e}")) };
    if let Err(e) = s.write_all(bytes).await { return Wire::Broken(e.to_string()); }
    let mut buf = Vec::new();
    let mut tmp = [0u8; 4096];
    loop {
        if let Some(w) = parse_resp_reply(&buf) { return w; }
        match s.read(&mut tmp).await { Ok(0) => return Wire::Err("resp:closed".into()), Ok(n) => buf.extend_from_slice(&tmp[..n]), Err(e) => return Wire::Err(format!("resp:io:{e}")) }
    }
}
fn parse_resp_reply(buf: &[u8]) -> Option<Wire> {
    let line = |from: usize| -> Option<(String, usize)> { find(&buf[from..], b"\r\n").map(|p| (String::from_utf8_lossy(&buf[from..from + p]).to_string(), from + p + 2)) };
    let (l0, mut i) = line(0)?;
    match l0.chars().next()? {
        '-' => Some(Wire::Err(format!("resp:{}", l0.chars().take(80).collect::<String>()))),
        '*' => {
            let n: usize = l0[1..].parse().ok()?;
            let mut v = Vec::new();
            for _ in 0..n { let (l, j) = line(i)?; i = j; if !l.starts_with(':') { return Some(Wire::Broken(format!("array element {l:?}"))); } v.push(l[1..].parse::<i64>().ok()?); }
            if n != 5 { return Some(Wire::Broken(format!("array of {n}"))); }
            if v[0] != 0 && v[0] != 1 { return Some(Wire::Broken(format!("allowed flag {}", v[0]))); }
            Some(Wire::Ok { a: v[0] == 1, lim: v[1], rem: v[2], reset: v[3], retry: v[4] })
        }
        _ => Some(Wire::Broken(format!("unexpected reply {l0:?}"))),
    }
}

fn sent_http(body: &[u8]) -> String {
    // the request body (after the blank line) as text; None when the request carries no JSON content type
    let text = String::from_utf8_lossy(body).to_string();
    let head_end = text.find("\r\n\r\n").map(|p| p + 4).unwrap_or(0);
    let json_ct = text[..head_end].to_lowercase().contains("content-type: application/json");
    if json_ct { format!("{{\"http_body\":{}}}", serde_json::to_string(&text[head_end..]).unwrap()) } else { "{\"http_raw\":true}".into() }
}
fn sent_grpc(r: &LReq) -> String { format!("{{\"grpc\":[{},{},{},{},{}]}}", serde_json::to_string(&r.key).unwrap(), r.b as i32, r.count as i32, r.period as i32, r.q.unwrap_or(0) as i32) }
fn sent_resp(raw: &[u8]) -> String { format!("{{\"resp\":{}}}", bytes_json(raw)) }

async fn send_s(srv: &Server, proto: u64, r: &LReq, variant: u64) -> (String, Wire) {
    match proto {
        0 => { let raw = http_post(&http_body(r, variant)); (sent_http(&raw), with_timeout(async { parse_http(http_raw(srv.http, &raw, false).await) }).await) }
        1 => (sent_grpc(r), with_timeout(grpc_req(srv.grpc, r)).await),
        _ => { let raw = resp_cmd(r, variant); (sent_resp(&raw), with_timeout(resp_exchange(srv.redis, &raw)).await) }
    }
}
async fn send(srv: &Server, proto: u64, r: &LReq, variant: u64) -> Wire { send_s(srv, proto, r, variant).await.1 }

/// malformed requests that mention key k: must be answered with a protocol-level error and consume nothing
async fn send_malformed(srv: &Server, proto: u64, r: &LReq, kind: u64) -> (String, String, Wire, Option<LReq>) {
    let key_json = serde_json::to_string(&r.key).unwrap();
    match proto {
        0 => {
            let (desc, raw): (&str, Vec<u8>) = match kind % 9 {
                0 => ("missing period", http_post(&format!("{{\"key\":{key_json},\"max_burst\":{},\"count_per_period\":{}}}", r.b, r.count))),
                1 => ("string for number", http_post(&format!("{{\"key\":{key_json},\"max_burst\":\"{}\",\"count_per_period\":{},\"period\":{}}}", r.b, r.count, r.period))),
                2 => ("float for number", http_post(&format!("{{\"key\":{key_json},\"max_burst\":{}.5,\"count_per_period\":{},\"period\":{}}}", r.b, r.count, r.period))),
                3 => ("number beyond i64", http_post(&format!("{{\"key\":{key_json},\"max_burst\":{},\"count_per_period\":{},\"period\":{},\"quantity\":92233720368547758070}}", r.b, r.count, r.period))),
                4 => ("truncated JSON", http_post(&format!("{{\"key\":{key_json},\"max_burst\":{},\"count_per_period\":{},\"period\":{}", r.b, r.count, r.period))),
                5 => ("no content type", format!("POST /throttle HTTP/1.1\r\nHost: x\r\nContent-Length: 2\r\nConnection: close\r\n\r\n{{}}").into_bytes()),
                6 => ("invalid limits (max_burst 0)", http_post(&format!("{{\"key\":{key_json},\"max_burst\":0,\"count_per_period\":{},\"period\":{}}}", r.count, r.period))),
                7 => ("negative quantity", http_post(&format!("{{\"key\":{key_json},\"max_burst\":{},\"count_per_period\":{},\"period\":{},\"quantity\":-1}}", r.b, r.count, r.period))),
                _ => ("key not a string", http_post(&format!("{{\"key\":17,\"max_burst\":{},\"count_per_period\":{},\"period\":{}}}", r.b, r.count, r.period))),
            };
            // only the invalid-limits and negative-quantity bodies reach the limiter (which rejects them)
            let reaches = match kind % 9 { 6 => Some(LReq { b: 0, q: None, ..r.clone() }), 7 => Some(LReq { q: Some(-1), ..r.clone() }), _ => None };
            (format!("http: {desc}"), sent_http(&raw), with_timeout(async { parse_http(http_raw(srv.http, &raw, false).await) }).await, reaches)
        }
        1 => {
            let bad = match kind % 3 { 0 => LReq { b: 0, ..r.clone() }, 1 => LReq { q: Some(-1), ..r.clone() }, _ => LReq { period: -5, ..r.clone() } };
            let reaches = Some(LReq { q: Some(bad.q.unwrap_or(0)), ..bad.clone() });
            (format!("grpc: invalid {:?}", (bad.b, bad.period, bad.q)), sent_grpc(&bad), with_timeout(grpc_req(srv.grpc, &bad)).await, reaches)
        }
        _ => {
            let k = &r.key;
            let bulk = |a: &[String]| { let mut o = format!("*{}\r\n", a.len()); for x in a { o += &format!("${}\r\n{}\r\n", x.len(), x); } o.into_bytes() };
            let (desc, raw): (&str, Vec<u8>) = match kind % 8 {
                0 => ("too few arguments", bulk(&["THROTTLE".into(), k.clone(), r.b.to_string(), r.count.to_string()])),
                1 => ("too many arguments", bulk(&["THROTTLE".into(), k.clone(), r.b.to_string(), r.count.to_string(), r.period.to_string(), "1".into(), "1".into()])),
                2 => ("non-numeric max_burst", bulk(&["THROTTLE".into(), k.clone(), "ten".into(), r.count.to_string(), r.period.to_string()])),
                3 => ("number beyond i64", bulk(&["THROTTLE".into(), k.clone(), r.b.to_string(), r.count.to_string(), "92233720368547758070".into()])),
                4 => ("invalid limits (period 0)", bulk(&["THROTTLE".into(), k.clone(), r.b.to_string(), r.count.to_string(), "0".into()])),
                5 => ("negative quantity", bulk(&["THROTTLE".into(), k.clone(), r.b.to_string(), r.count.to_string(), r.period.to_string(), "-3".into()])),
                6 => ("unknown command", bulk(&["THROTTLEX".into(), k.clone(), r.b.to_string(), r.count.to_string(), r.period.to_string()])),
                _ => ("decimal quantity", bulk(&["THROTTLE".into(), k.clone(), r.b.to_string(), r.count.to_string(), r.period.to_string(), "1.0".into()])),
            };
            let reaches = match kind % 8 { 4 => Some(LReq { period: 0, q: None, ..r.clone() }), 5 => Some(LReq { q: Some(-3), ..r.clone() }), _ => None };
            (format!("resp: {desc}"), sent_resp(&raw), with_timeout(resp_exchange(srv.redis, &raw)).await, reaches)
        }
    }
}

/// GET /metrics -> [total, http, grpc, redis, allowed, denied, errors]
async fn scrape(srv: &Server) -> Option<[u64; 7]> {
    let (st, body) = http_raw(srv.http, b"GET /metrics HTTP/1.1\r\nHost: x\r\nConnection: close\r\n\r\n", false).await.ok()?;
    if st != 200 { return None; }
    let get = |name: &str| -> Option<u64> { body.lines().find(|l| l.starts_with(name) && l[name.len()..].starts_with(' ')).and_then(|l| l[name.len() + 1..].trim().parse().ok()) };
    let tr = |t: &str| -> Option<u64> { let pat = format!("throttlecrab_requests_by_transport{{transport=\"{t}\"}} "); body.lines().find(|l| l.starts_with(&pat)).and_then(|l| l[pat.len()..].trim().parse().ok()) };
    Some([get("throttlecrab_requests_total")?, tr("http")?, tr("grpc")?, tr("redis")?, get("throttlecrab_requests_allowed")?, get("throttlecrab_requests_denied")?, get("throttlecrab_requests_errors")?])
}

const RATES: &[(i64, i64)] = &[(1, 1000), (1, 3600), (2, 2000), (3, 3000), (1, 86400), (5, 50000), (1, 100)];

/// the library's own answer for the request that reaches the limiter (documented defaults applied), at model time t0 + i ns,
/// in whole seconds; gRPC durations capped at int32 (known finding grpc-int32-range)
fn lib_answer(lim: &mut throttlecrab::RateLimiter<throttlecrab::PeriodicStore>, tick: &mut u64, proto: u64, reaches: &Option<LReq>) -> String {
    let r = match reaches { None => return "{\"err\":\"refused before the limiter\"}".into(), Some(r) => r };
    let q = r.q.unwrap_or(if proto == 1 { 0 } else { 1 });
    *tick += 1;
    let ts = std::time::UNIX_EPOCH + Duration::from_nanos(1_700_000_000_000_000_000 + *tick);
    match lim.rate_limit(&r.key, r.b, r.count, r.period, q, ts) {
        Err(e) => format!("{{\"err\":{:?}}}", e.to_string()),
        Ok((a, res)) => {
            let cap = |x: u64| -> i64 { if proto == 1 { (x as i64).min(i32::MAX as i64) } else { x as i64 } };
            format!("{{\"a\":{a},\"lim\":{},\"rem\":{},\"reset\":{},\"retry\":{}}}", res.limit, res.remaining, cap(res.reset_after.as_secs()), cap(res.retry_after.as_secs()))
        }
    }
}

async fn fidelity(srv: &Server, rng: &mut Rng, cases: u64, tag: &str) {
    let mut lim = throttlecrab::RateLimiter::new(throttlecrab::PeriodicStore::builder().capacity(1000).cleanup_interval(Duration::from_secs(1_000_000_000)).build());
    let mut tick: u64 = 0;
    // canonical witness of the known finding grpc-int32-range (findings/F8-grpc-int32-range.json), replayed first
    {
        let r = LReq { key: format!("{tag}witness"), b: 3, count: 1, period: 1000000000, q: Some(3) };
        let t0 = Instant::now();
        let (s1, w1) = send_s(srv, 1, &r, 0).await;
        let r0 = LReq { q: Some(0), ..r.clone() };
        let (s2, w2) = send_s(srv, 0, &r0, 0).await;
        println!("{{\"mode\":\"fidelity\",\"case\":-1,\"witness\":\"F8\",\"elapsed_ms\":{},\"ops\":[{{\"proto\":1,\"variant\":0,\"req\":{},\"sent\":{},\"wire\":{}}},{{\"proto\":0,\"variant\":0,\"req\":{},\"sent\":{},\"wire\":{}}}]}}",
            t0.elapsed().as_millis(), r.json(), s1, w1.json(), r0.json(), s2, w2.json());
    }
    for c in 0..cases {
        let large = rng.chance(1, 6);
        // twin sessions: three keys that agree on their first 256 bytes (the key-length limit of the denied-key metrics):
        // exactly 256 bytes, and two 257-byte keys differing in the last byte - each must have its own bucket on every protocol
        let twin = !large && rng.chance(1, 4);
        let nkeys = if twin { 3 } else { rng.range(1, 2) as usize };
        let twin_limits = (rng.range(1, 3), *rng.pick(RATES));
        let keys: Vec<(String, i64, i64, i64, i64)> = (0..nkeys).map(|n| {
            if twin {
                let mut base = format!("{tag}{c}_");
                while base.len() < 256 { base.push('w'); }
                let key = match n { 0 => base.clone(), 1 => format!("{base}a"), _ => format!("{base}b") };
                return (key, twin_limits.0, (twin_limits.1).0, (twin_limits.1).1, 1);
            }
            // large: durations beyond int32 seconds, but now + 2*B*E well inside i64 nanoseconds (no saturating arithmetic,
            // whose results depend on the wall clock to the nanosecond; that regime is C08's, with explicit timestamps)
            let (count, period, lb, qbig) = *rng.pick(&[(1i64, 1000000000i64, 3i64, 3i64), (1, 30000, 100000, 80000), (2147483647, 2147483647, 2147483647, 2000000000)]);
            let (count, period) = if large { (count, period) } else { *rng.pick(RATES) };
            let b = if large { lb } else { rng.range(1, 5) };
            (format!("{tag}{c}_{n}\u{e9}\""), b, count, period, qbig)
        }).collect();
        let n = rng.range(3, 12);
        let t0 = Instant::now();
        let mut ops = Vec::new();
        for _ in 0..n {
            let (key, b, count, period, qbig) = rng.pick(&keys).clone();
            let proto = rng.below(3);
            let variant = rng.below(1000);
            let q = if large { Some(*rng.pick(&[1i64, 2, qbig, 3])) } else { match rng.below(6) { 0 => None, 1 => Some(0), 2 => Some(2), 3 => Some(b), 4 => Some(b + 1), _ => Some(1) } };
            let r = LReq { key, b, count, period, q };
            if rng.chance(1, 4) {
                let kind = rng.below(1000);
                let (desc, sent, w, reaches) = send_malformed(srv, proto, &r, kind).await;
                let lib = lib_answer(&mut lim, &mut tick, proto, &reaches);
                ops.push(format!("{{\"proto\":{proto},\"malformed\":{:?},\"req\":{},\"sent\":{},\"wire\":{},\"lib\":{lib}}}", desc, r.json(), sent, w.json()));
            } else {
                let (sent, w) = send_s(srv, proto, &r, variant).await;
                let lib = lib_answer(&mut lim, &mut tick, proto, &Some(r.clone()));
                ops.push(format!("{{\"proto\":{proto},\"variant\":{variant},\"req\":{},\"sent\":{},\"wire\":{},\"lib\":{lib}}}", r.json(), sent, w.json()));
            }
        }
        // quiescent point: every request of this session has been answered; what does /metrics say?
        let m = scrape(srv).await.map(|a| format!("{:?}", a)).unwrap_or("null".into());
        println!("{{\"mode\":\"fidelity\",\"case\":{c},\"elapsed_ms\":{},\"metrics\":{m},\"ops\":[{}]}}", t0.elapsed().as_millis(), ops.join(","));
    }
}

async fn burst(srv: std::sync::Arc<Server>, rng: &mut Rng, cases: u64, tag: &str) {
    for c in 0..cases {
        let b = rng.range(1, 6);
        let n = if arg_u64("--exact", 0) == 1 { b as usize } else { rng.range(1, 16) as usize };
        let key = format!("{tag}b{c}");
        let barrier = std::sync::Arc::new(tokio::sync::Barrier::new(n));
        let mut hs = Vec::new();
        let mut protos = Vec::new();
        for i in 0..n {
            let proto = rng.below(3);
            let variant = rng.below(1000);
            protos.push(proto);
            let r = LReq { key: key.clone(), b, count: 1, period: 3600, q: if proto == 1 || i % 2 == 0 { Some(1) } else { None } };
            let srv = srv.clone();
            let bar = barrier.clone();
            hs.push(tokio::spawn(async move { bar.wait().await; send(&srv, proto, &r, variant).await }));
        }
        let mut ws = Vec::new();
        for h in hs { ws.push(h.await.unwrap_or(Wire::Broken("client task panicked".into()))); }
        println!("{{\"mode\":\"burst\",\"case\":{c},\"b\":{b},\"n\":{n},\"protos\":{:?},\"wires\":[{}]}}", protos, ws.iter().map(|w| w.json()).collect::<Vec<_>>().join(","));
    }
}


/// one reply frame starting at `from`: (wire, end offset)
fn parse_resp_reply_at(buf: &[u8], from: usize) -> Option<(Wire, usize)> {
    let line = |at: usize| -> Option<(String, usize)> { find(&buf[at..], b"\r\n").map(|p| (String::from_utf8_lossy(&buf[at..at + p]).to_string(), at + p + 2)) };
    let (l0, mut i) = line(from)?;
    match l0.chars().next()? {
        '-' => Some((Wire::Err(format!("resp:{}", l0.chars().take(80).collect::<String>())), i)),
        '*' => {
            let n: usize = l0[1..].parse().ok()?;
            let mut v = Vec::new();
            for _ in 0..n { let (l, j) = line(i)?; i = j; if !l.starts_with(':') { return Some((Wire::Broken(format!("array element {l:?}")), i)); } v.push(l[1..].parse::<i64>().ok()?); }
            if n != 5 || (v[0] != 0 && v[0] != 1) { return Some((Wire::Broken(format!("array {v:?}")), i)); }
            Some((Wire::Ok { a: v[0] == 1, lim: v[1], rem: v[2], reset: v[3], retry: v[4] }, i))
        }
        _ => Some((Wire::Broken(format!("unexpected reply {l0:?}")), i)),
    }
}

/// C09 (one shared limiter, every request applied exactly once) with a PIPELINING client: N unit THROTTLE commands on a fresh key
/// written on ONE RESP connection as two segments cut inside a later command (or as one write longer than the server's read
/// chunk), all replies read, then M unit requests over HTTP / gRPC one after the other.  One connection stamps its commands in
/// order, so the answers are exact: request i (0-based, all N + M in order) is allowed iff i < max_burst, remaining max_burst-1-i.
async fn pipeline(srv: &Server, rng: &mut Rng, cases: u64, tag: &str) {
    for c in 0..cases {
        if unresponsive() { break; }
        let b = rng.range(2, 40);
        let n = *rng.pick(&[2usize, 3, 5, 8, 12, 20, 40]);
        let m = rng.range(1, 4) as usize;
        let key = format!("{tag}pl{c}");
        let r = LReq { key: key.clone(), b, count: 1, period: 3600, q: Some(1) };
        let mut bytes = Vec::new();
        let mut starts = Vec::new();
        for _ in 0..n { starts.push(bytes.len()); bytes.extend_from_slice(&resp_cmd(&r, rng.below(12))); }
        // cut inside command j >= 1 (never on a boundary), or no cut at all
        let cut = if rng.chance(1, 4) { 0 } else { let j = rng.range(1, n as i64 - 1).max(1) as usize; let lo = starts[j] + 1; let hi = if j + 1 < n { starts[j + 1] } else { bytes.len() }; lo + rng.below((hi - lo).max(1) as u64) as usize };
        let mut replies: Vec<Wire> = Vec::new();
        let mut extra = 0usize;
        match TcpStream::connect(("127.0.0.1", srv.redis)).await {
            Err(e) => replies.push(Wire::Broken(format!("resp connect: {e}"))),
            Ok(mut s) => {
                let _ = s.set_nodelay(true);
                let ok = if cut == 0 { s.write_all(&bytes).await.is_ok() } else {
                    let a = s.write_all(&bytes[..cut]).await.is_ok();
                    tokio::time::sleep(Duration::from_millis(30)).await;
                    a && s.write_all(&bytes[cut..]).await.is_ok()
                };
                if !ok { replies.push(Wire::Broken("write failed".into())); }
                let mut buf = Vec::new();
                let mut off = 0usize;
                let mut tmp = [0u8; 8192];
                // read until N replies are in, then 150 ms more for replies that must not exist
                let mut deadline = tokio::time::Instant::now() + Duration::from_secs(4);
                loop {
                    while let Some((w, e)) = parse_resp_reply_at(&buf, off) { off = e; if replies.len() < n { replies.push(w); } else { extra += 1; } }
                    if replies.len() >= n && extra == 0 && deadline > tokio::time::Instant::now() + Duration::from_millis(150) { deadline = tokio::time::Instant::now() + Duration::from_millis(150); }
                    match tokio::time::timeout_at(deadline, s.read(&mut tmp)).await { Ok(Ok(0)) | Ok(Err(_)) | Err(_) => break, Ok(Ok(k)) => buf.extend_from_slice(&tmp[..k]) }
                }
            }
        }
        let mut others = Vec::new();
        let mut protos = Vec::new();
        for _ in 0..m { let proto = rng.below(2); protos.push(proto); others.push(send(srv, proto, &r, rng.below(1000)).await); }
        println!("{{\"mode\":\"pipeline\",\"case\":{c},\"b\":{b},\"n\":{n},\"cut\":{cut},\"bytes\":{},\"resp_replies\":[{}],\"extra_replies\":{extra},\"then_protos\":{:?},\"then\":[{}]}}",
            bytes.len(), replies.iter().map(|w| w.json()).collect::<Vec<_>>().join(","), protos, others.iter().map(|w| w.json()).collect::<Vec<_>>().join(","));
    }
}

/// C12 on LONG-LIVED RESP connections: 300 unit THROTTLE commands on one connection, each one reaching the server in more than
/// one read (variant 0: a 1500-byte key, larger than the server's read chunk; variant 1: header and arguments written as two
/// segments; variant 2: whole commands).  max_burst 1000, 1 per 3600 s: command i must be answered allowed, remaining 999 - i.
async fn long_session(srv: &Server, tag: &str) {
    for variant in 0..4u64 {
        // variant 3: every command is EXACTLY as long as the server's read chunk (1024 bytes)
        let n = if variant == 3 { 40usize } else { 300usize };
        let key = if variant == 0 { format!("{tag}long{}", "k".repeat(1500)) } else if variant == 3 {
            let mut k = format!("{tag}long3");
            loop { let probe = LReq { key: k.clone(), b: 1000, count: 1, period: 3600, q: Some(1) }; let l = resp_cmd(&probe, 0).len(); if l >= 1024 { break; } k.push_str(&"p".repeat((1024 - l).min(if 1024 - l > 8 { 1024 - l - 4 } else { 1 }))); }
            k
        } else { format!("{tag}long{variant}") };
        let r = LReq { key, b: 1000, count: 1, period: 3600, q: Some(1) };
        let mut first_bad: i64 = -1;
        let mut bad = String::from("null");
        let mut answered = 0usize;
        if let Ok(mut s) = TcpStream::connect(("127.0.0.1", srv.redis)).await {
            let _ = s.set_nodelay(true);
            for i in 0..n {
                let raw = resp_cmd(&r, if variant == 3 { 0 } else { i as u64 });
                let ok = if variant == 1 {
                    let cut = 4 + (i % 9);            // inside the command, after the array header
                    let a = s.write_all(&raw[..cut]).await.is_ok(); let _ = s.flush().await;
                    tokio::time::sleep(Duration::from_millis(1)).await;
                    a && s.write_all(&raw[cut..]).await.is_ok()
                } else { s.write_all(&raw).await.is_ok() };
                let w = if !ok { Wire::Broken("write failed: connection closed by the server".into()) } else {
                    let mut buf = Vec::new(); let mut tmp = [0u8; 512];
                    loop {
                        if let Some(w) = parse_resp_reply(&buf) { break w; }
                        match tokio::time::timeout(Duration::from_secs(3), s.read(&mut tmp)).await { Ok(Ok(0)) => break Wire::Err("resp:closed".into()), Ok(Ok(k)) => buf.extend_from_slice(&tmp[..k]), _ => break Wire::Broken("no reply".into()) }
                    }
                };
                let good = matches!(&w, Wire::Ok { a: true, lim: 1000, rem, retry: 0, .. } if *rem == 999 - i as i64);
                if !good { first_bad = i as i64; bad = w.json(); break; }
                answered += 1;
            }
        } else { first_bad = 0; bad = "{\"broken\":\"connect\"}".into(); }
        println!("{{\"mode\":\"long\",\"variant\":{variant},\"cmd_bytes\":{},\"n\":{n},\"answered_correctly\":{answered},\"first_bad\":{first_bad},\"bad_wire\":{bad}}}", resp_cmd(&r, 0).len());
    }
}

/// C12 / C09 on PERSISTENT connections: three unit requests on one connection (burst 2, one token per 300 ms), an idle gap of
/// 1000 ms on that connection, then one more request: the decision must be the library's for the time the request ARRIVES.
async fn idle(srv: &Server, rounds: u64, tag: &str) {
    for c in 0..rounds {
        for proto in 0..4u64 {
            // proto 3: RESP again, but the first bytes of the fourth command are written BEFORE the idle gap and the rest after it:
            // the request exists - and is stamped - when it is complete
            let split = proto == 3;
            let proto = if split { 2 } else { proto };
            let r = LReq { key: format!("{tag}idle{c}_{proto}{}", if split { "s" } else { "" }), b: 2, count: 10, period: 3, q: Some(1) };
            let mut ws: Vec<Wire> = Vec::new();
            let t0 = Instant::now();
            let mut first3_ms: u128 = 0;
            match proto {
                2 => {
                    if let Ok(mut s) = TcpStream::connect(("127.0.0.1", srv.redis)).await {
                        let _ = s.set_nodelay(true);
                        for i in 0..4 {
                            let raw = resp_cmd(&r, i);
                            let mut from = 0usize;
                            if i == 3 {
                                first3_ms = t0.elapsed().as_millis();
                                if split { from = 9; if s.write_all(&raw[..from]).await.is_err() { ws.push(Wire::Broken("write failed".into())); break; } let _ = s.flush().await; }
                                tokio::time::sleep(Duration::from_millis(1000)).await;
                            }
                            if s.write_all(&raw[from..]).await.is_err() { ws.push(Wire::Broken("write failed".into())); break; }
                            let mut buf = Vec::new(); let mut tmp = [0u8; 512];
                            let w = loop {
                                if let Some(w) = parse_resp_reply(&buf) { break w; }
                                match tokio::time::timeout(Duration::from_secs(5), s.read(&mut tmp)).await { Ok(Ok(0)) => break Wire::Err("resp:closed".into()), Ok(Ok(n)) => buf.extend_from_slice(&tmp[..n]), _ => break Wire::Broken("no reply".into()) }
                            };
                            ws.push(w);
                        }
                    }
                }
                1 => {
                    let ep = tonic::transport::Channel::from_shared(format!("http://127.0.0.1:{}", srv.grpc)).unwrap();
                    if let Ok(ch) = ep.connect().await {
                        let mut g = tonic::client::Grpc::new(ch);
                        for i in 0..4 {
                            if i == 3 { first3_ms = t0.elapsed().as_millis(); tokio::time::sleep(Duration::from_millis(1000)).await; }
                            if g.ready().await.is_err() { ws.push(Wire::Broken("grpc not ready".into())); break; }
                            let codec: tonic_prost::ProstCodec<PReq, PResp> = tonic_prost::ProstCodec::default();
                            let path = tonic::codegen::http::uri::PathAndQuery::from_static("/throttlecrab.RateLimiter/Throttle");
                            let req = PReq { key: r.key.clone(), max_burst: 2, count_per_period: 10, period: 3, quantity: 1 };
                            ws.push(match g.unary(tonic::Request::new(req), path, codec).await {
                                Ok(resp) => { let m = resp.into_inner(); Wire::Ok { a: m.allowed, lim: m.limit as i64, rem: m.remaining as i64, reset: m.reset_after as i64, retry: m.retry_after as i64 } }
                                Err(st) => Wire::Err(format!("grpc:{:?}", st.code())),
                            });
                        }
                    }
                }
                _ => {
                    // HTTP/1.1 keep-alive on one connection
                    if let Ok(mut s) = TcpStream::connect(("127.0.0.1", srv.http)).await {
                        let _ = s.set_nodelay(true);
                        for i in 0..4 {
                            if i == 3 { first3_ms = t0.elapsed().as_millis(); tokio::time::sleep(Duration::from_millis(1000)).await; }
                            let body = http_body(&r, i);
                            let req = format!("POST /throttle HTTP/1.1\r\nHost: x\r\nContent-Type: application/json\r\nContent-Length: {}\r\nConnection: keep-alive\r\n\r\n{}", body.len(), body);
                            if s.write_all(req.as_bytes()).await.is_err() { ws.push(Wire::Broken("write failed".into())); break; }
                            let mut buf: Vec<u8> = Vec::new(); let mut tmp = [0u8; 2048];
                            let res: Result<(u16, String), String> = loop {
                                if let Some(pos) = find(&buf, b"\r\n\r\n") {
                                    let head = String::from_utf8_lossy(&buf[..pos]).to_lowercase();
                                    let cl = head.lines().find_map(|l| l.strip_prefix("content-length:").map(|v| v.trim().parse::<usize>().unwrap_or(0))).unwrap_or(0);
                                    if buf.len() >= pos + 4 + cl {
                                        let st: u16 = head.split_whitespace().nth(1).and_then(|x| x.parse().ok()).unwrap_or(0);
                                        break Ok((st, String::from_utf8_lossy(&buf[pos + 4..pos + 4 + cl]).to_string()));
                                    }
                                }
                                match tokio::time::timeout(Duration::from_secs(5), s.read(&mut tmp)).await { Ok(Ok(0)) => break Err("closed".into()), Ok(Ok(n)) => buf.extend_from_slice(&tmp[..n]), _ => break Err("no reply".into()) }
                            };
                            ws.push(parse_http(res));
                        }
                    }
                }
            }
            println!("{{\"mode\":\"idle\",\"round\":{c},\"proto\":{proto},\"split\":{split},\"first3_ms\":{first3_ms},\"wires\":[{}]}}", ws.iter().map(|w| w.json()).collect::<Vec<_>>().join(","));
        }
    }
}

async fn poison(srv: &Server, rng: &mut Rng, cases: u64, tag: &str) {
    let ext: &[i64] = &[i64::MAX, i64::MIN, -1, 0, 1, 2147483647, 4294967296, 9223372036, 9223372037, 1000000007];
    for c in 0..cases {
        let mut prefix = Vec::new();
        let nh = rng.range(1, 6);
        for _ in 0..nh {
            let proto = rng.below(3);
            let kind = rng.below(8);
            let key = format!("{tag}h{}", rng.below(3));
            let desc: String;
            let w: Wire;
            match (proto, kind) {
                (1, _) => {
                    let i32s: &[i64] = &[2147483647, -2147483648, 0, 1, -1, 65536];
                    let r = LReq { key, b: *rng.pick(i32s), count: *rng.pick(i32s), period: *rng.pick(i32s), q: Some(*rng.pick(i32s)) };
                    desc = format!("grpc extreme {}", r.json()); w = send(srv, 1, &r, 0).await;
                }
                (0, 0..=4) | (2, 0..=3) => {
                    let r = LReq { key, b: *rng.pick(ext), count: *rng.pick(ext), period: *rng.pick(ext), q: Some(*rng.pick(ext)) };
                    desc = format!("{} extreme {}", if proto == 0 { "http" } else { "resp" }, r.json()); w = send(srv, proto, &r, rng.below(1000)).await;
                }
                (0, 5) => { desc = "http garbage bytes".into(); w = with_timeout(async { parse_http(http_raw(srv.http, b"\x00\xff\x16\x03\x01 garbage\r\n\r\n", false).await) }).await; }
                (0, 6) => { desc = "http huge content-length then abrupt close".into(); let _ = http_raw(srv.http, b"POST /throttle HTTP/1.1\r\nHost: x\r\nContent-Type: application/json\r\nContent-Length: 99999999\r\n\r\n{\"key\":\"", true).await; w = Wire::Err("closed by client".into()); }
                (0, _) => { desc = "http deep JSON nesting".into(); let body = format!("{}{}", "[".repeat(20000), "]".repeat(20000)); w = with_timeout(async { parse_http(http_raw(srv.http, &http_post(&body), false).await) }).await; }
                (_, 4) => { desc = "resp garbage / inline".into(); w = with_timeout(resp_exchange(srv.redis, b"\x00\xff\xfe hello\r\n")).await; }
                (_, 5) => { desc = "resp oversize bulk declaration then close".into(); w = with_timeout(resp_exchange(srv.redis, b"*2\r\n$999999999999\r\nabc")).await; }
                (_, 6) => { desc = "resp deep nesting".into(); let raw = "*1\r\n".repeat(5000); w = with_timeout(resp_exchange(srv.redis, raw.as_bytes())).await; }
                (_, _) => { desc = "resp 70 KiB without a frame end".into(); let raw = vec![b'+'; 70_000]; w = with_timeout(resp_exchange(srv.redis, &raw)).await; }
            }
            prefix.push(format!("{{\"what\":{:?},\"wire\":{}}}", desc, w.json()));
        }
        // hostile KEYS on valid requests that end in a denial (the denied path feeds the denied-keys table of the metrics):
        // long keys whose 256th byte falls inside a multi-byte character, 256 / 257 bytes, empty, quotes / line breaks / NUL
        {
            let hk: Vec<String> = vec![format!("k{}", "\u{e9}".repeat(200)), format!("kk{}", "\u{20ac}".repeat(100)), "x".repeat(256), "x".repeat(257), "\u{e9}".repeat(128),
                                       format!("{}\u{1F600}", "y".repeat(254)), "".into(), "q\"uote\\".into(), "line\r\nbreak".into(), "nul\u{0}byte".into(), "z".repeat(5000)];
            let base = hk[(c as usize) % hk.len()].clone();
            let proto = rng.below(3);
            // unique per case (prefix), same byte layout behind it
            let key = format!("{}{}", base, if base.is_empty() { String::new() } else { format!("{tag}{c}") });
            let key = if base.len() > 200 { format!("{}{}", &tag[..1], base) } else { key };
            let r = LReq { key: key.clone(), b: 1, count: 1, period: 1000, q: Some(1) };
            for round in 0..3 {
                let w = send(srv, proto, &r, rng.below(1000)).await;
                prefix.push(format!("{{\"what\":{:?},\"wire\":{}}}", format!("valid request #{round} on proto {proto} with a hostile key of {} bytes (max_burst 1: #1 and #2 are denials)", key.len()), w.json()));
            }
        }
        // connections reset by the client while they still wait in the accept queue (SO_LINGER 0 + close straight after connect)
        if c % 2 == 0 {
            let mut n_rst = 0;
            for port in [srv.redis, srv.http, srv.grpc] {
                for _ in 0..40 {
                    if let Ok(st) = TcpStream::connect(("127.0.0.1", port)).await { let _ = st.set_linger(Some(Duration::from_secs(0))); drop(st); n_rst += 1; }
                }
            }
            tokio::time::sleep(Duration::from_millis(20)).await;
            prefix.push(format!("{{\"what\":\"{n_rst} connections (40 per port: RESP, HTTP, gRPC) opened and reset at once (SO_LINGER 0, close)\",\"wire\":{{\"err\":\"none expected\"}}}}"));
        }
        // a slow client: ONE RESP connection fed several commands one byte per write; every command must be answered on it
        let slow = {
            let b = 10i64;
            let key = format!("{tag}slow{c}");
            let ncmd = 8usize;
            let mut res: Vec<String> = Vec::new();
            match if unresponsive() { Err(std::io::Error::new(std::io::ErrorKind::Other, "server stopped answering")) } else { TcpStream::connect(("127.0.0.1", srv.redis)).await } {
                Err(e) => res.push(format!("{{\"broken\":{:?}}}", e.to_string())),
                Ok(mut s) => {
                    let _ = s.set_nodelay(true);
                    for i in 0..ncmd {
                        let r = LReq { key: key.clone(), b, count: 1, period: 1000, q: Some(1) };
                        let raw = resp_cmd(&r, rng.below(1000));
                        let mut failed = false;
                        for byte in raw.iter() {
                            if s.write_all(std::slice::from_ref(byte)).await.is_err() { failed = true; break; }
                            let _ = s.flush().await;
                            tokio::task::yield_now().await;
                            if i % 2 == 0 { std::thread::sleep(Duration::from_micros(20)); }
                        }
                        if failed { res.push("{\"err\":\"write failed: connection closed by the server\"}".into()); break; }
                        // read exactly one reply
                        let mut buf = Vec::new();
                        let mut tmp = [0u8; 512];
                        let w = loop {
                            if let Some(w) = parse_resp_reply(&buf) { break w; }
                            match tokio::time::timeout(Duration::from_secs(3), s.read(&mut tmp)).await {
                                Ok(Ok(0)) => break Wire::Err("resp:closed".into()),
                                Ok(Ok(n)) => buf.extend_from_slice(&tmp[..n]),
                                Ok(Err(e)) => break Wire::Err(format!("resp:io:{e}")),
                                Err(_) => break Wire::Broken("no reply within 5 s".into()),
                            }
                        };
                        res.push(w.json());
                    }
                }
            }
            format!("{{\"b\":{b},\"answers\":[{}]}}", res.join(","))
        };
        // probes: fresh key, every protocol, fresh connections
        let b = rng.range(2, 5);
        let mut probes = Vec::new();
        for proto in 0..3u64 {
            let r = LReq { key: format!("{tag}p{c}_{proto}"), b, count: 1, period: 1000, q: Some(1) };
            let w1 = send(srv, proto, &r, rng.below(1000)).await;
            // second probe: a NEW connection of the SAME protocol (sharing between protocols is C09's and C12's business)
            let w2 = send(srv, proto, &r, rng.below(1000)).await;
            // and a key that runs dry: the DENIED path must still be answered too
            let rd = LReq { key: format!("{tag}d{c}_{proto}"), b: 1, count: 1, period: 1000, q: Some(1) };
            let d1 = send(srv, proto, &rd, rng.below(1000)).await;
            let d2 = send(srv, proto, &rd, rng.below(1000)).await;
            probes.push(format!("{{\"proto\":{proto},\"b\":{b},\"first\":{},\"second_other_proto\":{},\"dry_first\":{},\"dry_second\":{}}}", w1.json(), w2.json(), d1.json(), d2.json()));
        }
        let health = http_raw(srv.http, b"GET /health HTTP/1.1\r\nHost: x\r\nConnection: close\r\n\r\n", false).await.map(|(s, b)| s == 200 && b == "OK").unwrap_or(false);
        println!("{{\"mode\":\"poison\",\"case\":{c},\"prefix\":[{}],\"slow_client\":{slow},\"probes\":[{}],\"health\":{health},\"unresponsive\":{}}}", prefix.join(","), probes.join(","), unresponsive());
        if unresponsive() { break; }
    }
}

#[tokio::main(flavor = "multi_thread", worker_threads = 4)]
async fn main() {
    let exe = arg_value("--server").expect("--server <path>");
    let seed = arg_u64("--seed", 1);
    let cases = arg_u64("--cases", 30);
    let mode = arg_value("--mode").unwrap_or_else(|| "fidelity".into());
    let mut rng = Rng::new(seed ^ 0x31fe);
    for (si, store) in ["periodic", "adaptive", "probabilistic"].iter().enumerate() {
        let buffer = *rng.pick(&[1usize, 2, 100000]);
        let srv = std::sync::Arc::new(start_server(&exe, store, buffer).await);
        let tag = format!("s{seed}_{si}_");
        NO_REPLY.store(0, std::sync::atomic::Ordering::SeqCst);
        println!("{{\"mode\":\"server\",\"store\":{:?},\"buffer\":{buffer}}}", store);
        match mode.as_str() {
            "fidelity" => fidelity(&srv, &mut rng, cases, &tag).await,
            "burst" => burst(srv.clone(), &mut rng, cases, &tag).await,
            "idle" => { idle(&srv, cases, &tag).await; long_session(&srv, &tag).await; }
            "pipeline" => pipeline(&srv, &mut rng, cases, &tag).await,
            _ => poison(&srv, &mut rng, cases, &tag).await,
        }
        let mut s = match std::sync::Arc::try_unwrap(srv) { Ok(s) => s, Err(_) => panic!("server handle still shared") };
        let alive = matches!(s.child.try_wait(), Ok(None));
        println!("{{\"mode\":\"server_end\",\"alive\":{alive}}}");
    }
}
