//! C15 / C16 correspondence on the real Metrics type.
//!  mode threads: OS threads recording PRNG event lists; counters compared at quiescent points
//!  mode denied : adversarial denial streams; table snapshot (hook H3) after every update
//!  mode escape : label escaping of keys over all kinds of code points
use std::collections::HashMap;
use std::sync::atomic::Ordering;
use std::sync::{Arc, Barrier};
use tcv_srv::*;
use throttlecrab_server::metrics::{Metrics, Transport};

fn counters(m: &Metrics) -> [u64; 7] {
    [m.total_requests.load(Ordering::SeqCst), m.http_requests.load(Ordering::SeqCst), m.grpc_requests.load(Ordering::SeqCst),
     m.redis_requests.load(Ordering::SeqCst), m.requests_allowed.load(Ordering::SeqCst), m.requests_denied.load(Ordering::SeqCst), m.requests_errors.load(Ordering::SeqCst)]
}

fn exported(m: &Metrics) -> [u64; 7] {
    let text = m.export_prometheus();
    let get = |name: &str| -> u64 {
        for l in text.lines() { if l.starts_with(name) { if let Some(v) = l[name.len()..].trim().split(' ').last() { if let Ok(n) = v.parse() { return n; } } } }
        u64::MAX
    };
    [get("throttlecrab_requests_total "), get("throttlecrab_requests_by_transport{transport=\"http\"}"), get("throttlecrab_requests_by_transport{transport=\"grpc\"}"),
     get("throttlecrab_requests_by_transport{transport=\"redis\"}"), get("throttlecrab_requests_allowed "), get("throttlecrab_requests_denied "), get("throttlecrab_requests_errors ")]
}

fn mode_threads(rng: &mut Rng, rounds: u64, nthreads: usize, per_round: u64) {
    // denied-key tracking ON (alternating table sizes per run): the counters must not depend on the key of a request
    let table: usize = arg_value("--table").and_then(|v| v.parse().ok()).unwrap_or_else(|| *rng.pick(&[0usize, 3, 100]));
    let m = Arc::new(Metrics::builder().max_denied_keys(table).build());
    // C16 under concurrent recorders: denials per tracked key (keys of at most 256 bytes), summed over all threads
    let mut truth: HashMap<String, u64> = HashMap::new();
    let mut expect = [0u64; 7];
    let mut prev = counters(&m);
    for round in 0..rounds {
        // each thread gets its own PRNG event list for this round
        let seeds: Vec<u64> = (0..nthreads).map(|_| rng.next()).collect();
        let barrier = Arc::new(Barrier::new(nthreads + 1));
        let mut handles = Vec::new();
        // a scraper reads /metrics while the recorders run (it holds the table lock for the whole report)
        let stop = Arc::new(std::sync::atomic::AtomicBool::new(false));
        let scraper = { let m = Arc::clone(&m); let b = Arc::clone(&barrier); let stop = Arc::clone(&stop);
            std::thread::spawn(move || { b.wait(); let mut n = 0u64; while !stop.load(Ordering::SeqCst) { let _ = m.export_prometheus(); n += 1; } n }) };
        for t in 0..nthreads {
            let m = Arc::clone(&m);
            let b = Arc::clone(&barrier);
            let seed = seeds[t];
            handles.push(std::thread::spawn(move || {
                let mut r = Rng::new(seed);
                let mut local = [0u64; 7];
                let mut dk = [0u64; 12];
                b.wait();
                for _ in 0..per_round {
                    let tr = match r.below(3) { 0 => Transport::Http, 1 => Transport::Grpc, _ => Transport::Redis };
                    let ti = match tr { Transport::Http => 1, Transport::Grpc => 2, Transport::Redis => 3 };
                    match r.below(5) {
                        0 => { m.record_error(tr); local[0] += 1; local[ti] += 1; local[6] += 1; }
                        1 => { m.record_request(tr, false); local[0] += 1; local[ti] += 1; local[5] += 1; }
                        2 => { let id = r.below(12); let k = key_of(id); m.record_request_with_key(tr, false, &k); dk[id as usize] += 1; local[0] += 1; local[ti] += 1; local[5] += 1; }
                        3 => { let k = key_of(r.below(12)); m.record_request_with_key(tr, true, &k); local[0] += 1; local[ti] += 1; local[4] += 1; }
                        _ => { m.record_request(tr, true); local[0] += 1; local[ti] += 1; local[4] += 1; }
                    }
                }
                (local, dk)
            }));
        }
        for h in handles {
            let (l, dk) = h.join().unwrap();
            for i in 0..7 { expect[i] += l[i]; }
            for id in 0..12u64 { let k = key_of(id); if k.len() <= 256 && dk[id as usize] > 0 { *truth.entry(k).or_insert(0) += dk[id as usize]; } }
        }
        stop.store(true, Ordering::SeqCst);
        let scrapes = scraper.join().unwrap();
        // quiescent point: every recorder has been joined
        let c = counters(&m);
        let e = exported(&m);
        let mut oracle = "ok".to_string();
        if c[0] != c[1] + c[2] + c[3] || c[0] != c[4] + c[5] + c[6] { oracle = format!("bad:identities broken at a quiescent point: {:?}", c); }
        else if c != expect { oracle = format!("bad:counters {:?} differ from the events performed {:?}", c, expect); }
        else if e != c { oracle = format!("bad:/metrics text reports {:?} but the counters are {:?}", e, c); }
        else if (0..7).any(|i| c[i] < prev[i]) { oracle = "bad:a counter decreased".into(); }
        prev = c;
        // C16 at the quiescent point: never overstates; exact while the distinct tracked keys fit the table
        let mut top_oracle = "ok".to_string();
        let mx = table.min(10_000);
        match m.verif_denied_top() {
            None => { if mx > 0 { top_oracle = "bad:tracking enabled but no table".into(); } }
            Some(top) => {
                for (k, n) in &top { if *n > *truth.get(k).unwrap_or(&0) && top_oracle == "ok" { top_oracle = format!("bad:key of {} bytes reported with {} denials, {} were recorded", k.len(), n, truth.get(k).unwrap_or(&0)); } }
                if truth.len() <= mx && top_oracle == "ok" {
                    let mut a = top.clone(); a.sort();
                    let mut b: Vec<(String, u64)> = truth.iter().map(|(k, v)| (k.clone(), *v)).collect(); b.sort();
                    if a != b {
                        let diff: Vec<String> = b.iter().filter(|(k, v)| !a.contains(&(k.clone(), *v))).take(3)
                            .map(|(k, v)| format!("key of {} bytes: {} denials recorded, report shows {:?}", k.len(), v, a.iter().find(|(k2, _)| k2 == k).map(|x| x.1))).collect();
                        top_oracle = format!("bad:{} distinct denied keys <= table size {} but the report is not exact after the recorders were joined: {}", truth.len(), mx, diff.join("; "));
                    }
                }
            }
        }
        println!("{{\"mode\":\"threads\",\"round\":{round},\"threads\":{nthreads},\"table\":{table},\"scrapes\":{scrapes},\"events\":{},\"counters\":{:?},\"expected\":{:?},\"exported\":{:?},\"oracle\":{:?},\"top_oracle\":{:?}}}", per_round * nthreads as u64, c, expect, e, oracle, top_oracle);
    }
}

/// C15, the /metrics text at quiescent points that follow a scrape racing with the LAST recordings: thousands of very short
/// rounds (3 recorder threads, 1..3 events each) while one thread scrapes all the time; after every join the text must show the counters
fn mode_scraperace(rng: &mut Rng, rounds: u64) {
    let m = Arc::new(Metrics::builder().max_denied_keys(10).build());
    let stop = Arc::new(std::sync::atomic::AtomicBool::new(false));
    let scraper = { let m = Arc::clone(&m); let stop = Arc::clone(&stop); std::thread::spawn(move || { let mut n = 0u64; while !stop.load(Ordering::SeqCst) { let _ = m.export_prometheus(); n += 1; } n }) };
    let mut bad: Option<String> = None;
    let mut events = 0u64;
    for round in 0..rounds {
        let seeds: Vec<u64> = (0..3).map(|_| rng.next()).collect();
        std::thread::scope(|sc| {
            for t in 0..3usize {
                let m = &m; let seed = seeds[t];
                sc.spawn(move || {
                    let mut r = Rng::new(seed);
                    for _ in 0..r.range(1, 3) {
                        let tr = match r.below(3) { 0 => Transport::Http, 1 => Transport::Grpc, _ => Transport::Redis };
                        match r.below(4) { 0 => m.record_error(tr), 1 => m.record_request(tr, false), 2 => m.record_request_with_key(tr, false, "k"), _ => m.record_request(tr, true) }
                    }
                });
            }
        });
        // quiescent: the three recorders are joined
        let c = counters(&m);
        let e = exported(&m);
        events = c[0];
        if c[0] != c[1] + c[2] + c[3] || c[0] != c[4] + c[5] + c[6] { bad = Some(format!("round {round}: identities broken at a quiescent point: {:?}", c)); break; }
        if e != c { bad = Some(format!("round {round}: with no request in flight /metrics reports [total,http,grpc,redis,allowed,denied,errors] = {:?} but the counters are {:?}", e, c)); break; }
    }
    stop.store(true, Ordering::SeqCst);
    let scrapes = scraper.join().unwrap();
    println!("{{\"mode\":\"scraperace\",\"rounds\":{rounds},\"events\":{events},\"scrapes\":{scrapes},\"oracle\":{:?}}}", bad.map(|b| format!("bad:{b}")).unwrap_or("ok".into()));
}

/// every single event kind on a fresh Metrics: the smallest histories (minimal failing input when a counter rule is broken)
fn mode_events() {
    for size in [0usize, 3, 100] {
        for (ti, tr) in [(1usize, Transport::Http), (2, Transport::Grpc), (3, Transport::Redis)] {
            for kind in 0..3u64 {
                for kid in 0..12u64 {
                    let m = Metrics::builder().max_denied_keys(size).build();
                    let k = key_of(kid);
                    let mut expect = [0u64; 7];
                    // two events of the same kind: the second one meets an existing table entry
                    for _ in 0..2 {
                        match kind { 0 => { m.record_request_with_key(tr, true, &k); expect[4] += 1; } 1 => { m.record_request_with_key(tr, false, &k); expect[5] += 1; } _ => { m.record_error(tr); expect[6] += 1; } }
                        expect[0] += 1; expect[ti] += 1;
                    }
                    let c = counters(&m);
                    let e = exported(&m);
                    let oracle = if c != expect { format!("bad:after 2 x {} on transport {} with a key of {} bytes (denied-key table size {size}) the counters [total,http,grpc,redis,allowed,denied,errors] are {:?}, expected {:?}",
                        ["record_request_with_key(allowed)", "record_request_with_key(denied)", "record_error"][kind as usize], ["", "http", "grpc", "redis"][ti], k.len(), c, expect) }
                        else if e != c { format!("bad:/metrics reports {:?} but the counters are {:?}", e, c) } else { "ok".into() };
                    println!("{{\"mode\":\"event\",\"transport\":{ti},\"kind\":{kind},\"key_bytes\":{},\"table\":{size},\"oracle\":{:?}}}", k.len(), oracle);
                }
            }
        }
    }
}

fn key_of(id: u64) -> String {
    match id {
        0 => "".to_string(),
        1 => "x".repeat(256),
        2 => "x".repeat(257),               // too long: never tracked
        3 => "\u{e9}".repeat(128),          // 256 bytes
        4 => "\u{e9}".repeat(129),          // 258 bytes: too long
        5 => "a\"b".to_string(),
        6 => "line\nbreak".to_string(),
        n => format!("key{n}"),
    }
}

fn mode_denied(rng: &mut Rng, streams: u64, maxlen: u64) {
    for s in 0..streams {
        let requested: i64 = *rng.pick(&[0i64, 1, 1, 2, 2, 3, 3, 10, 100, 10_000, 1_000_000]);
        let m = Metrics::builder().max_denied_keys(requested.max(0) as usize).build();
        let mx = (requested.max(0) as usize).min(10_000);
        let n = rng.range(1, maxlen as i64) as usize;
        let style = rng.below(4);
        let mut truth: HashMap<String, u64> = HashMap::new();
        let mut steps: Vec<String> = Vec::new();
        let mut oracle = "ok".to_string();
        let small = mx <= 3;
        let mut prev: Vec<(String, u64)> = Vec::new();
        let mut distinct_short = 0usize;
        for i in 0..n {
            let id = match style {
                0 => rng.below(8),                                 // few keys incl. the special ones
                1 => 7 + i as u64,                                 // unbounded distinct keys
                2 => if i > n / 2 { 7 } else { 8 + i as u64 },      // a heavy hitter arriving late
                _ => 7 + rng.below(3 * mx as u64 + 5),             // ties around the eviction threshold
            };
            let key = key_of(id);
            // allowed requests and other transports never touch the table
            if rng.chance(1, 6) { m.record_request_with_key(Transport::Http, true, &key); }
            m.record_request_with_key(*rng.pick(&[Transport::Http, Transport::Grpc, Transport::Redis]), false, &key);
            if key.len() <= 256 { let e = truth.entry(key.clone()).or_insert(0); if *e == 0 { distinct_short += 1; } *e += 1; }
            let snap = m.verif_denied_snapshot();
            match (&snap, mx) {
                (None, 0) => {}
                (None, _) => { if oracle == "ok" { oracle = "bad:tracking enabled but no table".into(); } }
                (Some(_), 0) => { if oracle == "ok" { oracle = "bad:tracking disabled but a table is kept".into(); } }
                (Some(t), _) => {
                    if t.len() > 3 * mx && oracle == "ok" { oracle = format!("bad:step {i}: table holds {} keys > 3 x {}", t.len(), mx); }
                    for (k, c) in t {
                        if k.len() > 256 && oracle == "ok" { oracle = format!("bad:step {i}: a key of {} bytes is tracked", k.len()); }
                        if *c > *truth.get(k).unwrap_or(&0) && oracle == "ok" { oracle = format!("bad:step {i}: key {:?} shown with {} denials, really {}", k, c, truth.get(k).unwrap_or(&0)); }
                    }
                    let top = m.verif_denied_top().unwrap();
                    if top.len() > mx && oracle == "ok" { oracle = format!("bad:step {i}: report lists {} keys > {}", top.len(), mx); }
                    if top.windows(2).any(|w| w[0].1 < w[1].1) && oracle == "ok" { oracle = format!("bad:step {i}: report not in non-increasing order"); }
                    if distinct_short <= mx {
                        let mut a: Vec<(String, u64)> = top.clone(); a.sort();
                        let mut b: Vec<(String, u64)> = truth.iter().map(|(k, v)| (k.clone(), *v)).collect(); b.sort();
                        if a != b && oracle == "ok" { oracle = format!("bad:step {i}: {} distinct keys <= {} but the report is not the exact multiset", distinct_short, mx); }
                    }
                    if small {
                        let mut cur = t.clone(); cur.sort();
                        let fmt = |v: &Vec<(String, u64)>| -> String { v.iter().map(|(k, c)| format!("[{},{}]", bytes_json(k.as_bytes()), c)).collect::<Vec<_>>().join(",") };
                        let mut topj = top.clone();
                        steps.push(format!("{{\"key\":{},\"prev\":[{}],\"next\":[{}],\"top\":[{}]}}", bytes_json(key.as_bytes()), fmt(&prev), fmt(&cur), fmt(&mut topj)));
                        prev = cur;
                    }
                }
            }
        }
        // export: one well-formed sample line per reported key
        let text = m.export_prometheus();
        let lines: Vec<&str> = text.split('\n').filter(|l| l.starts_with("throttlecrab_top_denied_keys{")).collect();
        let top = m.verif_denied_top().unwrap_or_default();
        if lines.len() != top.len() && oracle == "ok" { oracle = format!("bad:export has {} sample lines for {} reported keys", lines.len(), top.len()); }
        if mx == 0 && text.contains("throttlecrab_top_denied_keys") && oracle == "ok" { oracle = "bad:tracking disabled but the metric is exported".into(); }
        println!("{{\"mode\":\"denied\",\"stream\":{s},\"requested\":{requested},\"max\":{mx},\"len\":{n},\"style\":{style},\"steps\":[{}],\"oracle\":{:?}}}", steps.join(","), oracle);
    }
}

fn mode_escape(rng: &mut Rng, n: u64) {
    let specials: Vec<u32> = vec![0, 9, 10, 13, 31, 32, 34, 39, 92, 127, 128, 133, 159, 160, 0x2028, 0x2029, 0xFEFF, 0x10FFFF, 0xE9, 0x1F980, 123, 125, 44, 61];
    for i in 0..n {
        let len = rng.below(12) as usize;
        let mut s = String::new();
        for _ in 0..len {
            let cp = match rng.below(4) { 0 => *rng.pick(&specials), 1 => rng.below(160) as u32, 2 => rng.below(0x3000) as u32, _ => rng.below(0x110000) as u32 };
            if let Some(c) = char::from_u32(cp) { s.push(c); }
        }
        let esc = Metrics::verif_escape_label(&s);
        // the exported line for this key
        let m = Metrics::builder().max_denied_keys(1).build();
        m.record_request_with_key(Transport::Http, false, &s);
        let text = m.export_prometheus();
        let sample: Vec<&str> = text.split('\n').filter(|l| l.starts_with("throttlecrab_top_denied_keys{")).collect();
        let expected_line = format!("throttlecrab_top_denied_keys{{key=\"{}\",rank=\"1\"}} 1", esc);
        let mut oracle = "ok".to_string();
        if s.len() <= 256 {
            if sample.len() != 1 { oracle = format!("bad:{} sample lines for one key (a key injected a line break)", sample.len()); }
            else if sample[0] != expected_line { oracle = "bad:sample line differs from name{key=\"<escaped>\",rank=\"1\"} 1".into(); }
        }
        if esc.chars().any(|c| c.is_control()) { oracle = "bad:raw control character in the escaped label".into(); }
        // what a Prometheus text-format reader sees: after `key="` characters are taken up to the first quote that is not
        // preceded by a backslash (a backslash takes the next character with it); that must be exactly the escaped key,
        // and what follows must be the rank label and the value - no injected quote, label or line
        if oracle == "ok" && s.len() <= 256 && sample.len() == 1 {
            let prefix = "throttlecrab_top_denied_keys{key=\"";
            let rest: Vec<char> = sample[0][prefix.len()..].chars().collect();
            let mut i = 0;
            let mut scanned = String::new();
            let mut closed = false;
            while i < rest.len() {
                let c = rest[i];
                if c == '"' { closed = true; i += 1; break; }
                if c == '\\' { if i + 1 >= rest.len() { break; } scanned.push(c); scanned.push(rest[i + 1]); i += 2; continue; }
                scanned.push(c); i += 1;
            }
            let tail: String = rest[i.min(rest.len())..].iter().collect();
            if !closed || scanned != esc || tail != ",rank=\"1\"} 1" {
                oracle = format!("bad:a label scanner reads key={:?} and then {:?} from the sample line (the key swallowed or injected a quote / label)", scanned, tail);
            }
        }
        let cps: Vec<String> = s.chars().map(|c| (c as u32).to_string()).collect();
        let ecps: Vec<String> = esc.chars().map(|c| (c as u32).to_string()).collect();
        println!("{{\"mode\":\"escape\",\"i\":{i},\"key\":[{}],\"escaped\":[{}],\"oracle\":{:?}}}", cps.join(","), ecps.join(","), oracle);
    }
}

fn main() {
    let seed = arg_u64("--seed", 1);
    let mode = arg_value("--mode").unwrap_or_else(|| "threads".into());
    let mut rng = Rng::new(seed ^ 0x3e7);
    match mode.as_str() {
        "events" => mode_events(),
        "scraperace" => mode_scraperace(&mut rng, arg_u64("--rounds", 3000)),
        "threads" => mode_threads(&mut rng, arg_u64("--rounds", 20), arg_u64("--threads", 8) as usize, arg_u64("--events", 10000)),
        "denied" => mode_denied(&mut rng, arg_u64("--streams", 40), arg_u64("--maxlen", 400)),
        "escape" => mode_escape(&mut rng, arg_u64("--cases", 500)),
        _ => std::process::exit(2),
    }
}
