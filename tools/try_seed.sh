#!/bin/bash
# usage: tools/try_seed.sh <seed-dir> <worktree> <check ids...>
# 1) confirms in the scratch worktree that the demo fails with the change and passes without it and
#    that the existing tests still pass with the change; 2) applies the patch to /repo, runs the
#    given checks, reverts /repo.
set -u
SEED=$1; WT=$2; shift 2
cd "$WT" || exit 2
DEMO_CMD=$(grep -v '^\s*$' "$SEED/demo_cmd.txt" | grep -i cargo | head -1 | sed 's/^.*\(cargo [^`]*\).*$/\1/')
echo "demo cmd: $DEMO_CMD"
git apply --check -R "$SEED/patch.diff" 2>/dev/null || git apply "$SEED/patch.diff" 2>/dev/null
echo "== demo WITH change"; (eval "$DEMO_CMD" 2>&1 | grep -E "^test result|^error" | head -5)
echo "== existing tests WITH change (library)"; cargo test -p throttlecrab --offline --lib 2>&1 | grep -E "^test result" | head -3
if grep -q "throttlecrab-server/" "$SEED/patch.diff"; then echo "== existing tests WITH change (server)"; cargo test -p throttlecrab-server --offline 2>&1 | grep -E "^test result|FAILED" | head -8; fi
git apply -R "$SEED/patch.diff"
echo "== demo WITHOUT change"; (eval "$DEMO_CMD" 2>&1 | grep -E "^test result|^error" | head -5)
git apply "$SEED/patch.diff"
cd /repo && git apply "$SEED/patch.diff" || { echo "patch does not apply to /repo"; exit 3; }
cd /verif
for c in "$@"; do echo "== ./check $c quick (patched /repo)"; ./check $c quick 2>&1 | grep -E "^(VIOLATION|OK|KNOWN)|first failing|broken:" | cut -c1-700 | head -6; done
git -C /repo checkout -- . ; git -C /repo clean -fdq -- throttlecrab/src throttlecrab-server/src ; git -C /repo status --short | head -3
