#!/usr/bin/env python3
"""Writes coq/Audit/<pid>.v from coq/Properties/<pid>.v: a `Check name : statement.` pin for every
Theorem.  Run by hand when a property statement is (consciously) changed; the checks only
compile the committed Audit files, so an edit of Properties/<pid>.v alone is caught."""
import os
import re
import sys

COQ = os.path.join(os.path.dirname(os.path.dirname(os.path.abspath(__file__))), "coq")


def strip_comments(src):
    out, depth, i = [], 0, 0
    while i < len(src):
        if src.startswith("(*", i):
            depth += 1
            i += 2
        elif src.startswith("*)", i) and depth:
            depth -= 1
            i += 2
        else:
            if not depth:
                out.append(src[i])
            i += 1
    return "".join(out)


def gen(pid):
    src = strip_comments(open(os.path.join(COQ, "Properties", pid + ".v")).read())
    head = src.split("Theorem", 1)[0].strip()
    out = ["(* Pinned statements of the %s theorems (must match Properties/%s.v). *)" % (pid, pid), head,
           "Require Import TC.Properties.%s." % pid, ""]
    for m in re.finditer(r"^Theorem\s+([A-Za-z0-9_']+)\s*:(.*?)\.\s*\nProof\.", src, re.M | re.S):
        out.append("Check %s :%s." % (m.group(1), m.group(2)))
    with open(os.path.join(COQ, "Audit", pid + ".v"), "w") as f:
        f.write("\n".join(out) + "\n")


if __name__ == "__main__":
    for pid in sys.argv[1:]:
        gen(pid)
