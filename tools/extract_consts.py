#!/usr/bin/env python3
"""T1 translator: re-reads the Rust sources of /repo and regenerates
coq/Generated/Consts.v with every numeric constant the Coq theorems depend on.

Fails closed: if an expected constant is missing or is not a literal constant
expression, the script exits non-zero (the calling check then reports a broken
tie).  The output file is rewritten only when its content changes so that make's
dependency tracking does not rebuild the world on every run.
"""
import ast
import os
import re
import sys

REPO = os.environ.get("VERIF_REPO", "/repo")
OUT = os.path.join(os.path.dirname(os.path.abspath(__file__)), "..", "coq", "Generated", "Consts.v")


class TranslateError(Exception):
    pass


def read(rel):
    p = os.path.join(REPO, rel)
    try:
        with open(p, encoding="utf-8") as f:
            return f.read()
    except OSError as e:
        raise TranslateError(f"cannot read {p}: {e}")


def strip_comments(src):
    src = re.sub(r"/\*.*?\*/", "", src, flags=re.S)
    return re.sub(r"//[^\n]*", "", src)


def eval_const_expr(expr, what):
    """Evaluate a Rust literal constant expression: integer/float literals with
    underscores and type suffixes, + - * / and parentheses.  Integer division
    is Rust's (truncating); only non-negative operands occur."""
    e = expr.strip()
    e = re.sub(r"(?<=[0-9])_(?=[0-9])", "", e)
    e = re.sub(r"(?<=[0-9])(u8|u16|u32|u64|u128|usize|i8|i16|i32|i64|i128|isize|f32|f64)\b", "", e)
    if not re.fullmatch(r"[0-9eE+\-*/(). ]+", e):
        raise TranslateError(f"{what}: not a literal constant expression: {expr!r}")
    try:
        tree = ast.parse(e, mode="eval")
    except SyntaxError:
        raise TranslateError(f"{what}: cannot parse {expr!r}")

    def ev(n):
        if isinstance(n, ast.Expression):
            return ev(n.body)
        if isinstance(n, ast.Constant) and isinstance(n.value, (int, float)):
            return n.value
        if isinstance(n, ast.UnaryOp) and isinstance(n.op, ast.USub):
            return -ev(n.operand)
        if isinstance(n, ast.BinOp):
            a, b = ev(n.left), ev(n.right)
            if isinstance(n.op, ast.Add):
                return a + b
            if isinstance(n.op, ast.Sub):
                return a - b
            if isinstance(n.op, ast.Mult):
                return a * b
            if isinstance(n.op, ast.Div):
                if isinstance(a, int) and isinstance(b, int):
                    if b == 0:
                        raise TranslateError(f"{what}: division by zero")
                    return a // b
                return a / b
        raise TranslateError(f"{what}: unsupported constant expression {expr!r}")

    return ev(tree)


def const_decl(src, name, what):
    m = re.findall(r"\bconst\s+" + re.escape(name) + r"\s*:\s*[A-Za-z0-9_]+\s*=\s*([^;]+);", src)
    if len(m) != 1:
        raise TranslateError(f"{what}: expected exactly one `const {name}` declaration, found {len(m)}")
    return eval_const_expr(m[0], what)


def one_match(src, pattern, what, flags=0):
    m = re.findall(pattern, src, flags)
    if len(m) != 1:
        raise TranslateError(f"{what}: expected exactly one match of /{pattern}/, found {len(m)}")
    return m[0]


def gather():
    c = {}
    resp = strip_comments(read("throttlecrab-server/src/transport/redis/resp.rs"))
    c["MAX_BULK_STRING_SIZE"] = const_decl(resp, "MAX_BULK_STRING_SIZE", "resp.rs")
    c["MAX_ARRAY_SIZE"] = const_decl(resp, "MAX_ARRAY_SIZE", "resp.rs")
    c["MAX_ARRAY_DEPTH"] = const_decl(resp, "MAX_ARRAY_DEPTH", "resp.rs")

    rmod = strip_comments(read("throttlecrab-server/src/transport/redis/mod.rs"))
    c["MAX_BUFFER_SIZE"] = const_decl(rmod, "MAX_BUFFER_SIZE", "redis/mod.rs")
    c["READ_CHUNK"] = eval_const_expr(
        one_match(rmod, r"let\s+mut\s+temp_buf\s*=\s*vec!\[\s*0\s*;\s*([^\]]+)\]", "redis/mod.rs read chunk"),
        "redis/mod.rs read chunk")

    rl = strip_comments(read("throttlecrab/src/core/rate_limiter.rs"))
    c["MAX_RETRIES"] = const_decl(rl, "MAX_RETRIES", "rate_limiter.rs")

    rate = strip_comments(read("throttlecrab/src/core/rate/mod.rs"))
    ns = eval_const_expr(
        one_match(rate, r"period_seconds\s+as\s+f64\s*\*\s*([0-9_.]+)\s*/\s*count\s+as\s+f64", "rate/mod.rs ns-per-second factor"),
        "rate/mod.rs factor")
    if float(ns) != int(ns):
        raise TranslateError("rate/mod.rs: ns-per-second factor is not integral")
    c["NS_PER_SEC_F64"] = int(ns)
    for nm, fn in (("PER_SECOND_SECS", "per_second"), ("PER_MINUTE_SECS", "per_minute"),
                   ("PER_HOUR_SECS", "per_hour"), ("PER_DAY_SECS", "per_day")):
        c[nm] = eval_const_expr(
            one_match(rate, r"pub\s+fn\s+" + fn + r"\s*\(\s*n\s*:\s*u64\s*\)\s*->\s*Self\s*\{\s*Rate\s*\{\s*period\s*:\s*Duration::from_secs\(\s*([0-9_]+)\s*\)\s*/\s*n\s+as\s+u32",
                      f"rate/mod.rs {fn}"), f"rate/mod.rs {fn}")

    met = strip_comments(read("throttlecrab-server/src/metrics.rs"))
    c["MAX_KEY_LENGTH"] = const_decl(met, "MAX_KEY_LENGTH", "metrics.rs")
    c["MAX_DENIED_KEYS_LIMIT"] = const_decl(met, "MAX_DENIED_KEYS_LIMIT", "metrics.rs")
    c["DENIED_CLEANUP_FACTOR"] = eval_const_expr(
        one_match(met, r"self\.counts\.len\(\)\s*>\s*self\.max_size\s*\*\s*([0-9_]+)", "metrics.rs cleanup factor"),
        "metrics.rs cleanup factor")
    c["DEFAULT_MAX_DENIED_KEYS"] = eval_const_expr(
        one_match(met, r"pub\s+fn\s+new\(\)\s*->\s*Self\s*\{\s*Self\s*\{\s*max_denied_keys\s*:\s*([0-9_]+)", "metrics.rs default max_denied_keys"),
        "metrics.rs default")

    prob = strip_comments(read("throttlecrab/src/core/store/probabilistic.rs"))
    c["PROBABILISTIC_CLEANUP_MODULO"] = const_decl(prob, "PROBABILISTIC_CLEANUP_MODULO", "probabilistic.rs")
    c["PROB_MULTIPLIER"] = eval_const_expr(
        one_match(prob, r"operations_count\s*\.\s*wrapping_mul\(\s*([0-9_]+)\s*\)", "probabilistic.rs multiplier"),
        "probabilistic.rs multiplier")

    per = strip_comments(read("throttlecrab/src/core/store/periodic.rs"))
    c["PERIODIC_DEFAULT_CLEANUP_INTERVAL_SECS"] = const_decl(per, "DEFAULT_CLEANUP_INTERVAL_SECS", "periodic.rs")

    ada = strip_comments(read("throttlecrab/src/core/store/adaptive_cleanup.rs"))
    c["ADAPTIVE_MIN_CLEANUP_INTERVAL_SECS"] = const_decl(ada, "MIN_CLEANUP_INTERVAL_SECS", "adaptive_cleanup.rs")
    c["ADAPTIVE_MAX_CLEANUP_INTERVAL_SECS"] = const_decl(ada, "MAX_CLEANUP_INTERVAL_SECS", "adaptive_cleanup.rs")
    c["ADAPTIVE_DEFAULT_CLEANUP_INTERVAL_SECS"] = const_decl(ada, "DEFAULT_CLEANUP_INTERVAL_SECS", "adaptive_cleanup.rs")
    c["ADAPTIVE_MAX_OPERATIONS_BEFORE_CLEANUP"] = const_decl(ada, "MAX_OPERATIONS_BEFORE_CLEANUP", "adaptive_cleanup.rs")

    proto = read("throttlecrab-server/proto/throttlecrab.proto")
    resp_msg = one_match(proto, r"message\s+ThrottleResponse\s*\{([^}]*)\}", "proto ThrottleResponse")
    req_msg = one_match(proto, r"message\s+ThrottleRequest\s*\{([^}]*)\}", "proto ThrottleRequest")
    for msg, pref, fields in ((resp_msg, "PROTO_RESP_", ("allowed", "limit", "remaining", "retry_after", "reset_after")),
                              (req_msg, "PROTO_REQ_", ("key", "max_burst", "count_per_period", "period", "quantity"))):
        for f in fields:
            c[pref + f.upper()] = int(one_match(msg, r"\b" + f + r"\s*=\s*([0-9]+)\s*;", f"proto field {f}"))
    for k, v in c.items():
        if not isinstance(v, int):
            raise TranslateError(f"{k}: non-integer value {v!r}")
    return c


def render(c):
    lines = ["(* GENERATED by tools/extract_consts.py from the Rust sources of /repo on every run.",
             "   Do not edit: the theorems are re-checked against these values. *)",
             "From Coq Require Import ZArith.",
             "Open Scope Z_scope.", ""]
    for k in sorted(c):
        lines.append(f"Definition {k} : Z := {c[k]}.")
    lines.append("")
    return "\n".join(lines)


def main():
    try:
        c = gather()
    except TranslateError as e:
        print(f"extract_consts: TRANSLATION FAILED: {e}", file=sys.stderr)
        return 2
    text = render(c)
    out = os.path.normpath(OUT)
    old = None
    if os.path.exists(out):
        with open(out) as f:
            old = f.read()
    if old != text:
        os.makedirs(os.path.dirname(out), exist_ok=True)
        with open(out, "w") as f:
            f.write(text)
    if "--print" in sys.argv:
        import json
        print(json.dumps(c, indent=1, sort_keys=True))
    return 0


if __name__ == "__main__":
    sys.exit(main())
