#!/usr/bin/env python3
"""T1 translator: re-reads the Rust sources of /repo and regenerates
coq/Generated/Consts.v with every numeric constant the Coq theorems depend on.

Fails closed: if an expected constant is missing or is not a literal constant
expression, the script exits non-zero (the calling check then reports a broken
tie).  The output file is rewritten only when its content changes so that make's
dependency tracking does not rebuild the world on every run.
"""
import ast
import os
import re
import sys

REPO = os.environ.get("VERIF_REPO", "/repo")
OUT = os.path.join(os.path.dirname(os.path.abspath(__file__)), "..", "coq", "Generated", "Consts.v")
OUT_GLUE = os.path.join(os.path.dirname(os.path.abspath(__file__)), "..", "coq", "Generated", "Glue.v")


class TranslateError(Exception):
    pass


def read(rel):
    p = os.path.join(REPO, rel)
    try:
        with open(p, encoding="utf-8") as f:
            return f.read()
    except OSError as e:
        raise TranslateError(f"cannot read {p}: {e}")


def strip_comments(src):
    src = re.sub(r"/\*.*?\*/", "", src, flags=re.S)
    return re.sub(r"//[^\n]*", "", src)


def eval_const_expr(expr, what):
    """Evaluate a Rust literal constant expression: integer/float literals with
    underscores and type suffixes, + - * / and parentheses.  Integer division
    is Rust's (truncating); only non-negative operands occur."""
    e = expr.strip()
    e = re.sub(r"(?<=[0-9])_(?=[0-9])", "", e)
    e = re.sub(r"(?<=[0-9])(u8|u16|u32|u64|u128|usize|i8|i16|i32|i64|i128|isize|f32|f64)\b", "", e)
    e = re.sub(r"0x([0-9a-fA-F_]+)", lambda m: str(int(m.group(1).replace("_", ""), 16)), e)
    e = re.sub(r"0b([01_]+)", lambda m: str(int(m.group(1).replace("_", ""), 2)), e)
    if not re.fullmatch(r"[0-9eE+\-*/(). <]+", e):
        raise TranslateError(f"{what}: not a literal constant expression: {expr!r}")
    try:
        tree = ast.parse(e, mode="eval")
    except SyntaxError:
        raise TranslateError(f"{what}: cannot parse {expr!r}")

    def ev(n):
        if isinstance(n, ast.Expression):
            return ev(n.body)
        if isinstance(n, ast.Constant) and isinstance(n.value, (int, float)):
            return n.value
        if isinstance(n, ast.UnaryOp) and isinstance(n.op, ast.USub):
            return -ev(n.operand)
        if isinstance(n, ast.BinOp):
            a, b = ev(n.left), ev(n.right)
            if isinstance(n.op, ast.Add):
                return a + b
            if isinstance(n.op, ast.Sub):
                return a - b
            if isinstance(n.op, ast.Mult):
                return a * b
            if isinstance(n.op, ast.Div):
                if isinstance(a, int) and isinstance(b, int):
                    if b == 0:
                        raise TranslateError(f"{what}: division by zero")
                    return a // b
                return a / b
            if isinstance(n.op, ast.LShift) and isinstance(a, int) and isinstance(b, int) and 0 <= b < 128:
                return a << b
        raise TranslateError(f"{what}: unsupported constant expression {expr!r}")

    return ev(tree)


def const_decl(src, name, what):
    m = re.findall(r"\bconst\s+" + re.escape(name) + r"\s*:\s*[A-Za-z0-9_]+\s*=\s*([^;]+);", src)
    if len(m) != 1:
        raise TranslateError(f"{what}: expected exactly one `const {name}` declaration, found {len(m)}")
    return eval_const_expr(m[0], what)


def one_match(src, pattern, what, flags=0):
    m = re.findall(pattern, src, flags)
    if len(m) != 1:
        raise TranslateError(f"{what}: expected exactly one match of /{pattern}/, found {len(m)}")
    return m[0]


ERRORS = []
PINNED_PATH = os.path.join(os.path.dirname(os.path.abspath(__file__)), "t1_pinned.json")
try:
    import json as _json
    with open(PINNED_PATH) as _f:
        PINNED = _json.load(_f)
except (OSError, ValueError):
    PINNED = {"consts": {}, "tables": {}}


def soft(c, name, thunk):
    """One constant: a failure to read it is recorded and the constant is OMITTED from the generated file, so that only
    the Coq files (hence only the properties) that use it stop compiling."""
    try:
        v = thunk()
        if not isinstance(v, int):
            if isinstance(v, float) and float(v) == int(v):
                v = int(v)
            else:
                raise TranslateError(f"{name}: non-integer value {v!r}")
        c[name] = v
    except TranslateError as e:
        # the source no longer has the shape the translator reads (e.g. after a refactoring): fall back to the value of the last
        # verified tree, so that nothing stops compiling; the behavioural correspondence (T2) remains the tie for this constant
        if name in PINNED.get("consts", {}):
            c[name] = int(PINNED["consts"][name])
            ERRORS.append(f"fallback {name} = {c[name]} (value of the last verified tree; T2 is the only tie): {e}")
        else:
            ERRORS.append(f"omitted {name}: {e}")


def soft_read(rel):
    try:
        return strip_comments(read(rel))
    except TranslateError as e:
        ERRORS.append(str(e))
        return ""


def gather():
    c = {}
    resp = soft_read("throttlecrab-server/src/transport/redis/resp.rs")
    for nm in ("MAX_BULK_STRING_SIZE", "MAX_ARRAY_SIZE", "MAX_ARRAY_DEPTH"):
        soft(c, nm, lambda nm=nm: const_decl(resp, nm, "resp.rs"))

    rmod = soft_read("throttlecrab-server/src/transport/redis/mod.rs")
    soft(c, "MAX_BUFFER_SIZE", lambda: const_decl(rmod, "MAX_BUFFER_SIZE", "redis/mod.rs"))
    soft(c, "READ_CHUNK", lambda: eval_const_expr(
        one_match(rmod, r"let\s+mut\s+temp_buf\s*=\s*(?:vec!)?\[\s*0(?:u8)?\s*;\s*([^\]]+)\]", "redis/mod.rs read chunk"),
        "redis/mod.rs read chunk"))

    rl = soft_read("throttlecrab/src/core/rate_limiter.rs")
    soft(c, "MAX_RETRIES", lambda: const_decl(rl, "MAX_RETRIES", "rate_limiter.rs"))

    rate = soft_read("throttlecrab/src/core/rate/mod.rs")
    soft(c, "NS_PER_SEC_F64", lambda: eval_const_expr(
        one_match(rate, r"period_seconds\s+as\s+f64\s*\*\s*([0-9_.]+)\s*/\s*count\s+as\s+f64", "rate/mod.rs ns-per-second factor"),
        "rate/mod.rs factor"))
    for nm, fn in (("PER_SECOND_SECS", "per_second"), ("PER_MINUTE_SECS", "per_minute"),
                   ("PER_HOUR_SECS", "per_hour"), ("PER_DAY_SECS", "per_day")):
        soft(c, nm, lambda fn=fn: eval_const_expr(
            one_match(rate, r"pub\s+fn\s+" + fn + r"\s*\(\s*n\s*:\s*u64\s*\)\s*->\s*Self\s*\{\s*Rate\s*\{\s*period\s*:\s*Duration::from_secs\(\s*([0-9_]+)\s*\)\s*/\s*n\s+as\s+u32",
                      f"rate/mod.rs {fn}"), f"rate/mod.rs {fn}"))

    met = soft_read("throttlecrab-server/src/metrics.rs")
    soft(c, "MAX_KEY_LENGTH", lambda: const_decl(met, "MAX_KEY_LENGTH", "metrics.rs"))
    soft(c, "MAX_DENIED_KEYS_LIMIT", lambda: const_decl(met, "MAX_DENIED_KEYS_LIMIT", "metrics.rs"))
    soft(c, "DENIED_CLEANUP_FACTOR", lambda: eval_const_expr(
        one_match(met, r"self\.counts\.len\(\)\s*>\s*self\.max_size\s*\*\s*([0-9_]+)", "metrics.rs cleanup factor"),
        "metrics.rs cleanup factor"))
    soft(c, "DEFAULT_MAX_DENIED_KEYS", lambda: eval_const_expr(
        one_match(met, r"pub\s+fn\s+new\(\)\s*->\s*Self\s*\{\s*Self\s*\{\s*max_denied_keys\s*:\s*([0-9_]+)", "metrics.rs default max_denied_keys"),
        "metrics.rs default"))

    prob = soft_read("throttlecrab/src/core/store/probabilistic.rs")
    soft(c, "PROBABILISTIC_CLEANUP_MODULO", lambda: const_decl(prob, "PROBABILISTIC_CLEANUP_MODULO", "probabilistic.rs"))
    soft(c, "PROB_MULTIPLIER", lambda: eval_const_expr(
        one_match(prob, r"operations_count\s*\.\s*wrapping_mul\(\s*([0-9_]+)\s*\)", "probabilistic.rs multiplier"),
        "probabilistic.rs multiplier"))

    per = soft_read("throttlecrab/src/core/store/periodic.rs")
    soft(c, "PERIODIC_DEFAULT_CLEANUP_INTERVAL_SECS", lambda: const_decl(per, "DEFAULT_CLEANUP_INTERVAL_SECS", "periodic.rs"))

    ada = soft_read("throttlecrab/src/core/store/adaptive_cleanup.rs")
    for nm, src in (("ADAPTIVE_MIN_CLEANUP_INTERVAL_SECS", "MIN_CLEANUP_INTERVAL_SECS"), ("ADAPTIVE_MAX_CLEANUP_INTERVAL_SECS", "MAX_CLEANUP_INTERVAL_SECS"),
                    ("ADAPTIVE_DEFAULT_CLEANUP_INTERVAL_SECS", "DEFAULT_CLEANUP_INTERVAL_SECS"), ("ADAPTIVE_MAX_OPERATIONS_BEFORE_CLEANUP", "MAX_OPERATIONS_BEFORE_CLEANUP")):
        soft(c, nm, lambda src=src: const_decl(ada, src, "adaptive_cleanup.rs"))

    http = soft_read("throttlecrab-server/src/transport/http.rs")
    soft(c, "HTTP_DEFAULT_QUANTITY", lambda: eval_const_expr(
        one_match(http, r"quantity\s*:\s*req\.quantity\.unwrap_or\(\s*([0-9_]+)\s*\)", "http.rs default quantity"), "http.rs default quantity"))

    try:
        proto = read("throttlecrab-server/proto/throttlecrab.proto")
    except TranslateError as e:
        ERRORS.append(str(e))
        proto = ""
    for msgname, pref, fields in (("ThrottleResponse", "PROTO_RESP_", ("allowed", "limit", "remaining", "retry_after", "reset_after")),
                                  ("ThrottleRequest", "PROTO_REQ_", ("key", "max_burst", "count_per_period", "period", "quantity"))):
        for f in fields:
            soft(c, pref + f.upper(), lambda f=f, msgname=msgname: int(one_match(
                one_match(proto, r"message\s+" + msgname + r"\s*\{([^}]*)\}", "proto " + msgname),
                r"\b" + f + r"\s*=\s*([0-9]+)\s*;", f"proto field {f}")))
    return c


# ----------------------------------------------------------------------------- transport glue (C12)

def block_after(src, start_pat, what, open_ch="{", close_ch="}"):
    """Text between the bracket that ends the unique match of start_pat and its matching close."""
    ms = list(re.finditer(start_pat, src))
    if len(ms) != 1:
        raise TranslateError(f"{what}: expected exactly one match of /{start_pat}/, found {len(ms)}")
    i = ms[0].end()
    if src[i - 1] != open_ch:
        raise TranslateError(f"{what}: pattern must end at '{open_ch}'")
    depth = 1
    j = i
    while j < len(src) and depth:
        ch = src[j]
        if ch in "{[(":
            depth += 1
        elif ch in "}])":
            depth -= 1
        j += 1
    if depth:
        raise TranslateError(f"{what}: unbalanced brackets")
    return src[i:j - 1]


def split_top(text):
    parts, depth, cur = [], 0, ""
    for ch in text:
        if ch in "{[(":
            depth += 1
        elif ch in "}])":
            depth -= 1
        if ch == "," and depth == 0:
            parts.append(cur)
            cur = ""
        else:
            cur += ch
    if cur.strip():
        parts.append(cur)
    return [re.sub(r"\s+", "", p) for p in parts if p.strip()]


def struct_literal(src, start_pat, what):
    """[(field, expression-without-whitespace)] of a Rust struct literal; `f` shorthand gives (f, f)."""
    out = []
    for part in split_top(block_after(src, start_pat, what)):
        m = re.fullmatch(r"([A-Za-z_][A-Za-z0-9_]*)(?::(.*))?", part, re.S)
        if not m:
            raise TranslateError(f"{what}: cannot read struct-literal field {part!r}")
        out.append((m.group(1), m.group(2) if m.group(2) is not None else m.group(1)))
    return out


def struct_decl(src, name, what):
    """[(field, type)] of `pub struct name { pub f: T, ... }`; refuses serde attributes that rename/skip fields."""
    body = block_after(src, r"pub\s+struct\s+" + name + r"\s*\{", what)
    if re.search(r"#\s*\[\s*serde", body):
        raise TranslateError(f"{what}: serde field attributes present; the JSON model does not cover them")
    body = re.sub(r"#\s*\[[^\]]*\]", "", body)
    out = []
    for part in split_top(body):
        m = re.fullmatch(r"(?:pub)?([A-Za-z_][A-Za-z0-9_]*):(.*)", re.sub(r"^pub\s*", "pub", part), re.S)
        if not m:
            raise TranslateError(f"{what}: cannot read struct field {part!r}")
        out.append((m.group(1), m.group(2)))
    return out



_KEY = ["req.key.clone()", "req.key", "req.key.to_string()", "req.key.to_owned()"]
VOCAB = {
    "TYPES_FROM": {"allowed", "result.limit", "result.remaining", "result.reset_after.as_secs()asi64", "result.retry_after.as_secs()asi64"},
    "HTTP_REQ": set(_KEY + ["req.max_burst", "req.count_per_period", "req.period", "req.quantity.unwrap_or(#)", "timestamp"]),
    "GRPC_REQ": set(_KEY + ["timestamp"] + [t % f for f in ("max_burst", "count_per_period", "period", "quantity")
                                            for t in ("req.%sasi64", "i64::from(req.%s)", "req.%s.into()")]),
    "GRPC_RESP": {"result.allowed", "result.limitasi32", "result.remainingasi32", "result.retry_afterasi32", "result.reset_afterasi32",
                  "result.retry_after.min(i32::MAXasi64)asi32", "result.reset_after.min(i32::MAXasi64)asi32"},
    "RESP_REPLY": {"RespValue::Integer(ifresponse.allowed{1}else{0})", "RespValue::Integer(response.limit)", "RespValue::Integer(response.remaining)",
                   "RespValue::Integer(response.reset_after)", "RespValue::Integer(response.retry_after)"},
    "RESP_REQ": {"key", "max_burst", "count_per_period", "period", "quantity", "SystemTime::now()"},
    "HTTP_METRICS": {"record_request_with_key(MetricsTransport::Http,response.allowed,&req.key)", "record_error(MetricsTransport::Http)"},
    "GRPC_METRICS": {"record_request_with_key(MetricsTransport::Grpc,result.allowed,&req.key)", "record_error(MetricsTransport::Grpc)"},
}

def gather_glue():
    g = {}

    def table(name, thunk):
        try:
            g[name] = thunk()
            # an expression outside the vocabulary Server/Transport.v interprets means the source was restructured beyond what
            # this translator reads (helpers, destructuring, ...): treat the table as unreadable rather than feed the model text
            # it cannot interpret; a KNOWN expression in an unexpected place (a swapped field, another cast) still flows through
            vocab = VOCAB.get(name)
            if vocab is not None:
                unknown = [e for _f, e in g[name] if e not in vocab]
                if unknown:
                    del g[name]
                    raise TranslateError(f"{name}: expressions outside the interpreter's vocabulary: {unknown[:3]}")
        except TranslateError as e:
            if name in PINNED.get("tables", {}):
                g[name] = [tuple(x) for x in PINNED["tables"][name]]
                ERRORS.append(f"fallback table {name} (mapping of the last verified tree; T2 is the only tie): {e}")
            else:
                ERRORS.append(f"omitted table {name}: {e}")

    types = soft_read("throttlecrab-server/src/types.rs")
    serde_attr = bool(re.search(r"#\s*\[\s*serde\s*\(", types))

    def no_serde(v):
        if serde_attr:
            raise TranslateError("types.rs: serde container/field attributes present; the JSON model does not cover them")
        return v
    table("TYPES_RESPONSE_FIELDS", lambda: no_serde(struct_decl(types, "ThrottleResponse", "types.rs ThrottleResponse")))
    table("TYPES_FROM", lambda: struct_literal(
        block_after(types, r"impl\s+From<\(bool,\s*RateLimitResult\)>\s+for\s+ThrottleResponse\s*\{", "types.rs From impl"),
        r"ThrottleResponse\s*\{", "types.rs From literal"))
    http = soft_read("throttlecrab-server/src/transport/http.rs")
    table("HTTP_REQUEST_FIELDS", lambda: struct_decl(http, "HttpThrottleRequest", "http.rs HttpThrottleRequest"))
    table("HTTP_REQ", lambda: [(f, re.sub(r"unwrap_or\([0-9_]+\)", "unwrap_or(#)", e))
                                for f, e in struct_literal(http, r"let\s+internal_req\s*=\s*InternalRequest\s*\{", "http.rs internal request")])
    grpc = soft_read("throttlecrab-server/src/transport/grpc.rs").split("#[cfg(test)]")[0]
    table("GRPC_REQ", lambda: struct_literal(grpc, r"let\s+actor_request\s*=\s*ActorRequest\s*\{", "grpc.rs actor request"))
    table("GRPC_RESP", lambda: struct_literal(grpc, r"let\s+response\s*=\s*ThrottleResponse\s*\{", "grpc.rs response"))

    def metric_calls(src, what):
        """[(arm, call)] for the Ok / Err arms of the handler's match on the limiter's answer"""
        calls = re.findall(r"\.metrics\s*\.\s*(record_request_with_key|record_request|record_error)\s*\(([^;]*?)\)\s*;", src, re.S)
        if not calls:
            raise TranslateError(f"{what}: no metrics call found")
        out = []
        for fn, args in calls:
            a = re.sub(r"\s+", "", args).rstrip(",")
            out.append(("err" if fn == "record_error" else "ok", f"{fn}({a})"))
        return out
    table("HTTP_METRICS", lambda: metric_calls(block_after(http, r"async\s+fn\s+handle_throttle\s*\([^{]*\{", "http.rs handle_throttle"), "http.rs"))
    table("GRPC_METRICS", lambda: metric_calls(block_after(grpc, r"async\s+fn\s+throttle\s*\([^{]*\{", "grpc.rs throttle"), "grpc.rs"))
    rmod = soft_read("throttlecrab-server/src/transport/redis/mod.rs")

    def ht():
        return block_after(rmod, r"async\s+fn\s+handle_throttle\s*\([^)]*\)\s*->\s*RespValue\s*\{", "redis/mod.rs handle_throttle")
    table("RESP_REPLY", lambda: [(str(i), e) for i, e in enumerate(split_top(
        block_after(ht(), r"RespValue::Array\s*\(\s*vec!\s*\[", "redis/mod.rs reply array", "[", "]")))])
    table("RESP_REQ", lambda: struct_literal(ht(), r"let\s+request\s*=\s*ThrottleRequest\s*\{", "redis/mod.rs request"))

    def arity():
        m = re.findall(r"if\s+args\.len\(\)\s*<\s*([0-9]+)\s*\|\|\s*args\.len\(\)\s*>\s*([0-9]+)", ht())
        if len(m) != 1:
            raise TranslateError("redis/mod.rs: arity check of handle_throttle not found")
        return [("min", m[0][0]), ("max", m[0][1])]
    table("RESP_ARITY", arity)

    def quantity():
        q = re.findall(r"let\s+quantity\s*=\s*if\s+args\.len\(\)\s*==\s*([0-9]+)\s*\{.*?\}\s*else\s*\{\s*([0-9]+)\s*\}\s*;", ht(), re.S)
        if len(q) != 1:
            raise TranslateError("redis/mod.rs: default quantity of handle_throttle not found")
        return [("with_quantity_len", q[0][0]), ("default", q[0][1])]
    table("RESP_QUANTITY", quantity)

    # every read-modify-write / write on an atomic in metrics.rs (non-test part): the counter model of C15 (Server/Counters.v)
    # assumes each recorder step is ONE atomic increment; a plain store, swap or a computed total breaks that assumption
    met = soft_read("throttlecrab-server/src/metrics.rs").split("#[cfg(test)]")[0]

    def atomic_ops():
        ops = re.findall(r"([A-Za-z_][A-Za-z0-9_]*)\s*\.\s*(store|swap|fetch_add|fetch_sub|fetch_max|fetch_min|fetch_and|fetch_or|fetch_xor|fetch_nand|"
                         r"fetch_update|compare_exchange_weak|compare_exchange|compare_and_swap)\s*\(\s*([^,()]*)", met)
        if not ops:
            raise TranslateError("metrics.rs: no atomic update found")
        return [(recv, "%s(%s)" % (op, re.sub(r"_|[iu](8|16|32|64|128|size)$", "", arg.strip()))) for recv, op, arg in ops]
    table("METRICS_ATOMIC_OPS", atomic_ops)
    return g


def coq_string(s):
    if any(ord(ch) < 32 or ord(ch) > 126 for ch in s):
        raise TranslateError(f"non-printable character in glue text {s!r}")
    return '"' + s.replace('"', '""') + '"'


def render_glue(g):
    lines = ["(* GENERATED by tools/extract_consts.py from the transport sources of /repo on every run: the field",
             "   mappings between the protocol structs and the actor's request/response, as (target, source expression)",
             "   pairs with whitespace removed.  Server/Transport.v interprets them; an expression it does not know",
             "   makes the model undefined and the C12 theorems fail.  Do not edit. *)",
             "From Coq Require Import String List.", "Import ListNotations.", "Open Scope string_scope.", ""]
    for k in sorted(g):
        items = "; ".join("(%s, %s)" % (coq_string(a), coq_string(b)) for a, b in g[k])
        lines.append(f"Definition {k} : list (string * string) := [{items}].")
    lines.append("")
    return "\n".join(lines)


def render(c):
    lines = ["(* GENERATED by tools/extract_consts.py from the Rust sources of /repo on every run.",
             "   Do not edit: the theorems are re-checked against these values. *)",
             "From Coq Require Import ZArith.",
             "Open Scope Z_scope.", ""]
    for k in sorted(c):
        lines.append(f"Definition {k} : Z := {c[k]}.")
    lines.append("")
    return "\n".join(lines)


def main():
    c = gather()
    g = gather_glue()
    for path, text in ((OUT, render(c)), (OUT_GLUE, render_glue(g))):
        out = os.path.normpath(path)
        old = None
        if os.path.exists(out):
            with open(out) as f:
                old = f.read()
        if old != text:
            os.makedirs(os.path.dirname(out), exist_ok=True)
            with open(out, "w") as f:
                f.write(text)
    errp = os.path.join(os.path.dirname(os.path.normpath(OUT)), "T1_ERRORS.txt")
    with open(errp, "w") as f:
        f.write("\n".join(ERRORS) + ("\n" if ERRORS else ""))
    for e in ERRORS:
        print(f"extract_consts: NOT TRANSLATED (omitted from the generated files): {e}", file=sys.stderr)
    if "--pin" in sys.argv:
        if ERRORS:
            print("extract_consts: refusing to pin while something is not translated", file=sys.stderr)
            return 2
        import json
        with open(PINNED_PATH, "w") as f:
            json.dump({"consts": c, "tables": {k: [list(x) for x in v] for k, v in g.items()}}, f, indent=1, sort_keys=True)
            f.write("\n")
    if "--print" in sys.argv:
        import json
        print(json.dumps(c, indent=1, sort_keys=True))
    return 0


if __name__ == "__main__":
    sys.exit(main())
