#!/usr/bin/env python3
"""T1b for the stores: translate the three `Store` trait methods of PeriodicStore, AdaptiveStore and ProbabilisticStore
(throttlecrab/src/core/store/{periodic,adaptive_cleanup,probabilistic}.rs) into Gallina decision lists over the looked-up
entry, written to coq/Generated/StoreGen.v.  Store/GenStoreTie.v proves them equal to the entry-level functions the store
models (Store/Stores.v: d_get / d_setnx / d_cas) are made of.

Vocabulary: `match self.data.get(key) { <pattern> [if <guard>] => <body>, ... }` with patterns Some((a, Some(b))),
Some((a, None)), Some((a, _)), Some(_), None, _; guards = comparisons over the bound names and the parameters; bodies
Ok(true) / Ok(false) / Ok(Some(*v)) / Ok(None), or a block of `let expiry = now + ttl;`,
`self.data.insert(key.to_string(), (V, Some(E)));`, `self.expired_count += 1;` followed by Ok(..).
Anything else raises TranslateError -> fallback to the text of the last verified tree (tools/t1_storegen_pinned.v)."""
import os
import re
import sys

HERE = os.path.dirname(os.path.abspath(__file__))
sys.path.insert(0, HERE)
from extract_limiter import TranslateError, lex, strip_comments, matching, P  # noqa: E402

REPO = os.environ.get("VERIF_REPO", "/repo")
OUT = os.path.normpath(os.path.join(HERE, "..", "coq", "Generated", "StoreGen.v"))
PINNED = os.path.join(HERE, "t1_storegen_pinned.v")
STORES = [("p", "periodic.rs", "PeriodicStore"), ("a", "adaptive_cleanup.rs", "AdaptiveStore"), ("b", "probabilistic.rs", "ProbabilisticStore")]
CLEAN_CALLS = ("maybe_clean_expired", "maybe_cleanup")


def split_top(toks, sep=","):
    out, cur, depth = [], [], 0
    for t in toks:
        if t[1] in "({[":
            depth += 1
        if t[1] in ")}]":
            depth -= 1
        if t[1] == sep and depth == 0:
            out.append(cur)
            cur = []
        else:
            cur.append(t)
    if cur:
        out.append(cur)
    return out


def pattern(ts):
    """-> (coq pattern or None for `_`, bound names)"""
    s = [t[1] for t in ts]
    if s == ["_"]:
        return None, []
    if s == ["None"]:
        return "None", []
    if s == ["Some", "(", "_", ")"]:
        return "Some _", []
    if len(s) >= 8 and s[:3] == ["Some", "(", "("] and s[-2:] == [")", ")"] and s[4] == ",":
        a = s[3]
        rest = s[5:-2]
        names = []
        ca = "_" if a == "_" else a
        if a != "_":
            names.append(a)
        if rest == ["None"]:
            return "Some (%s, None)" % ca, names
        if rest == ["_"]:
            return "Some (%s, _)" % ca, names
        if len(rest) == 4 and rest[0] == "Some" and rest[1] == "(" and rest[3] == ")":
            b = rest[2]
            if b != "_":
                names.append(b)
            return "Some (%s, Some %s)" % (ca, "_" if b == "_" else b), names
    raise TranslateError("pattern outside the vocabulary: " + " ".join(s))


def nostar(ts):
    return [t for t in ts if t[1] != "*"]


def expr(ts, env, want):
    p = P(nostar(ts), dict(env))
    e = p.expr()
    if p.i != len(p.t) or e[0] != want:
        raise TranslateError("expression outside the vocabulary: " + " ".join(t[1] for t in ts))
    return e[1]


def body_get(ts, env):
    s = [t[1] for t in ts]
    if s == ["Ok", "(", "None", ")"]:
        return "(@None Z)"
    if s[:4] == ["Ok", "(", "Some", "("] and s[-2:] == [")", ")"]:
        return "(Some %s)" % expr(ts[4:-2], env, "Z")
    raise TranslateError("get: body outside the vocabulary: " + " ".join(s))


def body_eff(ts, env):
    env = dict(env)
    ins, bump = "None", "false"
    if ts and ts[0][1] == "{":
        if matching(ts, 0, "{", "}") != len(ts) - 1:
            raise TranslateError("malformed block body")
        stmts = split_top(ts[1:-1], ";")
        for st in stmts[:-1]:
            s = [t[1] for t in st]
            if s[0] == "let":
                name = s[1]
                if s[2] != "=":
                    raise TranslateError("let with a type annotation")
                env[name] = ("Z", "(%s)" % expr(st[3:], env, "Z"))
            elif s[:5] == ["self", ".", "data", ".", "insert"]:
                hi = matching(st, 5, "(", ")")
                args = split_top(st[6:hi])
                if [t[1] for t in args[0]] != ["key", ".", "to_string", "(", ")"] or len(args) != 2:
                    raise TranslateError("insert not made with key.to_string()")
                tup = args[1]
                if tup[0][1] != "(" or matching(tup, 0, "(", ")") != len(tup) - 1:
                    raise TranslateError("inserted value is not a tuple")
                parts = split_top(tup[1:-1])
                if len(parts) != 2 or [t[1] for t in parts[1][:2]] != ["Some", "("] or parts[1][-1][1] != ")":
                    raise TranslateError("inserted value is not (v, Some(expiry))")
                ins = "(Some (%s, Some %s))" % (expr(parts[0], env, "Z"), expr(parts[1][2:-1], env, "Z"))
            elif s == ["self", ".", "expired_count", "+", "=", "1"]:
                bump = "true"
            else:
                raise TranslateError("statement outside the vocabulary: " + " ".join(s))
        ts = stmts[-1]
    s = [t[1] for t in ts]
    if s not in (["Ok", "(", "true", ")"], ["Ok", "(", "false", ")"]):
        raise TranslateError("result outside the vocabulary: " + " ".join(s))
    return "{| se_insert := %s; se_ok := %s; se_bump := %s |}" % (ins, s[2], bump)


def method(toks, impl_lo, impl_hi, name, params, kind):
    idx = [i for i in range(impl_lo, impl_hi) if toks[i] == ("id", "fn") and toks[i + 1] == ("id", name)]
    if len(idx) != 1:
        raise TranslateError("fn %s not found in the Store impl" % name)
    j = idx[0]
    while toks[j][1] != "{":
        j += 1
    hi = matching(toks, j, "{", "}")
    body = toks[j + 1:hi]
    cleans = False
    k = 0
    # optional `self.<cleanup>(now);` first
    if [t[1] for t in body[:3]] == ["self", ".", body[2][1]] and body[2][1] in CLEAN_CALLS:
        if [t[1] for t in body[3:7]] != ["(", "now", ")", ";"]:
            raise TranslateError("%s: cleanup call not made with (now)" % name)
        cleans = True
        k = 7
    if [t[1] for t in body[k:k + 10]] != ["match", "self", ".", "data", ".", "get", "(", "key", ")", "{"]:
        raise TranslateError("%s: body is not `match self.data.get(key) { .. }`" % name)
    mlo = k + 9
    mhi = matching(body, mlo, "{", "}")
    if mhi != len(body) - 1:
        raise TranslateError("%s: statements after the match" % name)
    arms_t = body[mlo + 1:mhi]
    # split arms: pattern [if guard] => body ; body ends at `,` depth 0 or is a block
    arms = []
    i = 0
    while i < len(arms_t):
        a = i
        depth = 0
        while not (arms_t[i][1] == "=>" and depth == 0):
            if arms_t[i][1] in "({[":
                depth += 1
            if arms_t[i][1] in ")}]":
                depth -= 1
            i += 1
        head = arms_t[a:i]
        i += 1
        if arms_t[i][1] == "{":
            e = matching(arms_t, i, "{", "}")
            b = arms_t[i:e + 1]
            i = e + 1
            if i < len(arms_t) and arms_t[i][1] == ",":
                i += 1
        else:
            e = i
            depth = 0
            while e < len(arms_t) and not (arms_t[e][1] == "," and depth == 0):
                if arms_t[e][1] in "({[":
                    depth += 1
                if arms_t[e][1] in ")}]":
                    depth -= 1
                e += 1
            b = arms_t[i:e]
            i = e + 1
        gi = next((x for x, t in enumerate(head) if t == ("id", "if")), None)
        pat_t, guard_t = (head, None) if gi is None else (head[:gi], head[gi + 1:])
        arms.append((pat_t, guard_t, b))
    env0 = {p: ("Z", p) for p in params}
    default = "(@None Z)" if kind == "get" else "eff_unreachable"
    lines = []
    n = len(arms)
    lines.append("  let k%d := %s in" % (n, default))
    for ai in range(n - 1, -1, -1):
        pat_t, guard_t, b = arms[ai]
        cpat, names = pattern(pat_t)
        env = dict(env0)
        for nm in names:
            env[nm] = ("Z", nm)
        bt = body_get(b, env) if kind == "get" else body_eff(b, env)
        inner = bt if guard_t is None else "(if %s then %s else k%d)" % (expr(guard_t, env, "bool"), bt, ai + 1)
        if cpat is None:
            lines.append("  let k%d := %s in" % (ai, inner))
        else:
            lines.append("  let k%d := match e with %s => %s | _ => k%d end in" % (ai, cpat, inner, ai + 1))
    lines.append("  k0.")
    return cleans, lines


def translate_store(tag, fname, sname):
    with open(os.path.join(REPO, "throttlecrab/src/core/store", fname)) as f:
        toks = lex(strip_comments(f.read()))
    idx = [i for i in range(len(toks) - 4) if [t[1] for t in toks[i:i + 4]] == ["impl", "Store", "for", sname]]
    if len(idx) != 1:
        raise TranslateError("impl Store for %s not found" % sname)
    lo = idx[0] + 4
    hi = matching(toks, lo, "{", "}")
    out = []
    cl = {}
    for name, short, params, kind in (("get", "get", ["now"], "get"),
                                      ("set_if_not_exists_with_ttl", "setnx", ["value", "ttl", "now"], "eff"),
                                      ("compare_and_swap_with_ttl", "cas", ["old", "new", "ttl", "now"], "eff")):
        cleans, lines = method(toks, lo, hi, name, params, kind)
        cl[short] = cleans
        ty = "option Z" if kind == "get" else "store_eff"
        out.append("Definition gen_%s_%s (e : gentry) (%s : Z) : %s :=" % (tag, short, " ".join(params), ty))
        out += lines
        out.append("")
    out.append("(* does the method run the store's cleanup before looking the key up?  (get, set_if_not_exists, compare_and_swap) *)")
    out.append("Definition gen_%s_cleans : bool * bool * bool := (%s, %s, %s)." % (
        tag, *("true" if cl[k] else "false" for k in ("get", "setnx", "cas"))))
    out.append("")
    return out


def fold_self(ts):
    """`self . field` -> one identifier token self_field (read access to a field of the store)"""
    out, i = [], 0
    while i < len(ts):
        if ts[i] == ("id", "self") and i + 2 < len(ts) and ts[i + 1][1] == "." and ts[i + 2][0] == "id" and (i + 3 >= len(ts) or ts[i + 3][1] != "("):
            out.append(("id", "self_" + ts[i + 2][1]))
            i += 3
        else:
            out.append(ts[i])
            i += 1
    return out


class SF(dict):
    """environment in which every self_<field> is a number read through the parameter [sf]"""
    def __contains__(self, k):
        return dict.__contains__(self, k) or k.startswith("self_")

    def __getitem__(self, k):
        if dict.__contains__(self, k):
            return dict.__getitem__(self, k)
        return ("Z", '(sf "%s"%%string)' % k[5:])


def translate_sweep(tag, fname):
    """the predicate of the store's only `self.data.retain(|_, (_, expiry)| ..)`; for PeriodicStore also the trigger
    `if <cond> {` that encloses it and the assignment `self.next_cleanup = <expr>;`"""
    with open(os.path.join(REPO, "throttlecrab/src/core/store", fname)) as f:
        toks = lex(strip_comments(f.read()))
    idx = [i for i in range(len(toks) - 4) if [t[1] for t in toks[i:i + 5]] == ["self", ".", "data", ".", "retain"]]
    if len(idx) != 1:
        raise TranslateError("%s: expected exactly one self.data.retain(..)" % fname)
    lo = idx[0] + 5
    hi = matching(toks, lo, "(", ")")
    clo = toks[lo + 1:hi]
    if [t[1] for t in clo[:10]] != ["|", "_", ",", "(", "_", ",", "expiry", ")", "|", "{"]:
        raise TranslateError("%s: retain closure is not |_, (_, expiry)| { .. }" % fname)
    env = SF({"now": ("Z", "now"), "expiry": ("optZ", "expiry"), "true": ("bool", "true"), "false": ("bool", "false")})
    p = P(fold_self(nostar(clo[9:])), env)
    e = p.block()
    if p.i != len(p.t) or e[0] != "bool":
        raise TranslateError("%s: retain predicate outside the vocabulary" % fname)
    out = ["Definition gen_%s_keep (sf : string -> Z) (expiry : option Z) (now : Z) : bool := %s." % (tag, e[1]), ""]
    if tag == "p":
        # enclosing `if <cond> {` of the retain call inside fn maybe_clean_expired
        f0 = next(i for i in range(len(toks) - 1) if toks[i] == ("id", "fn") and toks[i + 1] == ("id", "maybe_clean_expired"))
        j = f0
        while toks[j][1] != "{":
            j += 1
        if toks[j + 1] != ("id", "if"):
            raise TranslateError("maybe_clean_expired does not start with its trigger")
        k = j + 2
        while toks[k][1] != "{":
            k += 1
        p = P(fold_self(toks[j + 2:k]), SF({"now": ("Z", "now")}))
        c = p.expr()
        if p.i != len(p.t) or c[0] != "bool":
            raise TranslateError("periodic trigger outside the vocabulary")
        khi = matching(toks, k, "{", "}")
        if not (k < idx[0] < khi):
            raise TranslateError("the sweep is not inside the trigger's block")
        asg = [i for i in range(k, khi) if [t[1] for t in toks[i:i + 4]] == ["self", ".", "next_cleanup", "="]]
        if len(asg) != 1:
            raise TranslateError("expected exactly one assignment to self.next_cleanup in the trigger's block")
        e2 = asg[0] + 4
        while toks[e2][1] != ";":
            e2 += 1
        p = P(fold_self(toks[asg[0] + 4:e2]), SF({"now": ("Z", "now")}))
        nx = p.expr()
        if p.i != len(p.t) or nx[0] != "Z":
            raise TranslateError("next_cleanup assignment outside the vocabulary")
        out += ["Definition gen_p_due (sf : string -> Z) (now : Z) : bool := %s." % c[1],
                "Definition gen_p_next (sf : string -> Z) (now : Z) : Z := %s." % nx[1], ""]
    return out


def translate():
    out = ["(* GENERATED by tools/extract_stores.py from throttlecrab/src/core/store/*.rs of /repo on every run.",
           "   Do not edit: Store/GenStoreTie.v proves these decision lists equal to the store models' entry-level functions. *)",
           "From Coq Require Import ZArith Bool String.", "Require Import TC.Store.GenStoreOps.", "Open Scope Z_scope.", "Open Scope bool_scope.", ""]
    for tag, fname, sname in STORES:
        out += translate_store(tag, fname, sname)
        out += translate_sweep(tag, fname)
    return "\n".join(out)


def main():
    note = None
    try:
        text = translate()
    except (OSError, TranslateError, StopIteration, IndexError) as e:
        note = "fallback store methods (text of the last verified tree; T2 is the only tie): %s" % (e,)
        with open(PINNED) as f:
            text = f.read()
    old = None
    if os.path.exists(OUT):
        with open(OUT) as f:
            old = f.read()
    if old != text:
        with open(OUT, "w") as f:
            f.write(text)
    if note:
        print(note)
    if "--pin" in sys.argv and not note:
        with open(PINNED, "w") as f:
            f.write(text)
    if "--print" in sys.argv:
        print(text)
    return 0


if __name__ == "__main__":
    sys.exit(main())
