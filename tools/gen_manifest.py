#!/usr/bin/env python3
"""Regenerates /verif/MANIFEST.json from the table below (kept valid at all times)."""
import json
import os

VERIF = os.path.dirname(os.path.dirname(os.path.abspath(__file__)))

AX4 = "4 stdlib axioms of the classical reals via Flocq (sig_not_dec, sig_forall_dec, functional_extensionality_dep, classic)"
COMMON_NOTE = ("Trusted: Coq 8.16.1 kernel (vm_compute, no native_compute); the T1 constants translator; the T2 differential harness "
               "(sampling, not proof) that ties the hand-written model to /repo on every run; rustc/cargo. ")

CLAIMED = {
    "C18": dict(
        text="Machine-checked Coq theorems (Properties/C18.v) about an executable Flocq binary64 model of Rate::from_count_and_period and of Duration/u32: "
             "exact floor quotient, bracket E*count <= period*1e9 < (E+1)*count, unit constructors = general one for all n in 1..2^32-1, invalid arguments give "
             "the blocking rate. Tied to the code on every run by regenerated constants (T1) and differential execution of the real constructors against the model (T2).",
        note=COMMON_NOTE + "Axioms: " + AX4 + ". IEEE-754 conformance of the CPU's f64 ops is assumed.",
        technique="Coq proof over a Flocq binary64 model + differential correspondence (vm_compute)",
        ref="DESIGN.md §5 C18"),
    "C06": dict(
        text="Machine-checked refinement theorem (Properties/C06.v): for every key type, every built-in store in every configuration, every oracle stream and "
             "every get/set-if-absent/CAS sequence with non-decreasing times, results equal those of an abstract map with per-entry expiry and cleanup is invisible. "
             "The executable store models are compared step by step (return value, physical entry count, scheduling snapshot through hook H1) with the real stores on every run.",
        note=COMMON_NOTE + "Axioms: none (closed under the global context). HashMap is trusted to be a finite map; AdaptiveStore's capacity-based pressure trigger is an oracle input. "
             "T1b: get / set_if_not_exists / compare_and_swap, the retain predicate and PeriodicStore's trigger are re-translated from the store sources on every run and proved equal to the "
             "model's entry-level functions (Store/GenStoreTie.v, outside the closure of Properties/C06.vo; status in coverage.source_tie_stores).",
        technique="Coq refinement proof (concrete stores -> abstract expiring map) + differential correspondence with state snapshots",
        ref="DESIGN.md §5 C06"),
}

LIM_NOTE = COMMON_NOTE + ("Axioms: none for the theorems (closed under the global context); the rate function is a parameter of the theorems (any function), "
    "the Flocq model of C18 is plugged in only for execution in the correspondence. HashMap trusted as a finite map; pre-1970 timestamps outside the model. "
    "T1b: the arithmetic of rate_limit (guards, every let of the loop body, the arguments of both store writes, the four response fields) is re-translated from the current "
    "source by tools/extract_limiter.py on every run and proved equal to the hand model for every input (Limiter/GenTie.v, axiom-free; outside the closure of Properties/*.vo, "
    "status recorded in the evidence under coverage.source_tie); likewise Rate::from_count_and_period (Float/RateTie.v) and the three trait methods, the retain predicate and "
    "PeriodicStore's trigger of every built-in store (tools/extract_stores.py, Store/GenStoreTie.v: 15 theorems, coverage.source_tie_stores). The translators (recursive-descent "
    "parsers for the expression subset; fall back to the pinned text of the last verified tree, and say so, on anything else) are trusted.")
CLAIMED.update({
    "C01": dict(
        text="Machine-checked theorem (Properties/C01.v): for every key type, store, configuration, oracle stream and multi-key history with non-decreasing timestamps in which a key is "
             "used with fixed limits in D, E*(admitted in [t1,t2] - B) <= t2 - t1 for every window. Proof: machine-arithmetic limiter model = per-key step in D (Machine.v), concrete stores "
             "refine the abstract expiring map (C06), per-key projection (C05), step-for-step simulation by the ideal token bucket (Sim.v), window bound for the bucket from any state (Window.v). "
             "The executable limiter model is compared with the real RateLimiter (outcome, entry count, store scheduling snapshot after every request) on every run.",
        note=LIM_NOTE, technique="Coq proof (refinement + simulation by ideal token bucket + induction over histories) + differential correspondence", ref="DESIGN.md §5 C01"),
    "C02": dict(
        text="Machine-checked theorem (Properties/C02.v): under the C01 hypotheses the decisions for a key equal, at every step, those of the ideal token bucket (capacity B, one token per E ns, "
             "exact integer arithmetic); fresh keys admit up to B; from every reachable key state a request <= B issued B*E after the last one is admitted (no starvation).",
        note=LIM_NOTE, technique="Coq proof (bisimulation kstep ~ ideal bucket, lifted through store refinement and key projection) + differential correspondence", ref="DESIGN.md §5 C02"),
    "C05": dict(
        text="Machine-checked theorem (Properties/C05.v): the responses for key k are the per-key step folded over k's own (quantity, time) list - independent of the store type, configuration, "
             "oracle stream, table growth/cleanup and of any traffic (valid or not, any limits) on other keys; frame lemma: a request never changes another key's abstract state.",
        note=LIM_NOTE, technique="Coq proof (frame + projection over the abstract expiring map, via C06 refinement) + differential correspondence with solo-vs-interleaved oracle", ref="DESIGN.md §5 C05"),
})

CLAIMED.update({
    "C03": dict(
        text="Machine-checked theorems (Properties/C03.v) on the per-key step from every state satisfying the reachability invariant: limit = B, 0 <= remaining <= B, remaining exact "
             "(a following request for r is admitted iff r <= remaining), retry_after = 0 iff admitted, retry_after exact for denied requests <= B (admitted then, denied at every earlier instant), "
             "reset_after >= time to full burst, reset_after = lifetime written to the store (also on the machine arithmetic: TTL handed to the store), fresh behaviour after reset_after. "
             "C05_projection ties every concrete response to such a step.",
        note=LIM_NOTE, technique="Coq proof (characterisation lemmas of the per-key GCRA step + machine-arithmetic equivalence) + differential correspondence with probing oracle", ref="DESIGN.md §5 C03"),
    "C04": dict(
        text="Machine-checked theorems (Properties/C04.v): rejected requests return the documented error and the store (table and scheduling state) unchanged; zero-quantity requests never write; "
             "denied requests leave the store unchanged; deleting any set of rejected/denied/zero-quantity requests from ANY history (any keys, any limits) changes no other response, on any two stores.",
        note=LIM_NOTE, technique="Coq proof (state-identity lemmas + deletion theorem over the abstract expiring map via C06) + differential correspondence with base-vs-inserted oracle", ref="DESIGN.md §5 C04"),
    "C07": dict(
        text="Machine-checked theorems (Properties/C07.v): lifetime clause - reset_after/TTL in [E, 2BE], written entry outlives its influence (tat+E <= expiry), forgetting an expired entry is "
             "indistinguishable; reclamation clause - after any history ending with a write at t every PeriodicStore entry has expiry >= t - interval, every AdaptiveStore entry expiry >= t - max(5s,min,max) "
             "with < max(max_operations,1) writes since the last sweep (every oracle stream), ProbabilisticStore sweeps exactly on every N-th write inside the no-wrap prefix (multiplier and modulus regenerated "
             "from the source, coprimality checked). Entry counts and scheduling state of the real stores are compared with the model after every request.",
        note=LIM_NOTE + " The probabilistic guarantee is proved for n*M < 2^64 (first ~6.9e9 writes). Bounded size is proved as a cardinality theorem: #entries <= #distinct keys written with a lifetime reaching into the reclamation window (periodic, adaptive; probabilistic: after a sweep, plus one per write in between).",
        technique="Coq proof (invariants by induction over operation sequences, number theory for the multiplicative hash) + differential correspondence (H1 entry counts/snapshots)", ref="DESIGN.md §5 C07"),
    "C08": dict(
        text="Machine-checked theorems (Properties/C08.v): for all i64 limits/quantity, any key, timestamps 1970..2200, any non-negative emission interval, any stored value, every reachable built-in store "
             "and oracle bit: outcome is the negative-quantity error, the invalid-parameters error, or a result with limit = B, 0 <= remaining <= B, retry_after = 0 iff admitted, fresh key admits q <= B; "
             "Panic (the model's outcome of every panicking operation) and the internal error are unreachable. Compared with the real code on the 19^4 boundary lattice in release and debug (overflow-checks) profiles.",
        note=LIM_NOTE + " One theorem (rate model non-negative) uses the 4 stdlib real-number axioms via Flocq.",
        technique="Coq proof over saturating i64 arithmetic (case analysis by lia on min/max clamps) + differential correspondence on the boundary lattice, two build profiles", ref="DESIGN.md §5 C08"),
    "C17": dict(
        text="Machine-checked theorems (Properties/C17.v) for ARBITRARY timestamp order: totality (no panic/error; the table stays a map), budget monotonicity for every physical key state, and the window bound "
             "(even without the +J slack) for every execution without a stale-forget event; plus a kernel-checked refutation witness showing the full property fails through stale-forget events "
             "(known finding, class-identified; any violation outside the class is reported).",
        note=LIM_NOTE + " The property as stated is NOT proved in full: it is refuted by C17_refuted_by_stale_forget (known finding findings/F7-stale-forget.json).",
        technique="Coq proof (potential-function argument on the never-forgetting per-key run, same-instant write lemma) + refutation witness by vm_compute + differential correspondence with class predicate", ref="DESIGN.md §5 C17"),
})

RESP_NOTE = COMMON_NOTE + ("Axioms: none. str::from_utf8, str::parse::<i64>, to_string are modelled (UTF-8 DFA, decimal codec) and exercised exhaustively on short strings; "
    "str::to_uppercase and the limiter's answers are oracle parameters of the command-handler model; TCP/tokio are not modelled.")
CLAIMED.update({
    "C13": dict(
        text="Machine-checked theorems (Properties/C13.v) about an executable model of RespParser (mutable nesting depth threaded, every slice an explicit bounds check): total on any bytes "
             "(no panic outcome, fuel always sufficient), consumed within [1, len], depth restored on value/need-more, size/count/nesting limits (regenerated constants) rejected, prefix stability, "
             "strict prefix of a frame needs more data, chunking independence of the connection loop and the buffer cap. Tied to the code by exhaustive enumeration of all byte strings up to a length "
             "over the protocol alphabet (enumerated independently inside Coq), generated frames/mutations, sessions on one parser instance and real TCP connections in many splittings.",
        note=RESP_NOTE + " Chunking independence is proved for the cap-less loop plus the lemma that below the cap the real loop coincides with it; frames within 1024 bytes of the 64 KiB cap can make the cap split-dependent (DESIGN.md).",
        technique="Coq proof (mutual induction on fuel over the parser model; prefix-stability; stream/chunk refinement) + exhaustive small-scope and TCP differential correspondence", ref="DESIGN.md §5 C13"),
    "C14": dict(
        text="Machine-checked theorems (Properties/C14.v): decode(encode v ++ rest) = (v, |encode v|) for every well-formed value at any depth within the limit (induction on values, decimal round trip), "
             "everything the decoder returns is well-formed, and every reply of the command handler - any command text, any upper-casing oracle, any limiter answer - is one well-formed value, hence exactly one frame.",
        note=RESP_NOTE, technique="Coq proof (structural induction with nested lists, decimal codec round trip, reply well-formedness) + byte-for-byte differential correspondence and TCP reply re-parsing", ref="DESIGN.md §5 C14"),
})

CLAIMED.update({
    "C15": dict(
        text="Machine-checked theorems (Properties/C15.v): an interleaving LTS of recorder threads (each operation = three atomic increments in the program order of metrics.rs); for any number of "
             "threads, programs and interleavings, at every quiescent state total = http+grpc+redis = allowed+denied+errors and each counter equals the events performed; counters are monotone; "
             "on RESP a command is counted as denied exactly when the reply sent is a denial decision (command-handler model); the HTTP and gRPC handlers' recorder calls (re-extracted from the sources) record the limiter's own flag / an error. Real Metrics exercised with 2..64 OS threads, over TCP, and by scraping /metrics of the real server at every quiescent point of mixed-protocol sessions.",
        note=RESP_NOTE + " Atomicity of fetch_add and the happens-before edge at a quiescent point are modelled, not verified; that every update of an atomic in metrics.rs IS a "
             "fetch_add(1) - the premise under which the interleaving model applies - is re-extracted from the source on every run (T1 table METRICS_ATOMIC_OPS) and is a theorem "
             "(C15_counters_only_incremented_atomically).",
        technique="Coq proof (invariant over an interleaving transition system; case analysis of the command handler) + multi-threaded and TCP differential correspondence", ref="DESIGN.md §5 C15"),
    "C16": dict(
        text="Machine-checked theorems (Properties/C16.v): for the relational model of TopDeniedKeys (every eviction survivor choice, every tie order): report shape, never overstates, exact while few, "
             "256-byte filter, 3*max(+1) memory bound, clamp/disable; and for the label escaping: a Prometheus label scanner reads back exactly the escaped key for ANY code points, no raw control "
             "character, one line feed per sample line. Every real table step (hook H3) is checked against the relation; escaping compared with the model.",
        note=RESP_NOTE + " HashMap iteration order is a relation in the model; trace acceptance for table limits <= 3 is evaluated in Coq by checkers proved sound for the relation (C16_acceptance_sound), larger limits by the Rust-side oracles only.",
        technique="Coq proof (relational model + invariants; escaping/scanner inverse by induction) + trace acceptance against hook snapshots", ref="DESIGN.md §5 C16"),
})

SRV_NOTE = COMMON_NOTE + ("Axioms: none for the LTS / transport theorems (closed under the global context); the instantiation with the library (C11) inherits C08's. "
    "tokio's mpsc/oneshot channels, task wake-ups, hyper/axum/tonic/prost/serde are REAL in the tests and MODELLED in the theorems (bounded FIFO queue, one-shot slots, "
    "abstract JSON object, int32 message); fairness of the runtime is a premise of the progress theorems.")
CLAIMED.update({
    "C09": dict(
        text="Machine-checked theorems (Properties/C09.v) over a labelled transition system of clients, bounded queue, reply slots and ONE sequential limiter (Server/Actor.v): every reachable state's "
             "answers are those of the sequential limiter run over the actor's processing log, which contains each client's requests in program order and respects real-time precedence "
             "(answered-before-invoked implies earlier in the log), for every schedule, queue capacity >= 1, number of clients and limiter; N equal-timestamp unit requests on a full bucket admit min(N,B). "
             "The real actor loop (hook H2) and real handle futures are driven through every poll order of small configurations and PRNG schedules beyond; the linearization found is replayed on the Coq model; "
             "real-socket runs mix HTTP, gRPC and RESP against one real server process.",
        note=SRV_NOTE + " The 'exactly min(N,B)' clause is proved for requests processed in timestamp order; transports stamp requests before enqueueing, so a sub-microsecond disorder can deny one request with retry_after 0 (DESIGN.md §6, not exhibited on the real server).",
        technique="Coq proof (invariants over an interleaving LTS; linearization = the actor's log) + exhaustive/sampled deterministic scheduling of the real actor future + real-socket runs", ref="DESIGN.md §5 C09"),
    "C10": dict(
        text="Machine-checked theorems (Properties/C10.v) on the same LTS: at most one answer per request and never two, a request is never dropped by a full queue (callers wait), deadlock freedom "
             "(some step is always enabled while work remains, for every capacity >= 1), a decreasing measure (termination under any fair schedule), every request is answered or was abandoned by its client, "
             "abandoning a request at any point changes no other client's answers and never un-does its own budget effect once queued; RESP pipelines: one reply per command in order for every splitting (with C13). "
             "Real actor future with capacity 1 and abandon actions under exhaustive/sampled schedules; real TCP pipelines in many splittings.",
        note=SRV_NOTE, technique="Coq proof (progress + measure + exactly-once invariants over the LTS; stream/chunk refinement for RESP) + deterministic scheduling of the real actor future + TCP correspondence", ref="DESIGN.md §5 C10"),
    "C11": dict(
        text="Machine-checked theorems (Properties/C11.v): in the LTS the limiter task stays alive across every request on which the limiter step does not panic; C08 totality discharges that premise for the "
             "library on every i64 input (timestamps 1970..2200), so every reachable state is alive and every answer is a documented one; a closed connection is inert. "
             "Hostile requests (C08 lattice corners) through the real actor future under the scheduler; hostile prefixes (extreme values, garbage, oversize, deep nesting, abrupt close) on every transport of one "
             "real server process followed by probes on fresh connections of every protocol.",
        note=SRV_NOTE + " Panics inside hyper/axum/tonic themselves are outside the model; the wire test exercises them.",
        technique="Coq proof (survival invariant, instantiated with the library totality theorem) + hostile-prefix/probe differential runs on the real actor and the real server", ref="DESIGN.md §5 C11"),
    "C12": dict(
        text="Machine-checked theorems (Properties/C12.v): the transports are modelled by INTERPRETING the field-mapping tables re-extracted from types.rs/http.rs/grpc.rs/redis/mod.rs and the proto file on every run; "
             "one exchange = decode, one limiter step, whole seconds, render, read at the documented positions; the same logical request gives the same limiter step and answer on all three protocols; "
             "JSON decoding characterised exactly (any field order, unknown fields, null/omitted quantity = 1), RESP bulk/integer encodings via the decimal round trip, gRPC widening; refused or rejected requests "
             "answer an error and leave every key's state unchanged; gRPC is exact within int32 and saturates beyond (residual = known finding). One real server process compared field by field with the model.",
        note=SRV_NOTE + " The property's 'equal' for gRPC durations above 2^31-1 s is refuted (C12_refuted_for_grpc_long_durations; known finding grpc-int32-range); the wrap to negative numbers found first was repaired (91fa2b8).",
        technique="Coq proof over a table-interpreting (regenerated) glue model + refinement to the abstract limiter + real-socket differential correspondence with independent clients", ref="DESIGN.md §5 C12"),
})

PENDING_REASON = ("framework for this property is still being built in this round (DESIGN.md §8.2 order of work); "
                  "no check is claimed until its theorems and correspondence run")


def main():
    props = [json.loads(l) for l in open(os.path.join(VERIF, "properties.jsonl"))]
    checks = []
    na = []
    for p in props:
        pid = p["id"]
        if pid in CLAIMED:
            c = CLAIMED[pid]
            checks.append({
                "property_id": pid,
                "quick_cmd": "./check %s quick" % pid,
                "thorough_cmd": "./check %s thorough" % pid,
                "evidence_file": "/verif/evidence/%s.json" % pid,
                "replay_cmd_template": "./check %s quick --replay {path}" % pid,
                "engine": "coq",
                "level_claimed": {"category": "proof", "text": c["text"], "design_ref": c["ref"]},
                "level_note": c["note"],
                "technique": c["technique"],
            })
        else:
            na.append({"property_id": pid, "reason": PENDING_REASON})
    hooks_commits = []
    hc = os.path.join(VERIF, "tools", "hook_commits.txt")
    if os.path.exists(hc):
        hooks_commits = [l.split()[0] for l in open(hc) if l.strip() and not l.startswith("#")]
    m = {
        "version": 1,
        "setup_cmd": "./setup.sh",
        "hooks": {
            "guard": "throttlecrab_verif",
            "enable": "RUSTFLAGS=\"--cfg throttlecrab_verif\" (set by lib/common.py for every harness build)",
            "baseline_off_cmd": "cd /repo && (cargo nextest run --workspace --no-fail-fast --offline || cargo test --workspace --no-fail-fast --offline)",
            "source_commits": hooks_commits,
            "add_only": True,
        },
        "engines": [{
            "name": "coq", "path": "/verif/coq", "serves_properties": sorted(CLAIMED),
            "kind_free_text": "Coq 8.16.1 development (theorems + executable models), T1 regenerated constants, T2 differential correspondence driven by /verif/check",
        }],
        "checks": checks,
        "notes": "See DESIGN.md. Every check regenerates Generated/Consts.v from /repo, rebuilds the property's .vo closure, audits pinned statements and axioms, "
                 "rebuilds the Rust harness against /repo's working tree with the hook cfg, and runs implementation vs model.",
        "not_applicable": na,
    }
    with open(os.path.join(VERIF, "MANIFEST.json"), "w") as f:
        json.dump(m, f, indent=1)
        f.write("\n")


if __name__ == "__main__":
    main()
