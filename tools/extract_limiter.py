#!/usr/bin/env python3
"""T1b: translate the arithmetic of RateLimiter::rate_limit (throttlecrab/src/core/rate_limiter.rs) into Gallina.

Reads the CURRENT source of /repo, parses the body of `rate_limit` with a small recursive-descent parser for the
expression subset the function is written in (let bindings, blocks, if / if-let-Some, saturating_* / max / min /
as_nanos method calls, `as` casts, integer literals, comparisons, && || !, + - * /, Duration::from_nanos, Duration::ZERO,
i64::MAX / i64::MIN) and writes coq/Generated/LimGen.v:

  gen_validate : quantity max_burst count_per_period period -> option (negative-quantity? | invalid-limits?)
  gen_calc     : Edur max_burst quantity now_ns tat_val -> the record of everything the loop body computes
                 (allowed, write guard, the value/ttl arguments of both store calls, the four response fields)

Limiter/GenTie.v proves (for every input) that these equal the hand-written model `m_calc` / `rate_limit` guards the
theorems are about.  Anything outside the vocabulary raises TranslateError: the caller then falls back to the text of the
last verified tree (tools/t1_limgen_pinned.v) and records the fallback; T2 is then the only tie for this run.

Semantics of the emitted operators (Limiter/Arith.v, Limiter/GenOps.v): sat_add/sat_sub/sat_mul clamp to i64; `as i64`,
`as u64`, `as u128` are the wrapping casts as_i64/as_u64/as_u128; plain `-` and `+` are exact (the overflow-checked
profile is C08's business, see Total.v); `/` is Z.quot (Rust's truncating division); `a >= b` is emitted as `b <=? a`.
"""
import os
import re
import sys

HERE = os.path.dirname(os.path.abspath(__file__))
REPO = os.environ.get("VERIF_REPO", "/repo")
SRC = os.path.join(REPO, "throttlecrab/src/core/rate_limiter.rs")
OUT = os.path.normpath(os.path.join(HERE, "..", "coq", "Generated", "LimGen.v"))
PINNED = os.path.join(HERE, "t1_limgen_pinned.v")


class TranslateError(Exception):
    pass


# ------------------------------------------------------------------ lexer

TOKEN_RE = re.compile(r"""
    (?P<ws>\s+)
  | (?P<flt>[0-9][0-9_]*\.[0-9][0-9_]*(?:f64)?)
  | (?P<num>[0-9][0-9_]*(?:[iu](?:8|16|32|64|128|size))?)
  | (?P<id>[A-Za-z_][A-Za-z0-9_]*)
  | (?P<op>::|&&|\|\||>=|<=|==|!=|->|=>|[-+*/%<>=!.,;:(){}\[\]&|?#'@$^~])
""", re.X)


def strip_comments(src):
    out, i, n = [], 0, len(src)
    while i < n:
        if src.startswith("//", i):
            j = src.find("\n", i)
            i = n if j < 0 else j
        elif src.startswith("/*", i):
            j = src.find("*/", i + 2)
            if j < 0:
                raise TranslateError("unterminated block comment")
            i = j + 2
        elif src[i] == '"':
            j = i + 1
            while j < n and src[j] != '"':
                j += 2 if src[j] == "\\" else 1
            out.append(" STRLIT ")
            i = j + 1
        else:
            out.append(src[i])
            i += 1
    return "".join(out)


def lex(src):
    toks, i = [], 0
    while i < len(src):
        m = TOKEN_RE.match(src, i)
        if not m:
            raise TranslateError("unexpected character %r" % src[i:i + 20])
        i = m.end()
        if m.lastgroup == "ws":
            continue
        toks.append((m.lastgroup, m.group()))
    return toks


# ------------------------------------------------------------------ parser -> Gallina text

INT_TYPES = {"i64": "as_i64", "u64": "as_u64", "u128": "as_u128", "i128": "as_i128"}
METHODS2 = {"saturating_add": "sat_add", "saturating_sub": "sat_sub", "saturating_mul": "sat_mul",
            "max": "Z.max", "min": "Z.min"}
RESERVED = {"now": "now_st"}


class P:
    """expressions are returned as (type, text) with type in {'Z', 'bool'}"""

    def __init__(self, toks, env):
        self.t = toks
        self.i = 0
        self.env = env          # rust identifier -> (type, coq identifier)

    def peek(self, k=0):
        return self.t[self.i + k] if self.i + k < len(self.t) else ("eof", "")

    def take(self, val=None):
        tok = self.peek()
        if val is not None and tok[1] != val:
            raise TranslateError("expected %r, found %r (token %d)" % (val, tok[1], self.i))
        self.i += 1
        return tok

    def at(self, val):
        return self.peek()[1] == val

    # precedence climbing: || < && < comparison < + - < * / < unary < cast < postfix
    def expr(self):
        return self.p_or()

    def p_or(self):
        a = self.p_and()
        while self.at("||"):
            self.take()
            b = self.p_and()
            a = ("bool", "(%s || %s)" % (self.b(a), self.b(b)))
        return a

    def p_and(self):
        a = self.p_cmp()
        while self.at("&&"):
            self.take()
            b = self.p_cmp()
            a = ("bool", "(%s && %s)" % (self.b(a), self.b(b)))
        return a

    def b(self, e):
        if e[0] != "bool":
            raise TranslateError("boolean expected: " + e[1])
        return e[1]

    def z(self, e):
        if e[0] != "Z":
            raise TranslateError("integer expected: " + e[1])
        return e[1]

    def p_cmp(self):
        a = self.p_add()
        if self.peek()[1] in (">=", "<=", ">", "<", "==", "!="):
            op = self.take()[1]
            b = self.p_add()
            x, y = self.z(a), self.z(b)
            txt = {">=": "(%s <=? %s)" % (y, x), "<=": "(%s <=? %s)" % (x, y), ">": "(%s <? %s)" % (y, x),
                   "<": "(%s <? %s)" % (x, y), "==": "(%s =? %s)" % (x, y), "!=": "(negb (%s =? %s))" % (x, y)}[op]
            return ("bool", txt)
        return a

    def p_add(self):
        a = self.p_mul()
        while self.peek()[1] in ("+", "-"):
            op = self.take()[1]
            b = self.p_mul()
            a = ("Z", "(%s %s %s)" % (self.z(a), op, self.z(b)))
        return a

    def p_mul(self):
        a = self.p_unary()
        while self.peek()[1] in ("*", "/"):
            op = self.take()[1]
            b = self.p_unary()
            if a[0] == "F" or b[0] == "F":
                if a[0] != b[0]:
                    raise TranslateError("mixed float/integer arithmetic")
                a = ("F", "(%s mode_NE %s %s)" % ("Bmult" if op == "*" else "Bdiv", a[1], b[1]))
            else:
                a = ("Z", "(%s * %s)" % (self.z(a), self.z(b))) if op == "*" else ("Z", "(Z.quot %s %s)" % (self.z(a), self.z(b)))
        return a

    def p_unary(self):
        if self.at("!"):
            self.take()
            return ("bool", "(negb %s)" % self.b(self.p_unary()))
        if self.at("-"):
            self.take()
            return ("Z", "(- %s)" % self.z(self.p_unary()))
        return self.p_cast()

    def p_cast(self):
        a = self.p_postfix()
        while self.peek() == ("id", "as"):
            self.take()
            ty = self.take()[1]
            if ty == "f64":
                a = ("F", "(of_Z %s)" % self.z(a))
                continue
            if a[0] == "F":
                if ty != "u64":
                    raise TranslateError("float cast to %s is outside the vocabulary" % ty)
                a = ("Z", "(f64_to_u64 %s)" % a[1])
                continue
            if ty not in INT_TYPES:
                raise TranslateError("cast to %s is outside the vocabulary" % ty)
            a = ("Z", "(%s %s)" % (INT_TYPES[ty], self.z(a)))
        return a

    def p_postfix(self):
        a = self.p_primary()
        while self.at("."):
            self.take()
            name = self.take()[1]
            self.take("(")
            if name in METHODS2:
                b = self.expr()
                self.take(")")
                a = ("Z", "(%s %s %s)" % (METHODS2[name], self.z(a), self.z(b)))
            elif name == "as_nanos":
                self.take(")")
                if a != ("Z", "emission_interval"):
                    raise TranslateError(".as_nanos() on something other than emission_interval: " + a[1])
                a = ("Z", "Edur")
            else:
                raise TranslateError("method .%s() is outside the vocabulary" % name)
        return a

    def block(self):
        """{ let a = e; ... tail }"""
        self.take("{")
        saved = dict(self.env)
        lets = []
        while self.peek() == ("id", "let"):
            lets.append(self.let_stmt())
        tail = self.expr()
        self.take("}")
        self.env = saved
        txt = tail[1]
        for name, e in reversed(lets):
            txt = "(let %s := %s in %s)" % (name, e[1], txt)
        return (tail[0], txt)

    def let_stmt(self):
        self.take("let")
        if self.peek() == ("id", "mut"):
            raise TranslateError("let mut inside an expression block")
        name = self.take()[1]
        if self.at(":"):
            self.take()
            self.take()
        self.take("=")
        e = self.expr()
        self.take(";")
        cname = RESERVED.get(name, name)
        self.env[name] = (e[0], cname)
        return cname, e

    def p_primary(self):
        kind, val = self.peek()
        if val == "(":
            self.take()
            e = self.expr()
            self.take(")")
            return e
        if val == "{":
            return self.block()
        if kind == "flt":
            self.take()
            m = re.match(r"([0-9_]+)\.([0-9_]+)", val)
            if int(m.group(2).replace("_", "")) != 0:
                raise TranslateError("non-integral float literal " + val)
            return ("F", "(of_Z %s)" % m.group(1).replace("_", ""))
        if kind == "num":
            self.take()
            return ("Z", re.sub(r"[iu](8|16|32|64|128|size)$", "", val).replace("_", ""))
        if kind == "id" and val == "if":
            self.take()
            if self.peek() == ("id", "let"):
                self.take()
                self.take("Some")
                self.take("(")
                bound = self.take()[1]
                self.take(")")
                self.take("=")
                scrut = self.take()[1]
                if scrut not in self.env or self.env[scrut][0] != "optZ":
                    raise TranslateError("if let Some(..) on %s, which is not the looked-up TAT" % scrut)
                saved = dict(self.env)
                self.env[bound] = ("Z", bound)
                a = self.block()
                self.env = saved
                self.take("else")
                b = self.block()
                if a[0] != b[0]:
                    raise TranslateError("branches of different types")
                return (a[0], "(match %s with Some %s => %s | None => %s end)" % (self.env[scrut][1], bound, a[1], b[1]))
            c = self.p_or_nostruct()
            a = self.block()
            self.take("else")
            if self.peek() == ("id", "if"):
                b = self.p_primary()
            else:
                b = self.block()
            if a[0] != b[0]:
                raise TranslateError("branches of different types")
            return (a[0], "(if %s then %s else %s)" % (self.b(c), a[1], b[1]))
        if kind == "id":
            self.take()
            if self.at("::"):
                self.take()
                member = self.take()[1]
                if val == "i64" and member == "MAX":
                    return ("Z", "i64max")
                if val == "i64" and member == "MIN":
                    return ("Z", "i64min")
                if val == "u64" and member == "MAX":
                    return ("Z", "u64max")
                if val == "Duration" and member == "from_secs":
                    self.take("(")
                    e = self.expr()
                    self.take(")")
                    return ("Z", "(%s * 1000000000)" % self.z(e))
                if val == "Duration" and member in ("from_millis", "from_micros"):
                    self.take("(")
                    e = self.expr()
                    self.take(")")
                    return ("Z", "(%s * %d)" % (self.z(e), 1000000 if member == "from_millis" else 1000))
                if val == "Duration" and member == "ZERO":
                    return ("Z", "0")
                if val == "Duration" and member == "from_nanos":
                    self.take("(")
                    e = self.expr()
                    if self.at(","):
                        self.take()
                    self.take(")")
                    return ("Z", self.z(e))
                raise TranslateError("path %s::%s is outside the vocabulary" % (val, member))
            if val in self.env:
                ty, cname = self.env[val]
                if ty == "optZ":
                    raise TranslateError("the looked-up TAT used as a number")
                return (ty, cname)
            raise TranslateError("unknown identifier %s" % val)
        raise TranslateError("unexpected token %r" % val)

    def p_or_nostruct(self):
        return self.p_or()


def matching(toks, i, open_, close):
    depth = 0
    while i < len(toks):
        if toks[i][1] == open_:
            depth += 1
        elif toks[i][1] == close:
            depth -= 1
            if depth == 0:
                return i
        i += 1
    raise TranslateError("unbalanced " + open_)


def find_fn(toks, name):
    for i in range(len(toks) - 1):
        if toks[i] == ("id", "fn") and toks[i + 1] == ("id", name):
            j = i
            while toks[j][1] != "{":
                j += 1
            return j, matching(toks, j, "{", "}")
    raise TranslateError("fn %s not found" % name)


SKIP_LETS = {"rate", "emission_interval", "limit", "now_ns", "retries", "tat_val", "success", "period_ns"}


def call_args(toks, fname):
    """token slices of the arguments of the (unique) call `.fname(...)`"""
    hits = [i for i in range(len(toks) - 1) if toks[i] == ("id", fname) and toks[i + 1][1] == "("]
    if len(hits) != 1:
        raise TranslateError("expected exactly one call of %s, found %d" % (fname, len(hits)))
    lo = hits[0] + 1
    hi = matching(toks, lo, "(", ")")
    args, depth, cur = [], 0, []
    for t in toks[lo + 1:hi]:
        if t[1] in "({[":
            depth += 1
        if t[1] in ")}]":
            depth -= 1
        if t[1] == "," and depth == 0:
            args.append(cur)
            cur = []
        else:
            cur.append(t)
    if cur:
        args.append(cur)
    return args


def translate(src):
    src = strip_comments(src)
    at = src.find("fn rate_limit")
    if at < 0:
        raise TranslateError("fn rate_limit not found")
    toks = lex(src[at:])
    lo, hi = find_fn(toks, "rate_limit")
    body = toks[lo:hi + 1]

    # ---- the two validation guards, in source order, before the first `let`
    first_let = next(i for i, t in enumerate(body) if t == ("id", "let"))
    pre = body[1:first_let]
    env0 = {n: ("Z", n) for n in ("quantity", "max_burst", "count_per_period", "period")}
    guards = []
    i = 0
    while i < len(pre):
        if pre[i] != ("id", "if"):
            raise TranslateError("statement before the first let that is not an `if` guard: %r" % (pre[i][1],))
        j = i + 1
        while pre[j][1] != "{":
            j += 1
        p = P(pre[i + 1:j], dict(env0))
        cond = p.expr()
        if p.i != len(p.t):
            raise TranslateError("guard condition not fully parsed")
        k = matching(pre, j, "{", "}")
        blk = [t[1] for t in pre[j:k + 1]]
        if "NegativeQuantity" in blk:
            what = "GNegativeQuantity"
        elif "InvalidRateLimit" in blk:
            what = "GInvalidRateLimit"
        else:
            raise TranslateError("guard block returns something other than the two documented errors")
        if "return" not in blk or "Err" not in blk:
            raise TranslateError("guard block does not return an error")
        guards.append((p.b(cond), what))
        i = k + 1
    if not guards:
        raise TranslateError("no validation guards found")

    # ---- the loop body
    li = next((i for i, t in enumerate(body) if t == ("id", "loop")), None)
    if li is None:
        raise TranslateError("retry loop not found")
    lhi = matching(body, li + 1, "{", "}")
    loop = body[li + 1:lhi + 1]
    env = {"max_burst": ("Z", "max_burst"), "quantity": ("Z", "quantity"), "now_ns": ("Z", "now_ns"),
           "emission_interval": ("Z", "emission_interval"), "limit": ("Z", "max_burst"), "tat_val": ("optZ", "tat_val")}
    # `let limit = max_burst;` is checked textually
    if not re.search(r"let\s+limit\s*=\s*max_burst\s*;", strip_comments(src)):
        raise TranslateError("`let limit = max_burst;` not found")
    lets = []
    i = 1
    guard_txt = None
    while i < len(loop) - 1:
        t = loop[i]
        if t == ("id", "let"):
            # find the end of the statement: `;` at depth 0
            depth, j = 0, i
            while True:
                v = loop[j][1]
                if v in "({[":
                    depth += 1
                elif v in ")}]":
                    depth -= 1
                elif v == ";" and depth == 0:
                    break
                j += 1
            name = loop[i + 1][1]
            if name == "mut":
                raise TranslateError("let mut in the loop body")
            if name in SKIP_LETS:
                i = j + 1
                continue
            p = P(loop[i:j + 1], env)
            cname, e = p.let_stmt()
            if p.i != len(p.t):
                raise TranslateError("let %s not fully parsed" % name)
            env = p.env
            lets.append((cname, e))
            i = j + 1
            continue
        if t == ("id", "if") and guard_txt is None and loop[i + 1] != ("id", "let"):
            # the first statement-level `if` of the loop is the write guard
            j = i + 1
            while loop[j][1] != "{":
                j += 1
            p = P(loop[i + 1:j], dict(env))
            c = p.expr()
            if p.i != len(p.t):
                raise TranslateError("write guard not fully parsed")
            k = matching(loop, j, "{", "}")
            inner = [x[1] for x in loop[j:k + 1]]
            if "compare_and_swap_with_ttl" not in inner or "set_if_not_exists_with_ttl" not in inner:
                raise TranslateError("the first `if` of the loop body does not contain the two store writes")
            guard_txt = p.b(c)
            i = j + 1            # descend into the block (its lets are pure and only use outer names)
            continue
        i += 1
    if guard_txt is None:
        raise TranslateError("write guard not found")

    def arg(ts):
        p = P(ts, dict(env))
        e = p.expr()
        if p.i != len(p.t):
            raise TranslateError("store-call argument not fully parsed")
        return p.z(e)
    cas = call_args(loop, "compare_and_swap_with_ttl")
    nx = call_args(loop, "set_if_not_exists_with_ttl")
    if len(cas) != 5 or len(nx) != 4:
        raise TranslateError("store calls with an unexpected number of arguments")
    if [t[1] for t in cas[0]] != ["key"] or [t[1] for t in nx[0]] != ["key"] or [t[1] for t in cas[4]] != ["now"] or [t[1] for t in nx[3]] != ["now"]:
        raise TranslateError("store calls not made with (key, ..., now)")
    # the CAS `old` argument must be the value bound by `if let Some(old) = tat_val`
    old_name = [t[1] for t in cas[1]]
    if len(old_name) != 1 or not re.search(r"if\s+let\s+Some\s*\(\s*%s\s*\)\s*=\s*tat_val" % re.escape(old_name[0]), strip_comments(src)):
        raise TranslateError("compare-and-swap is not made with the looked-up value as `old`")
    cas_new, cas_ttl = arg(cas[2]), arg(cas[3])
    nx_new, nx_ttl = arg(nx[1]), arg(nx[2])

    # ---- the returned value: Ok(( <allowed>, RateLimitResult { limit, remaining, reset_after, retry_after } ))
    ri = [i for i in range(len(loop) - 1) if loop[i] == ("id", "RateLimitResult") and loop[i + 1][1] == "{"]
    if len(ri) != 1:
        raise TranslateError("expected exactly one RateLimitResult literal in the loop")
    rhi = matching(loop, ri[0] + 1, "{", "}")
    fields = {}
    cur, depth = [], 0
    for t in loop[ri[0] + 2:rhi] + [("op", ",")]:
        if t[1] in "({[":
            depth += 1
        if t[1] in ")}]":
            depth -= 1
        if t[1] == "," and depth == 0:
            if cur:
                if len(cur) == 1:
                    fields[cur[0][1]] = arg(cur)
                else:
                    if cur[1][1] != ":":
                        raise TranslateError("unexpected field syntax in RateLimitResult literal")
                    fields[cur[0][1]] = arg(cur[2:])
            cur = []
        else:
            cur.append(t)
    if set(fields) != {"limit", "remaining", "reset_after", "retry_after"}:
        raise TranslateError("RateLimitResult literal has fields %s" % sorted(fields))
    # the flag: first element of the returned tuple, just before the literal: `Ok((` <expr> `,` RateLimitResult
    k = ri[0] - 1
    if loop[k][1] != ",":
        raise TranslateError("returned tuple not of the form (flag, RateLimitResult{..})")
    s = k
    depth = 0
    while True:
        s -= 1
        v = loop[s][1]
        if v in ")}]":
            depth += 1
        elif v in "({[":
            if depth == 0:
                break
            depth -= 1
    p = P(loop[s + 1:k], dict(env))
    flag = p.expr()
    if p.i != len(p.t):
        raise TranslateError("returned flag not fully parsed")
    if [t[1] for t in loop[s - 3:s + 1]] != ["return", "Ok", "(", "("] and [t[1] for t in loop[s - 2:s + 1]] != ["Ok", "(", "("]:
        raise TranslateError("the RateLimitResult literal is not inside `Ok((flag, ..))`")

    out = []
    out.append("(* GENERATED by tools/extract_limiter.py from throttlecrab/src/core/rate_limiter.rs of /repo on every run.")
    out.append("   Do not edit: Limiter/GenTie.v proves that these definitions equal the hand-written model. *)")
    out.append("From Coq Require Import ZArith Bool.")
    out.append("Require Import TC.Limiter.Arith TC.Limiter.GenOps.")
    out.append("Open Scope Z_scope.")
    out.append("Open Scope bool_scope.")
    out.append("")
    out.append("Definition gen_validate (quantity max_burst count_per_period period : Z) : option gen_error :=")
    txt = "None"
    for cond, what in reversed(guards):
        txt = "if %s then Some %s else %s" % (cond, what, txt)
    out.append("  " + txt + ".")
    out.append("")
    out.append("Definition gen_calc (Edur max_burst quantity now_ns : Z) (tat_val : option Z) : gen_result :=")
    for name, e in lets:
        out.append("  let %s := %s in" % (name, e[1]))
    out.append("  {| g_allowed := %s; g_write := %s;" % (p.b(flag), guard_txt))
    out.append("     g_cas_new := %s; g_cas_ttl := %s; g_nx_new := %s; g_nx_ttl := %s;" % (cas_new, cas_ttl, nx_new, nx_ttl))
    out.append("     g_limit := %s; g_remaining := %s; g_reset_after := %s; g_retry_after := %s |}." % (
        fields["limit"], fields["remaining"], fields["reset_after"], fields["retry_after"]))
    out.append("")
    return "\n".join(out)


def translate_rate(src):
    """Rate::from_count_and_period: `if <guard> { return Rate { period: <dur> }; } let period_ns = <expr>; Rate { period: Duration::from_nanos(period_ns) }`"""
    src = strip_comments(src)
    at = src.find("fn from_count_and_period")
    if at < 0:
        raise TranslateError("fn from_count_and_period not found")
    toks = lex(src[at:])
    lo, hi = find_fn(toks, "from_count_and_period")
    params = [toks[i][1] for i in range(lo) if toks[i][0] == "id" and toks[i + 1][1] == ":"]
    if params != ["count", "period_seconds"]:
        raise TranslateError("unexpected parameters %s" % params)
    body = toks[lo + 1:hi]
    env = {"count": ("Z", "count"), "period_seconds": ("Z", "period_seconds")}

    def rate_literal(ts):
        """Rate { period: <expr> } -> ns expression"""
        if [t[1] for t in ts[:4]] != ["Rate", "{", "period", ":"] or ts[-1][1] != "}":
            raise TranslateError("expected a `Rate { period: .. }` literal")
        inner = ts[4:-1]
        if inner and inner[-1][1] == ",":
            inner = inner[:-1]
        p = P(inner, dict(env))
        e = p.expr()
        if p.i != len(p.t):
            raise TranslateError("Rate literal not fully parsed")
        return p.z(e)
    if body[0] != ("id", "if"):
        raise TranslateError("from_count_and_period does not start with its validity guard")
    j = 1
    while body[j][1] != "{":
        j += 1
    p = P(body[1:j], dict(env))
    cond = p.expr()
    if p.i != len(p.t):
        raise TranslateError("guard not fully parsed")
    k = matching(body, j, "{", "}")
    blk = body[j + 1:k]
    if blk[0] != ("id", "return") or blk[-1][1] != ";":
        raise TranslateError("guard block is not `return Rate {..};`")
    invalid = rate_literal(blk[1:-1])
    rest = body[k + 1:]
    lets = []
    i = 0
    while rest[i] == ("id", "let"):
        depth, e = 0, i
        while True:
            v = rest[e][1]
            if v in "({[":
                depth += 1
            elif v in ")}]":
                depth -= 1
            elif v == ";" and depth == 0:
                break
            e += 1
        p = P(rest[i:e + 1], env)
        lets.append(p.let_stmt())
        if p.i != len(p.t):
            raise TranslateError("let not fully parsed")
        env = p.env
        i = e + 1
    valid = rate_literal(rest[i:])
    txt = valid
    for name, e in reversed(lets):
        if e[0] != "Z":
            raise TranslateError("non-integer let in from_count_and_period")
        txt = "(let %s := %s in %s)" % (name, e[1], txt)
    out = ["(* GENERATED by tools/extract_limiter.py from throttlecrab/src/core/rate/mod.rs of /repo on every run.",
           "   Do not edit: Float/RateTie.v proves that this definition equals the Flocq model of Float/Rate64.v. *)",
           "From Coq Require Import ZArith Bool.", "From Flocq Require Import Core BinarySingleNaN.",
           "Require Import TC.Float.Rate64.", "Open Scope Z_scope.", "Open Scope bool_scope.", "",
           "(* Rate::from_count_and_period(count, period_seconds).period() in nanoseconds *)",
           "Definition gen_rate (count period_seconds : Z) : Z :=",
           "  if %s then %s else %s." % (p_b(cond), invalid, txt), ""]
    return "\n".join(out)


def p_b(e):
    if e[0] != "bool":
        raise TranslateError("boolean expected")
    return e[1]


RATE_SRC = os.path.join(REPO, "throttlecrab/src/core/rate/mod.rs")
RATE_OUT = os.path.normpath(os.path.join(HERE, "..", "coq", "Generated", "RateGen.v"))
RATE_PINNED = os.path.join(HERE, "t1_rategen_pinned.v")


def main_rate():
    note = None
    try:
        with open(RATE_SRC) as f:
            text = translate_rate(f.read())
    except (OSError, TranslateError, StopIteration, IndexError) as e:
        note = "fallback rate constructor (text of the last verified tree; T2 is the only tie): %s" % (e,)
        with open(RATE_PINNED) as f:
            text = f.read()
    old = None
    if os.path.exists(RATE_OUT):
        with open(RATE_OUT) as f:
            old = f.read()
    if old != text:
        with open(RATE_OUT, "w") as f:
            f.write(text)
    if note:
        print(note)
    if "--pin" in sys.argv and not note:
        with open(RATE_PINNED, "w") as f:
            f.write(text)
    if "--print" in sys.argv:
        print(text)


def main():
    main_rate()
    note = None
    try:
        with open(SRC) as f:
            text = translate(f.read())
    except (OSError, TranslateError, StopIteration, IndexError) as e:
        note = "fallback limiter arithmetic (text of the last verified tree; T2 is the only tie): %s" % (e,)
        with open(PINNED) as f:
            text = f.read()
    old = None
    if os.path.exists(OUT):
        with open(OUT) as f:
            old = f.read()
    if old != text:
        os.makedirs(os.path.dirname(OUT), exist_ok=True)
        with open(OUT, "w") as f:
            f.write(text)
    if note:
        print(note)
    if "--pin" in sys.argv:
        if note:
            print("extract_limiter: refusing to pin a fallback", file=sys.stderr)
            return 2
        with open(PINNED, "w") as f:
            f.write(text)
    if "--print" in sys.argv:
        print(text)
    return 0


if __name__ == "__main__":
    sys.exit(main())
