#!/usr/bin/env python3
"""tools/save_seed.py <Cxx> <seed-dir> '<json meta fields>' : copies a confirmed seeded change into /verif/seeded/<id>/"""
import json, os, shutil, sys
pid, src, meta = sys.argv[1], sys.argv[2], json.loads(sys.argv[3])
dst = os.path.join(os.path.dirname(os.path.dirname(os.path.abspath(__file__))), "seeded", pid)
os.makedirs(dst, exist_ok=True)
for f in ("patch.diff", "seed_demo.rs", "demo_cmd.txt", "notes.md"):
    if os.path.exists(os.path.join(src, f)):
        shutil.copy(os.path.join(src, f), os.path.join(dst, f))
base = {"property_broken": pid, "base_commit_of_patch": meta.pop("base", "91fa2b8"),
        "confirmed": {"demo_fails_with_change": True, "demo_passes_without_change": True, "existing_tests_pass_with_change": True,
                      "how": "tools/try_seed.sh <seed-dir> <scratch worktree> <checks>: demo with and without the patch in the scratch worktree, cargo test with the patch; then git -C /repo apply, ./check <id> quick, git -C /repo checkout -- ."},
        "produced_by": "independent sub-agent given only the property text and a scratch worktree"}
base.update(meta)
json.dump(base, open(os.path.join(dst, "meta.json"), "w"), indent=1)
print("saved", dst)
