(* Association-list finite maps with unique keys: the model of the HashMap inside the stores.
   HashMap (std / ahash / hashbrown) is trusted to be a correct finite map; iteration order
   and table capacity are never used by the model. *)
From Coq Require Import ZArith List Bool Lia.
Import ListNotations.

Section Map.
Variable K : Type.
Variable keqb : K -> K -> bool.
Hypothesis keqb_spec : forall a b, reflect (a = b) (keqb a b).
Variable V : Type.

Definition amap := list (K * V).

Fixpoint lookup (d : amap) (k : K) : option V :=
  match d with
  | [] => None
  | (k', e) :: r => if keqb k k' then Some e else lookup r k
  end.
Definition remove (d : amap) (k : K) : amap := filter (fun p => negb (keqb k (fst p))) d.
Definition insert (d : amap) (k : K) (e : V) : amap := (k, e) :: remove d k.
Definition uniq (d : amap) : Prop := NoDup (map fst d).

Lemma keqb_refl k : keqb k k = true.
Proof. destruct (keqb_spec k k); congruence. Qed.

Lemma lookup_remove_eq d k : lookup (remove d k) k = None.
Proof.
  induction d as [|[k' e] r IH]; simpl; auto.
  destruct (keqb_spec k k'); simpl; auto.
  destruct (keqb_spec k k'); congruence.
Qed.

Lemma lookup_remove_ne d k k2 : k2 <> k -> lookup (remove d k) k2 = lookup d k2.
Proof.
  intros H. induction d as [|[k' e] r IH]; simpl; auto.
  destruct (keqb_spec k k'); simpl.
  - subst. destruct (keqb_spec k2 k'); congruence.
  - destruct (keqb_spec k2 k'); auto.
Qed.

Lemma lookup_insert d k e k2 :
  lookup (insert d k e) k2 = if keqb k2 k then Some e else lookup d k2.
Proof.
  unfold insert; simpl. destruct (keqb_spec k2 k); auto. now apply lookup_remove_ne.
Qed.

Lemma lookup_in d k e : lookup d k = Some e -> In k (map fst d).
Proof.
  induction d as [|[k' e'] r IH]; simpl; try discriminate.
  destruct (keqb_spec k k'); subst; auto.
Qed.

Lemma lookup_none d k : lookup d k = None <-> ~ In k (map fst d).
Proof.
  induction d as [|[k' e'] r IH]; simpl.
  - tauto.
  - destruct (keqb_spec k k'); subst.
    + split; [discriminate|]. intros H; exfalso; apply H; auto.
    + rewrite IH. split; intros H; [intros [H1|H1]; congruence | tauto].
Qed.

Lemma in_filter_fst (P : K * V -> bool) d k : In k (map fst (filter P d)) -> In k (map fst d).
Proof.
  induction d as [|[k' e'] r IH]; simpl; auto.
  destruct (P (k', e')); simpl; intuition.
Qed.

Lemma uniq_filter (P : K * V -> bool) d : uniq d -> uniq (filter P d).
Proof.
  unfold uniq. induction d as [|[k' e'] r IH]; simpl; intros U; auto.
  inversion U as [|? ? Hn U']; subst.
  destruct (P (k', e')); simpl; auto.
  constructor; auto. intros H. apply Hn. eapply in_filter_fst; eauto.
Qed.

Lemma uniq_remove d k : uniq d -> uniq (remove d k).
Proof. apply uniq_filter. Qed.

Lemma not_in_remove d k : ~ In k (map fst (remove d k)).
Proof. apply lookup_none. apply lookup_remove_eq. Qed.

Lemma uniq_insert d k e : uniq d -> uniq (insert d k e).
Proof.
  intros U. unfold insert, uniq. simpl. constructor.
  - apply not_in_remove.
  - now apply uniq_remove.
Qed.

Lemma uniq_nil : uniq [].
Proof. constructor. Qed.

Lemma lookup_filter_uniq d (P : K * V -> bool) k :
  uniq d ->
  lookup (filter P d) k =
  match lookup d k with Some e => if P (k, e) then Some e else None | None => None end.
Proof.
  unfold uniq. induction d as [|[k' e] r IH]; simpl; intros U; auto.
  inversion U as [|? ? Hn U']; subst.
  destruct (keqb_spec k k') as [->|Hne].
  - destruct (P (k', e)) eqn:HP; simpl.
    + now rewrite keqb_refl.
    + rewrite IH by assumption.
      destruct (lookup r k') eqn:L; auto.
      exfalso. apply Hn. eapply lookup_in; eauto.
  - destruct (P (k', e)); simpl; [destruct (keqb_spec k k'); try congruence|]; now apply IH.
Qed.

Lemma length_filter_le (P : K * V -> bool) d : length (filter P d) <= length d.
Proof. induction d as [|x r IH]; simpl; auto. destruct (P x); simpl; lia. Qed.

Lemma length_remove_le d k : length (remove d k) <= length d.
Proof. apply length_filter_le. Qed.

Lemma length_insert_le d k e : length (insert d k e) <= S (length d).
Proof. unfold insert; simpl. pose proof (length_remove_le d k). lia. Qed.

Lemma remove_absent d k : lookup d k = None -> remove d k = d.
Proof.
  induction d as [|[k' e'] r IH]; simpl; auto.
  destruct (keqb_spec k k'); [discriminate|]. intros H. simpl. f_equal. auto.
Qed.

Lemma length_remove_present d k e : uniq d -> lookup d k = Some e -> S (length (remove d k)) = length d.
Proof.
  unfold uniq. induction d as [|[k' e'] r IH]; simpl; try discriminate.
  intros U. inversion U as [|? ? Hn U']; subst.
  destruct (keqb_spec k k') as [->|Hne]; simpl.
  - intros _. f_equal. rewrite remove_absent; auto. now apply lookup_none.
  - intros H. f_equal. eapply IH; eauto.
Qed.

(* length after insert: same if the key was present, +1 otherwise *)
Lemma length_insert d k e : uniq d ->
  length (insert d k e) = match lookup d k with Some _ => length d | None => S (length d) end.
Proof.
  intros U. unfold insert. simpl.
  destruct (lookup d k) eqn:L.
  - eapply length_remove_present; eauto.
  - rewrite remove_absent; auto.
Qed.

End Map.

Arguments lookup {K} keqb {V} d k.
Arguments remove {K} keqb {V} d k.
Arguments insert {K} keqb {V} d k e.
Arguments uniq {K V} d.
