(* Helpers for the correspondence check: the harness writes the implementation's observed
   outcomes into a list of cases; the comparison with the model happens inside Coq and
   only the indices of disagreeing cases are printed. *)
From Coq Require Import NArith ZArith List Bool.
Import ListNotations.

Fixpoint mism_aux {A : Type} (ok : A -> bool) (l : list A) (i : N) : list N :=
  match l with
  | [] => []
  | x :: r => if ok x then mism_aux ok r (N.succ i) else i :: mism_aux ok r (N.succ i)
  end.
Definition mismatches {A : Type} (ok : A -> bool) (l : list A) : list N := mism_aux ok l 0%N.

Definition opt_Z_eqb (a b : option Z) : bool :=
  match a, b with
  | Some x, Some y => Z.eqb x y
  | None, None => true
  | _, _ => false
  end.

Fixpoint list_eqb {A : Type} (eqb : A -> A -> bool) (a b : list A) : bool :=
  match a, b with
  | [], [] => true
  | x :: a', y :: b' => eqb x y && list_eqb eqb a' b'
  | _, _ => false
  end.
