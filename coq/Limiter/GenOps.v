(* Vocabulary of the generated limiter arithmetic (Generated/LimGen.v, written by tools/extract_limiter.py
   from rate_limiter.rs on every run): wrapping `as` casts and the record of everything one pass of the
   retry loop computes. *)
From Coq Require Import ZArith Lia.
Require Import TC.Limiter.Arith.
Open Scope Z_scope.

Definition two63 : Z := 9223372036854775808.
Definition two64 : Z := 18446744073709551616.
Definition two127 : Z := 170141183460469231731687303715884105728.
Definition two128 : Z := 340282366920938463463374607431768211456.

(* Rust's `as` between integer types: keep the low bits, reinterpret *)
Definition as_u64 (x : Z) : Z := x mod two64.
Definition as_u128 (x : Z) : Z := x mod two128.
Definition as_i64 (x : Z) : Z := (x + two63) mod two64 - two63.
Definition as_i128 (x : Z) : Z := (x + two127) mod two128 - two127.

Lemma as_u64_id x : 0 <= x <= i64max -> as_u64 x = x.
Proof. unfold as_u64, two64, i64max. intros H. apply Z.mod_small. lia. Qed.
Lemma as_u128_id x : 0 <= x <= i64max -> as_u128 x = x.
Proof. unfold as_u128, two128, i64max. intros H. apply Z.mod_small. lia. Qed.
Lemma as_i64_id x : in_i64 x -> as_i64 x = x.
Proof. unfold as_i64, in_i64, two63, two64, i64min, i64max. intros H. rewrite Z.mod_small by lia. lia. Qed.
Lemma as_i128_id x : in_i64 x -> as_i128 x = x.
Proof. unfold as_i128, in_i64, two127, two128, i64min, i64max. intros H. rewrite Z.mod_small by lia. lia. Qed.

Inductive gen_error := GNegativeQuantity | GInvalidRateLimit.

Record gen_result := {
  g_allowed : bool;          (* first component of the returned pair *)
  g_write : bool;            (* the guard of the block that writes to the store *)
  g_cas_new : Z; g_cas_ttl : Z;     (* compare_and_swap_with_ttl(key, old, NEW, TTL, now) *)
  g_nx_new : Z; g_nx_ttl : Z;       (* set_if_not_exists_with_ttl(key, NEW, TTL, now) *)
  g_limit : Z; g_remaining : Z; g_reset_after : Z; g_retry_after : Z }.
