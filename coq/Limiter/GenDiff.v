(* Executable comparison of the source-translated limiter arithmetic (Generated/LimGen.v) with the hand-written
   model on a fixed lattice of inputs.  Used by the checks only when Limiter/GenTie.v no longer compiles: a
   disagreement found here is a concrete input on which the model no longer describes the source (a broken
   correspondence, with the input); none found means the tie is merely unproved for this tree (recorded, and the
   behavioural correspondence T2 decides).  This file must not depend on GenTie.v. *)
From Coq Require Import ZArith List Bool.
Import ListNotations.
Require Import TC.Limiter.Arith TC.Limiter.GenOps TC.Limiter.KeyStep TC.Limiter.Limiter TC.Generated.LimGen.
Open Scope Z_scope.

Definition gen_agree (Edur B q now : Z) (tv : option Z) : bool :=
  let g := gen_calc Edur B q now tv in
  let c := m_calc Edur B q now tv in
  let ok := fst (fst (fst c)) in let new := snd (fst (fst c)) in let ttl := snd (fst c) in let r := snd c in
  Bool.eqb (g_allowed g) ok && Bool.eqb (g_write g) (ok && (0 <? q)) &&
  (g_cas_new g =? new) && (g_cas_ttl g =? ttl) && (g_nx_new g =? new) && (g_nx_ttl g =? ttl) &&
  Bool.eqb (g_allowed g) (allowed r) && (g_limit g =? limit r) && (g_remaining g =? remaining r) &&
  (g_reset_after g =? reset_after r) && (g_retry_after g =? retry_after r).

Definition s : Z := 1000000000.
Definition t0 : Z := 1700000000 * s.
Definition lat_E : list Z := [0; 1; 2; 999; s; 7 * s; 3600 * s; i64max - 1; i64max; i64max + 1; 2 * i64max + 5].
Definition lat_B : list Z := [1; 2; 3; 5; 10; 1000; 4294967297; i64max].
Definition lat_q : list Z := [0; 1; 2; 3; 5; 7; 11; 1001; i64max].
Definition lat_now : list Z := [0; 1; s; t0; t0 + 1; 4102444800 * s; i64max].
Definition lat_tv (now : Z) : list (option Z) :=
  [None; Some (now - 8 * s); Some (now - s); Some (now - 1); Some now; Some (now + 1); Some (now + s); Some (now + 4 * s);
   Some (now + 3600 * s); Some i64min; Some i64max; Some 0].

Definition disagreements : list (Z * Z * Z * Z * option Z) :=
  flat_map (fun E => flat_map (fun B => flat_map (fun q => flat_map (fun now =>
    flat_map (fun tv => if gen_agree E B q now tv then [] else [(E, B, q, now, tv)]) (lat_tv now))
    lat_now) lat_q) lat_B) lat_E.

Definition validate_agree (q B c p : Z) : bool :=
  match gen_validate q B c p with
  | Some GNegativeQuantity => q <? 0
  | Some GInvalidRateLimit => negb (q <? 0) && ((B <=? 0) || (c <=? 0) || (p <=? 0))
  | None => negb (q <? 0) && negb ((B <=? 0) || (c <=? 0) || (p <=? 0))
  end.
Definition lat_v : list Z := [i64min; -2; -1; 0; 1; 2; i64max].
Definition validate_disagreements : list (Z * Z * Z * Z) :=
  flat_map (fun q => flat_map (fun B => flat_map (fun c => flat_map (fun p =>
    if validate_agree q B c p then [] else [(q, B, c, p)]) lat_v) lat_v) lat_v) lat_v.
