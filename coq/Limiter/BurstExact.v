(* N unit requests at one instant on a full ideal bucket admit exactly min(N, B). *)
From Coq Require Import ZArith List Bool Lia.
Import ListNotations.
Require Import TC.Limiter.Bucket.
Open Scope Z_scope.

Definition count_true (l : list bool) : Z := Z.of_nat (length (filter (fun d => d) l)).

Lemma burst_from (E B t : Z) : 1 <= E -> forall (n : nat) (k : Z), 0 <= k <= B ->
  count_true (bdecide E B {| lvl := E * k; last := t |} (repeat (1, t) n)) = Z.min (Z.of_nat n) k.
Proof.
  intros HE. induction n as [|n IH]; intros k Hk; [unfold count_true; cbn; lia|].
  cbn [repeat bdecide]. unfold bstep, refill. cbn [lvl last].
  replace (E * k + (t - t)) with (E * k) by lia.
  assert (Hmin : Z.min (E * B) (E * k) = E * k) by nia. rewrite Hmin.
  destruct (Z.leb_spec (E * 1) (E * k)) as [Hle|Hgt].
  - assert (1 <= k) by nia. unfold count_true in *. cbn [filter length].
    replace (E * k - E * 1) with (E * (k - 1)) by lia.
    rewrite Nat2Z.inj_succ, (IH (k - 1) ltac:(lia)). lia.
  - assert (k = 0) by nia. subst k. unfold count_true in *. cbn [filter].
    rewrite (IH 0 ltac:(lia)). lia.
Qed.

Theorem burst_exact (E B t : Z) (n : nat) : 1 <= E -> 0 <= B ->
  Z.of_nat (length (filter (fun d => d) (bdecide E B (full E B t) (repeat (1, t) n)))) = Z.min (Z.of_nat n) B.
Proof. intros HE HB. unfold full. apply (burst_from E B t HE n B). lia. Qed.

(* Refutation of the "exactly min(N,B)" clause when requests are NOT processed in timestamp order (the
   transports stamp a request before it is queued, the actor serves the queue in arrival order): two unit
   requests on a fresh key with max_burst 2 and one token per hour, stamped d = 1 microsecond apart and
   served in the opposite order - the second one is denied (retry_after = d) although a token is left. *)
Require Import TC.Limiter.KeyStep.
Theorem burst_short_under_stamp_disorder :
  exists E B t d, 1 <= E /\ 0 < d /\
    let r1 := kstep E B None 1 (t + d) in
    let r2 := kstep E B (fst r1) 1 t in
    allowed (snd r1) = true /\ remaining (snd r1) = 1 /\ allowed (snd r2) = false /\ retry_after (snd r2) = d.
Proof. exists 3600000000000, 2, 1700000000000000000, 1000. vm_compute. repeat split; discriminate. Qed.
