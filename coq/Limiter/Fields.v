(* C03 / C02 corollaries / C07 lifetime clause: the response fields of the per-key step are
   truthful, for every reachable key state (invariant Inv) inside the normal domain D. *)
From Coq Require Import ZArith Bool Lia.
Require Import TC.Limiter.Arith TC.Limiter.KeyStep TC.Limiter.KeyLemmas.
Open Scope Z_scope.

Lemma div_iff (E a r : Z) : 0 < E -> (E * r <= a <-> r <= a / E).
Proof.
  intros HE. split; intros H.
  - apply Z.div_le_lower_bound; lia.
  - pose proof (Z.mul_div_le a E HE). nia.
Qed.

Section F.
Variables E B : Z.
Hypothesis HD : inD E B.

Notation T := (T E B).
Notation retention := (retention E B).
Notation eff := (eff E).
Notation kstep := (kstep E B).
Notation Inv := (Inv E B).

Ltac dom := pose proof (HE E B HD) as HE'; pose proof (HB E B HD) as HB'; pose proof (T_nonneg E B HD) as HT0;
            pose proof (T_plus_E E B) as HTE; pose proof (T_bound E B HD) as HTb; pose proof (E_bound E B HD) as HEb;
            pose proof (retention_bounds E B HD) as (Hr1 & Hr2 & Hr3); pose proof (EB_bound E B HD) as HEBb.

(* the response depends on the key state only through the effective TAT *)
Lemma resp_eff s s0 q now : eff s now = eff s0 now -> snd (kstep s q now) = snd (kstep s0 q now).
Proof. intros H. unfold KeyStep.kstep. cbn [snd]. rewrite H. reflexivity. Qed.

Lemma eff_written tat ex now : now < ex -> now - E <= tat -> eff (Some (tat, ex)) now = tat.
Proof. intros H1 H2. unfold KeyStep.eff, kvisible. destruct (Z.ltb_spec now ex); lia. Qed.

(* ---------- C02 corollaries ---------- *)
Lemma fresh_admits q now : time_ok now -> 0 <= q <= B -> allowed (snd (kstep None q now)) = true.
Proof.
  dom. intros Ht Hq.
  rewrite (kstep_allowed E B HD None now q now (Inv_none E B now) ltac:(lia) Ht ltac:(lia)).
  rewrite eff_none. apply Z.leb_le. nia.
Qed.

Lemma rested_admits s t q now :
  Inv s t -> t + E * B <= now -> time_ok now -> 0 <= q <= B -> allowed (snd (kstep s q now)) = true.
Proof.
  dom. intros HI Hrest Ht Hq.
  rewrite (kstep_allowed E B HD s t q now HI ltac:(nia) Ht ltac:(lia)).
  assert (Heff : eff s now = now - E).
  { destruct s as [[tat ex]|]; [|reflexivity]. cbn [KeyLemmas.Inv] in HI. destruct HI as [H1 H2].
    apply eff_stale; [exact H1|right; lia]. }
  rewrite Heff. apply Z.leb_le. nia.
Qed.

(* ---------- C03: limit and remaining ---------- *)
Lemma limit_and_range s t q now :
  Inv s t -> t <= now -> time_ok now -> 0 <= q ->
  limit (snd (kstep s q now)) = B /\ 0 <= remaining (snd (kstep s q now)) <= B.
Proof.
  dom. intros HI Hle Ht Hq. split; [reflexivity|].
  pose proof (eff_ge E s now) as Hge. pose proof (eff_le E B HD s t now HI Hle) as Hle2.
  assert (HX : 0 <= E * q) by nia.
  destruct (Z_le_gt_dec (eff s now + E * q - T) now) as [Hok|Hno].
  - rewrite (kstep_admit E B HD s t q now HI Hle Ht Hq Hok). cbn [snd remaining].
    split; [lia|]. apply Z.max_lub; [|lia]. apply Z.div_le_upper_bound; lia.
  - rewrite (kstep_deny E B HD s t q now HI Hle Ht Hq ltac:(lia)). cbn [snd remaining].
    split; [lia|]. apply Z.max_lub; [|lia]. apply Z.div_le_upper_bound; lia.
Qed.

(* remaining is exact: immediately afterwards a request for r tokens is admitted iff r <= remaining *)
Lemma remaining_exact s t q now r :
  Inv s t -> t <= now -> time_ok now -> 0 <= q -> 0 <= r ->
  allowed (snd (kstep (fst (kstep s q now)) r now)) = (r <=? remaining (snd (kstep s q now))).
Proof.
  dom. intros HI Hle Ht Hq Hr.
  pose proof (eff_ge E s now) as Hge. pose proof (eff_le E B HD s t now HI Hle) as Hle2.
  pose proof (kstep_inv E B HD s t q now HI Hle Ht Hq) as HI'.
  rewrite (kstep_allowed E B HD _ now r now HI' ltac:(lia) Ht Hr).
  assert (HX : 0 <= E * q) by nia.
  destruct (Z_le_gt_dec (eff s now + E * q - T) now) as [Hok|Hno].
  - rewrite (kstep_admit E B HD s t q now HI Hle Ht Hq Hok). cbn [fst snd remaining].
    set (new := eff s now + E * q) in *.
    assert (Heff' : eff (if 0 <? q then Some (new, now + (Z.max (new - now) 0 + retention)) else s) now = new).
    { destruct (Z.ltb_spec 0 q).
      - apply eff_written; lia.
      - assert (q = 0) by lia. subst q. unfold new. lia. }
    match goal with |- context [KeyStep.eff E ?x now] => replace (KeyStep.eff E x now) with new by (symmetry; exact Heff') end.
    assert (Ha : 0 <= now + T - new) by lia.
    rewrite Z.max_l by (apply Z.div_pos; lia).
    destruct (Z.leb_spec (new + E * r - T) now) as [H1|H1]; destruct (Z.leb_spec r ((now + T - new) / E)) as [H2|H2]; auto.
    + exfalso. assert (r <= (now + T - new) / E) by (apply div_iff; lia). lia.
    + exfalso. assert (E * r <= now + T - new) by (apply div_iff; [lia|exact H2]). lia.
  - rewrite (kstep_deny E B HD s t q now HI Hle Ht Hq ltac:(lia)). cbn [fst snd remaining].
    assert (Ha : 0 <= now + T - eff s now) by lia.
    rewrite Z.max_l by (apply Z.div_pos; lia).
    destruct (Z.leb_spec (eff s now + E * r - T) now) as [H1|H1]; destruct (Z.leb_spec r ((now + T - eff s now) / E)) as [H2|H2]; auto.
    + exfalso. assert (r <= (now + T - eff s now) / E) by (apply div_iff; lia). lia.
    + exfalso. assert (E * r <= now + T - eff s now) by (apply div_iff; [lia|exact H2]). lia.
Qed.

(* ---------- C03: retry_after ---------- *)
Lemma retry_zero_iff_allowed s t q now :
  Inv s t -> t <= now -> time_ok now -> 0 <= q ->
  (retry_after (snd (kstep s q now)) = 0 <-> allowed (snd (kstep s q now)) = true).
Proof.
  dom. intros HI Hle Ht Hq.
  pose proof (eff_ge E s now) as Hge. pose proof (eff_le E B HD s t now HI Hle) as Hle2.
  assert (HX : 0 <= E * q) by nia.
  destruct (Z_le_gt_dec (eff s now + E * q - T) now) as [Hok|Hno].
  - rewrite (kstep_admit E B HD s t q now HI Hle Ht Hq Hok). cbn [snd retry_after allowed]. tauto.
  - rewrite (kstep_deny E B HD s t q now HI Hle Ht Hq ltac:(lia)). cbn [snd retry_after allowed].
    unfold time_ok, tmax in Ht. unfold i64max. split; [lia|discriminate].
Qed.

(* a denied request of quantity <= burst: admitted exactly retry_after later (no other traffic),
   denied at every earlier instant *)
Lemma retry_exact s t q now :
  Inv s t -> t <= now -> time_ok now -> 0 <= q <= B ->
  allowed (snd (kstep s q now)) = false ->
  let ra := retry_after (snd (kstep s q now)) in
  0 < ra /\
  (time_ok (now + ra) -> allowed (snd (kstep s q (now + ra))) = true) /\
  (forall d, 0 <= d < ra -> allowed (snd (kstep s q (now + d))) = false).
Proof.
  dom. intros HI Hle Ht Hq Hden. cbv zeta.
  pose proof (eff_ge E s now) as Hge. pose proof (eff_le E B HD s t now HI Hle) as Hle2.
  assert (HX : 0 <= E * q <= E * B) by nia.
  rewrite (kstep_allowed E B HD s t q now HI Hle Ht ltac:(lia)) in Hden. apply Z.leb_gt in Hden.
  rewrite (kstep_deny E B HD s t q now HI Hle Ht ltac:(lia) Hden). cbn [snd retry_after].
  unfold time_ok, tmax in Ht.
  assert (Hmin : Z.min (eff s now + Z.min (E * q) i64max) i64max = eff s now + E * q) by (unfold i64max; lia).
  rewrite Hmin. set (ra := Z.max (eff s now + E * q - T - now) 0).
  assert (Hra : ra = eff s now + E * q - T - now) by (unfold ra; lia).
  (* a denial with q <= B means the stored TAT is what counts: eff = stored tat > now - E *)
  assert (Hs : exists tat ex, s = Some (tat, ex) /\ now < ex /\ eff s now = tat /\ now - E < tat).
  { destruct s as [[tat ex]|].
    - exists tat, ex. unfold KeyStep.eff, kvisible in *. destruct (Z.ltb_spec now ex); [|nia].
      repeat split; auto; nia.
    - rewrite eff_none in Hden. nia. }
  destruct Hs as (tat & ex & -> & Hvis & Heff & Htat). rewrite Heff in *.
  cbn [KeyLemmas.Inv] in HI. destruct HI as [HI1 HI2].
  split; [lia|]. split.
  - intros Ht2.
    rewrite (kstep_allowed E B HD (Some (tat, ex)) t q (now + ra) (conj HI1 HI2) ltac:(lia) Ht2 ltac:(lia)).
    apply Z.leb_le.
    assert (eff (Some (tat, ex)) (now + ra) <= Z.max tat (now + ra - E)).
    { unfold KeyStep.eff, kvisible. destruct (now + ra <? ex); lia. }
    nia.
  - intros d Hd.
    assert (Ht2 : time_ok (now + d) \/ tmax < now + d) by (unfold time_ok, tmax; lia).
    destruct Ht2 as [Ht2|Hbig].
    + rewrite (kstep_allowed E B HD (Some (tat, ex)) t q (now + d) (conj HI1 HI2) ltac:(lia) Ht2 ltac:(lia)).
      apply Z.leb_gt.
      assert (Hex : now + d < ex) by nia.
      rewrite (eff_written tat ex (now + d) Hex ltac:(lia)). lia.
    + (* beyond year 2100: decided directly on the definition *)
      unfold KeyStep.kstep. cbn [snd allowed]. apply Z.leb_gt.
      assert (Hex : now + d < ex) by nia.
      rewrite (eff_written tat ex (now + d) Hex ltac:(lia)). unfold i64max, tmax in *. lia.
Qed.

(* ---------- C03 / C07: reset_after ---------- *)
Lemma reset_bounds s t q now :
  Inv s t -> t <= now -> time_ok now -> 0 <= q ->
  E <= reset_after (snd (kstep s q now)) <= 2 * B * E.
Proof.
  dom. intros HI Hle Ht Hq.
  pose proof (eff_ge E s now) as Hge. pose proof (eff_le E B HD s t now HI Hle) as Hle2.
  assert (HX : 0 <= E * q) by nia.
  destruct (Z_le_gt_dec (eff s now + E * q - T) now) as [Hok|Hno].
  - rewrite (kstep_admit E B HD s t q now HI Hle Ht Hq Hok). cbn [snd reset_after]. nia.
  - rewrite (kstep_deny E B HD s t q now HI Hle Ht Hq ltac:(lia)). cbn [snd reset_after]. nia.
Qed.

(* whenever the step writes (admitted, positive quantity) the entry's lifetime is reset_after,
   and it outlives its influence: tat + E <= expiry *)
Lemma reset_equals_lifetime s t q now :
  Inv s t -> t <= now -> time_ok now -> 0 < q ->
  allowed (snd (kstep s q now)) = true ->
  exists tat, fst (kstep s q now) = Some (tat, now + reset_after (snd (kstep s q now))) /\
              tat + E <= now + reset_after (snd (kstep s q now)).
Proof.
  dom. intros HI Hle Ht Hq Ha.
  rewrite (kstep_allowed E B HD s t q now HI Hle Ht ltac:(lia)) in Ha. apply Z.leb_le in Ha.
  rewrite (kstep_admit E B HD s t q now HI Hle Ht ltac:(lia) Ha). cbn [fst snd reset_after].
  destruct (Z.ltb_spec 0 q); [|lia]. eexists. split; [reflexivity|]. lia.
Qed.

(* reset_after is never shorter than the time to regain the full burst *)
Lemma reset_regains_burst s t q now :
  Inv s t -> t <= now -> time_ok now -> 0 <= q ->
  let now2 := now + reset_after (snd (kstep s q now)) in
  time_ok now2 -> allowed (snd (kstep (fst (kstep s q now)) B now2)) = true.
Proof.
  dom. intros HI Hle Ht Hq. cbv zeta. intros Ht2.
  pose proof (eff_ge E s now) as Hge. pose proof (eff_le E B HD s t now HI Hle) as Hle2.
  pose proof (kstep_inv E B HD s t q now HI Hle Ht Hq) as HI'.
  pose proof (reset_bounds s t q now HI Hle Ht Hq) as Hrb.
  set (ra := reset_after (snd (kstep s q now))) in *.
  rewrite (kstep_allowed E B HD _ now B (now + ra) HI' ltac:(lia) Ht2 ltac:(lia)).
  apply Z.leb_le.
  assert (Heff : eff (fst (kstep s q now)) (now + ra) = now + ra - E).
  { assert (HX : 0 <= E * q) by nia.
    destruct (Z_le_gt_dec (eff s now + E * q - T) now) as [Hok|Hno].
    - unfold ra in *. rewrite (kstep_admit E B HD s t q now HI Hle Ht Hq Hok) in *. cbn [fst snd reset_after] in *.
      destruct (Z.ltb_spec 0 q).
      + apply eff_stale; [lia|right; lia].
      + destruct s as [[tat ex]|]; [|reflexivity]. cbn [KeyLemmas.Inv] in HI. destruct HI as [H1 H2].
        assert (q = 0) by lia. subst q.
        assert (tat <= eff (Some (tat, ex)) now \/ ex <= now).
        { unfold KeyStep.eff, kvisible. destruct (Z.ltb_spec now ex); lia. }
        apply eff_stale; [exact H1|]. lia.
    - unfold ra in *. rewrite (kstep_deny E B HD s t q now HI Hle Ht Hq ltac:(lia)) in *. cbn [fst snd reset_after] in *.
      destruct s as [[tat ex]|]; [|reflexivity]. cbn [KeyLemmas.Inv] in HI. destruct HI as [H1 H2].
      assert (tat <= eff (Some (tat, ex)) now \/ ex <= now).
      { unfold KeyStep.eff, kvisible. destruct (Z.ltb_spec now ex); lia. }
      apply eff_stale; [exact H1|]. lia. }
  rewrite Heff. lia.
Qed.

(* once reset_after has elapsed the key behaves as never seen: same response to any request,
   and the same effective state at every later instant *)
Lemma after_reset_fresh s t q now q2 now2 :
  Inv s t -> t <= now -> time_ok now -> 0 <= q ->
  now + reset_after (snd (kstep s q now)) <= now2 ->
  snd (kstep (fst (kstep s q now)) q2 now2) = snd (kstep None q2 now2) /\
  forall now3, now2 <= now3 ->
    eff (fst (kstep (fst (kstep s q now)) q2 now2)) now3 = eff (fst (kstep None q2 now2)) now3.
Proof.
  dom. intros HI Hle Ht Hq H2.
  pose proof (eff_ge E s now) as Hge. pose proof (eff_le E B HD s t now HI Hle) as Hle2.
  pose proof (reset_bounds s t q now HI Hle Ht Hq) as Hrb.
  set (s' := fst (kstep s q now)) in *.
  assert (Hstale : forall n, now2 <= n -> eff s' n = n - E).
  { intros n Hn. unfold s'. assert (HX : 0 <= E * q) by nia.
    destruct (Z_le_gt_dec (eff s now + E * q - T) now) as [Hok|Hno].
    - rewrite (kstep_admit E B HD s t q now HI Hle Ht Hq Hok) in *. cbn [fst snd reset_after] in *.
      destruct (Z.ltb_spec 0 q).
      + apply eff_stale; [lia|right; lia].
      + destruct s as [[tat ex]|]; [|reflexivity]. cbn [KeyLemmas.Inv] in HI. destruct HI as [H1 H3].
        assert (q = 0) by lia. subst q.
        assert (tat <= eff (Some (tat, ex)) now \/ ex <= now).
        { unfold KeyStep.eff, kvisible. destruct (Z.ltb_spec now ex); lia. }
        apply eff_stale; [exact H1|]. lia.
    - rewrite (kstep_deny E B HD s t q now HI Hle Ht Hq ltac:(lia)) in *. cbn [fst snd reset_after] in *.
      destruct s as [[tat ex]|]; [|reflexivity]. cbn [KeyLemmas.Inv] in HI. destruct HI as [H1 H3].
      assert (tat <= eff (Some (tat, ex)) now \/ ex <= now).
      { unfold KeyStep.eff, kvisible. destruct (Z.ltb_spec now ex); lia. }
      apply eff_stale; [exact H1|]. lia. }
  assert (He2 : eff s' now2 = eff None now2) by (rewrite eff_none; apply Hstale; lia).
  split; [apply resp_eff; exact He2|].
  intros now3 H3. unfold KeyStep.kstep. cbn [fst]. rewrite He2.
  destruct (_ && _); [reflexivity|]. rewrite eff_none. apply Hstale. lia.
Qed.

(* C07: forgetting an expired entry is indistinguishable from remembering it *)
Lemma forget_indistinguishable tat ex q now :
  tat + E <= ex -> ex <= now ->
  snd (kstep (Some (tat, ex)) q now) = snd (kstep None q now) /\
  forall now3, now <= now3 ->
    eff (fst (kstep (Some (tat, ex)) q now)) now3 = eff (fst (kstep None q now)) now3.
Proof.
  intros Hwf Hexp.
  assert (He : eff (Some (tat, ex)) now = eff None now) by (rewrite eff_none; apply eff_stale; [exact Hwf|left; exact Hexp]).
  split; [apply resp_eff; exact He|].
  intros now3 H3. unfold KeyStep.kstep. cbn [fst]. rewrite He.
  destruct (_ && _); [reflexivity|]. rewrite eff_none. apply eff_stale; [exact Hwf|left; lia].
Qed.

End F.
