(* T1b: the arithmetic of rate_limit as TRANSLATED FROM THE CURRENT SOURCE (Generated/LimGen.v, rewritten by
   tools/extract_limiter.py on every run) equals the hand-written model [m_calc] / the guards of [rate_limit]
   that every limiter theorem (C01-C05, C07, C08, C17) is about - for every input, not for sampled ones.

   Proof shape: the three `as u64` casts and the `as i64` / `as u128` casts of the emission interval are shown
   to be the identity on the values they are applied to (this is where 0 <= Edur, i.e. "as_nanos() is a u128",
   is used); after that the two functions are compared component by component, first by conversion and, should
   the source have been rewritten into an equivalent form, by linear arithmetic over the unfolded saturating
   operators (products and quotients as opaque terms). *)
From Coq Require Import ZArith List Bool Lia.
Require Import TC.Limiter.Arith TC.Limiter.GenOps TC.Limiter.KeyStep TC.Limiter.Limiter TC.Generated.LimGen.
Open Scope Z_scope.

Lemma sat_add_nonneg a b : 0 <= a -> 0 <= b -> 0 <= sat_add a b <= i64max.
Proof. unfold sat_add, sat, i64min, i64max. lia. Qed.
Lemma max0_range a : in_i64 a -> 0 <= Z.max a 0 <= i64max.
Proof. unfold in_i64, i64min, i64max. lia. Qed.
Lemma sat_sub_range a b : in_i64 (sat_sub a b).
Proof. apply sat_range. Qed.

(* side conditions of the cast lemmas: structural on the saturating operators, linear arithmetic at the leaves *)
Ltac cast_side :=
  lazymatch goal with
  | |- in_i64 (sat_add _ _) => apply sat_range
  | |- in_i64 (sat_sub _ _) => apply sat_range
  | |- in_i64 (sat_mul _ _) => apply sat_range
  | |- 0 <= sat_add _ _ <= i64max => apply sat_add_nonneg; cast_nonneg
  | |- 0 <= Z.max _ 0 <= i64max => apply max0_range; cast_side
  | |- _ => unfold in_i64, sat_add, sat_sub, sat_mul, sat, i64min, i64max in *; lia
  end
with cast_nonneg :=
  lazymatch goal with
  | |- 0 <= Z.max _ 0 => apply Z.le_max_r
  | |- 0 <= Z.max _ _ => first [ apply Z.max_le_iff; right; cast_nonneg | apply Z.max_le_iff; left; cast_nonneg ]
  | |- 0 <= sat_add _ _ => apply sat_add_nonneg; cast_nonneg
  | |- _ => first [ assumption | unfold in_i64, sat_add, sat_sub, sat_mul, sat, i64min, i64max in *; lia ]
  end.

Ltac kill_casts :=
  repeat match goal with
  | |- context [as_u128 i64max] => change (as_u128 i64max) with i64max
  | |- context [as_i64 ?x] => rewrite (as_i64_id x) by cast_side
  | |- context [as_u64 ?x] => rewrite (as_u64_id x) by cast_side
  | |- context [as_u128 ?x] => rewrite (as_u128_id x) by cast_side
  | |- context [as_i128 ?x] => rewrite (as_i128_id x) by cast_side
  end.

Ltac sem :=
  unfold sat_add, sat_sub, sat_mul, sat, i64min, i64max in *;
  repeat match goal with |- context [Z.quot ?a ?b] => generalize (Z.quot a b); intro end;
  repeat match goal with |- context [if ?c then _ else _] => destruct c eqn:? end;
  lia.

Ltac component := first [ reflexivity | timeout 10 sem ].

(* the emission interval as the loop body sees it *)
Definition Eof (Edur : Z) : Z := Z.min Edur i64max.
Lemma Eof_range Edur : 0 <= Edur -> 0 <= Eof Edur <= i64max.
Proof. unfold Eof, i64max. lia. Qed.

Theorem gen_calc_is_model : forall Edur B q now tv,
  0 <= Edur ->
  let g := gen_calc Edur B q now tv in
  let c := m_calc Edur B q now tv in
  let r := snd c in
  g_allowed g = fst (fst (fst c)) /\
  g_write g = (fst (fst (fst c)) && (0 <? q)) /\
  g_cas_new g = snd (fst (fst c)) /\ g_cas_ttl g = snd (fst c) /\
  g_nx_new g = snd (fst (fst c)) /\ g_nx_ttl g = snd (fst c) /\
  g_allowed g = allowed r /\ g_limit g = limit r /\ g_remaining g = remaining r /\
  g_reset_after g = reset_after r /\ g_retry_after g = retry_after r.
Proof.
  intros Edur B q now tv HE.
  pose proof (Eof_range Edur HE) as HEr. unfold Eof in HEr.
  cbv beta zeta delta [gen_calc m_calc g_allowed g_write g_cas_new g_cas_ttl g_nx_new g_nx_ttl g_limit g_remaining
                       g_reset_after g_retry_after fst snd allowed limit remaining reset_after retry_after].
  kill_casts.
  repeat split; destruct tv; component.
  (* Qed re-checks the conversions above in the kernel; with the arithmetic constants at their default unfolding level the
     kernel's lazy conversion unfolds Z.ltb / Z.modulo on open terms and does not come back (minutes).  The proof term is
     the same; only the order in which the kernel tries unfolding and structural comparison changes. *)
  Strategy opaque [Z.ltb Z.leb Z.eqb Z.quot Z.max Z.min Z.add Z.sub Z.mul Z.modulo Z.compare as_i64 as_u64 as_u128 as_i128 sat sat_add sat_sub sat_mul].
Time Qed.
Strategy transparent [Z.ltb Z.leb Z.eqb Z.quot Z.max Z.min Z.add Z.sub Z.mul Z.modulo Z.compare as_i64 as_u64 as_u128 as_i128 sat sat_add sat_sub sat_mul].

(* the validation prelude of rate_limit *)
Theorem gen_validate_is_model : forall (K : Type) keqb rate (st : Stores.store K) orc rq,
  rate_limit K keqb rate st orc rq =
  match gen_validate (r_q rq) (r_B rq) (r_count rq) (r_period rq) with
  | Some GNegativeQuantity => (st, ErrNegativeQuantity)
  | Some GInvalidRateLimit => (st, ErrInvalidRateLimit)
  | None => attempts K keqb max_retries st orc (r_key rq) (rate (r_count rq) (r_period rq)) (r_B rq) (r_q rq) (r_now rq)
  end.
Proof.
  intros. unfold rate_limit, gen_validate.
  first [ reflexivity
        | repeat match goal with |- context [if ?c then _ else _] => destruct c eqn:? end; first [ reflexivity | exfalso; lia ] ].
Qed.
