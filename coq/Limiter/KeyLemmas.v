(* Characterisation of the per-key step inside the normal domain D. *)
From Coq Require Import ZArith Bool Lia.
Require Import TC.Limiter.Arith TC.Limiter.KeyStep.
Open Scope Z_scope.

(* time range of the properties: 1970 .. 2100 *)
Definition tmax : Z := 4102444800000000000.
Definition time_ok (t : Z) : Prop := 0 <= t <= tmax.

(* the normal domain D for the limits of one key: emission interval E >= 1 ns, burst B >= 1,
   B * E <= 2^60 ns *)
Definition inD (E B : Z) : Prop := 1 <= E /\ 1 <= B /\ E * B <= 2^60.

Section L.
Variables E B : Z.
Hypothesis HD : inD E B.

Lemma HE : 1 <= E. Proof. exact (proj1 HD). Qed.
Lemma HB : 1 <= B. Proof. exact (proj1 (proj2 HD)). Qed.
Lemma HEB : E * B <= 2^60. Proof. exact (proj2 (proj2 HD)). Qed.
Ltac dom := pose proof HE as HE'; pose proof HB as HB'; pose proof HEB as HEB'; change (2^60) with 1152921504606846976 in HEB'.

Notation T := (T E B).
Notation retention := (retention E B).
Notation eff := (eff E).
Notation kstep := (kstep E B).

Lemma T_eq : T = E * B - E.
Proof. unfold KeyStep.T. ring. Qed.
Lemma T_nonneg : 0 <= T.
Proof. dom. unfold KeyStep.T. nia. Qed.
Lemma T_plus_E : T + E = E * B.
Proof. rewrite T_eq. ring. Qed.
Lemma EB_bound : E * B <= 1152921504606846976.
Proof. exact HEB. Qed.
Lemma T_bound : T <= 1152921504606846976.
Proof. dom. pose proof T_plus_E. pose proof EB_bound. lia. Qed.
Lemma E_bound : E <= 1152921504606846976.
Proof. dom. nia. Qed.
Lemma retention_bounds : E <= retention /\ T <= retention /\ retention <= E * B.
Proof. dom. unfold KeyStep.retention. pose proof T_plus_E. pose proof T_nonneg. lia. Qed.

(* per-key invariant at (or after) time t: the entry outlives its influence, and the stored
   TAT is never beyond the burst horizon of the last admission *)
Definition Inv (s : kstate) (t : Z) : Prop :=
  match s with Some (tat, ex) => tat + E <= ex /\ tat <= t + T | None => True end.

Lemma Inv_mono s t t' : Inv s t -> t <= t' -> Inv s t'.
Proof. destruct s as [[tat ex]|]; simpl; lia. Qed.

Lemma eff_ge s now : now - E <= eff s now.
Proof. unfold KeyStep.eff. destruct (kvisible s now); lia. Qed.

Lemma eff_le s t now : Inv s t -> t <= now -> eff s now <= now + T.
Proof. dom.
  pose proof T_nonneg.
  unfold KeyStep.eff, kvisible. destruct s as [[tat ex]|]; simpl; [|lia].
  intros [H1 H2] Hle. destruct (now <? ex); lia.
Qed.

Lemma eff_none now : eff None now = now - E.
Proof. reflexivity. Qed.

(* an expired (or stale) entry is indistinguishable from no entry *)
Lemma eff_stale tat ex now : tat + E <= ex -> (ex <= now \/ tat <= now - E) -> eff (Some (tat, ex)) now = now - E.
Proof.
  intros H [H1|H1]; unfold KeyStep.eff, kvisible.
  - destruct (Z.ltb_spec now ex); lia.
  - destruct (Z.ltb_spec now ex); lia.
Qed.

(* the decision, without the saturation clamp *)
Lemma kstep_allowed s t q now :
  Inv s t -> t <= now -> time_ok now -> 0 <= q ->
  allowed (snd (kstep s q now)) = (eff s now + E * q - T <=? now).
Proof. dom.
  intros HI Hle Ht Hq. unfold KeyStep.kstep. cbn [snd allowed].
  pose proof (eff_ge s now). pose proof (eff_le s t now HI Hle). pose proof T_bound. pose proof T_nonneg. pose proof E_bound.
  unfold time_ok, tmax in Ht. unfold i64max.
  assert (HX : 0 <= E * q) by nia.
  set (X := E * q) in *. clearbody X.
  set (tau := eff s now) in *. clearbody tau.
  destruct (Z.leb_spec (Z.min (tau + Z.min X 9223372036854775807) 9223372036854775807 - T) now);
  destruct (Z.leb_spec (tau + X - T) now); auto; lia.
Qed.

(* admitted request: new state and response *)
Lemma kstep_admit s t q now :
  Inv s t -> t <= now -> time_ok now -> 0 <= q ->
  eff s now + E * q - T <= now ->
  let new := eff s now + E * q in
  kstep s q now =
  ((if 0 <? q then Some (new, now + (Z.max (new - now) 0 + retention)) else s),
   {| allowed := true; limit := B; remaining := Z.max ((now + T - new) / E) 0;
      reset_after := Z.max (new - now) 0 + retention; retry_after := 0 |}).
Proof. dom.
  intros HI Hle Ht Hq Hok. cbv zeta. unfold KeyStep.kstep.
  pose proof (eff_ge s now). pose proof (eff_le s t now HI Hle). pose proof T_bound. pose proof T_nonneg. pose proof E_bound.
  unfold time_ok, tmax in Ht.
  assert (Hmin : Z.min (eff s now + Z.min (E * q) i64max) i64max = eff s now + E * q) by (unfold i64max; lia).
  rewrite Hmin.
  destruct (Z.leb_spec (eff s now + E * q - T) now); [|lia].
  cbn [andb]. reflexivity.
Qed.

(* denied request: state untouched *)
Lemma kstep_deny s t q now :
  Inv s t -> t <= now -> time_ok now -> 0 <= q ->
  now < eff s now + E * q - T ->
  kstep s q now =
  (s, {| allowed := false; limit := B; remaining := Z.max ((now + T - eff s now) / E) 0;
         reset_after := Z.max (eff s now - now) 0 + retention;
         retry_after := Z.max (Z.min (eff s now + Z.min (E * q) i64max) i64max - T - now) 0 |}).
Proof. dom.
  intros HI Hle Ht Hq Hno. unfold KeyStep.kstep.
  pose proof (eff_ge s now). pose proof (eff_le s t now HI Hle). pose proof T_bound. pose proof T_nonneg. pose proof E_bound.
  unfold time_ok, tmax in Ht.
  assert (Hgt : now < Z.min (eff s now + Z.min (E * q) i64max) i64max - T) by (unfold i64max; lia).
  destruct (Z.leb_spec (Z.min (eff s now + Z.min (E * q) i64max) i64max - T) now); [lia|reflexivity].
Qed.

(* the invariant is preserved, and holds at the time of the step *)
Lemma kstep_inv s t q now :
  Inv s t -> t <= now -> time_ok now -> 0 <= q -> Inv (fst (kstep s q now)) now.
Proof. dom.
  intros HI Hle Ht Hq.
  destruct (Z_le_gt_dec (eff s now + E * q - T) now) as [Hok|Hno].
  - rewrite (kstep_admit s t q now HI Hle Ht Hq Hok). cbn [fst].
    destruct (0 <? q); [|eapply Inv_mono; eauto]. cbn [Inv].
    pose proof retention_bounds. lia.
  - rewrite (kstep_deny s t q now HI Hle Ht Hq ltac:(lia)). cbn [fst]. eapply Inv_mono; eauto.
Qed.

Lemma Inv_none t : Inv None t.
Proof. exact I. Qed.

End L.

Lemma kstep_denied_state E B s q now :
  allowed (snd (kstep E B s q now)) = false -> fst (kstep E B s q now) = s.
Proof. unfold kstep. cbn [fst snd allowed]. intros ->. reflexivity. Qed.

Lemma kstep_zero_state E B s now : fst (kstep E B s 0 now) = s.
Proof. unfold kstep. cbn [fst]. rewrite andb_false_r. reflexivity. Qed.
