(* C17: clock regression.  Timestamps in arbitrary order.
   Part A: the concrete limiter never fails, whatever the order (a write issued right after a get
           at the same instant always succeeds; the store stays a map).
   Part B: the per-key step with arbitrary timestamp order (state never forgotten): invariant,
           window bound, budget monotonicity.
   Part C: an execution without a stale-forget event (every lookup sees what the never-cleaned
           map shows) gives exactly the never-forgetting responses, so Part B applies to it.
   Part D: with stale-forget events the bound fails - witness evaluated by vm_compute. *)
From Coq Require Import ZArith List Bool Lia.
Import ListNotations.
Require Import TC.Generated.Consts TC.Base.Map TC.Store.Stores TC.Store.AbsMap TC.Store.Refine
  TC.Limiter.Arith TC.Limiter.KeyStep TC.Limiter.KeyLemmas TC.Limiter.Limiter TC.Limiter.Abstract
  TC.Limiter.Project TC.Limiter.Window TC.Limiter.Decide TC.Limiter.Total TC.Limiter.Machine TC.Limiter.Top.
Open Scope Z_scope.

(* ===================================================================== Part A *)
Section A.
Variable K : Type.
Variable keqb : K -> K -> bool.
Hypothesis keqb_spec : forall a b, reflect (a = b) (keqb a b).
Variable rate : Z -> Z -> Z.
Hypothesis rate_range : forall c p, 0 <= rate c p.

Notation data := (data K).
Notation lookup := (lookup keqb).
Notation req := (req K).
Notation rate_limit := (rate_limit K keqb rate).

Lemma uniq_retain (d : data) now : uniq d -> uniq (retain K d now).
Proof. apply uniq_filter. Qed.

Lemma get_retain (d : data) k now : uniq d -> d_get K keqb (retain K d now) k now = d_get K keqb d k now.
Proof. intros U. apply (vis_retain K keqb keqb_spec d now k now U). lia. Qed.

(* table-level: a CAS with the value just read, or a set-if-absent after reading nothing, succeeds *)
Lemma cas_after_get (d : data) k v new ttl now :
  d_get K keqb d k now = Some v -> snd (fst (d_cas K keqb d k v new ttl now)) = true /\
  (uniq d -> uniq (fst (fst (d_cas K keqb d k v new ttl now)))).
Proof.
  unfold d_get, d_cas. destruct (lookup d k) as [[cur ex]|]; [|discriminate].
  destruct (Z.ltb_spec now ex) as [Hlt|Hge]; [|discriminate]. intros Hv. inversion Hv; subst.
  destruct (Z.leb_spec ex now); [lia|]. rewrite Z.eqb_refl. cbn [fst snd]. split; [reflexivity|].
  intros U. apply (uniq_insert K keqb keqb_spec). exact U.
Qed.

Lemma setnx_after_get (d : data) k new ttl now :
  d_get K keqb d k now = None -> snd (fst (d_setnx K keqb d k new ttl now)) = true /\
  (uniq d -> uniq (fst (fst (d_setnx K keqb d k new ttl now)))).
Proof.
  unfold d_get, d_setnx. destruct (lookup d k) as [[cur ex]|].
  - destruct (Z.ltb_spec now ex); [discriminate|]. intros _. cbn [fst snd]. split; [reflexivity|]. intros U. apply (uniq_insert K keqb keqb_spec). exact U.
  - intros _. cbn [fst snd]. split; [reflexivity|]. intros U. apply (uniq_insert K keqb keqb_spec). exact U.
Qed.

(* the table after the store's own cleaning step, for each store kind *)
Definition cleaned_data (st : store K) (orc : bool) (now : Z) : data :=
  match st with
  | SPer s => p_data K (p_clean K s now)
  | SAda s => a_data K (a_maybe_clean K s now orc)
  | SPro s => b_data K (b_maybe_clean K s now)
  end.

Lemma cleaned_data_get st orc k now : uniq (sdata K st) ->
  d_get K keqb (cleaned_data st orc now) k now = d_get K keqb (sdata K st) k now /\ uniq (cleaned_data st orc now).
Proof.
  intros U. destruct st as [s|s|s]; cbn [cleaned_data sdata] in *.
  - unfold p_clean. destruct (_ <=? _); cbn [p_data]; [split; [apply get_retain; exact U|apply uniq_retain; exact U]|split; [reflexivity|exact U]].
  - unfold a_maybe_clean. destruct (a_should_clean _ _ _ _); cbn [a_data a_cleanup]; [split; [apply get_retain; exact U|apply uniq_retain; exact U]|split; [reflexivity|exact U]].
  - unfold b_maybe_clean. cbn [b_data]. destruct (b_fires _ _); [split; [apply get_retain; exact U|apply uniq_retain; exact U]|split; [reflexivity|exact U]].
Qed.

Lemma sstep_cas_data st orc k old new ttl now :
  sdata K (fst (sstep K keqb st orc (Cas k old new ttl now))) = fst (fst (d_cas K keqb (cleaned_data st orc now) k old new ttl now)) /\
  snd (sstep K keqb st orc (Cas k old new ttl now)) = RBool (snd (fst (d_cas K keqb (cleaned_data st orc now) k old new ttl now))).
Proof.
  destruct st as [s|s|s]; cbn [sstep p_step a_step b_step cleaned_data];
    destruct (d_cas K keqb _ k old new ttl now) as [[d ok] fe]; cbn; split; reflexivity.
Qed.

Lemma sstep_setnx_data st orc k v ttl now :
  sdata K (fst (sstep K keqb st orc (SetNX k v ttl now))) = fst (fst (d_setnx K keqb (cleaned_data st orc now) k v ttl now)) /\
  snd (sstep K keqb st orc (SetNX k v ttl now)) = RBool (snd (fst (d_setnx K keqb (cleaned_data st orc now) k v ttl now))).
Proof.
  destruct st as [s|s|s]; cbn [sstep p_step a_step b_step cleaned_data];
    destruct (d_setnx K keqb _ k v ttl now) as [[d ok] fe]; cbn; split; reflexivity.
Qed.

(* the outcome as a function of what `get` returned *)
Definition out_of_get (tv : option Z) (rq : req) : outcome :=
  if r_q rq <? 0 then ErrNegativeQuantity
  else if invalid_limits K rq then ErrInvalidRateLimit
  else
    let c := m_calc (rate (r_count rq) (r_period rq)) (r_B rq) (r_q rq) (r_now rq) tv in
    if fst (fst (fst c)) && (0 <? r_q rq) then
      if systime_add_overflows (r_now rq) (snd (fst c)) then Panic else Ok (snd c)
    else Ok (snd c).

(* any timestamp order: the first attempt decides; the table stays a map *)
Theorem rate_limit_any_order (st : store K) orc (rq : req) :
  uniq (sdata K st) ->
  snd (rate_limit st orc rq) = out_of_get (d_get K keqb (sdata K st) (r_key rq) (r_now rq)) rq /\
  uniq (sdata K (fst (rate_limit st orc rq))).
Proof.
  intros U. unfold Limiter.rate_limit, out_of_get. fold (invalid_limits K rq).
  destruct (r_q rq <? 0); [split; [reflexivity|exact U]|].
  destruct (invalid_limits K rq); [split; [reflexivity|exact U]|].
  destruct max_retries_pos as [f ->]. cbn [attempts]. unfold attempt_once.
  set (k := r_key rq). set (now := r_now rq).
  set (tv := d_get K keqb (sdata K st) k now).
  set (c := m_calc _ _ _ now tv).
  destruct (fst (fst (fst c)) && (0 <? r_q rq)); [|split; [reflexivity|exact U]].
  destruct (systime_add_overflows now (snd (fst c))); [split; [reflexivity|exact U]|].
  destruct (cleaned_data_get st orc k now U) as [Hg Uc].
  destruct tv as [old|] eqn:Htv.
  - destruct (sstep_cas_data st orc k old (snd (fst (fst c))) (snd (fst c)) now) as [Hd Hr].
    destruct (cas_after_get (cleaned_data st orc now) k old (snd (fst (fst c))) (snd (fst c)) now ltac:(rewrite Hg; exact Htv)) as [Hok Hu].
    rewrite Hr, Hok. cbn [fst snd]. split; [reflexivity|]. rewrite Hd. apply Hu. exact Uc.
  - destruct (sstep_setnx_data st orc k (snd (fst (fst c))) (snd (fst c)) now) as [Hd Hr].
    destruct (setnx_after_get (cleaned_data st orc now) k (snd (fst (fst c))) (snd (fst c)) now ltac:(rewrite Hg; exact Htv)) as [Hok Hu].
    rewrite Hr, Hok. cbn [fst snd]. split; [reflexivity|]. rewrite Hd. apply Hu. exact Uc.
Qed.

(* never a panic, never an internal error, the documented errors otherwise - for any order *)
Theorem total_any_order (st : store K) orc (rq : req) :
  uniq (sdata K st) -> 0 <= r_now rq <= t2200 -> req_in_i64 K rq ->
  if r_q rq <? 0 then snd (rate_limit st orc rq) = ErrNegativeQuantity
  else if (r_B rq <=? 0) || (r_count rq <=? 0) || (r_period rq <=? 0) then snd (rate_limit st orc rq) = ErrInvalidRateLimit
  else exists r, snd (rate_limit st orc rq) = Ok r /\
       limit r = r_B rq /\ 0 <= remaining r <= r_B rq /\ (retry_after r = 0 <-> allowed r = true).
Proof.
  intros U Hnow (HB & HC & HP & HQ).
  destruct (rate_limit_any_order st orc rq U) as [Ho _]. rewrite Ho. unfold out_of_get, invalid_limits.
  destruct (Z.ltb_spec (r_q rq) 0); [reflexivity|].
  destruct ((r_B rq <=? 0) || (r_count rq <=? 0) || (r_period rq <=? 0)) eqn:Hinv; [reflexivity|].
  apply orb_false_elim in Hinv. destruct Hinv as [Hinv H3]. apply orb_false_elim in Hinv. destruct Hinv as [H1 H2].
  apply Z.leb_gt in H1, H2, H3. unfold in_i64, i64min in *.
  pose proof (m_calc_sanity (rate (r_count rq) (r_period rq)) (r_B rq) (r_q rq) (r_now rq)
                (d_get K keqb (sdata K st) (r_key rq) (r_now rq)) (rate_range _ _) ltac:(lia) ltac:(lia) Hnow) as Hs.
  cbv zeta in Hs |- *. set (c := m_calc _ _ _ _ _) in *. destruct Hs as (S1 & S2 & S3 & S4 & _).
  destruct (fst (fst (fst c)) && (0 <? r_q rq)).
  - rewrite (no_overflow _ _ Hnow S4). exists (snd c). repeat split; auto; tauto.
  - exists (snd c). repeat split; auto; tauto.
Qed.

(* whole histories: the table stays a map *)
Lemma lrun_uniq : forall (h : list (bool * req)) (st : store K),
  uniq (sdata K st) -> uniq (sdata K (fst (lrun K keqb rate st h))).
Proof.
  induction h as [|[orc rq] r IH]; intros st U; [exact U|].
  cbn [lrun fst snd]. apply IH. apply rate_limit_any_order. exact U.
Qed.

(* ===================================================================== Part C *)
(* no stale-forget event: every lookup of the concrete run returns what the never-cleaned
   abstract map shows at that instant *)
Fixpoint no_stale_forget (st : store K) (m : absmap K) (h : list (bool * req)) : Prop :=
  match h with
  | [] => True
  | (orc, rq) :: r =>
      d_get K keqb (sdata K st) (r_key rq) (r_now rq) = avis m (r_key rq) (r_now rq) /\
      no_stale_forget (fst (rate_limit st orc rq)) (fst (al_step K keqb rate m rq)) r
  end.

Lemma al_step_out m (rq : req) : snd (al_step K keqb rate m rq) = out_of_get (avis m (r_key rq) (r_now rq)) rq.
Proof.
  unfold Abstract.al_step, out_of_get. destruct (r_q rq <? 0); [reflexivity|].
  destruct (invalid_limits K rq); [reflexivity|]. cbv zeta.
  destruct (_ && _); [|reflexivity]. destruct (systime_add_overflows _ _); reflexivity.
Qed.

Theorem no_forget_outcomes : forall (h : list (bool * req)) (st : store K) (m : absmap K),
  uniq (sdata K st) -> no_stale_forget st m h ->
  snd (lrun K keqb rate st h) = snd (al_run K keqb rate m (map snd h)).
Proof.
  induction h as [|[orc rq] r IH]; intros st m U Hn; [reflexivity|].
  cbn [no_stale_forget] in Hn. destruct Hn as [Hg Hn].
  cbn [lrun al_run map fst snd].
  destruct (rate_limit_any_order st orc rq U) as [Ho U'].
  rewrite Ho, Hg, <- al_step_out. f_equal. apply IH; assumption.
Qed.

End A.

(* ===================================================================== Part B *)
Section B.
Variables E B : Z.
Hypothesis HD : inD E B.

Notation T := (T E B).
Notation retention := (retention E B).
Notation eff := (eff E).
Notation kstep := (kstep E B).
Notation Inv := (Inv E B).

Ltac dom := pose proof (HE E B HD) as HE'; pose proof (HB E B HD) as HB'; pose proof (T_nonneg E B HD) as HT0;
            pose proof (T_plus_E E B) as HTE; pose proof (T_bound E B HD) as HTb; pose proof (E_bound E B HD) as HEb;
            pose proof (retention_bounds E B HD) as (Hr1 & Hr2 & Hr3); pose proof (EB_bound E B HD) as HEBb.

(* under the invariant, visibility is irrelevant: the effective TAT is max(tat, now - E) *)
Lemma eff_wf s M now : Inv s M ->
  eff s now = match s with Some (tat, _) => Z.max tat (now - E) | None => now - E end.
Proof.
  intros HI. destruct s as [[tat ex]|]; [|reflexivity]. cbn [KeyLemmas.Inv] in HI. destruct HI as [H1 H2].
  unfold KeyStep.eff, kvisible. destruct (Z.ltb_spec now ex); lia.
Qed.

Lemma eff_le_any s M now : Inv s M -> eff s now <= Z.max M now + T.
Proof.
  dom. intros HI. rewrite (eff_wf s M now HI). destruct s as [[tat ex]|]; [|lia].
  cbn [KeyLemmas.Inv] in HI. lia.
Qed.

Lemma kstep_allowed_any s M q now :
  Inv s M -> time_ok M -> time_ok now -> 0 <= q ->
  allowed (snd (kstep s q now)) = (eff s now + E * q - T <=? now).
Proof.
  dom. intros HI HM Ht Hq. unfold KeyStep.kstep. cbn [snd allowed].
  pose proof (eff_ge E s now). pose proof (eff_le_any s M now HI).
  unfold time_ok, tmax in *. unfold i64max.
  assert (HX : 0 <= E * q) by nia.
  set (X := E * q) in *. clearbody X. set (tau := eff s now) in *. clearbody tau.
  destruct (Z.leb_spec (Z.min (tau + Z.min X 9223372036854775807) 9223372036854775807 - T) now);
  destruct (Z.leb_spec (tau + X - T) now); auto; lia.
Qed.

Lemma kstep_admit_any s M q now :
  Inv s M -> time_ok M -> time_ok now -> 0 <= q -> eff s now + E * q - T <= now ->
  let new := eff s now + E * q in
  kstep s q now =
  ((if 0 <? q then Some (new, now + (Z.max (new - now) 0 + retention)) else s),
   {| allowed := true; limit := B; remaining := Z.max ((now + T - new) / E) 0;
      reset_after := Z.max (new - now) 0 + retention; retry_after := 0 |}).
Proof.
  dom. intros HI HM Ht Hq Hok. cbv zeta. unfold KeyStep.kstep.
  pose proof (eff_ge E s now). unfold time_ok, tmax in *.
  assert (Hmin : Z.min (eff s now + Z.min (E * q) i64max) i64max = eff s now + E * q) by (unfold i64max; lia).
  rewrite Hmin. destruct (Z.leb_spec (eff s now + E * q - T) now); [|lia]. reflexivity.
Qed.

Lemma kstep_deny_any s M q now :
  Inv s M -> time_ok M -> time_ok now -> 0 <= q -> now < eff s now + E * q - T ->
  fst (kstep s q now) = s /\ allowed (snd (kstep s q now)) = false.
Proof.
  intros HI HM Ht Hq Hno.
  assert (Ha : allowed (snd (kstep s q now)) = false).
  { rewrite (kstep_allowed_any s M q now HI HM Ht Hq). apply Z.leb_gt. lia. }
  split; [apply kstep_denied_state; exact Ha|exact Ha].
Qed.

Lemma kstep_inv_any s M q now :
  Inv s M -> time_ok M -> time_ok now -> 0 <= q -> Inv (fst (kstep s q now)) (Z.max M now).
Proof.
  dom. intros HI HM Ht Hq.
  destruct (Z_le_gt_dec (eff s now + E * q - T) now) as [Hok|Hno].
  - rewrite (kstep_admit_any s M q now HI HM Ht Hq Hok). cbn [fst].
    destruct (0 <? q); [|eapply Inv_mono; [exact HI|lia]]. cbn [KeyLemmas.Inv]. lia.
  - destruct (kstep_deny_any s M q now HI HM Ht Hq ltac:(lia)) as [-> _]. eapply Inv_mono; [exact HI|lia].
Qed.

(* a request carrying an earlier timestamp never sees more budget than at a later one *)
Lemma room_monotone (s : kstate) t M : t <= M -> (t + T - eff s t) <= (M + T - eff s M).
Proof.
  intros Hle. unfold KeyStep.eff, kvisible. destruct s as [[tat ex]|]; [|lia].
  destruct (Z.ltb_spec t ex); destruct (Z.ltb_spec M ex); lia.
Qed.

Lemma budget_not_increased s M0 q t M :
  Inv s M0 -> time_ok M0 -> time_ok t -> time_ok M -> 0 <= q -> t <= M ->
  allowed (snd (kstep s q t)) = true -> allowed (snd (kstep s q M)) = true.
Proof.
  intros HI HM0 Ht HM Hq Hle Ha.
  rewrite (kstep_allowed_any s M0 q t HI HM0 Ht Hq) in Ha. apply Z.leb_le in Ha.
  rewrite (kstep_allowed_any s M0 q M HI HM0 HM Hq). apply Z.leb_le.
  pose proof (room_monotone s t M Hle). lia.
Qed.

(* ---- window bound for arbitrary timestamp order (state never forgotten) ---- *)
Definition Pot (s : kstate) (t1 : Z) : Z :=
  match s with Some (tat, _) => Z.max tat (t1 - E) | None => t1 - E end.

Fixpoint knonneg (l : list (Z * Z)) : Prop := match l with [] => True | (q, _) :: r => 0 <= q /\ knonneg r end.

Lemma krun_window_any : forall (l : list (Z * Z)) (s : kstate) (M t1 t2 : Z),
  Inv s M -> time_ok M -> ktimes_ok l -> knonneg l ->
  E * kadm l (map is_allowed (snd (krun E B s l))) t1 t2 <= Z.max 0 (t2 + T - Pot s t1).
Proof.
  dom. induction l as [|[q t] r IH]; intros s M t1 t2 HI HM Hto Hnn; [cbn; lia|].
  apply Forall_cons_iff in Hto. destruct Hto as [Ht Hto]. cbn [snd] in Ht.
  cbn [knonneg] in Hnn. destruct Hnn as [Hq Hnn].
  cbn [krun]. unfold kout. destruct (Z.ltb_spec q 0); [lia|]. cbn [fst snd map kadm is_allowed].
  pose proof (kstep_inv_any s M q t HI HM Ht Hq) as HI'.
  assert (HM' : time_ok (Z.max M t)) by (unfold time_ok in *; lia).
  specialize (IH (fst (kstep s q t)) (Z.max M t) t1 t2 HI' HM' Hto Hnn).
  assert (HX : 0 <= E * q) by nia.
  destruct (Z_le_gt_dec (eff s t + E * q - T) t) as [Hok|Hno].
  - rewrite (kstep_admit_any s M q t HI HM Ht Hq Hok) in *.
    rewrite (eff_wf s M t HI) in *.
    destruct (Z.ltb_spec 0 q) as [Hqp|Hq0]; cbn [fst snd allowed andb] in *.
    + unfold in_win. destruct (Z.leb_spec t1 t); destruct (Z.leb_spec t t2); cbn [andb];
        unfold Pot in *; destruct s as [[tat ex]|]; lia.
    + assert (q = 0) by lia. subst q. destruct (in_win t1 t2 t); lia.
  - destruct (kstep_deny_any s M q t HI HM Ht Hq ltac:(lia)) as [Hs Ha]. rewrite Hs in IH. rewrite Hs, Ha. cbn [andb]. lia.
Qed.

Theorem krun_window_any_order (l : list (Z * Z)) (s : kstate) (M t1 t2 : Z) :
  Inv s M -> time_ok M -> ktimes_ok l -> knonneg l -> t1 <= t2 ->
  E * kadm l (map is_allowed (snd (krun E B s l))) t1 t2 <= E * B + (t2 - t1).
Proof.
  dom. intros HI HM Hto Hnn H12.
  pose proof (krun_window_any l s M t1 t2 HI HM Hto Hnn) as H.
  assert (t1 - E <= Pot s t1) by (unfold Pot; destruct s as [[? ?]|]; lia). lia.
Qed.

(* ---- machine arithmetic = per-key step, any order ---- *)
Lemma m_calc_kstep_any s M q now :
  Inv s M -> time_ok M -> time_ok now -> 0 <= q <= i64max ->
  let c := m_calc E B q now (kvisible s now) in
  let sr := kstep s q now in
  snd c = snd sr /\ fst (fst (fst c)) = allowed (snd sr) /\
  (allowed (snd sr) = true -> 0 < q ->
     fst sr = Some (snd (fst (fst c)), now + snd (fst c)) /\ 0 <= snd (fst c) <= u64max).
Proof.
  dom. intros HI HM Ht Hq. cbv zeta.
  pose proof (T_eq E B) as HTeq. pose proof (eff_ge E s now) as Hge. pose proof (eff_le_any s M now HI) as Hle2.
  unfold time_ok, tmax in *.
  unfold m_calc.
  assert (HEmin : Z.min E i64max = E) by (unfold i64max; lia). rewrite HEmin.
  assert (Htol : sat_mul E (B - 1) = T).
  { unfold sat_mul. rewrite sat_id; [reflexivity|]. fold T. unfold in_i64, i64min, i64max. lia. }
  rewrite Htol. change (Z.max T E) with retention.
  assert (HsubE : sat_sub now E = now - E) by (unfold sat_sub; apply sat_id; unfold in_i64, i64min, i64max; lia).
  rewrite HsubE.
  assert (Htat : match kvisible s now with Some stored => Z.max stored (now - E) | None => now - E end = eff s now) by reflexivity.
  rewrite Htat. set (tau := eff s now) in *.
  assert (HX0 : 0 <= E * q) by nia.
  assert (Hinc : sat_mul E q = Z.min (E * q) i64max) by (unfold sat_mul; apply sat_nonneg_min; unfold i64min; lia).
  rewrite Hinc. set (X := Z.min (E * q) i64max) in *.
  assert (HXr : 0 <= X <= i64max) by (unfold X, i64max; lia).
  assert (Hnew : sat_add tau X = Z.min (tau + X) i64max) by (unfold sat_add; apply sat_nonneg_min; unfold i64min, i64max in *; lia).
  rewrite Hnew. set (new := Z.min (tau + X) i64max) in *.
  assert (Hnewr : tau <= new <= i64max) by (unfold new, i64max in *; lia).
  assert (Hallow : sat_sub new T = new - T) by (unfold sat_sub; apply sat_id; unfold in_i64, i64min, i64max in *; lia).
  rewrite Hallow.
  unfold KeyStep.kstep. fold tau. fold X. fold new. cbn [fst snd allowed reset_after].
  assert (Hbl : sat_add now T = now + T) by (unfold sat_add; apply sat_id; unfold in_i64, i64min, i64max; lia).
  rewrite Hbl.
  assert (Hquot : forall room, Z.max (Z.quot room E) 0 = Z.max (room / E) 0).
  { intros room. destruct (Z_lt_ge_dec room 0).
    - assert (Z.quot room E <= 0) by (apply Z.quot_le_upper_bound; lia).
      assert (room / E < 0) by (apply Z.div_lt_upper_bound; lia). lia.
    - rewrite Z.quot_div_nonneg by lia. reflexivity. }
  destruct (Z.ltb_spec 0 E); [|lia].
  destruct (Z.leb_spec (new - T) now) as [Hok|Hno].
  - assert (H1 : sat_sub new now = new - now) by (unfold sat_sub; apply sat_id; unfold in_i64, i64min, i64max in *; lia).
    rewrite H1.
    assert (H2 : sat_add (Z.max (new - now) 0) retention = Z.max (new - now) 0 + retention)
      by (unfold sat_add; apply sat_id; unfold in_i64, i64min, i64max in *; lia).
    rewrite H2.
    assert (H3 : sat_sub (now + T) new = now + T - new) by (unfold sat_sub; apply sat_id; unfold in_i64, i64min, i64max in *; lia).
    rewrite H3, Hquot.
    cbn [fst snd]. split; [reflexivity|]. split; [reflexivity|]. intros _ Hqp.
    destruct (Z.ltb_spec 0 q); [|lia]. cbn [andb]. split; [reflexivity|]. unfold u64max. lia.
  - assert (H1 : sat_sub tau now = tau - now) by (unfold sat_sub; apply sat_id; unfold in_i64, i64min, i64max in *; lia).
    rewrite H1.
    assert (H2 : sat_add (Z.max (tau - now) 0) retention = Z.max (tau - now) 0 + retention)
      by (unfold sat_add; apply sat_id; unfold in_i64, i64min, i64max in *; lia).
    rewrite H2.
    assert (H3 : sat_sub (now + T) tau = now + T - tau) by (unfold sat_sub; apply sat_id; unfold in_i64, i64min, i64max in *; lia).
    rewrite H3, Hquot.
    assert (H4 : sat_sub (new - T) now = new - T - now) by (unfold sat_sub; apply sat_id; unfold in_i64, i64min, i64max in *; lia).
    rewrite H4.
    cbn [fst snd]. split; [reflexivity|]. split; [reflexivity|]. intros Hf; discriminate.
Qed.

End B.

(* ---- lifting to the abstract limiter and to the concrete one, any timestamp order ---- *)
Section C2.
Variable K : Type.
Variable keqb : K -> K -> bool.
Hypothesis keqb_spec : forall a b, reflect (a = b) (keqb a b).
Variable rate : Z -> Z -> Z.

Notation req := (req K).
Notation al_step := (al_step K keqb rate).
Notation al_run := (al_run K keqb rate).

Lemma al_step_key_any (m : absmap K) (rq : req) E B M :
  inD E B -> r_B rq = B -> 1 <= r_count rq -> 1 <= r_period rq -> rate (r_count rq) (r_period rq) = E ->
  r_q rq <= i64max ->
  Inv E B (m (r_key rq)) M -> time_ok M -> time_ok (r_now rq) ->
  fst (al_step m rq) (r_key rq) = fst (kout E B (m (r_key rq)) (r_q rq) (r_now rq)) /\
  snd (al_step m rq) = snd (kout E B (m (r_key rq)) (r_q rq) (r_now rq)).
Proof.
  intros HD HB Hc Hp HEq Hq HI HM Ht. unfold Abstract.al_step, kout.
  destruct (Z.ltb_spec (r_q rq) 0); [split; reflexivity|].
  assert (Hv : invalid_limits K rq = false).
  { unfold invalid_limits. pose proof (KeyLemmas.HB E B HD).
    destruct (Z.leb_spec (r_B rq) 0); [lia|]. destruct (Z.leb_spec (r_count rq) 0); [lia|].
    destruct (Z.leb_spec (r_period rq) 0); [lia|]. reflexivity. }
  rewrite Hv. cbv zeta. rewrite HEq, HB.
  pose proof (m_calc_kstep_any E B HD (m (r_key rq)) M (r_q rq) (r_now rq) HI HM Ht ltac:(lia)) as Hm.
  cbv zeta in Hm. change (avis m (r_key rq) (r_now rq)) with (kvisible (m (r_key rq)) (r_now rq)).
  set (c := m_calc E B (r_q rq) (r_now rq) (kvisible (m (r_key rq)) (r_now rq))) in *.
  set (sr := kstep E B (m (r_key rq)) (r_q rq) (r_now rq)) in *.
  destruct Hm as (Hsnd & Hok & Hadm).
  rewrite Hok. destruct (allowed (snd sr)) eqn:Ha; [destruct (Z.ltb_spec 0 (r_q rq)) as [Hqp|Hq0]|]; cbn [andb].
  - destruct (Hadm eq_refl Hqp) as (Hst & Httl).
    assert (Hov : systime_add_overflows (r_now rq) (snd (fst c)) = false).
    { unfold systime_add_overflows. apply Z.ltb_ge. unfold time_ok, tmax in Ht. unfold u64max in Httl. unfold i64max.
      apply Z.div_le_upper_bound; lia. }
    rewrite Hov. cbn [fst snd]. unfold AbsMap.aupd. rewrite (keqb_refl K keqb keqb_spec).
    rewrite Hst, Hsnd. split; reflexivity.
  - cbn [fst snd]. rewrite Hsnd. split; [|reflexivity].
    assert (r_q rq = 0) as Hz by lia. unfold sr. rewrite Hz. symmetry. apply kstep_zero_state.
  - cbn [fst snd]. rewrite Hsnd. split; [|reflexivity]. symmetry. apply kstep_denied_state. exact Ha.
Qed.

Lemma kout_inv_any E B (HD : inD E B) s M q now :
  Inv E B s M -> time_ok M -> time_ok now -> Inv E B (fst (kout E B s q now)) (Z.max M now).
Proof.
  intros HI HM Ht. unfold kout. destruct (Z.ltb_spec q 0); cbn [fst].
  - eapply Inv_mono; [exact HI|lia].
  - apply kstep_inv_any; auto.
Qed.

Theorem al_run_projection_any (k : K) (E B count period : Z) :
  inD E B -> 1 <= count -> 1 <= period -> rate count period = E ->
  forall (h : list req) (m : absmap K) M,
  Inv E B (m k) M -> time_ok M -> times_ok K h -> key_fixed K keqb k B count period h ->
  project K keqb k h (snd (al_run m h)) = snd (krun E B (m k) (kreqs K keqb k h)).
Proof.
  intros HD Hc Hp HEq. induction h as [|rq r IH]; intros m M HI HM Hto Hkf; [reflexivity|].
  apply Forall_cons_iff in Hto. destruct Hto as [Ht1 Hto']. apply Forall_cons_iff in Hkf. destruct Hkf as [Hk1 Hkf'].
  cbn [Abstract.al_run project snd fst]. unfold kreqs. cbn [filter].
  assert (HM' : time_ok (Z.max M (r_now rq))) by (unfold time_ok in *; lia).
  destruct (for_key K keqb k rq) eqn:Hfk; fold (kreqs K keqb k r).
  - unfold for_key in Hfk. destruct (keqb_spec (r_key rq) k) as [Hkey|]; [|discriminate].
    destruct (Hk1 eq_refl) as (HB & HC & HP & HQ).
    pose proof (al_step_key_any m rq E B M HD HB ltac:(lia) ltac:(lia)
                  ltac:(rewrite HC, HP; exact HEq) HQ ltac:(rewrite Hkey; exact HI) HM Ht1) as [Hst Hout].
    rewrite Hkey in Hst, Hout. cbn [map krun].
    assert (HI' : Inv E B (fst (al_step m rq) k) (Z.max M (r_now rq))).
    { rewrite Hst. apply kout_inv_any; auto. }
    specialize (IH (fst (al_step m rq)) _ HI' HM' Hto' Hkf'). rewrite Hst in IH.
    cbn [fst snd]. rewrite Hout, IH. reflexivity.
  - unfold for_key in Hfk.
    assert (Hne : keqb k (r_key rq) = false).
    { destruct (keqb_spec k (r_key rq)) as [Heq|]; [|reflexivity].
      rewrite <- Heq in Hfk. rewrite (keqb_refl K keqb keqb_spec) in Hfk. discriminate. }
    pose proof (al_step_frame K keqb rate m rq k Hne) as Hfr.
    assert (HI' : Inv E B (fst (al_step m rq) k) (Z.max M (r_now rq))) by (rewrite Hfr; eapply Inv_mono; [exact HI|lia]).
    specialize (IH (fst (al_step m rq)) _ HI' HM' Hto' Hkf'). rewrite Hfr in IH. exact IH.
Qed.

Lemma kreqs_nonneg k (h : list req) : Top.key_nonneg K keqb k h -> knonneg (kreqs K keqb k h).
Proof.
  unfold Top.key_nonneg, kreqs. induction h as [|rq r IH]; intros H; [exact I|].
  apply Forall_cons_iff in H. destruct H as [H1 H2]. cbn [filter].
  destruct (for_key K keqb k rq) eqn:Hf; [cbn [map knonneg]; split; [apply H1; reflexivity|apply IH; exact H2]|apply IH; exact H2].
Qed.

(* C17 window bound for the concrete limiter: ANY timestamp order, any store, any other-key
   traffic - provided the execution contains no stale-forget event.  (The bound holds even without
   the +J slack.) *)
Theorem lim_window_any_order (st0 : store K) (h : list (bool * req)) (k : K) (B count period t1 t2 : Z) :
  sdata K st0 = [] ->
  inD (rate count period) B -> 1 <= count -> 1 <= period ->
  times_ok K (map snd h) -> key_fixed K keqb k B count period (map snd h) -> Top.key_nonneg K keqb k (map snd h) ->
  no_stale_forget K keqb rate st0 abs_empty h -> t1 <= t2 ->
  rate count period * (Top.admitted_qty K keqb k (map snd h) (snd (lrun K keqb rate st0 h)) t1 t2 - B) <= t2 - t1.
Proof.
  intros He HD Hc Hp Hto Hkf Hnn Hnsf H12.
  assert (U : uniq (sdata K st0)) by (rewrite He; apply uniq_nil).
  rewrite (no_forget_outcomes K keqb keqb_spec rate h st0 abs_empty U Hnsf).
  rewrite Top.admitted_qty_kadm.
  assert (HM0 : time_ok 0) by (unfold time_ok, tmax; lia).
  rewrite (al_run_projection_any k (rate count period) B count period HD Hc Hp eq_refl (map snd h) abs_empty 0
             (Inv_none _ _ _) HM0 Hto Hkf).
  pose proof (krun_window_any_order (rate count period) B HD (kreqs K keqb k (map snd h)) None 0 t1 t2
                (Inv_none _ _ _) HM0 (Top.kreqs_times_ok K keqb k _ Hto) (kreqs_nonneg k _ Hnn) H12) as Hw.
  change (abs_empty k) with (@None (Z * Z)). lia.
Qed.


(* C05 for ANY timestamp order: without stale-forget events the responses of key k are the
   per-key step folded over k's own requests *)
Theorem lim_projection_any_order (st0 : store K) (h : list (bool * req)) (k : K) (B count period : Z) :
  sdata K st0 = [] ->
  inD (rate count period) B -> 1 <= count -> 1 <= period ->
  times_ok K (map snd h) -> key_fixed K keqb k B count period (map snd h) ->
  no_stale_forget K keqb rate st0 abs_empty h ->
  project K keqb k (map snd h) (snd (lrun K keqb rate st0 h)) =
  snd (krun (rate count period) B None (kreqs K keqb k (map snd h))).
Proof.
  intros He HD Hc Hp Hto Hkf Hnsf.
  assert (U : uniq (sdata K st0)) by (rewrite He; apply uniq_nil).
  rewrite (no_forget_outcomes K keqb keqb_spec rate h st0 abs_empty U Hnsf).
  assert (HM0 : time_ok 0) by (unfold time_ok, tmax; lia).
  exact (al_run_projection_any k (rate count period) B count period HD Hc Hp eq_refl (map snd h) abs_empty 0
           (Inv_none _ _ _) HM0 Hto Hkf).
Qed.

End C2.

(* ===================================================================== Part D *)
(* With stale-forget events the C17 bound fails, even with the +J slack: a second key stamped
   20 ms ahead makes a store that sweeps on every write (ProbabilisticStore, cleanup_probability 1)
   reclaim the victim's entry relative to the LATEST timestamp; the victim's next request, carrying
   an EARLIER timestamp, finds the key fresh. Victim: max_burst 2, one token per 10 ms. *)
Definition w_E : Z := 10000000.
Definition w_t0 : Z := 1700000000000000000.
Definition w_ms : Z := 1000000.
Definition w_rate : Z -> Z -> Z := fun _ _ => w_E.
Definition w_hist : list (bool * Limiter.req Z) :=
  flat_map (fun i => [ (true, mkreq 0 2 100 1 2 (w_t0 + i * w_ms));
                       (true, mkreq (100 + i) 2 100 1 1 (w_t0 + (20 + i) * w_ms)) ])
           [0;1;2;3;4;5;6;7;8;9].
Definition w_outs := snd (lrun Z Z.eqb w_rate (probabilistic_new 1) w_hist).
(* largest backward step of the history's timestamps *)
Fixpoint max_regress (mx : Z) (ts : list Z) : Z :=
  match ts with [] => 0 | t :: r => Z.max (mx - t) (max_regress (Z.max mx t) r) end.
Definition w_J := max_regress w_t0 (map (fun p => r_now (snd p)) w_hist).

Lemma stale_forget_refutes_bound :
  Top.admitted_qty Z Z.eqb 0 (map snd w_hist) w_outs w_t0 (w_t0 + 9 * w_ms) = 20 /\
  w_J = 19 * w_ms /\
  ~ (w_E * (Top.admitted_qty Z Z.eqb 0 (map snd w_hist) w_outs w_t0 (w_t0 + 9 * w_ms) - 2) <= 9 * w_ms + w_J).
Proof. vm_compute. split; [reflexivity|]. split; [reflexivity|]. intros H. apply H. reflexivity. Qed.
