(* Mirror of RateLimiter::rate_limit (throttlecrab/src/core/rate_limiter.rs) with the i64
   machine arithmetic written out, over the concrete store models.

   [rate count period] is the emission interval as returned by
   Rate::from_count_and_period(..).period().as_nanos(); it is a parameter here (any function), the
   Flocq model of Float/Rate64.v is plugged in by Corr/LimCorr.v for execution.
   Precondition of the model: 0 <= now < 2^63 ns (SystemTime at or after the epoch, before 2262);
   the pre-1970 fallback branch (reads the wall clock) is outside every property's quantifier. *)
From Coq Require Import ZArith List Bool Lia.
Import ListNotations.
Require Import TC.Generated.Consts TC.Base.Map TC.Store.Stores TC.Limiter.Arith TC.Limiter.KeyStep.
Open Scope Z_scope.

Section Lim.
Variable K : Type.
Variable keqb : K -> K -> bool.
Variable rate : Z -> Z -> Z.

Record req := mkreq { r_key : K; r_B : Z; r_count : Z; r_period : Z; r_q : Z; r_now : Z }.

Inductive outcome :=
| Ok (r : resp)
| ErrNegativeQuantity
| ErrInvalidRateLimit
| ErrInternal
| Panic.

(* one pass of the loop body's arithmetic, given what `store.get` returned:
   (allowed, new_tat, ttl, response) *)
Definition m_calc (Edur B q now : Z) (tat_val : option Z) : bool * Z * Z * resp :=
  let E := Z.min Edur i64max in                                  (* as_nanos().min(i64::MAX) as i64 *)
  let tol := sat_mul E (B - 1) in                                (* delay_variation_tolerance_ns *)
  let ret := Z.max tol E in                                      (* retention_ns *)
  let tat := match tat_val with
             | Some stored => Z.max stored (sat_sub now E)
             | None => sat_sub now E
             end in
  let inc := sat_mul E q in
  let new := sat_add tat inc in
  let allow_at := sat_sub new tol in
  let ok := allow_at <=? now in
  let ttl := sat_add (Z.max (sat_sub new now) 0) ret in
  let cur := if ok then new else tat in
  let burst_limit := sat_add now tol in
  let room := sat_sub burst_limit cur in
  let rem := if 0 <? E then Z.max (Z.quot room E) 0 else 0 in
  let reset := sat_add (Z.max (sat_sub cur now) 0) ret in
  let retry := if ok then 0 else Z.max (sat_sub allow_at now) 0 in
  (ok, new, ttl, {| allowed := ok; limit := B; remaining := rem; reset_after := reset; retry_after := retry |}).

(* SystemTime + Duration panics when the seconds overflow i64 *)
Definition systime_add_overflows (now ttl : Z) : bool := i64max <? (now + ttl) / 1000000000.

(* one pass of the retry loop: either a final outcome, or a failed write (retry) *)
Definition attempt_once (st : store K) (orc : bool) (k : K) (Edur B q now : Z) : store K * option outcome :=
  let tat_val := d_get K keqb (sdata K st) k now in
  let c := m_calc Edur B q now tat_val in
  let ok := fst (fst (fst c)) in
  let new := snd (fst (fst c)) in
  let ttl := snd (fst c) in
  let r := snd c in
  if ok && (0 <? q) then                                         (* allowed && quantity > 0 *)
    if systime_add_overflows now ttl then (st, Some Panic) else
    let op := match tat_val with
              | Some old => Cas k old new ttl now
              | None => SetNX k new ttl now
              end in
    let st_res := sstep K keqb st orc op in
    match snd st_res with
    | RBool true => (fst st_res, Some (Ok r))
    | _ => (fst st_res, None)
    end
  else (st, Some (Ok r)).

Fixpoint attempts (fuel : nat) (st : store K) (orc : bool) (k : K) (Edur B q now : Z) : store K * outcome :=
  match fuel with
  | O => (st, ErrInternal)                                       (* "Max retries exceeded" *)
  | S f =>
      match attempt_once st orc k Edur B q now with
      | (st', Some out) => (st', out)
      | (st', None) => attempts f st' orc k Edur B q now
      end
  end.

Definition max_retries : nat := Z.to_nat MAX_RETRIES.

Definition rate_limit (st : store K) (orc : bool) (rq : req) : store K * outcome :=
  if r_q rq <? 0 then (st, ErrNegativeQuantity)
  else if (r_B rq <=? 0) || (r_count rq <=? 0) || (r_period rq <=? 0) then (st, ErrInvalidRateLimit)
  else attempts max_retries st orc (r_key rq) (rate (r_count rq) (r_period rq)) (r_B rq) (r_q rq) (r_now rq).

(* a history: one oracle bit per request (consumed by the store on the write, if any) *)
Fixpoint lrun (st : store K) (h : list (bool * req)) : store K * list outcome :=
  match h with
  | [] => (st, [])
  | orq :: r =>
      let so := rate_limit st (fst orq) (snd orq) in
      let sos := lrun (fst so) r in (fst sos, snd so :: snd sos)
  end.

End Lim.
Arguments mkreq {K}. Arguments r_key {K}. Arguments r_B {K}. Arguments r_count {K}.
Arguments r_period {K}. Arguments r_q {K}. Arguments r_now {K}.
