(* C08: rate_limit is total.  The full i64^4 parameter space, any stored value under the key,
   any emission interval the Rate constructor can return, timestamps 1970..2200. *)
From Coq Require Import ZArith List Bool Lia.
Import ListNotations.
Require Import TC.Generated.Consts TC.Base.Map TC.Store.Stores TC.Store.AbsMap TC.Store.Refine
  TC.Limiter.Arith TC.Limiter.KeyStep TC.Limiter.Limiter TC.Limiter.Abstract TC.Limiter.NoEffect.
Open Scope Z_scope.

Definition t2200 : Z := 7258118400000000000.

Ltac unsat := unfold sat_add, sat_sub, sat_mul, sat, i64max, i64min in *.

(* small facts about saturating arithmetic, each proved in a minimal context *)
Lemma sat_bounds z : i64min <= sat z <= i64max.
Proof. unsat. lia. Qed.
Lemma sat_add_nonneg a b : 0 <= a -> 0 <= b -> 0 <= sat_add a b <= i64max.
Proof. intros. unsat. lia. Qed.
Lemma sat_sub_pos a now : now < a -> a <= i64max -> 0 <= now -> 0 < sat_sub a now.
Proof. intros. unsat. lia. Qed.
Lemma sat_nonneg z : 0 <= z -> 0 <= sat z <= z.
Proof. intros. unsat. lia. Qed.
Lemma sat_add_ge tat p : 0 <= p -> tat <= i64max -> tat <= sat_add tat p.
Proof. intros. unsat. lia. Qed.
Lemma sat_add_big tat p : 0 <= p -> i64max < tat -> sat_add tat p = i64max.
Proof. intros. unsat. lia. Qed.

Lemma room_le E now P1 cur : 0 < E -> 0 <= P1 -> 0 <= now -> now - E <= cur ->
  sat_sub (sat_add now (sat P1)) cur <= P1 + E.
Proof. intros. unsat. lia. Qed.

(* room / E <= B whenever the current TAT is not before now - E *)
Lemma room_bound E B now P1 cur :
  0 < E -> 1 <= B -> P1 = E * (B - 1) -> 0 <= P1 -> 0 <= now -> now - E <= cur ->
  0 <= Z.max (Z.quot (sat_sub (sat_add now (sat P1)) cur) E) 0 <= B.
Proof.
  intros HE HB HP1 HP1n Hnow Hcur. split; [lia|]. apply Z.max_lub; [|lia].
  set (room := sat_sub (sat_add now (sat P1)) cur).
  assert (Hroom : room <= P1 + E) by (apply room_le; assumption).
  assert (HEB : P1 + E = E * B) by (rewrite HP1; ring).
  destruct (Z_lt_ge_dec room 0) as [Hneg|Hpos].
  - assert (Z.quot room E <= 0) by (apply Z.quot_le_upper_bound; lia). lia.
  - rewrite Z.quot_div_nonneg by lia. apply Z.div_le_upper_bound; lia.
Qed.

Lemma tat_ge now E tv : 0 <= now <= i64max -> 0 <= E <= i64max ->
  now - E <= match tv with Some stored => Z.max stored (sat_sub now E) | None => sat_sub now E end.
Proof. intros. destruct tv; unsat; lia. Qed.

(* sanity of the arithmetic for ANY stored value and ANY non-negative emission interval *)
Lemma m_calc_sanity Edur B q now tv :
  0 <= Edur -> 1 <= B <= i64max -> 0 <= q <= i64max -> 0 <= now <= t2200 ->
  let c := m_calc Edur B q now tv in
  let r := snd c in
  limit r = B /\ 0 <= remaining r <= B /\ (retry_after r = 0 <-> allowed r = true) /\
  0 <= snd (fst c) <= i64max /\ 0 <= reset_after r <= i64max /\ 0 <= retry_after r <= i64max.
Proof.
  intros HE HB Hq Hnow. cbv zeta. unfold m_calc. cbn [fst snd limit remaining retry_after allowed reset_after].
  unfold sat_mul.
  set (E := Z.min Edur i64max).
  assert (HEr : 0 <= E <= i64max) by (unfold E, i64max in *; lia).
  assert (HP1 : 0 <= E * (B - 1)) by nia.
  assert (HP2 : 0 <= E * q) by nia.
  assert (HP1e : E * (B - 1) = E * (B - 1)) by reflexivity.
  set (P1 := E * (B - 1)) in HP1, HP1e at 1 |- *. set (P2 := E * q) in *.
  assert (Hn0 : 0 <= now) by lia.
  pose proof (tat_ge now E tv ltac:(unfold t2200, i64max in *; lia) HEr) as Htat.
  set (tat := match tv with Some stored => Z.max stored (sat_sub now E) | None => sat_sub now E end) in *.
  clearbody tat.
  pose proof (sat_nonneg P1 HP1) as HsP1. pose proof (sat_nonneg P2 HP2) as HsP2.
  set (tol := sat P1) in *. set (inc := sat P2) in *.
  assert (Hret : 0 <= Z.max tol E) by lia.
  set (new := sat_add tat inc).
  assert (Hnewr : new <= i64max) by (unfold new, sat_add; apply sat_bounds).
  split; [reflexivity|].
  destruct (Z.leb_spec (sat_sub new tol) now) as [Hok|Hno].
  - split.
    + destruct (Z.ltb_spec 0 E) as [HE0|HE0]; [|lia].
      destruct (Z_le_gt_dec tat i64max) as [Hsm|Hbig].
      * apply (room_bound E B now P1 new HE0 ltac:(lia) HP1e HP1 Hn0).
        pose proof (sat_add_ge tat inc ltac:(lia) Hsm). fold new in H. lia.
      * apply (room_bound E B now P1 new HE0 ltac:(lia) HP1e HP1 Hn0).
        unfold new. rewrite (sat_add_big tat inc ltac:(lia) ltac:(lia)). unfold i64max, t2200 in *. lia.
    + split; [tauto|].
      split; [apply sat_add_nonneg; lia|]. split; [apply sat_add_nonneg; lia|]. unfold i64max; lia.
  - split.
    + destruct (Z.ltb_spec 0 E) as [HE0|HE0]; [|lia].
      apply (room_bound E B now P1 tat HE0 ltac:(lia) HP1e HP1 Hn0 Htat).
    + assert (Hal : sat_sub new tol <= i64max) by (unfold sat_sub; apply sat_bounds).
      pose proof (sat_sub_pos (sat_sub new tol) now Hno Hal Hn0) as Hpos.
      pose proof (sat_bounds (sat_sub new tol - now)) as Hb. fold (sat_sub (sat_sub new tol) now) in Hb.
      split; [split; [lia|discriminate]|].
      split; [apply sat_add_nonneg; lia|]. split; [apply sat_add_nonneg; lia|]. lia.
Qed.

(* a first request of quantity <= max_burst on a fresh key is admitted *)
Lemma fresh_arith E now P1 P2 :
  0 <= E <= i64max -> 0 <= now <= t2200 -> 0 <= P1 -> 0 <= P2 <= P1 + E ->
  sat_sub (sat_add (sat_sub now E) (sat P2)) (sat P1) <= now.
Proof. intros. unfold t2200 in *. unsat. lia. Qed.

Lemma m_calc_fresh Edur B q now :
  0 <= Edur -> 1 <= B <= i64max -> 0 <= q <= B -> 0 <= now <= t2200 ->
  fst (fst (fst (m_calc Edur B q now None))) = true.
Proof.
  intros HE HB Hq Hnow. unfold m_calc. cbn [fst snd]. unfold sat_mul.
  set (E := Z.min Edur i64max).
  assert (HEr : 0 <= E <= i64max) by (unfold E, i64max in *; lia).
  assert (HP1 : 0 <= E * (B - 1)) by nia.
  assert (HP2 : 0 <= E * q <= E * (B - 1) + E) by nia.
  apply Z.leb_le. apply fresh_arith; auto.
Qed.

Lemma no_overflow now ttl : 0 <= now <= t2200 -> 0 <= ttl <= i64max -> systime_add_overflows now ttl = false.
Proof.
  intros Hn Ht. unfold systime_add_overflows. apply Z.ltb_ge. unfold t2200, i64max in *.
  apply Z.div_le_upper_bound; lia.
Qed.

Section Tot.
Variable K : Type.
Variable keqb : K -> K -> bool.
Hypothesis keqb_spec : forall a b, reflect (a = b) (keqb a b).
Variable rate : Z -> Z -> Z.
(* what Rate::from_count_and_period can return for positive arguments: a u64 number of ns *)
Hypothesis rate_range : forall c p, 0 <= rate c p.

Notation req := (req K).
Notation R := (R K keqb).
Notation rate_limit := (rate_limit K keqb rate).

Definition req_in_i64 (rq : req) : Prop :=
  in_i64 (r_B rq) /\ in_i64 (r_count rq) /\ in_i64 (r_period rq) /\ in_i64 (r_q rq).

(* the full classification of outcomes *)
Theorem rate_limit_total t0 (st : store K) orc (rq : req) m :
  R t0 (sdata K st) m -> t0 <= r_now rq -> 0 <= r_now rq <= t2200 -> req_in_i64 rq ->
  if r_q rq <? 0 then snd (rate_limit st orc rq) = ErrNegativeQuantity
  else if (r_B rq <=? 0) || (r_count rq <=? 0) || (r_period rq <=? 0) then snd (rate_limit st orc rq) = ErrInvalidRateLimit
  else exists r, snd (rate_limit st orc rq) = Ok r /\
       limit r = r_B rq /\ 0 <= remaining r <= r_B rq /\ (retry_after r = 0 <-> allowed r = true) /\
       (avis m (r_key rq) (r_now rq) = None -> r_q rq <= r_B rq -> allowed r = true).
Proof.
  intros HR Hle Hnow (HB & HC & HP & HQ).
  pose proof (rate_limit_refines K keqb keqb_spec rate t0 st orc rq m HR Hle) as [Ho _]. rewrite Ho.
  unfold Abstract.al_step. fold (invalid_limits K rq). unfold invalid_limits.
  destruct (Z.ltb_spec (r_q rq) 0); [reflexivity|].
  destruct ((r_B rq <=? 0) || (r_count rq <=? 0) || (r_period rq <=? 0)) eqn:Hinv; [reflexivity|].
  apply orb_false_elim in Hinv. destruct Hinv as [Hinv H3]. apply orb_false_elim in Hinv. destruct Hinv as [H1 H2].
  apply Z.leb_gt in H1, H2, H3. unfold in_i64, i64min in *.
  cbv zeta.
  pose proof (m_calc_sanity (rate (r_count rq) (r_period rq)) (r_B rq) (r_q rq) (r_now rq) (avis m (r_key rq) (r_now rq))
                (rate_range _ _) ltac:(lia) ltac:(lia) Hnow) as Hs.
  cbv zeta in Hs. set (c := m_calc _ _ _ _ _) in *.
  destruct Hs as (S1 & S2 & S3 & S4 & _).
  assert (Hfresh : avis m (r_key rq) (r_now rq) = None -> r_q rq <= r_B rq -> allowed (snd c) = true).
  { intros Hn Hq. unfold c. rewrite Hn.
    change (allowed (snd (m_calc (rate (r_count rq) (r_period rq)) (r_B rq) (r_q rq) (r_now rq) None)))
      with (fst (fst (fst (m_calc (rate (r_count rq) (r_period rq)) (r_B rq) (r_q rq) (r_now rq) None)))).
    apply m_calc_fresh; auto; lia. }
  destruct (fst (fst (fst c)) && (0 <? r_q rq)).
  - rewrite (no_overflow _ _ Hnow S4). cbn [snd]. exists (snd c). repeat split; auto; tauto.
  - cbn [snd]. exists (snd c). repeat split; auto; tauto.
Qed.

(* in particular: never a panic, never an internal error *)
Corollary rate_limit_never_fails t0 (st : store K) orc (rq : req) m :
  R t0 (sdata K st) m -> t0 <= r_now rq -> 0 <= r_now rq <= t2200 -> req_in_i64 rq ->
  snd (rate_limit st orc rq) <> Panic /\ snd (rate_limit st orc rq) <> ErrInternal.
Proof.
  intros HR Hle Hnow Hi.
  pose proof (rate_limit_total t0 st orc rq m HR Hle Hnow Hi) as H.
  destruct (r_q rq <? 0); [rewrite H; split; discriminate|].
  destruct (_ || _); [rewrite H; split; discriminate|].
  destruct H as (r & -> & _). split; discriminate.
Qed.

End Tot.
