(* C02: per-key decisions over a whole history equal the ideal bucket's. *)
From Coq Require Import ZArith Bool Lia List.
Import ListNotations.
Require Import TC.Limiter.Arith TC.Limiter.KeyStep TC.Limiter.KeyLemmas TC.Limiter.Bucket TC.Limiter.Sim
  TC.Limiter.Window TC.Limiter.Limiter TC.Limiter.Abstract TC.Limiter.Project.
Open Scope Z_scope.

Definition is_allowed (o : outcome) : bool := match o with Ok r => allowed r | _ => false end.
Definition is_ok (o : outcome) : bool := match o with Ok _ => true | _ => false end.

Section D.
Variables E B : Z.
Hypothesis HD : inD E B.

Definition ktimes_ok (l : list (Z * Z)) : Prop := Forall (fun p => time_ok (snd p)) l.

Lemma krun_bucket : forall (l : list (Z * Z)) s b,
  rel E B s b -> ksorted (last b) l -> ktimes_ok l ->
  map is_allowed (snd (krun E B s l)) = bdecide E B b l /\
  forallb is_ok (snd (krun E B s l)) = true.
Proof.
  induction l as [|[q t] r IH]; intros s b Hrel Hs Hto; [split; reflexivity|].
  cbn [ksorted] in Hs. destruct Hs as (H1 & H2 & H3).
  apply Forall_cons_iff in Hto. destruct Hto as [Ht Hto]. cbn [snd] in Ht.
  cbn [krun bdecide]. unfold kout. destruct (Z.ltb_spec q 0); [lia|]. cbn [fst snd].
  pose proof (sim E B HD s b q t Hrel H1 Ht H2) as [Ha Hrel'].
  destruct (bstep E B b q t) as [b' ok] eqn:Hb. cbn [fst snd] in *.
  assert (Hl : last b' = t).
  { unfold bstep in Hb. destruct (E * q <=? refill E B b t); inversion Hb; reflexivity. }
  specialize (IH (fst (kstep E B s q t)) b' Hrel' ltac:(rewrite Hl; exact H3) Hto).
  destruct IH as [IH1 IH2]. cbn [map forallb is_allowed is_ok]. rewrite Ha, IH1, IH2. split; reflexivity.
Qed.

Lemma full_wf t : bwf E B (full E B t).
Proof. unfold bwf, full. cbn. pose proof (HE E B HD). pose proof (HB E B HD). nia. Qed.

End D.
