(* i64 machine arithmetic used by rate_limiter.rs: saturating operations. *)
From Coq Require Import ZArith Lia.
Open Scope Z_scope.

Definition i64max : Z := 9223372036854775807.
Definition i64min : Z := -9223372036854775808.
Definition u64max : Z := 18446744073709551615.

Definition in_i64 (z : Z) : Prop := i64min <= z <= i64max.
Definition sat (z : Z) : Z := Z.max i64min (Z.min i64max z).
Definition sat_add (a b : Z) : Z := sat (a + b).
Definition sat_sub (a b : Z) : Z := sat (a - b).
Definition sat_mul (a b : Z) : Z := sat (a * b).

Lemma sat_id z : in_i64 z -> sat z = z.
Proof. unfold in_i64, sat, i64min, i64max. lia. Qed.
Lemma sat_range z : in_i64 (sat z).
Proof. unfold in_i64, sat, i64min, i64max. lia. Qed.
Lemma sat_mono a b : a <= b -> sat a <= sat b.
Proof. unfold sat, i64min, i64max. lia. Qed.
Lemma sat_ge z : z <= i64max -> z <= sat z.
Proof. unfold sat, i64min, i64max. lia. Qed.
Lemma sat_le z : i64min <= z -> sat z <= z.
Proof. unfold sat, i64min, i64max. lia. Qed.
Lemma sat_cases z : (z < i64min /\ sat z = i64min) \/ (in_i64 z /\ sat z = z) \/ (i64max < z /\ sat z = i64max).
Proof. unfold in_i64, sat, i64min, i64max. lia. Qed.
