(* Per-key GCRA step: the arithmetic of RateLimiter::rate_limit for one key whose state is
   [option (tat, expiry)], inside the normal domain (no saturation except the clamps of E*q and
   tat + E*q, kept so that the step agrees with the machine arithmetic for every quantity). *)
From Coq Require Import ZArith Bool Lia.
Require Import TC.Limiter.Arith.
Open Scope Z_scope.

Record resp := mkresp { allowed : bool; limit : Z; remaining : Z; reset_after : Z; retry_after : Z }.

Definition resp_eqb (a b : resp) : bool :=
  Bool.eqb (allowed a) (allowed b) && (limit a =? limit b) && (remaining a =? remaining b) &&
  (reset_after a =? reset_after b) && (retry_after a =? retry_after b).

Definition kstate := option (Z * Z).          (* tat, expiry instant *)

Definition kvisible (s : kstate) (now : Z) : option Z :=
  match s with Some (tat, ex) => if now <? ex then Some tat else None | None => None end.

Section Key.
Variables E B : Z.

Definition T : Z := E * (B - 1).              (* delay variation tolerance *)
Definition retention : Z := Z.max T E.

(* effective TAT at [now]: the stored one, but never further back than one emission interval *)
Definition eff (s : kstate) (now : Z) : Z :=
  match kvisible s now with Some t => Z.max t (now - E) | None => now - E end.

Definition kstep (s : kstate) (q now : Z) : kstate * resp :=
  let tat := eff s now in
  let new := Z.min (tat + Z.min (E * q) i64max) i64max in
  let allow_at := new - T in
  let ok := allow_at <=? now in
  let cur := if ok then new else tat in
  let ttl := Z.max (cur - now) 0 + retention in
  (* the store is written only for an admitted request of positive quantity *)
  (if ok && (0 <? q) then Some (new, now + ttl) else s,
   {| allowed := ok; limit := B; remaining := Z.max ((now + T - cur) / E) 0; reset_after := ttl;
      retry_after := if ok then 0 else Z.max (allow_at - now) 0 |}).

End Key.
