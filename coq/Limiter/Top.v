(* Statements about the concrete limiter (any built-in store, any configuration, any oracle
   stream, any traffic on other keys) for a key used with fixed limits in D and non-decreasing
   timestamps: projection on the per-key step (C05), decisions = ideal bucket (C02),
   window bound (C01). *)
From Coq Require Import ZArith Bool Lia List.
Import ListNotations.
Require Import TC.Base.Map TC.Store.Stores TC.Store.AbsMap TC.Store.Refine
  TC.Limiter.Arith TC.Limiter.KeyStep TC.Limiter.KeyLemmas TC.Limiter.Bucket TC.Limiter.Sim
  TC.Limiter.Window TC.Limiter.Limiter TC.Limiter.Abstract TC.Limiter.Project TC.Limiter.Decide.
Open Scope Z_scope.

Section T.
Variable K : Type.
Variable keqb : K -> K -> bool.
Hypothesis keqb_spec : forall a b, reflect (a = b) (keqb a b).
Variable rate : Z -> Z -> Z.

Notation req := (req K).
Notation lrun := (lrun K keqb rate).
Notation for_key := (for_key K keqb).
Notation project := (project K keqb).
Notation kreqs := (kreqs K keqb).
Notation key_fixed := (key_fixed K keqb).

Definition key_nonneg (k : K) (h : list req) : Prop :=
  Forall (fun rq => for_key k rq = true -> 0 <= r_q rq) h.

(* the hypotheses shared by C01-C05: key k is used with fixed limits in D, timestamps of the
   whole multi-key history are non-decreasing and within 1970..2100 *)
Record fixed_key_history (st0 : store K) (h : list (bool * req)) (k : K) (B count period t0 : Z) : Prop := {
  fk_empty : sdata K st0 = [];
  fk_dom : inD (rate count period) B;
  fk_count : 1 <= count;
  fk_period : 1 <= period;
  fk_sorted : nondec_from t0 (times K (map snd h));
  fk_times : times_ok K (map snd h);
  fk_fixed : key_fixed k B count period (map snd h) }.

(* ---- C05: responses of key k = per-key step folded over key k's own requests ---- *)
Theorem lim_projection st0 h k B count period t0 :
  fixed_key_history st0 h k B count period t0 ->
  project k (map snd h) (snd (lrun st0 h)) =
  snd (krun (rate count period) B None (kreqs k (map snd h))).
Proof.
  intros [He HD Hc Hp Hs Ht Hf].
  assert (HR : R K keqb t0 (sdata K st0) abs_empty) by (rewrite He; apply R_empty).
  destruct (lrun_refines K keqb keqb_spec rate h t0 st0 abs_empty HR Hs) as [Ho _].
  rewrite Ho.
  pose proof (al_run_projection K keqb keqb_spec rate k (rate count period) B count period HD Hc Hp eq_refl
                (map snd h) abs_empty t0 (Inv_none _ _ _) Hs Ht Hf) as [H1 _].
  exact H1.
Qed.

Lemma ksorted_weaken t0 t1 l : t0 <= t1 -> ksorted t1 l -> ksorted t0 l.
Proof. destruct l as [|[q t] r]; cbn [ksorted]; [auto|]. intros H (H1 & H2 & H3). repeat split; auto; lia. Qed.

Lemma kreqs_sorted k h : forall t0, nondec_from t0 (times K h) -> key_nonneg k h -> ksorted t0 (kreqs k h).
Proof.
  induction h as [|rq r IH]; intros t0 Hs Hn; [exact I|].
  cbn [times map nondec_from] in Hs. destruct Hs as [Hle Hs].
  apply Forall_cons_iff in Hn. destruct Hn as [Hq Hn].
  unfold Project.kreqs. cbn [filter]. destruct (for_key k rq) eqn:Hfk.
  - cbn [map ksorted]. split; [exact Hle|]. split; [apply Hq; reflexivity|]. apply IH; auto.
  - eapply ksorted_weaken; [exact Hle|]. apply IH; auto.
Qed.

Lemma kreqs_times_ok k h : times_ok K h -> ktimes_ok (kreqs k h).
Proof.
  unfold times_ok, ktimes_ok, Project.kreqs. induction h as [|rq r IH]; intros H; [constructor|].
  apply Forall_cons_iff in H. destruct H as [H1 H2]. cbn [filter].
  destruct (for_key k rq); [constructor; [exact H1|]|]; apply IH; exact H2.
Qed.

(* ---- C02: decisions = ideal bucket ---- *)
Theorem lim_decisions st0 h k B count period t0 :
  fixed_key_history st0 h k B count period t0 -> key_nonneg k (map snd h) ->
  map is_allowed (project k (map snd h) (snd (lrun st0 h))) =
  bdecide (rate count period) B (full (rate count period) B t0) (kreqs k (map snd h)) /\
  forallb is_ok (project k (map snd h) (snd (lrun st0 h))) = true.
Proof.
  intros Hfk Hn. rewrite (lim_projection st0 h k B count period t0 Hfk).
  destruct Hfk as [He HD Hc Hp Hs Ht Hf].
  apply (krun_bucket (rate count period) B HD).
  - apply rel_init.
  - cbn [last full]. apply kreqs_sorted; auto.
  - apply kreqs_times_ok; auto.
Qed.

(* ---- C01: admitted quantity in any window ---- *)
Fixpoint admitted_qty (k : K) (h : list req) (outs : list outcome) (t1 t2 : Z) : Z :=
  match h, outs with
  | rq :: h', o :: outs' =>
      (if for_key k rq && is_allowed o && in_win t1 t2 (r_now rq) then r_q rq else 0)
      + admitted_qty k h' outs' t1 t2
  | _, _ => 0
  end.

Lemma admitted_qty_kadm k t1 t2 : forall h outs,
  admitted_qty k h outs t1 t2 = kadm (kreqs k h) (map is_allowed (project k h outs)) t1 t2.
Proof.
  induction h as [|rq r IH]; intros outs; [destruct outs; reflexivity|].
  destruct outs as [|o outs].
  - cbn [admitted_qty Project.project map]. unfold Project.kreqs. destruct (map _ (filter _ _)) as [|[? ?] ?]; reflexivity.
  - cbn [admitted_qty Project.project]. unfold Project.kreqs. cbn [filter].
    destruct (for_key k rq) eqn:Hfk; cbn [andb map kadm].
    + fold (kreqs k r). rewrite IH. reflexivity.
    + fold (kreqs k r). rewrite IH. reflexivity.
Qed.

Theorem lim_window st0 h k B count period t0 t1 t2 :
  fixed_key_history st0 h k B count period t0 -> key_nonneg k (map snd h) -> t1 <= t2 ->
  rate count period * (admitted_qty k (map snd h) (snd (lrun st0 h)) t1 t2 - B) <= t2 - t1.
Proof.
  intros Hfk Hn H12. rewrite admitted_qty_kadm.
  destruct (lim_decisions st0 h k B count period t0 Hfk Hn) as [Hd _]. rewrite Hd.
  destruct Hfk as [He HD Hc Hp Hs Ht Hf].
  set (E := rate count period) in *.
  pose proof (adm_window E B ltac:(pose proof (HE E B HD); lia) ltac:(pose proof (HE E B HD); pose proof (HB E B HD); nia)
                (kreqs k (map snd h)) (full E B t0) t1 t2 (full_wf E B HD t0) H12
                ltac:(cbn [last full]; apply kreqs_sorted; auto)) as Hw.
  unfold adm in Hw. lia.
Qed.

End T.

Section Iso.
Variable K : Type.
Variable keqb : K -> K -> bool.
Hypothesis keqb_spec : forall a b, reflect (a = b) (keqb a b).
Variable rate : Z -> Z -> Z.

Theorem lim_isolation (st1 st2 : store K) (h1 h2 : list (bool * req K)) (k : K) (B count period t1 t2 : Z) :
  fixed_key_history K keqb rate st1 h1 k B count period t1 ->
  fixed_key_history K keqb rate st2 h2 k B count period t2 ->
  kreqs K keqb k (map snd h1) = kreqs K keqb k (map snd h2) ->
  project K keqb k (map snd h1) (snd (lrun K keqb rate st1 h1)) =
  project K keqb k (map snd h2) (snd (lrun K keqb rate st2 h2)).
Proof.
  intros H1 H2 Heq.
  rewrite (lim_projection K keqb keqb_spec rate st1 h1 k B count period t1 H1).
  rewrite (lim_projection K keqb keqb_spec rate st2 h2 k B count period t2 H2).
  rewrite Heq. reflexivity.
Qed.
End Iso.

Section Inst.
Variable K : Type.
Variable keqb : K -> K -> bool.
Hypothesis keqb_spec : forall a b, reflect (a = b) (keqb a b).
Variable rate : Z -> Z -> Z.
Theorem lim_instant (st0 : store K) (h : list (bool * req K)) (k : K) (B count period t0 t : Z) :
  fixed_key_history K keqb rate st0 h k B count period t0 -> key_nonneg K keqb k (map snd h) ->
  admitted_qty K keqb k (map snd h) (snd (lrun K keqb rate st0 h)) t t <= B.
Proof.
  intros Hfk Hn.
  pose proof (lim_window K keqb keqb_spec rate st0 h k B count period t0 t t Hfk Hn ltac:(lia)) as Hw.
  destruct Hfk as [_ HD _ _ _ _ _]. pose proof (HE _ _ HD). nia.
Qed.
End Inst.
