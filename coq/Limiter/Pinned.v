(* The per-key arithmetic of the PINNED tree (before the fix: commits), kept as a record of the
   defects the framework exhibited: each [Example] is a witness, evaluated by vm_compute, that a
   property fails for the pinned formulas; the same inputs were replayed on the real pinned code
   (KNOWN_FINDINGS.txt, `fixed:` entries). *)
From Coq Require Import ZArith Bool Lia List.
Import ListNotations.
Require Import TC.Limiter.Arith TC.Limiter.KeyStep.
Open Scope Z_scope.

Section Pinned.
Variables E B : Z.
Definition wrap_u64 (z : Z) : Z := z mod 18446744073709551616.

(* pinned: stale TAT clamped to now - T, lifetime = (new - now) + T cast to u64, q = 0 writes *)
Definition kstep_pinned (s : kstate) (q now : Z) : kstate * resp :=
  let T := E * (B - 1) in
  let tat := match kvisible s now with Some t => Z.max t (now - T) | None => now - E end in
  let new := tat + E * q in
  let allow_at := new - T in
  let ok := allow_at <=? now in
  let cur := if ok then new else tat in
  let ttl := wrap_u64 (new - now + T) in
  (if ok then Some (new, now + ttl) else s,
   {| allowed := ok; limit := B; remaining := Z.max ((now + T - cur) / E) 0;
      reset_after := Z.max (cur - now + T) 0; retry_after := if ok then 0 else Z.max (allow_at - now) 0 |}).
End Pinned.

Definition t0 : Z := 1700000000000000000.
Definition sec : Z := 1000000000.

(* F1 (C01, C03): B = 5, one token per second: drain the burst at t0; 7.999 s later a request
   for 7 tokens is admitted (7 > burst), and a request for 1 answers remaining = 6 > limit = 5 *)
Example F1_pinned_idle_overgrant :
  let s1 := fst (kstep_pinned sec 5 None 5 t0) in
  allowed (snd (kstep_pinned sec 5 s1 7 (t0 + 7999000000))) = true /\
  remaining (snd (kstep_pinned sec 5 s1 1 (t0 + 7999000000))) = 6.
Proof. vm_compute. split; reflexivity. Qed.

(* F2 (C01, C02, C07): B = 1 is never enforced: lifetime 0, three requests at the same instant admitted *)
Example F2_pinned_burst1_not_enforced :
  let r1 := kstep_pinned (10 * sec) 1 None 1 t0 in
  let r2 := kstep_pinned (10 * sec) 1 (fst r1) 1 t0 in
  let r3 := kstep_pinned (10 * sec) 1 (fst r2) 1 t0 in
  (allowed (snd r1), allowed (snd r2), allowed (snd r3)) = (true, true, true) /\
  fst r1 = Some (t0, t0 + 0).
Proof. vm_compute. split; reflexivity. Qed.

(* F3 (C02, C04, C07): B = 1, one zero-quantity request: lifetime 2^64 - 10s (584 years), and
   1000 s later a request for one token is denied *)
Example F3_pinned_zero_quantity_poisons :
  let r1 := kstep_pinned (10 * sec) 1 None 0 t0 in
  fst r1 = Some (t0 - 10 * sec, t0 + 18446744063709551616) /\
  allowed (snd (kstep_pinned (10 * sec) 1 (fst r1) 1 (t0 + 1000 * sec))) = false.
Proof. vm_compute. split; reflexivity. Qed.

(* the repaired step on the same inputs *)
Example repaired_on_the_same_inputs :
  let s1 := fst (kstep sec 5 None 5 t0) in
  allowed (snd (kstep sec 5 s1 7 (t0 + 7999000000))) = false /\
  remaining (snd (kstep sec 5 s1 1 (t0 + 7999000000))) = 4 /\
  allowed (snd (kstep (10 * sec) 1 (fst (kstep (10 * sec) 1 None 1 t0)) 1 t0)) = false /\
  fst (kstep (10 * sec) 1 None 0 t0) = None.
Proof. vm_compute. repeat split; reflexivity. Qed.
