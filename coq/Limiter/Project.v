(* Histories: the concrete limiter run = the abstract run (C06), and the responses of one key
   with fixed limits in D are exactly the per-key step folded over that key's own requests,
   whatever the other keys do (C05). *)
From Coq Require Import ZArith List Bool Lia.
Import ListNotations.
Require Import TC.Generated.Consts TC.Base.Map TC.Store.Stores TC.Store.AbsMap TC.Store.Refine
  TC.Limiter.Arith TC.Limiter.KeyStep TC.Limiter.KeyLemmas TC.Limiter.Limiter TC.Limiter.Machine
  TC.Limiter.Abstract.
Open Scope Z_scope.

Section P.
Variable K : Type.
Variable keqb : K -> K -> bool.
Hypothesis keqb_spec : forall a b, reflect (a = b) (keqb a b).
Variable rate : Z -> Z -> Z.

Notation absmap := (absmap K).
Notation req := (req K).
Notation R := (R K keqb).
Notation lrun := (lrun K keqb rate).
Notation al_step := (al_step K keqb rate).
Notation al_run := (al_run K keqb rate).

Definition times (h : list req) : list Z := map r_now h.

(* ---- concrete run = abstract run ---- *)
Theorem lrun_refines : forall (h : list (bool * req)) t0 (st : store K) m,
  R t0 (sdata K st) m ->
  nondec_from t0 (times (map snd h)) ->
  snd (lrun st h) = snd (al_run m (map snd h)) /\
  exists t1, t0 <= t1 /\ R t1 (sdata K (fst (lrun st h))) (fst (al_run m (map snd h))).
Proof.
  induction h as [|[orc rq] r IH]; intros t0 st m HR Hnd.
  - cbn. split; [reflexivity|]. exists t0. split; [lia|exact HR].
  - cbn [lrun al_run map snd fst times nondec_from] in *. destruct Hnd as [Hle Hnd].
    pose proof (rate_limit_refines K keqb keqb_spec rate t0 st orc rq m HR Hle) as [Ho HR1].
    specialize (IH (r_now rq) _ _ HR1 Hnd). destruct IH as [IHo (t1 & Ht1 & HR2)].
    cbn [fst snd]. split; [rewrite Ho, IHo; reflexivity|].
    exists t1. split; [lia|exact HR2].
Qed.

(* ---- per-key view ---- *)
Definition for_key (k : K) (rq : req) : bool := keqb (r_key rq) k.

(* outcomes of the requests addressed to key k, in order *)
Fixpoint project (k : K) (h : list req) (outs : list outcome) : list outcome :=
  match h, outs with
  | rq :: h', o :: outs' => if for_key k rq then o :: project k h' outs' else project k h' outs'
  | _, _ => []
  end.

(* (quantity, time) of the requests addressed to key k *)
Definition kreqs (k : K) (h : list req) : list (Z * Z) :=
  map (fun rq => (r_q rq, r_now rq)) (filter (for_key k) h).

Fixpoint krun (E B : Z) (s : kstate) (l : list (Z * Z)) : kstate * list outcome :=
  match l with
  | [] => (s, [])
  | (q, now) :: r =>
      let so := kout E B s q now in
      let sos := krun E B (fst so) r in (fst sos, snd so :: snd sos)
  end.

(* the requests of key k all carry the limits (B, count, period); quantities are i64 values *)
Definition key_fixed (k : K) (B count period : Z) (h : list req) : Prop :=
  Forall (fun rq => for_key k rq = true ->
            r_B rq = B /\ r_count rq = count /\ r_period rq = period /\ r_q rq <= i64max) h.

Definition times_ok (h : list req) : Prop := Forall (fun rq => time_ok (r_now rq)) h.

Lemma kout_inv E B (HD : inD E B) s t q now :
  Inv E B s t -> t <= now -> time_ok now -> Inv E B (fst (kout E B s q now)) now.
Proof.
  intros HI Hle Ht. unfold kout. destruct (Z.ltb_spec q 0); cbn [fst].
  - eapply Inv_mono; eauto.
  - eapply kstep_inv; eauto.
Qed.

Theorem al_run_projection (k : K) (E B count period : Z) :
  inD E B -> 1 <= count -> 1 <= period -> rate count period = E ->
  forall (h : list req) (m : absmap) t,
  Inv E B (m k) t ->
  nondec_from t (times h) -> times_ok h -> key_fixed k B count period h ->
  project k h (snd (al_run m h)) = snd (krun E B (m k) (kreqs k h)) /\
  fst (al_run m h) k = fst (krun E B (m k) (kreqs k h)).
Proof.
  intros HD Hc Hp HEq. induction h as [|rq r IH]; intros m t HI Hnd Hto Hkf.
  - cbn. split; reflexivity.
  - cbn [times map nondec_from] in Hnd. destruct Hnd as [Hle Hnd].
    apply Forall_cons_iff in Hto. destruct Hto as [Ht1 Hto']. apply Forall_cons_iff in Hkf. destruct Hkf as [Hk1 Hkf'].
    cbn [al_run project snd fst]. unfold kreqs. cbn [filter].
    destruct (for_key k rq) eqn:Hfk; fold (kreqs k r).
    + (* request on key k *)
      unfold for_key in Hfk. destruct (keqb_spec (r_key rq) k) as [Hkey|]; [|discriminate].
      destruct (Hk1 eq_refl) as (HB & HC & HP & HQ).
      pose proof (al_step_key K keqb keqb_spec rate m rq E B t HD HB ltac:(lia) ltac:(lia)
                    ltac:(rewrite HC, HP; exact HEq) HQ ltac:(rewrite Hkey; exact HI) Hle Ht1) as [Hst Hout].
      rewrite Hkey in Hst, Hout.
      cbn [map krun]. fold (kreqs k r).
      assert (HI' : Inv E B (fst (al_step m rq) k) (r_now rq)).
      { rewrite Hst. eapply kout_inv; eauto. }
      specialize (IH (fst (al_step m rq)) (r_now rq) HI' Hnd Hto' Hkf').
      destruct IH as [IH1 IH2]. rewrite Hst in IH1, IH2.
      cbn [fst snd]. rewrite Hout, IH1, IH2. split; reflexivity.
    + (* request on another key: key k's state is untouched *)
      unfold for_key in Hfk.
      assert (Hne : keqb k (r_key rq) = false).
      { destruct (keqb_spec k (r_key rq)) as [Heq|]; [|reflexivity].
        rewrite <- Heq in Hfk. rewrite (keqb_refl K keqb keqb_spec) in Hfk. discriminate. }
      pose proof (al_step_frame K keqb rate m rq k Hne) as Hfr.
      assert (HI' : Inv E B (fst (al_step m rq) k) (r_now rq)) by (rewrite Hfr; eapply Inv_mono; eauto).
      specialize (IH (fst (al_step m rq)) (r_now rq) HI' Hnd Hto' Hkf').
      rewrite Hfr in IH. exact IH.
Qed.

End P.
