(* C04: denied, zero-quantity and rejected requests consume nothing. *)
From Coq Require Import ZArith List Bool Lia.
Import ListNotations.
Require Import TC.Generated.Consts TC.Base.Map TC.Store.Stores TC.Store.AbsMap TC.Store.Refine
  TC.Limiter.Arith TC.Limiter.KeyStep TC.Limiter.Limiter TC.Limiter.Abstract TC.Limiter.Project.
Open Scope Z_scope.

Section N.
Variable K : Type.
Variable keqb : K -> K -> bool.
Hypothesis keqb_spec : forall a b, reflect (a = b) (keqb a b).
Variable rate : Z -> Z -> Z.

Notation absmap := (absmap K).
Notation req := (req K).
Notation R := (R K keqb).
Notation rate_limit := (rate_limit K keqb rate).
Notation lrun := (lrun K keqb rate).
Notation al_step := (al_step K keqb rate).
Notation al_run := (al_run K keqb rate).

(* the outcome classes the property talks about: rejected, denied, or quantity 0 *)
Definition no_effect_outcome (rq : req) (o : outcome) : bool :=
  match o with
  | Ok r => negb (allowed r) || (r_q rq =? 0)
  | ErrNegativeQuantity | ErrInvalidRateLimit => true
  | _ => false
  end.

Lemma m_calc_allowed Edur B q now tv :
  allowed (snd (m_calc Edur B q now tv)) = fst (fst (fst (m_calc Edur B q now tv))).
Proof. reflexivity. Qed.

(* ---- rejected requests: the concrete store (table AND scheduling state) is returned as is ---- *)
Lemma invalid_touches_nothing (st : store K) orc (rq : req) :
  r_q rq < 0 \/ r_B rq <= 0 \/ r_count rq <= 0 \/ r_period rq <= 0 ->
  fst (rate_limit st orc rq) = st /\
  snd (rate_limit st orc rq) = (if r_q rq <? 0 then ErrNegativeQuantity else ErrInvalidRateLimit).
Proof.
  intros H. unfold Limiter.rate_limit.
  destruct (Z.ltb_spec (r_q rq) 0); [split; reflexivity|].
  destruct H as [H|H]; [lia|].
  assert (Hi : (r_B rq <=? 0) || (r_count rq <=? 0) || (r_period rq <=? 0) = true).
  { destruct H as [H|[H|H]]; apply Z.leb_le in H; rewrite H; rewrite ?orb_true_r; reflexivity. }
  rewrite Hi. split; reflexivity.
Qed.

(* ---- zero-quantity requests never write (no hypothesis on the store at all) ---- *)
Lemma zero_quantity_touches_nothing (st : store K) orc (rq : req) :
  r_q rq = 0 -> fst (rate_limit st orc rq) = st.
Proof.
  intros Hq. unfold Limiter.rate_limit. rewrite Hq. cbn [Z.ltb Z.compare].
  destruct (_ || _); [reflexivity|].
  destruct (max_retries_pos) as [f ->]. cbn [attempts]. unfold attempt_once.
  rewrite andb_false_r. reflexivity.
Qed.

(* ---- denied requests: only `get` was called; the store is returned as is ---- *)
Lemma denied_touches_nothing t0 (st : store K) orc (rq : req) m r :
  R t0 (sdata K st) m -> t0 <= r_now rq ->
  snd (rate_limit st orc rq) = Ok r -> allowed r = false ->
  fst (rate_limit st orc rq) = st.
Proof.
  intros HR Hle Hout Hden.
  pose proof (rate_limit_refines K keqb keqb_spec rate t0 st orc rq m HR Hle) as [Ho _].
  rewrite Hout in Ho.
  (* the abstract step tells which branch was taken *)
  unfold Limiter.rate_limit in *. unfold Abstract.al_step in Ho. fold (invalid_limits K rq) in *.
  destruct (r_q rq <? 0); [reflexivity|]. destruct (invalid_limits K rq); [reflexivity|].
  destruct max_retries_pos as [f Hf]. rewrite Hf in *. cbn [attempts] in *. unfold attempt_once in *.
  assert (HRn : R (r_now rq) (sdata K st) m) by (eapply R_mono; eauto).
  rewrite (get_refines K keqb (r_now rq) (sdata K st) m (r_key rq) HRn) in *.
  cbv zeta in Ho.
  set (c := m_calc _ _ _ (r_now rq) (avis m (r_key rq) (r_now rq))) in *.
  destruct (fst (fst (fst c)) && (0 <? r_q rq)) eqn:Hw; [|reflexivity].
  exfalso. destruct (systime_add_overflows _ _); [discriminate|].
  cbn [snd] in Ho. inversion Ho as [Hr]. subst r.
  apply andb_prop in Hw. destruct Hw as [Hw _].
  assert (Hal : allowed (snd c) = fst (fst (fst c))) by reflexivity. congruence.
Qed.

(* ---- abstract level: a no-effect outcome means the abstract state is unchanged ---- *)
Lemma al_step_no_effect m (rq : req) :
  no_effect_outcome rq (snd (al_step m rq)) = true -> fst (al_step m rq) = m.
Proof.
  unfold Abstract.al_step. destruct (r_q rq <? 0); [reflexivity|].
  destruct (invalid_limits K rq); [reflexivity|]. cbv zeta.
  set (c := m_calc _ _ _ _ _).
  destruct (fst (fst (fst c))) eqn:Hok; destruct (Z.ltb_spec 0 (r_q rq)) as [Hq|Hq]; cbn [andb]; try reflexivity.
  destruct (systime_add_overflows _ _); [reflexivity|].
  cbn [fst snd no_effect_outcome].
  assert (Hal : allowed (snd c) = fst (fst (fst c))) by reflexivity. rewrite Hal, Hok. cbn [negb orb].
  intros H. apply Z.eqb_eq in H. lia.
Qed.

(* ---- deletion: flagged requests whose outcome is a no-effect outcome can be deleted ---- *)
(* a history with insertion flags: (true, rq) = inserted request *)
Fixpoint base_of (h : list (bool * req)) : list req :=
  match h with [] => [] | (f, rq) :: r => if f then base_of r else rq :: base_of r end.
Fixpoint base_outs (h : list (bool * req)) (outs : list outcome) : list outcome :=
  match h, outs with
  | (f, _) :: r, o :: os => if f then base_outs r os else o :: base_outs r os
  | _, _ => []
  end.
Fixpoint inserted_no_effect (h : list (bool * req)) (outs : list outcome) : bool :=
  match h, outs with
  | (f, rq) :: r, o :: os => (negb f || no_effect_outcome rq o) && inserted_no_effect r os
  | _, _ => true
  end.

Theorem al_deletion : forall (h : list (bool * req)) (m : absmap),
  inserted_no_effect h (snd (al_run m (map snd h))) = true ->
  base_outs h (snd (al_run m (map snd h))) = snd (al_run m (base_of h)) /\
  fst (al_run m (map snd h)) = fst (al_run m (base_of h)).
Proof.
  induction h as [|[f rq] r IH]; intros m Hne; [split; reflexivity|].
  cbn [map snd al_run fst base_outs base_of inserted_no_effect] in *.
  apply andb_prop in Hne. destruct Hne as [H1 H2].
  destruct f; cbn [negb orb] in H1.
  - rewrite (al_step_no_effect m rq H1) in *. apply IH. exact H2.
  - cbn [al_run fst snd]. destruct (IH _ H2) as [IH1 IH2]. rewrite IH1, IH2. split; reflexivity.
Qed.

(* sub-history of a non-decreasing history is non-decreasing *)
Lemma nondec_weaken t0 t1 ts : t0 <= t1 -> nondec_from t1 ts -> nondec_from t0 ts.
Proof. destruct ts; cbn [nondec_from]; [auto|]. intros H [H1 H2]. split; [lia|exact H2]. Qed.

Lemma base_nondec : forall (h : list (bool * req)) t0,
  nondec_from t0 (times K (map snd h)) -> nondec_from t0 (times K (base_of h)).
Proof.
  induction h as [|[f rq] r IH]; intros t0 H; [exact I|].
  cbn [map snd times nondec_from base_of] in *. destruct H as [H1 H2].
  destruct f.
  - eapply nondec_weaken; [exact H1|]. apply IH. exact H2.
  - cbn [times map nondec_from]. split; [exact H1|]. apply IH. exact H2.
Qed.

(* ---- concrete level: the base requests get the same responses with and without the inserted
        no-effect requests, on any two stores (any type/configuration/oracle bits) ---- *)
Theorem noeffect_deletion (st1 st2 : store K) (h : list (bool * (bool * req))) (orcs2 : list bool) t0 :
  sdata K st1 = [] -> sdata K st2 = [] ->
  let ext := map snd h in                                   (* extended history with its oracle bits *)
  let flagged := map (fun p => (fst p, snd (snd p))) h in   (* insertion flags *)
  nondec_from t0 (times K (map snd ext)) ->
  inserted_no_effect flagged (snd (lrun st1 ext)) = true ->
  length orcs2 = length (base_of flagged) ->
  base_outs flagged (snd (lrun st1 ext)) = snd (lrun st2 (combine orcs2 (base_of flagged))).
Proof.
  intros He1 He2 ext flagged Hnd Hne Hlen.
  assert (HR1 : R t0 (sdata K st1) abs_empty) by (rewrite He1; apply R_empty).
  assert (HR2 : R t0 (sdata K st2) abs_empty) by (rewrite He2; apply R_empty).
  assert (Hmap : map snd ext = map snd flagged).
  { unfold ext, flagged. rewrite !map_map. reflexivity. }
  destruct (lrun_refines K keqb keqb_spec rate ext t0 st1 abs_empty HR1 Hnd) as [Ho1 _].
  rewrite Ho1 in *. rewrite Hmap in *.
  destruct (al_deletion flagged abs_empty Hne) as [Hd _]. rewrite Hd.
  assert (Hsnd : map snd (combine orcs2 (base_of flagged)) = base_of flagged).
  { clear - Hlen. revert orcs2 Hlen. induction (base_of flagged) as [|x l IH]; intros [|o os] Hl; cbn in *; try discriminate; auto.
    f_equal. apply IH. lia. }
  destruct (lrun_refines K keqb keqb_spec rate (combine orcs2 (base_of flagged)) t0 st2 abs_empty HR2
              ltac:(rewrite Hsnd; apply base_nondec; exact Hnd)) as [Ho2 _].
  rewrite Ho2, Hsnd. reflexivity.
Qed.

End N.
