(* The limiter over the abstract expiring map (machine arithmetic, all requests valid or not),
   the refinement concrete limiter -> abstract limiter (via C06), the frame property (a request
   touches only its own key) and the per-key characterisation inside the normal domain. *)
From Coq Require Import ZArith List Bool Lia.
Import ListNotations.
Require Import TC.Generated.Consts TC.Base.Map TC.Store.Stores TC.Store.AbsMap TC.Store.Refine
  TC.Limiter.Arith TC.Limiter.KeyStep TC.Limiter.KeyLemmas TC.Limiter.Limiter TC.Limiter.Machine.
Open Scope Z_scope.

Section A.
Variable K : Type.
Variable keqb : K -> K -> bool.
Hypothesis keqb_spec : forall a b, reflect (a = b) (keqb a b).
Variable rate : Z -> Z -> Z.

Notation absmap := (absmap K).
Notation req := (req K).
Notation R := (R K keqb).
Notation rate_limit := (rate_limit K keqb rate).
Notation aupd := (aupd K keqb).

Definition invalid_limits (rq : req) : bool := (r_B rq <=? 0) || (r_count rq <=? 0) || (r_period rq <=? 0).

Definition al_step (m : absmap) (rq : req) : absmap * outcome :=
  if r_q rq <? 0 then (m, ErrNegativeQuantity)
  else if invalid_limits rq then (m, ErrInvalidRateLimit)
  else
    let k := r_key rq in
    let now := r_now rq in
    let c := m_calc (rate (r_count rq) (r_period rq)) (r_B rq) (r_q rq) now (avis m k now) in
    let ok := fst (fst (fst c)) in
    let new := snd (fst (fst c)) in
    let ttl := snd (fst c) in
    if ok && (0 <? r_q rq) then
      if systime_add_overflows now ttl then (m, Panic)
      else (aupd m k (new, now + ttl), Ok (snd c))
    else (m, Ok (snd c)).

Fixpoint al_run (m : absmap) (h : list req) : absmap * list outcome :=
  match h with
  | [] => (m, [])
  | rq :: r => let mo := al_step m rq in let mos := al_run (fst mo) r in (fst mos, snd mo :: snd mos)
  end.

Lemma max_retries_pos : exists f, max_retries = S f.
Proof. vm_compute. eexists; reflexivity. Qed.

(* ---- concrete limiter refines the abstract limiter (any store, any oracle bit) ---- *)
Lemma rate_limit_refines t0 (st : store K) orc (rq : req) m :
  R t0 (sdata K st) m -> t0 <= r_now rq ->
  snd (rate_limit st orc rq) = snd (al_step m rq) /\
  R (r_now rq) (sdata K (fst (rate_limit st orc rq))) (fst (al_step m rq)).
Proof.
  intros HR Hle. unfold Limiter.rate_limit, al_step. fold (invalid_limits rq).
  destruct (r_q rq <? 0); [split; [reflexivity|eapply R_mono; eauto]|].
  destruct (invalid_limits rq); [split; [reflexivity|eapply R_mono; eauto]|].
  destruct max_retries_pos as [f ->]. cbn [attempts]. unfold attempt_once.
  set (k := r_key rq). set (now := r_now rq) in *.
  assert (HRn : R now (sdata K st) m) by (eapply R_mono; eauto).
  rewrite (get_refines K keqb now (sdata K st) m k HRn).
  set (c := m_calc _ _ _ now (avis m k now)).
  destruct (fst (fst (fst c)) && (0 <? r_q rq)); [|split; [reflexivity|exact HRn]].
  destruct (systime_add_overflows now (snd (fst c))); [split; [reflexivity|exact HRn]|].
  set (new := snd (fst (fst c))). set (ttl := snd (fst c)).
  destruct (avis m k now) as [old|] eqn:Hv.
  - pose proof (step_refines K keqb keqb_spec now st orc (Cas k old new ttl now) m HRn ltac:(cbn; lia)) as Hs.
    destruct (sstep K keqb st orc (Cas k old new ttl now)) as [st' res].
    cbn [AbsMap.astep] in Hs. rewrite Hv in Hs. rewrite Z.eqb_refl in Hs.
    destruct Hs as [-> HR']. cbn [fst snd op_time] in *. split; [reflexivity|exact HR'].
  - pose proof (step_refines K keqb keqb_spec now st orc (SetNX k new ttl now) m HRn ltac:(cbn; lia)) as Hs.
    destruct (sstep K keqb st orc (SetNX k new ttl now)) as [st' res].
    cbn [AbsMap.astep] in Hs. rewrite Hv in Hs.
    destruct Hs as [-> HR']. cbn [fst snd op_time] in *. split; [reflexivity|exact HR'].
Qed.

(* ---- a request touches only its own key ---- *)
Lemma al_step_frame m (rq : req) k' : keqb k' (r_key rq) = false -> fst (al_step m rq) k' = m k'.
Proof.
  intros Hne. unfold al_step.
  destruct (r_q rq <? 0); [reflexivity|]. destruct (invalid_limits rq); [reflexivity|].
  cbv zeta. destruct (fst (fst (fst _)) && _); [|reflexivity].
  destruct (systime_add_overflows _ _); [reflexivity|].
  cbn [fst]. unfold AbsMap.aupd. rewrite Hne. reflexivity.
Qed.

(* ---- requests that are rejected change nothing at all ---- *)
Lemma al_step_error m (rq : req) :
  r_q rq < 0 \/ invalid_limits rq = true ->
  fst (al_step m rq) = m /\
  snd (al_step m rq) = (if r_q rq <? 0 then ErrNegativeQuantity else ErrInvalidRateLimit).
Proof.
  intros H. unfold al_step. destruct (Z.ltb_spec (r_q rq) 0); [split; reflexivity|].
  destruct H as [H|H]; [lia|]. rewrite H. split; reflexivity.
Qed.

(* per-key outcome of a request with limits (E, B) on key state s *)
Definition kout (E B : Z) (s : kstate) (q now : Z) : kstate * outcome :=
  if q <? 0 then (s, ErrNegativeQuantity)
  else (fst (kstep E B s q now), Ok (snd (kstep E B s q now))).

(* ---- inside D the abstract step on the request's own key is the per-key step ---- *)
Lemma al_step_key m (rq : req) E B t :
  inD E B -> r_B rq = B -> 1 <= r_count rq -> 1 <= r_period rq -> rate (r_count rq) (r_period rq) = E ->
  r_q rq <= i64max ->
  Inv E B (m (r_key rq)) t -> t <= r_now rq -> time_ok (r_now rq) ->
  fst (al_step m rq) (r_key rq) = fst (kout E B (m (r_key rq)) (r_q rq) (r_now rq)) /\
  snd (al_step m rq) = snd (kout E B (m (r_key rq)) (r_q rq) (r_now rq)).
Proof.
  intros HD HB Hc Hp HEq Hq HI Hle Ht. unfold al_step, kout.
  destruct (Z.ltb_spec (r_q rq) 0); [split; reflexivity|].
  assert (Hv : invalid_limits rq = false).
  { unfold invalid_limits. pose proof (KeyLemmas.HB E B HD).
    destruct (Z.leb_spec (r_B rq) 0); [lia|]. destruct (Z.leb_spec (r_count rq) 0); [lia|].
    destruct (Z.leb_spec (r_period rq) 0); [lia|]. reflexivity. }
  rewrite Hv. cbv zeta. rewrite HEq, HB.
  pose proof (m_calc_kstep E B HD (m (r_key rq)) t (r_q rq) (r_now rq) HI Hle Ht ltac:(lia)) as Hm.
  cbv zeta in Hm. change (avis m (r_key rq) (r_now rq)) with (kvisible (m (r_key rq)) (r_now rq)).
  set (c := m_calc E B (r_q rq) (r_now rq) (kvisible (m (r_key rq)) (r_now rq))) in *.
  set (sr := kstep E B (m (r_key rq)) (r_q rq) (r_now rq)) in *.
  destruct Hm as (Hsnd & Hok & Hadm).
  rewrite Hok. destruct (allowed (snd sr)) eqn:Ha; [destruct (Z.ltb_spec 0 (r_q rq)) as [Hqp|Hq0]|]; cbn [andb].
  - destruct (Hadm eq_refl Hqp) as (Hst & Httl & _).
    assert (Hov : systime_add_overflows (r_now rq) (snd (fst c)) = false).
    { unfold systime_add_overflows. apply Z.ltb_ge. unfold time_ok, tmax in Ht. unfold u64max in Httl. unfold i64max.
      apply Z.div_le_upper_bound; lia. }
    rewrite Hov. cbn [fst snd]. unfold AbsMap.aupd. rewrite (keqb_refl K keqb keqb_spec).
    rewrite Hst, Hsnd. split; reflexivity.
  - cbn [fst snd]. rewrite Hsnd. split; [|reflexivity].
    assert (r_q rq = 0) as Hz by lia. unfold sr. rewrite Hz. symmetry. apply kstep_zero_state.
  - cbn [fst snd]. rewrite Hsnd. split; [|reflexivity].
    symmetry. apply kstep_denied_state. exact Ha.
Qed.

End A.
