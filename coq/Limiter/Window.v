(* C01 core: for the ideal bucket, the quantity admitted with timestamps in any window [t1,t2]
   satisfies  E * admitted <= E*B + (t2 - t1),  from any bucket state, for any history. *)
From Coq Require Import ZArith Bool Lia List.
Import ListNotations.
Require Import TC.Limiter.Bucket.
Open Scope Z_scope.

Section W.
Variables E B : Z.
Hypothesis HE : 0 <= E.
Hypothesis HB : 0 <= E * B.

Notation bstep := (bstep E B).
Notation bdecide := (bdecide E B).

Definition bwf (b : bucket) : Prop := 0 <= lvl b <= E * B.

Definition in_win (t1 t2 t : Z) : bool := (t1 <=? t) && (t <=? t2).

(* admitted quantity with timestamps in [t1, t2], given the decisions *)
Fixpoint kadm (l : list (Z * Z)) (ds : list bool) (t1 t2 : Z) : Z :=
  match l, ds with
  | (q, t) :: r, d :: ds' => (if d && in_win t1 t2 t then q else 0) + kadm r ds' t1 t2
  | _, _ => 0
  end.

Definition adm (b : bucket) (l : list (Z * Z)) (t1 t2 : Z) : Z := kadm l (bdecide b l) t1 t2.

(* sorted per-key history starting at or after t0, non-negative quantities *)
Fixpoint ksorted (t0 : Z) (l : list (Z * Z)) : Prop :=
  match l with [] => True | (q, t) :: r => t0 <= t /\ 0 <= q /\ ksorted t r end.

Lemma bstep_wf b q t : bwf b -> last b <= t -> 0 <= q -> bwf (fst (bstep b q t)) /\ last (fst (bstep b q t)) = t.
Proof.
  unfold bwf, Bucket.bstep, refill. intros Hw Hl Hq.
  assert (0 <= E * q) by nia.
  destruct (Z.leb_spec (E * q) (Z.min (E * B) (lvl b + (t - last b)))); cbn [fst lvl last]; lia.
Qed.

Lemma adm_cons b q t r t1 t2 :
  adm b ((q, t) :: r) t1 t2 =
  (if snd (bstep b q t) && in_win t1 t2 t then q else 0) + adm (fst (bstep b q t)) r t1 t2.
Proof. unfold adm. cbn [bdecide]. destruct (bstep b q t) as [b' ok]. reflexivity. Qed.

(* once past the window nothing more is counted *)
Lemma adm_past b l t1 t2 t0 : t2 < t0 -> ksorted t0 l -> adm b l t1 t2 = 0.
Proof.
  revert b t0. induction l as [|[q t] r IH]; intros b t0 Hlt Hs; [reflexivity|].
  cbn [ksorted] in Hs. destruct Hs as (H1 & H2 & H3).
  rewrite adm_cons. rewrite (IH _ t) by (auto; lia).
  unfold in_win. destruct (Z.leb_spec t t2); [lia|]. rewrite andb_false_r, andb_false_r. reflexivity.
Qed.

(* inside the window: everything admitted is paid from the level plus the elapsed time *)
Lemma adm_inside l : forall b t1 t2, bwf b -> last b <= t2 -> ksorted (last b) l ->
  E * adm b l t1 t2 <= lvl b + (t2 - last b).
Proof.
  induction l as [|[q t] r IH]; intros b t1 t2 Hw Hl Hs.
  - unfold adm. cbn. unfold bwf in Hw. lia.
  - cbn [ksorted] in Hs. destruct Hs as (H1 & H2 & H3).
    rewrite adm_cons.
    destruct (bstep_wf b q t Hw H1 H2) as [Hw' Hlast'].
    destruct (Z_le_gt_dec t t2) as [Hin|Hout].
    + specialize (IH (fst (bstep b q t)) t1 t2 Hw' ltac:(lia) ltac:(rewrite Hlast'; exact H3)).
      rewrite Hlast' in IH.
      unfold Bucket.bstep, refill in *. unfold bwf in Hw.
      destruct (Z.leb_spec (E * q) (Z.min (E * B) (lvl b + (t - last b)))); cbn [fst snd lvl last] in *.
      * destruct (in_win t1 t2 t); cbn [andb]; lia.
      * cbn [andb]. lia.
    + rewrite (adm_past _ r t1 t2 t) by (auto; lia).
      unfold in_win. destruct (Z.leb_spec t t2); [lia|]. rewrite andb_false_r, andb_false_r.
      unfold bwf in Hw. lia.
Qed.

(* C01 for the bucket: any window, from any well-formed bucket *)
Theorem adm_window l : forall b t1 t2, bwf b -> t1 <= t2 -> ksorted (last b) l ->
  E * adm b l t1 t2 <= E * B + (t2 - t1).
Proof.
  induction l as [|[q t] r IH]; intros b t1 t2 Hw H12 Hs.
  - unfold adm. cbn. lia.
  - cbn [ksorted] in Hs. destruct Hs as (H1 & H2 & H3).
    rewrite adm_cons.
    destruct (bstep_wf b q t Hw H1 H2) as [Hw' Hlast'].
    destruct (Z_lt_ge_dec t t1) as [Hbefore|Hge].
    + (* before the window *)
      unfold in_win. destruct (Z.leb_spec t1 t); [lia|]. rewrite andb_false_l, andb_false_r.
      specialize (IH (fst (bstep b q t)) t1 t2 Hw' H12 ltac:(rewrite Hlast'; exact H3)). lia.
    + destruct (Z_le_gt_dec t t2) as [Hin|Hout].
      * (* first request inside the window *)
        pose proof (adm_inside r (fst (bstep b q t)) t1 t2 Hw' ltac:(lia) ltac:(rewrite Hlast'; exact H3)) as Hi.
        rewrite Hlast' in Hi.
        unfold Bucket.bstep, refill in *. unfold bwf in Hw.
        destruct (Z.leb_spec (E * q) (Z.min (E * B) (lvl b + (t - last b)))); cbn [fst snd lvl last] in *.
        -- destruct (in_win t1 t2 t); cbn [andb]; lia.
        -- cbn [andb]. lia.
      * rewrite (adm_past _ r t1 t2 t) by (auto; lia).
        unfold in_win. destruct (Z.leb_spec t t2); [lia|]. rewrite andb_false_r, andb_false_r. lia.
Qed.

End W.
