(* C02 core: the per-key GCRA step is step-for-step equal to the ideal token bucket. *)
From Coq Require Import ZArith Bool Lia List.
Import ListNotations.
Require Import TC.Limiter.Arith TC.Limiter.KeyStep TC.Limiter.KeyLemmas TC.Limiter.Bucket.
Open Scope Z_scope.

Section Sim.
Variables E B : Z.
Hypothesis HD : inD E B.

Notation kstep := (kstep E B).
Notation bstep := (bstep E B).
Notation T := (T E B).
Notation eff := (eff E).
Notation Inv := (Inv E B).

(* the bucket b (last touched at [last b]) represents key state s *)
Definition rel (s : kstate) (b : bucket) : Prop :=
  Inv s (last b) /\
  match s with
  | Some (tat, _) => lvl b = Z.min (E * B) (last b + T - tat)
  | None => lvl b = E * B
  end.

(* the refilled level is the distance from the effective TAT to the burst horizon *)
Lemma refill_eff s b now : rel s b -> last b <= now -> refill E B b now = now + T - eff s now.
Proof.
  intros [HI Hl] Hle. unfold refill, KeyStep.eff, kvisible.
  pose proof (HE E B HD) as HE'. pose proof (T_nonneg E B HD) as HT0.
  pose proof (T_plus_E E B) as HT.
  destruct s as [[tat ex]|]; cbn [KeyLemmas.Inv] in HI.
  - destruct HI as [H1 H2]. destruct (Z.ltb_spec now ex); lia.
  - lia.
Qed.

Lemma sim s b q now : rel s b -> last b <= now -> time_ok now -> 0 <= q ->
  allowed (snd (kstep s q now)) = snd (bstep b q now) /\
  rel (fst (kstep s q now)) (fst (bstep b q now)).
Proof.
  intros Hrel Hle Ht Hq. pose proof Hrel as [HI Hl].
  pose proof (HE E B HD) as HE'. pose proof (HB E B HD) as HB'. pose proof (T_nonneg E B HD) as HT0.
  pose proof (refill_eff s b now Hrel Hle) as Hre.
  pose proof (T_plus_E E B) as HT. pose proof (eff_ge E s now) as Hge.
  unfold Bucket.bstep. rewrite Hre.
  destruct (Z_le_gt_dec (eff s now + E * q - T) now) as [Hok|Hno].
  - rewrite (kstep_admit E B HD s (last b) q now HI Hle Ht Hq Hok).
    destruct (Z.leb_spec (E * q) (now + T - eff s now)); [|lia].
    cbn [fst snd allowed]. split; [reflexivity|].
    destruct (Z.ltb_spec 0 q) as [Hqp|Hq0].
    + unfold rel. cbn [last lvl KeyLemmas.Inv]. pose proof (retention_bounds E B HD). lia.
    + (* zero quantity: nothing is written, the bucket only refills *)
      assert (q = 0) by lia. subst q. rewrite Z.mul_0_r, Z.sub_0_r.
      unfold rel. cbn [last lvl]. split; [eapply Inv_mono; eauto|].
      destruct s as [[tat ex]|]; cbn [KeyLemmas.Inv] in HI.
      * unfold KeyStep.eff, kvisible. destruct HI. destruct (Z.ltb_spec now ex); lia.
      * unfold KeyStep.eff, kvisible. lia.
  - rewrite (kstep_deny E B HD s (last b) q now HI Hle Ht Hq ltac:(lia)).
    destruct (Z.leb_spec (E * q) (now + T - eff s now)); [lia|].
    cbn [fst snd allowed]. split; [reflexivity|].
    unfold rel. cbn [last lvl]. split; [eapply Inv_mono; eauto|].
    destruct s as [[tat ex]|]; cbn [KeyLemmas.Inv] in HI.
    + unfold KeyStep.eff, kvisible. destruct HI. destruct (Z.ltb_spec now ex); lia.
    + unfold KeyStep.eff, kvisible. lia.
Qed.

Lemma rel_init t : rel None (full E B t).
Proof. split; [exact I|reflexivity]. Qed.

End Sim.
