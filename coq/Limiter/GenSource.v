(* Corollaries stated directly about the SOURCE-TRANSLATED arithmetic (Generated/LimGen.v): what C08/C03 say about
   the response fields, the lifetime handed to the store and the first request on a fresh key, for every i64 input,
   transferred from the model through the tie (GenTie.v).  Like GenTie.v this file is outside the closure of
   Properties/*.vo: it is re-proved on every run of a limiter check, and an equivalent rewrite of the source that the
   tie's tactics cannot see through leaves the property theorems (about the hand model, tied by T2) untouched. *)
From Coq Require Import ZArith List Bool Lia.
Require Import TC.Limiter.Arith TC.Limiter.GenOps TC.Limiter.KeyStep TC.Limiter.Limiter TC.Limiter.Total
               TC.Generated.LimGen TC.Limiter.GenTie.
Open Scope Z_scope.

Theorem source_arithmetic_sanity : forall (Edur B q now : Z) (tv : option Z),
  0 <= Edur -> 1 <= B <= i64max -> 0 <= q <= i64max -> 0 <= now <= t2200 ->
  let g := gen_calc Edur B q now tv in
  g_limit g = B /\ 0 <= g_remaining g <= B /\ (g_retry_after g = 0 <-> g_allowed g = true) /\
  0 <= g_cas_ttl g <= i64max /\ 0 <= g_nx_ttl g <= i64max /\ g_cas_new g = g_nx_new g /\
  0 <= g_reset_after g <= i64max /\ 0 <= g_retry_after g <= i64max /\
  (g_write g = true <-> g_allowed g = true /\ 0 < q).
Proof.
  intros Edur B q now tv HE HB Hq Hnow.
  pose proof (gen_calc_is_model Edur B q now tv HE) as T. cbv zeta in T.
  destruct T as (T1 & T2 & T3 & T4 & T5 & T6 & T7 & T8 & T9 & T10 & T11).
  pose proof (m_calc_sanity Edur B q now tv HE HB Hq Hnow) as S. cbv zeta in S.
  destruct S as (S1 & S2 & S3 & S4 & S5 & S6).
  cbv zeta.
  set (g := gen_calc Edur B q now tv) in *. set (c := m_calc Edur B q now tv) in *.
  assert (Hw : g_write g = true <-> g_allowed g = true /\ 0 < q).
  { rewrite T2, T1. rewrite andb_true_iff, Z.ltb_lt. tauto. }
  assert (Hr : g_retry_after g = 0 <-> g_allowed g = true) by (rewrite T11, T7; exact S3).
  rewrite T8, T9, T4, T6, T3, T5, T10.
  assert (H8 : 0 <= g_retry_after g <= i64max) by (rewrite T11; exact S6).
  exact (conj S1 (conj S2 (conj Hr (conj S4 (conj S4 (conj eq_refl (conj S5 (conj H8 Hw)))))))).
Qed.

Theorem source_fresh_key_admitted : forall (Edur B q now : Z),
  0 <= Edur -> 1 <= B <= i64max -> 0 <= q <= B -> 0 <= now <= t2200 ->
  g_allowed (gen_calc Edur B q now None) = true.
Proof.
  intros Edur B q now HE HB Hq Hnow.
  pose proof (gen_calc_is_model Edur B q now None HE) as T. cbv zeta in T. destruct T as (T1 & _).
  rewrite T1. apply m_calc_fresh; assumption.
Qed.
