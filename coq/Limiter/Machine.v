(* Inside the normal domain D the machine arithmetic of rate_limit (saturating i64 operations,
   truncating division) computes exactly the per-key step [kstep]. *)
From Coq Require Import ZArith Bool Lia.
Require Import TC.Limiter.Arith TC.Limiter.KeyStep TC.Limiter.KeyLemmas TC.Limiter.Limiter.
Open Scope Z_scope.

Section M.
Variables E B : Z.
Hypothesis HD : inD E B.

Notation T := (T E B).
Notation retention := (retention E B).
Notation eff := (eff E).
Notation kstep := (kstep E B).
Notation Inv := (Inv E B).

Lemma sat_nonneg_min z : i64min <= z -> sat z = Z.min z i64max.
Proof. unfold sat, i64min, i64max. lia. Qed.

Lemma m_calc_kstep s t q now :
  Inv s t -> t <= now -> time_ok now -> 0 <= q <= i64max ->
  let c := m_calc E B q now (kvisible s now) in
  let sr := kstep s q now in
  snd c = snd sr /\
  fst (fst (fst c)) = allowed (snd sr) /\
  (allowed (snd sr) = true -> 0 < q ->
     fst sr = Some (snd (fst (fst c)), now + snd (fst c)) /\ 0 <= snd (fst c) <= u64max /\
     snd (fst c) = reset_after (snd sr)).
Proof.
  intros HI Hle Ht Hq. cbv zeta.
  pose proof (HE E B HD) as HE. pose proof (HB E B HD) as HB.
  pose proof (T_eq E B) as HTeq. pose proof (T_nonneg E B HD) as HT0. pose proof (T_bound E B HD) as HTb.
  pose proof (E_bound E B HD) as HEb. pose proof (eff_ge E s now) as Hge.
  pose proof (eff_le E B HD s t now HI Hle) as Hle2.
  pose proof (retention_bounds E B HD) as (Hr1 & Hr2 & Hr3). pose proof (EB_bound E B HD) as HEBb.
  unfold time_ok, tmax in Ht.
  unfold m_calc.
  (* E_ns, tolerance, retention *)
  assert (HEmin : Z.min E i64max = E) by (unfold i64max; lia). rewrite HEmin.
  assert (Htol : sat_mul E (B - 1) = T).
  { unfold sat_mul. rewrite sat_id; [reflexivity|]. fold T. unfold KeyStep.T in *. unfold in_i64, i64min, i64max. lia. }
  rewrite Htol. fold retention. change (Z.max T E) with retention.
  assert (HsubE : sat_sub now E = now - E) by (unfold sat_sub; apply sat_id; unfold in_i64, i64min, i64max; lia).
  rewrite HsubE.
  (* effective TAT *)
  assert (Htat : match kvisible s now with Some stored => Z.max stored (now - E) | None => now - E end = eff s now) by reflexivity.
  rewrite Htat.
  set (tau := eff s now) in *.
  assert (HX0 : 0 <= E * q) by nia.
  assert (Hinc : sat_mul E q = Z.min (E * q) i64max) by (unfold sat_mul; apply sat_nonneg_min; unfold i64min; lia).
  rewrite Hinc.
  set (X := Z.min (E * q) i64max) in *.
  assert (HXr : 0 <= X <= i64max) by (unfold X, i64max; lia).
  assert (Hnew : sat_add tau X = Z.min (tau + X) i64max) by (unfold sat_add; apply sat_nonneg_min; unfold i64min, i64max in *; lia).
  rewrite Hnew.
  set (new := Z.min (tau + X) i64max) in *.
  assert (Hnewr : tau <= new <= i64max) by (unfold new, i64max in *; lia).
  assert (Hallow : sat_sub new T = new - T) by (unfold sat_sub; apply sat_id; unfold in_i64, i64min, i64max in *; lia).
  rewrite Hallow.
  unfold KeyStep.kstep. fold tau. fold X. fold new. cbn [fst snd allowed reset_after].
  assert (Hbl : sat_add now T = now + T) by (unfold sat_add; apply sat_id; unfold in_i64, i64min, i64max; lia).
  rewrite Hbl.
  destruct (Z.leb_spec (new - T) now) as [Hok|Hno].
  - (* admitted *)
    assert (H1 : sat_sub new now = new - now) by (unfold sat_sub; apply sat_id; unfold in_i64, i64min, i64max in *; lia).
    rewrite H1.
    assert (H2 : sat_add (Z.max (new - now) 0) retention = Z.max (new - now) 0 + retention)
      by (unfold sat_add; apply sat_id; unfold in_i64, i64min, i64max in *; lia).
    rewrite H2.
    assert (H3 : sat_sub (now + T) new = now + T - new) by (unfold sat_sub; apply sat_id; unfold in_i64, i64min, i64max in *; lia).
    rewrite H3.
    destruct (Z.ltb_spec 0 E); [|lia].
    rewrite Z.quot_div_nonneg by lia.
    cbn [fst snd]. split; [reflexivity|]. split; [reflexivity|]. intros _ Hqp.
    destruct (Z.ltb_spec 0 q); [|lia]. cbn [andb]. repeat split; try reflexivity; unfold u64max; lia.
  - (* denied *)
    assert (H1 : sat_sub tau now = tau - now) by (unfold sat_sub; apply sat_id; unfold in_i64, i64min, i64max in *; lia).
    rewrite H1.
    assert (H2 : sat_add (Z.max (tau - now) 0) retention = Z.max (tau - now) 0 + retention)
      by (unfold sat_add; apply sat_id; unfold in_i64, i64min, i64max in *; lia).
    rewrite H2.
    assert (H3 : sat_sub (now + T) tau = now + T - tau) by (unfold sat_sub; apply sat_id; unfold in_i64, i64min, i64max in *; lia).
    rewrite H3.
    assert (H4 : sat_sub (new - T) now = new - T - now) by (unfold sat_sub; apply sat_id; unfold in_i64, i64min, i64max in *; lia).
    rewrite H4.
    destruct (Z.ltb_spec 0 E); [|lia].
    rewrite Z.quot_div_nonneg by lia.
    cbn [fst snd]. split; [reflexivity|]. split; [reflexivity|]. intros Hf; discriminate.
Qed.

End M.
