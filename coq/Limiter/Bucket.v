(* The ideal token bucket (the specification of C01/C02): capacity B tokens, refilled by one
   token per emission interval E, exact to the nanosecond.  The level is kept in nanosecond
   units: one token = E units, capacity E*B. *)
From Coq Require Import ZArith Bool Lia List.
Import ListNotations.
Open Scope Z_scope.

Record bucket := { lvl : Z; last : Z }.

Section Bucket.
Variables E B : Z.

Definition refill (b : bucket) (now : Z) : Z := Z.min (E * B) (lvl b + (now - last b)).

Definition bstep (b : bucket) (q now : Z) : bucket * bool :=
  let l := refill b now in
  if E * q <=? l then ({| lvl := l - E * q; last := now |}, true)
  else ({| lvl := l; last := now |}, false).

Definition full (t : Z) : bucket := {| lvl := E * B; last := t |}.

(* decisions of the ideal bucket over a per-key history of (quantity, time) *)
Fixpoint bdecide (b : bucket) (h : list (Z * Z)) : list bool :=
  match h with
  | [] => []
  | (q, t) :: r => let (b', ok) := bstep b q t in ok :: bdecide b' r
  end.
End Bucket.
