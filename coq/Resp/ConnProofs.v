(* C13 (chunking independence, buffer cap) and the RESP half of C10 (one decoded command per
   frame, in stream order, independent of the splitting). *)
From Coq Require Import ZArith NArith List Bool Lia.
Import ListNotations.
Require Import TC.Generated.Consts TC.Resp.Utf8 TC.Resp.Decimal TC.Resp.Parse TC.Resp.ParseProofs TC.Resp.Local TC.Resp.Conn.
Open Scope N_scope.

Section CP.
Variable isq : value -> bool.
Notation drain := (drain isq).
Notation drain_all := (drain_all isq).

(* more fuel than the buffer length changes nothing *)
Lemma drain_fuel : forall f depth buf k, (length buf < f)%nat -> drain (f + k) depth buf = drain f depth buf.
Proof.
  induction f as [|f IH]; intros depth buf k Hl; [lia|].
  change (S f + k)%nat with (S (f + k)). cbn [Conn.drain].
  destruct (parse_with_total depth buf) as (_ & _ & Hr & _).
  destruct (parse_with depth buf) as [o dp]. cbn [fst] in Hr.
  destruct o as [v c| | | |]; try reflexivity.
  destruct (cap <? c)%nat; [reflexivity|].
  destruct (isq v); [reflexivity|].
  cbn [ok_range] in Hr. rewrite IH; [reflexivity|]. rewrite skipn_length. lia.
Qed.

Lemma drain_all_unfold depth buf :
  drain_all depth buf =
  match parse_with depth buf with
  | (POk v c, depth') =>
      if (cap <? c)%nat then ([], buf, depth', CTooBig)
      else if isq v then ([v], skipn c buf, depth', CQuit)
      else let '(vs, b, d, s) := drain_all depth' (skipn c buf) in (v :: vs, b, d, s)
  | (PNeedMore, depth') => ([], buf, depth', CNeedMore)
  | (PErr _, depth') => ([], buf, depth', CProtoError)
  | (PPanic, depth') => ([], buf, depth', CPanic)
  | (POutOfFuel, depth') => ([], buf, depth', CPanic)
  end.
Proof.
  unfold Conn.drain_all. cbn [Conn.drain].
  destruct (parse_with_total depth buf) as (_ & _ & Hr & _).
  destruct (parse_with depth buf) as [o dp]. cbn [fst] in Hr.
  destruct o as [v c| | | |]; try reflexivity. destruct (cap <? c)%nat; [reflexivity|]. destruct (isq v); [reflexivity|].
  cbn [ok_range] in Hr.
  replace (length buf) with (S (length (skipn c buf)) + (length buf - S (length (skipn c buf))))%nat
    by (rewrite skipn_length; lia).
  rewrite drain_fuel by lia. reflexivity.
Qed.

(* the property is stated on the decoded command list and the end status *)
Definition result_of (r : list value * bytes * nat * cstatus) : list value * cstatus := (fst (fst (fst r)), snd r).

Lemma drain_ext : forall n depth buf x, (length buf <= n)%nat ->
  let r := drain_all depth buf in
  match snd r with
  | CNeedMore =>
      drain_all depth (buf ++ x) =
      (let '(vs2, b2, d2, s2) := drain_all (snd (fst r)) (snd (fst (fst r)) ++ x) in (fst (fst (fst r)) ++ vs2, b2, d2, s2))
  | CQuit => fst (fst (fst (drain_all depth (buf ++ x)))) = fst (fst (fst r)) /\ snd (drain_all depth (buf ++ x)) = CQuit
  | _ => fst (fst (fst (drain_all depth (buf ++ x)))) = fst (fst (fst r)) /\ snd (drain_all depth (buf ++ x)) = snd r
  end.
Proof.
  induction n as [|n IH]; intros depth buf x Hl; cbv zeta.
  - (* empty buffer *)
    destruct buf; [|cbn in Hl; lia]. cbn [app].
    rewrite (drain_all_unfold depth []). unfold parse_with, fuel_for. cbn [length parse fst snd Nat.mul Nat.add].
    cbn [app]. destruct (drain_all depth x) as [[[vs2 b2] d2] s2]. reflexivity.
  - rewrite (drain_all_unfold depth buf).
    destruct (parse_with_total depth buf) as (_ & _ & Hr & Hdk).
    destruct (parse_with depth buf) as [o dp] eqn:Hp. cbn [fst snd] in Hr, Hdk.
    destruct o as [v c| |e| |].
    + (* a complete frame at the front: stable under extension *)
      assert (Hf : final (fst (parse_with depth buf))) by (rewrite Hp; exact I).
      pose proof (parse_with_ext depth buf x Hf) as He. rewrite Hp in He.
      cbn [ok_range] in Hr.
      rewrite (drain_all_unfold depth (buf ++ x)), He.
      rewrite skipn_app. replace (c - length buf)%nat with 0%nat by lia. cbn [skipn].
      destruct (cap <? c)%nat; [cbn; split; reflexivity|].
      destruct (isq v); [cbn; split; reflexivity|].
      specialize (IH dp (skipn c buf) x ltac:(rewrite skipn_length; lia)). cbv zeta in IH.
      destruct (drain_all dp (skipn c buf)) as [[[vs b] d] s] eqn:Hd. cbn [fst snd] in *.
      destruct s.
      * rewrite IH. destruct (drain_all d (b ++ x)) as [[[vs2 b2] d2] s2]. reflexivity.
      * destruct (drain_all dp (skipn c buf ++ x)) as [[[vs' b'] d'] s']. cbn [fst snd] in *. destruct IH as [-> ->]. split; reflexivity.
      * destruct (drain_all dp (skipn c buf ++ x)) as [[[vs' b'] d'] s']. cbn [fst snd] in *. destruct IH as [-> ->]. split; reflexivity.
      * destruct (drain_all dp (skipn c buf ++ x)) as [[[vs' b'] d'] s']. cbn [fst snd] in *. destruct IH as [-> ->]. split; reflexivity.
      * destruct (drain_all dp (skipn c buf ++ x)) as [[[vs' b'] d'] s']. cbn [fst snd] in *. destruct IH as [-> ->]. split; reflexivity.
    + cbn [fst snd depth_kept] in *. subst dp. destruct (drain_all depth (buf ++ x)) as [[[vs2 b2] d2] s2]. reflexivity.
    + assert (Hf : final (fst (parse_with depth buf))) by (rewrite Hp; exact I).
      pose proof (parse_with_ext depth buf x Hf) as He. rewrite Hp in He.
      rewrite (drain_all_unfold depth (buf ++ x)), He. cbn. split; reflexivity.
    + assert (Hf : final (fst (parse_with depth buf))) by (rewrite Hp; exact I).
      pose proof (parse_with_ext depth buf x Hf) as He. rewrite Hp in He.
      rewrite (drain_all_unfold depth (buf ++ x)), He. cbn. split; reflexivity.
    + destruct (parse_with_total depth buf) as (Hne & _). rewrite Hp in Hne. exfalso. apply Hne. reflexivity.
Qed.

(* when the loop ends with "need more", the leftover is pending: nothing more can be decoded from it *)
Lemma drain_pending : forall n depth buf vs b d, (length buf <= n)%nat ->
  drain_all depth buf = (vs, b, d, CNeedMore) -> drain_all d b = ([], b, d, CNeedMore).
Proof.
  induction n as [|n IH]; intros depth buf vs b d Hl H.
  - destruct buf; [|cbn in Hl; lia].
    rewrite (drain_all_unfold depth []) in H. unfold parse_with, fuel_for in H. cbn [length parse fst snd Nat.mul Nat.add] in H.
    inversion H; subst. rewrite drain_all_unfold. reflexivity.
  - rewrite (drain_all_unfold depth buf) in H.
    destruct (parse_with_total depth buf) as (_ & _ & Hr & Hdk).
    destruct (parse_with depth buf) as [o dp] eqn:Hp. cbn [fst snd] in Hr, Hdk.
    destruct o as [v c| |e| |]; try discriminate.
    + destruct (cap <? c)%nat; [discriminate|]. destruct (isq v); [discriminate|]. cbn [ok_range] in Hr.
      destruct (drain_all dp (skipn c buf)) as [[[vs' b'] d'] s'] eqn:Hd. inversion H; subst.
      apply (IH dp (skipn c buf) vs' b d ltac:(rewrite skipn_length; lia) Hd).
    + inversion H; subst. cbn [depth_kept] in Hdk. subst.
      rewrite drain_all_unfold, Hp. reflexivity.
Qed.

(* chunking independence (no buffer cap): feeding a stream chunk by chunk decodes the same command
   sequence and ends in the same status as decoding the concatenation at once; while the
   connection stays open the leftover buffers coincide too *)
Theorem chunking_independent : forall (chunks : list bytes) (buf : bytes) (depth : nat),
  drain_all depth buf = ([], buf, depth, CNeedMore) ->
  let r1 := run_nocap isq (buf, depth, CNeedMore) chunks in
  let r2 := drain_all depth (buf ++ concat chunks) in
  fst r1 = fst (fst (fst r2)) /\ snd (snd r1) = snd r2 /\
  (snd r2 = CNeedMore -> snd r1 = (snd (fst (fst r2)), snd (fst r2), CNeedMore)).
Proof.
  induction chunks as [|ch r IH]; intros buf depth Hpend; cbv zeta.
  - cbn [run_nocap concat fst snd]. rewrite app_nil_r, Hpend. cbn. auto.
  - cbn [run_nocap concat feed_nocap].
    pose proof (drain_ext (length (buf ++ ch)) depth (buf ++ ch) (concat r) ltac:(lia)) as Hx. cbv zeta in Hx.
    rewrite <- app_assoc in Hx.
    destruct (drain_all depth (buf ++ ch)) as [[[vs b] d] s] eqn:Hd. cbn [fst snd] in Hx.
    destruct s.
    + pose proof (drain_pending (length (buf ++ ch)) depth (buf ++ ch) vs b d ltac:(lia) Hd) as Hp2.
      specialize (IH b d Hp2). cbv zeta in IH.
      destruct (run_nocap isq (b, d, CNeedMore) r) as [v2 st2]. rewrite Hx.
      destruct (drain_all d (b ++ concat r)) as [[[vs2 b2] d2] s2]. cbn [fst snd] in *.
      destruct IH as (E1 & E2 & E3). subst v2. repeat split; auto.
    + assert (Hrun : run_nocap isq (b, d, CProtoError) r = ([], (b, d, CProtoError))).
      { clear. induction r as [|c r IH]; [reflexivity|]. cbn [run_nocap feed_nocap]. rewrite IH. reflexivity. }
      rewrite Hrun. cbn [fst snd]. rewrite app_nil_r. destruct Hx as [-> ->]. repeat split; auto. discriminate.
    + assert (Hrun : run_nocap isq (b, d, CQuit) r = ([], (b, d, CQuit))).
      { clear. induction r as [|c r IH]; [reflexivity|]. cbn [run_nocap feed_nocap]. rewrite IH. reflexivity. }
      rewrite Hrun. cbn [fst snd]. rewrite app_nil_r. destruct Hx as [-> ->]. repeat split; auto. discriminate.
    + assert (Hrun : run_nocap isq (b, d, CPanic) r = ([], (b, d, CPanic))).
      { clear. induction r as [|c r IH]; [reflexivity|]. cbn [run_nocap feed_nocap]. rewrite IH. reflexivity. }
      rewrite Hrun. cbn [fst snd]. rewrite app_nil_r. destruct Hx as [-> ->]. repeat split; auto. discriminate.
    + assert (Hrun : run_nocap isq (b, d, CTooBig) r = ([], (b, d, CTooBig))).
      { clear. induction r as [|c r IH]; [reflexivity|]. cbn [run_nocap feed_nocap]. rewrite IH. reflexivity. }
      rewrite Hrun. cbn [fst snd]. rewrite app_nil_r. destruct Hx as [-> ->]. repeat split; auto. discriminate.
Qed.

(* two splittings of the same byte stream decode the same command sequence, end in the same
   status and (when still open) leave the same undecoded bytes *)
Corollary two_splittings_agree (cs1 cs2 : list bytes) :
  concat cs1 = concat cs2 ->
  fst (run_nocap isq ([], 0%nat, CNeedMore) cs1) = fst (run_nocap isq ([], 0%nat, CNeedMore) cs2) /\
  snd (snd (run_nocap isq ([], 0%nat, CNeedMore) cs1)) = snd (snd (run_nocap isq ([], 0%nat, CNeedMore) cs2)).
Proof.
  intros Heq.
  assert (Hp : drain_all 0 [] = ([], [], 0%nat, CNeedMore)).
  { rewrite (drain_all_unfold 0 []). reflexivity. }
  destruct (chunking_independent cs1 [] 0%nat Hp) as (A1 & A2 & _).
  destruct (chunking_independent cs2 [] 0%nat Hp) as (B1 & B2 & _).
  cbn [app] in A1, A2, B1, B2. rewrite Heq in A1, A2.
  split; [etransitivity; [exact A1|symmetry; exact B1]|etransitivity; [exact A2|symmetry; exact B2]].
Qed.

(* leftover of the parse loop is a suffix of its input: it never grows *)
Lemma drain_leftover_le : forall f buf depth vs b d s, drain f depth buf = (vs, b, d, s) -> (length b <= length buf)%nat.
Proof.
  induction f as [|f IH]; intros buf depth vs b d s H; cbn [Conn.drain] in H.
  - inversion H; subst. lia.
  - destruct (parse_with depth buf) as [o dp]. destruct o as [v c| | | |]; try (inversion H; subst; lia).
    destruct (cap <? c)%nat; [inversion H; subst; lia|].
    destruct (isq v); [inversion H; subst; rewrite skipn_length; lia|].
    destruct (Conn.drain isq f dp (skipn c buf)) as [[[vs' b'] d'] s'] eqn:Hd'. inversion H; subst.
    apply IH in Hd'. rewrite skipn_length in Hd'. lia.
Qed.

(* the buffer limit of the real loop: between reads an open connection holds at most [cap] undecoded
   bytes; during a read at most one chunk more; a frame longer than [cap] is never delivered *)
Theorem buffer_cap (cn : conn) (chunk : bytes) :
  c_end cn = Open -> (length (c_buf cn) <= cap)%nat ->
  let r := conn_feed isq cn chunk in
  (length (c_buf cn ++ chunk) <= cap + length chunk)%nat /\
  (length (c_buf (snd r)) <= length (c_buf cn ++ chunk))%nat /\
  (c_end (snd r) = Open -> (length (c_buf (snd r)) <= cap)%nat).
Proof.
  intros Ho Hl. cbv zeta. unfold conn_feed. rewrite Ho.
  split; [rewrite app_length; lia|].
  destruct (drain_all (c_depth cn) (c_buf cn ++ chunk)) as [[[vs b] d] s] eqn:Hd. cbn [fst snd c_end c_buf].
  split; [apply (drain_leftover_le _ _ _ _ _ _ _ Hd)|].
  unfold end_of. destruct s; try discriminate. destruct (Nat.ltb_spec cap (length b)); [discriminate|]. intros _. assumption.
Qed.

Lemma closed_run (cn : conn) chunks : c_end cn <> Open -> conn_run isq cn chunks = ([], cn).
Proof.
  intros Hc. induction chunks as [|ch r IH]; [reflexivity|].
  cbn [conn_run]. unfold conn_feed. destruct (c_end cn) eqn:E; [contradiction| | |]; rewrite IH; reflexivity.
Qed.

(* a pending remainder longer than the limit: whatever follows, nothing more is delivered and the
   connection does not stay open *)
Lemma pending_over_cap depth b y : drain_all depth b = ([], b, depth, CNeedMore) -> (cap < length b)%nat ->
  let '(vs, b2, d2, s2) := drain_all depth (b ++ y) in vs = [] /\ (end_of s2 b2 = ClosedByCap \/ end_of s2 b2 = ClosedByError).
Proof.
  intros Hp Hl. rewrite (drain_all_unfold depth b) in Hp.
  destruct (parse_with depth b) as [o dp] eqn:Hpb.
  assert (Hn : fst (parse_with depth b) = PNeedMore).
  { rewrite Hpb. destruct o as [v c| | | |]; try discriminate; [|reflexivity].
    destruct (cap <? c)%nat; [discriminate|]. destruct (isq v); [discriminate|].
    destruct (drain_all dp (skipn c b)) as [[[vs' b'] d'] s']. discriminate. }
  rewrite (drain_all_unfold depth (b ++ y)).
  destruct (parse_with depth (b ++ y)) as [o2 dp2] eqn:Hp2.
  destruct o2 as [v c| | | |].
  - pose proof (pending_prefix_shorter depth b y v c dp2 Hn Hp2) as Hc.
    destruct (Nat.ltb_spec cap c); [|lia]. split; [reflexivity|left; reflexivity].
  - split; [reflexivity|]. cbn [end_of]. rewrite app_length. destruct (Nat.ltb_spec cap (length b + length y)); [left; reflexivity|lia].
  - split; [reflexivity|right; reflexivity].
  - split; [reflexivity|right; reflexivity].
  - split; [reflexivity|right; reflexivity].
Qed.

(* CHUNKING INDEPENDENCE OF THE REAL LOOP, buffer limit included: however the byte stream is cut into
   reads, the commands delivered are those of decoding the whole stream at once, and the connection
   is open afterwards exactly when the whole-stream reference is (closed by QUIT exactly when it is) *)
Theorem chunking_independent_real : forall (chunks : list bytes) (cn : conn),
  c_end cn = Open -> drain_all (c_depth cn) (c_buf cn) = ([], c_buf cn, c_depth cn, CNeedMore) -> (length (c_buf cn) <= cap)%nat ->
  let r := conn_run isq cn chunks in
  let '(vs, b, d, s) := drain_all (c_depth cn) (c_buf cn ++ concat chunks) in
  fst r = vs /\ (c_end (snd r) = Open <-> end_of s b = Open) /\ (c_end (snd r) = ClosedByQuit <-> end_of s b = ClosedByQuit).
Proof.
  induction chunks as [|ch r IH]; intros cn Ho Hpend Hlen; cbv zeta.
  - cbn [conn_run concat fst snd]. rewrite app_nil_r, Hpend. cbn [end_of].
    destruct (Nat.ltb_spec cap (length (c_buf cn))); [lia|]. rewrite Ho. repeat split; auto; discriminate.
  - cbn [conn_run concat]. unfold conn_feed. rewrite Ho.
    pose proof (drain_ext (length (c_buf cn ++ ch)) (c_depth cn) (c_buf cn ++ ch) (concat r) ltac:(lia)) as Hx. cbv zeta in Hx.
    rewrite <- app_assoc in Hx.
    destruct (drain_all (c_depth cn) (c_buf cn ++ ch)) as [[[vs1 b1] d1] s1] eqn:Hd. cbn [fst snd] in Hx.
    destruct s1.
    + (* the read ends with "need more" *)
      pose proof (drain_pending (length (c_buf cn ++ ch)) (c_depth cn) (c_buf cn ++ ch) vs1 b1 d1 ltac:(lia) Hd) as Hp2.
      rewrite Hx. cbn [end_of].
      destruct (Nat.ltb_spec cap (length b1)) as [Hover|Hfit].
      * (* remainder over the limit: closed now; the reference delivers nothing more and is not open *)
        rewrite closed_run by (cbn; discriminate). cbn [fst snd c_end]. rewrite app_nil_r.
        pose proof (pending_over_cap d1 b1 (concat r) Hp2 Hover) as Hq.
        destruct (drain_all d1 (b1 ++ concat r)) as [[[vs2 b2] d2] s2]. destruct Hq as [-> Hne].
        rewrite app_nil_r. split; [reflexivity|]. split; split; intros H; try discriminate; destruct Hne as [Hne|Hne]; congruence.
      * specialize (IH {| c_buf := b1; c_depth := d1; c_end := Open |} eq_refl Hp2 Hfit). cbv zeta in IH. cbn [c_buf c_depth] in IH.
        destruct (conn_run isq {| c_buf := b1; c_depth := d1; c_end := Open |} r) as [v2 cn2].
        destruct (drain_all d1 (b1 ++ concat r)) as [[[vs2 b2] d2] s2]. cbn [fst snd] in *.
        destruct IH as (E1 & E2 & E3). subst v2. repeat split; auto; try apply E2; try apply E3.
    + rewrite closed_run by (cbn; discriminate). cbn [fst snd c_end end_of]. rewrite app_nil_r.
      destruct (drain_all (c_depth cn) (c_buf cn ++ ch ++ concat r)) as [[[vs b] d] s]. cbn [fst snd] in Hx. destruct Hx as [-> ->].
      cbn [end_of]. repeat split; auto; discriminate.
    + rewrite closed_run by (cbn; discriminate). cbn [fst snd c_end end_of]. rewrite app_nil_r.
      destruct (drain_all (c_depth cn) (c_buf cn ++ ch ++ concat r)) as [[[vs b] d] s]. cbn [fst snd] in Hx. destruct Hx as [-> ->].
      cbn [end_of]. repeat split; auto; discriminate.
    + rewrite closed_run by (cbn; discriminate). cbn [fst snd c_end end_of]. rewrite app_nil_r.
      destruct (drain_all (c_depth cn) (c_buf cn ++ ch ++ concat r)) as [[[vs b] d] s]. cbn [fst snd] in Hx. destruct Hx as [-> ->].
      cbn [end_of]. repeat split; auto; discriminate.
    + rewrite closed_run by (cbn; discriminate). cbn [fst snd c_end end_of]. rewrite app_nil_r.
      destruct (drain_all (c_depth cn) (c_buf cn ++ ch ++ concat r)) as [[[vs b] d] s]. cbn [fst snd] in Hx. destruct Hx as [-> ->].
      cbn [end_of]. repeat split; auto; discriminate.
Qed.

Corollary real_run_is_whole (chunks : list bytes) :
  fst (conn_run isq conn_init chunks) = fst (whole isq (concat chunks)) /\
  (c_end (snd (conn_run isq conn_init chunks)) = Open <-> snd (whole isq (concat chunks)) = Open) /\
  (c_end (snd (conn_run isq conn_init chunks)) = ClosedByQuit <-> snd (whole isq (concat chunks)) = ClosedByQuit).
Proof.
  assert (Hp : drain_all 0 [] = ([], [], 0%nat, CNeedMore)) by (rewrite (drain_all_unfold 0 []); reflexivity).
  pose proof (chunking_independent_real chunks conn_init eq_refl Hp ltac:(cbn; lia)) as H. cbv zeta in H.
  cbn [conn_init c_buf c_depth app] in H. unfold whole.
  destruct (drain_all 0 (concat chunks)) as [[[vs b] d] s]. exact H.
Qed.

(* two ways of cutting the same byte stream into reads: same commands, same open/closed outcome *)
Corollary two_splittings_agree_real (cs1 cs2 : list bytes) : concat cs1 = concat cs2 ->
  fst (conn_run isq conn_init cs1) = fst (conn_run isq conn_init cs2) /\
  (c_end (snd (conn_run isq conn_init cs1)) = Open <-> c_end (snd (conn_run isq conn_init cs2)) = Open).
Proof.
  intros Heq. destruct (real_run_is_whole cs1) as (A1 & A2 & _). destruct (real_run_is_whole cs2) as (B1 & B2 & _).
  rewrite Heq in A1, A2. split; [congruence|]. rewrite A2, B2. reflexivity.
Qed.

End CP.
