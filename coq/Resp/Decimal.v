(* i64 <-> decimal text: the model of `str::parse::<i64>()` and of `i64::to_string()` /
   `usize::to_string()`, with the round-trip lemma. *)
From Coq Require Import ZArith NArith List Bool Lia.
Import ListNotations.
Require Import TC.Resp.Utf8.
Open Scope Z_scope.

Definition i64max : Z := 9223372036854775807.
Definition i64min : Z := -9223372036854775808.
Definition in_i64b (z : Z) : bool := (i64min <=? z) && (z <=? i64max).

Definition is_digit (b : N) : bool := ((48 <=? b) && (b <=? 57))%N.
Definition digit_val (b : N) : Z := Z.of_N b - 48.

(* value of a digit string, most significant first, starting from acc *)
Fixpoint digits (s : bytes) (acc : Z) : option Z :=
  match s with
  | [] => Some acc
  | b :: r => if is_digit b then digits r (acc * 10 + digit_val b) else None
  end.

(* Rust: optional sign, at least one digit, value must fit i64 (overflow is an error) *)
Definition parse_i64 (s : bytes) : option Z :=
  let body (neg : bool) (r : bytes) : option Z :=
    match r with
    | [] => None
    | _ => match digits r 0 with
           | Some v => let z := if neg then - v else v in if in_i64b z then Some z else None
           | None => None
           end
    end in
  match s with
  | [] => None
  | b :: r => if (b =? 45)%N then body true r            (* '-' *)
              else if (b =? 43)%N then body false r      (* '+' *)
              else body false s
  end.

(* decimal digits of a non-negative number, most significant first *)
Fixpoint to_digits (fuel : nat) (n : Z) (acc : bytes) : bytes :=
  match fuel with
  | O => acc
  | S f =>
      let acc' := Z.to_N (48 + n mod 10) :: acc in
      if n / 10 =? 0 then acc' else to_digits f (n / 10) acc'
  end.
Definition print_nonneg (n : Z) : bytes := to_digits 40 n [].
Definition print_Z (z : Z) : bytes := if z <? 0 then 45%N :: print_nonneg (- z) else print_nonneg z.

Lemma digits_app a b acc : digits (a ++ b) acc = match digits a acc with Some v => digits b v | None => None end.
Proof.
  revert acc. induction a as [|x a IH]; intros acc; cbn [app digits]; [reflexivity|].
  destruct (is_digit x); [apply IH|reflexivity].
Qed.

Lemma digit_ok d : 0 <= d <= 9 -> is_digit (Z.to_N (48 + d)) = true /\ digit_val (Z.to_N (48 + d)) = d.
Proof.
  intros H. unfold is_digit, digit_val. rewrite Z2N.id by lia.
  split; [|lia]. apply andb_true_intro. split; apply N.leb_le; lia.
Qed.

(* to_digits prepends the digits of n to acc *)
Lemma to_digits_spec : forall fuel n acc,
  0 <= n < 10 ^ Z.of_nat fuel -> (0 < fuel)%nat ->
  exists ds, to_digits fuel n acc = ds ++ acc /\ ds <> [] /\
             forallb is_digit ds = true /\
             (forall y, exists k, 0 <= k /\ digits ds y = Some (y * 10 ^ k + n)).
Proof.
  induction fuel as [|f IH]; intros n acc Hn Hf; [lia|].
  cbn [to_digits].
  assert (Hm : 0 <= n mod 10 <= 9) by (pose proof (Z.mod_pos_bound n 10 ltac:(lia)); lia).
  destruct (digit_ok (n mod 10) Hm) as [Hd1 Hd2].
  destruct (Z.eqb_spec (n / 10) 0) as [Hz|Hnz].
  - exists [Z.to_N (48 + n mod 10)]. repeat split; try reflexivity; try discriminate.
    + cbn [forallb]. rewrite Hd1. reflexivity.
    + intros y. exists 1. split; [lia|]. cbn [digits]. rewrite Hd1, Hd2.
      f_equal. rewrite (Z.div_mod n 10) at 2 by lia. rewrite Hz. lia.
  - assert (Hq : 0 <= n / 10 < 10 ^ Z.of_nat f).
    { split; [apply Z.div_pos; lia|]. apply Z.div_lt_upper_bound; [lia|].
      replace (10 * 10 ^ Z.of_nat f) with (10 ^ Z.of_nat (S f)); [lia|].
      rewrite Nat2Z.inj_succ, Z.pow_succ_r by lia. reflexivity. }
    assert (Hfpos : (0 < f)%nat).
    { destruct f; [|lia]. cbn in Hq. assert (n / 10 = 0) by lia. contradiction. }
    destruct (IH (n / 10) (Z.to_N (48 + n mod 10) :: acc) Hq Hfpos) as (ds & He & Hne & Hall & Hv).
    exists (ds ++ [Z.to_N (48 + n mod 10)]). rewrite He. rewrite <- app_assoc. cbn [app].
    split; [reflexivity|]. split; [destruct ds; discriminate|].
    split; [rewrite forallb_app, Hall; cbn [forallb andb]; rewrite Hd1; reflexivity|].
    intros y. destruct (Hv y) as (k & Hk & Hy). exists (k + 1). split; [lia|].
    rewrite digits_app, Hy. cbn [digits]. rewrite Hd1, Hd2. f_equal.
    rewrite Z.pow_add_r, Z.pow_1_r by lia. pose proof (Z.div_mod n 10 ltac:(lia)) as Hdm.
    set (P := 10 ^ k) in *. set (qq := n / 10) in *. set (mm := n mod 10) in *. rewrite Hdm. ring.
Qed.

Lemma print_nonneg_spec n : 0 <= n < 10 ^ 40 ->
  print_nonneg n <> [] /\ forallb is_digit (print_nonneg n) = true /\ digits (print_nonneg n) 0 = Some n.
Proof.
  intros Hn. unfold print_nonneg.
  destruct (to_digits_spec 40 n [] ltac:(exact Hn) ltac:(lia)) as (ds & He & Hne & Hall & Hv).
  rewrite He, app_nil_r. split; [exact Hne|]. split; [exact Hall|].
  destruct (Hv 0) as (k & _ & Hk). rewrite Hk. f_equal; lia.
Qed.

Lemma digit_not_sign b : is_digit b = true -> b <> 45%N /\ b <> 43%N.
Proof. unfold is_digit. intros H. apply andb_prop in H. destruct H as [H1 H2]. apply N.leb_le in H1, H2. lia. Qed.

(* round trip: parse (print z) = z for every i64 *)
Theorem parse_print z : in_i64b z = true -> parse_i64 (print_Z z) = Some z.
Proof.
  intros Hz. pose proof Hz as Hz'. unfold in_i64b, i64min, i64max in Hz'. apply andb_prop in Hz'.
  destruct Hz' as [H1 H2]. apply Z.leb_le in H1, H2.
  unfold print_Z. destruct (Z.ltb_spec z 0).
  - destruct (print_nonneg_spec (- z) ltac:(lia)) as (Hne & Hall & Hd).
    unfold parse_i64. cbn [N.eqb Pos.eqb]. destruct (print_nonneg (- z)) as [|b r] eqn:Hp; [contradiction|].
    rewrite Hd. replace (- - z) with z by lia. rewrite Hz. reflexivity.
  - destruct (print_nonneg_spec z ltac:(lia)) as (Hne & Hall & Hd).
    unfold parse_i64. destruct (print_nonneg z) as [|b r] eqn:Hp; [contradiction|].
    cbn [forallb] in Hall. apply andb_prop in Hall. destruct Hall as [Hb _].
    destruct (digit_not_sign b Hb) as [Hn1 Hn2].
    apply N.eqb_neq in Hn1, Hn2. rewrite Hn1, Hn2. rewrite Hd, Hz. reflexivity.
Qed.

(* printed integers are ASCII (hence valid UTF-8) and contain no CR / LF *)
Lemma digits_ascii l : forallb is_digit l = true -> forallb is_ascii l = true.
Proof.
  induction l as [|b r IH]; cbn; [reflexivity|]. intros H. apply andb_prop in H. destruct H as [Hb Hr].
  rewrite (IH Hr), andb_true_r. unfold is_digit, is_ascii in *. apply andb_prop in Hb. destruct Hb as [_ Hb].
  apply N.leb_le in Hb. apply N.leb_le. lia.
Qed.
