(* C14: every reply the command handler produces is one well-formed value (hence exactly one
   frame on the wire); C15 (RESP part): a command is counted as denied exactly when the reply sent
   to the client is a denial decision of the limiter. *)
From Coq Require Import ZArith NArith List Bool Lia String Ascii.
Import ListNotations.
Require Import TC.Generated.Consts TC.Resp.Utf8 TC.Resp.Decimal TC.Resp.Parse TC.Resp.ParseProofs TC.Resp.RoundTrip
  TC.Resp.ParsedWf TC.Resp.Cmd.
Open Scope N_scope.

(* the DFA argument needs lo >= 128 for continuation states; use a direct validity argument instead *)
Fixpoint good_state (s : ustate) : Prop := match s with UCont _ lo _ => 128 <= lo | _ => True end.

Lemma ustep_good s b : good_state s -> good_state (ustep s b).
Proof.
  intros H. destruct s as [|n lo hi|]; cbn [ustep].
  - repeat match goal with |- context [if ?c then _ else _] => destruct c end; cbn; lia.
  - destruct ((lo <=? b) && (b <=? hi)); [|exact I]. destruct n as [|[|m]]; cbn; lia.
  - exact I.
Qed.

Lemma ustep_ascii_swap s b c : good_state s -> b <= 127 -> c <= 127 -> ustep s b = ustep s c.
Proof.
  intros H Hb Hc. destruct s as [|n lo hi|]; cbn [ustep good_state] in *.
  - apply N.leb_le in Hb, Hc. rewrite Hb, Hc. reflexivity.
  - destruct (N.leb_spec lo b); [lia|]. destruct (N.leb_spec lo c); [lia|]. reflexivity.
  - reflexivity.
Qed.

Lemma strip_crlf_run : forall l s, good_state s -> urun s (strip_crlf l) = urun s l.
Proof.
  induction l as [|b r IH]; intros s Hs; [reflexivity|].
  unfold strip_crlf, urun in *. cbn [map fold_left].
  assert (Hst : ustep s (if (b =? CR) || (b =? LF) then 32 else b) = ustep s b).
  { destruct ((b =? CR) || (b =? LF)) eqn:E; [|reflexivity].
    apply orb_prop in E. apply ustep_ascii_swap; [exact Hs|lia|].
    destruct E as [E|E]; apply N.eqb_eq in E; subst; unfold CR, LF; lia. }
  rewrite Hst. apply IH. apply ustep_good. exact Hs.
Qed.

Lemma strip_crlf_valid l : utf8_valid l = true -> utf8_valid (strip_crlf l) = true.
Proof. unfold utf8_valid. rewrite strip_crlf_run by exact I. auto. Qed.

Lemma strip_crlf_no_cr l : forallb not_cr (strip_crlf l) = true.
Proof.
  induction l as [|b r IH]; [reflexivity|]. cbn [strip_crlf map forallb]. fold (strip_crlf r). rewrite IH, andb_true_r.
  unfold not_cr. destruct (N.eqb_spec b CR) as [->|Hn]; [reflexivity|]. cbn [orb].
  destruct (b =? LF); [reflexivity|]. apply negb_true_iff. apply N.eqb_neq. exact Hn.
Qed.

Lemma no_crlf_app a b : forallb not_cr a = true -> no_crlf b = true -> no_crlf (a ++ b) = true.
Proof.
  induction a as [|x r IH]; intros Ha Hb; [exact Hb|]. cbn [forallb] in Ha. apply andb_prop in Ha. destruct Ha as [Hx Hr].
  cbn [app]. apply no_crlf_cons; [|apply IH; assumption].
  unfold not_cr in Hx. apply negb_true_iff in Hx. apply N.eqb_neq in Hx. exact Hx.
Qed.

Section CmdP.
Variable upper : bytes -> bytes.
Variable throttle : treq -> actor_res.
(* Rust Strings are valid UTF-8: so is the output of to_uppercase *)
Hypothesis upper_valid : forall s, utf8_valid s = true -> utf8_valid (upper s) = true.
(* the limiter's error texts are single-line valid strings; its numbers are i64 *)
Hypothesis throttle_err : forall r msg, throttle r = AErr msg -> utf8_valid msg = true /\ no_crlf msg = true.
Hypothesis throttle_ok : forall r a l rm rs rt, throttle r = AOk a l rm rs rt ->
  in_i64b l = true /\ in_i64b rm = true /\ in_i64b rs = true /\ in_i64b rt = true.

Notation process_command := (process_command upper throttle).
Notation handle_throttle := (handle_throttle throttle).

Definition okv (v : value) : Prop := wf v = true /\ (vdepth v <= max_depth)%nat.

Lemma static_ok msg : utf8_valid msg && no_crlf msg = true -> okv (Error msg).
Proof. intros H. split; [exact H|cbn [vdepth]; lia]. Qed.
Lemma static_ok_simple msg : utf8_valid msg && no_crlf msg = true -> okv (Simple msg).
Proof. intros H. split; [exact H|cbn [vdepth]; lia]. Qed.

Ltac static_error :=
  match goal with
  | |- okv (Error (bytes_of_string _)) => apply static_ok; vm_compute; reflexivity
  | |- okv (Simple (bytes_of_string _)) => apply static_ok_simple; vm_compute; reflexivity
  end.

Lemma handle_throttle_ok args : okv (handle_throttle args).
Proof.
  unfold Cmd.handle_throttle.
  destruct ((List.length args <? 5) || (6 <? List.length args))%nat; [static_error|].
  destruct (nth_error args 1) as [[| | |[key|]|]|]; try static_error.
  destruct (option_map parse_integer (nth_error args 2)) as [[b|]|]; try static_error.
  destruct (option_map parse_integer (nth_error args 3)) as [[c|]|]; try static_error.
  destruct (option_map parse_integer (nth_error args 4)) as [[p|]|]; try static_error.
  destruct (if (List.length args =? 6)%nat then _ else _) as [q|]; try static_error.
  destruct (throttle _) as [a l rm rs rt|msg] eqn:Ht.
  - destruct (throttle_ok _ _ _ _ _ _ Ht) as (H1 & H2 & H3 & H4).
    split; [|vm_compute; lia].
    rewrite wf_arr. cbn [List.length wf_list wf]. rewrite H1, H2, H3, H4.
    destruct a; reflexivity.
  - destruct (throttle_err _ _ Ht) as [Hu Hn]. split; [|cbn [vdepth]; lia].
    cbn [wf]. apply andb_true_intro. split.
    + rewrite utf8_valid_app by (vm_compute; reflexivity). exact Hu.
    + apply no_crlf_app; [vm_compute; reflexivity|exact Hn].
Qed.

(* every element of a well-formed array is well-formed and strictly shallower *)
Lemma arr_elem_ok l x : okv (Arr l) -> In x l -> okv x.
Proof.
  intros [Hw Hd] Hin. rewrite wf_arr in Hw. apply andb_prop in Hw. destruct Hw as [_ Hw].
  rewrite vdepth_arr in Hd. apply wf_list_forall in Hw. rewrite Forall_forall in Hw.
  split; [apply Hw; exact Hin|].
  assert (vdepth x <= ldepth l)%nat.
  { clear - Hin. induction l as [|y r IH]; [contradiction|]. cbn [ldepth]. destruct Hin as [->|Hin]; [lia|]. specialize (IH Hin). lia. }
  lia.
Qed.

(* C14: whatever the command contains, the reply is one well-formed value *)
Theorem reply_wf (v : value) : okv v -> okv (fst (process_command v)).
Proof.
  intros Hv. unfold Cmd.process_command.
  destruct v as [s|s|z|s|l]; try (cbn [fst]; static_error).
  destruct l as [|h args']; [cbn [fst]; static_error|].
  destruct h as [s|s|z|[cmd|]|l']; try (cbn [fst]; static_error).
  destruct (bytes_eqb (upper cmd) (bytes_of_string "PING")).
  - cbn [fst]. unfold handle_ping. destruct args' as [|m [|m2 r]]; try static_error.
    apply (arr_elem_ok _ m Hv). right. left. reflexivity.
  - destruct (bytes_eqb (upper cmd) (bytes_of_string "THROTTLE")); [cbn [fst]; apply handle_throttle_ok|].
    destruct (bytes_eqb (upper cmd) (bytes_of_string "QUIT")); [cbn [fst]; static_error|].
    cbn [fst]. split; [|cbn [vdepth]; lia].
    assert (Hcmd : utf8_valid cmd = true).
    { destruct (arr_elem_ok _ (Bulk (Some cmd)) Hv (or_introl eq_refl)) as [Hw _]. cbn [wf] in Hw.
      apply andb_prop in Hw. tauto. }
    cbn [wf]. apply andb_true_intro. split.
    + rewrite utf8_valid_app by (vm_compute; reflexivity).
      rewrite utf8_valid_app by (apply strip_crlf_valid; apply upper_valid; exact Hcmd). vm_compute. reflexivity.
    + apply no_crlf_app; [vm_compute; reflexivity|].
      apply no_crlf_app; [apply strip_crlf_no_cr|vm_compute; reflexivity].
Qed.

(* hence the bytes written for the reply decode to exactly that one value, consuming all of them *)
Theorem reply_one_frame (v : value) (rest : bytes) : okv v ->
  let reply := fst (process_command v) in
  parse_top (serialize reply ++ rest) = POk reply (List.length (serialize reply)).
Proof. intros Hv. cbv zeta. destruct (reply_wf v Hv) as [Hw Hd]. apply roundtrip_top; assumption. Qed.

(* C15 (RESP): counted as denied <-> the reply sent is a denial decision of the limiter *)
Theorem denied_iff_denial_sent (v : value) reply ev :
  process_command v = (reply, Some ev) ->
  (m_allowed ev = false <->
   exists cmd args rq l rm rs rt,
     v = Arr (Bulk (Some cmd) :: args) /\ bytes_eqb (upper cmd) (bytes_of_string "THROTTLE") = true /\
     throttle rq = AOk false l rm rs rt /\ reply = Arr [Int 0; Int l; Int rm; Int rs; Int rt]).
Proof.
  unfold Cmd.process_command.
  destruct v as [s|s|z|s|l]; try discriminate.
  destruct l as [|h args']; [discriminate|].
  destruct h as [s|s|z|[cmd|]|l']; try discriminate.
  destruct (bytes_eqb (upper cmd) (bytes_of_string "PING")) eqn:Hp.
  { intros H. inversion H; subst. cbn [m_allowed]. split; [discriminate|].
    intros (cmd' & args & rq & l & rm & rs & rt & Hv & Ht & _). inversion Hv; subst.
    (* PING and THROTTLE are different names *)
    destruct (bytes_eqb_spec (upper cmd') (bytes_of_string "PING")) as [E1|]; [|discriminate].
    destruct (bytes_eqb_spec (upper cmd') (bytes_of_string "THROTTLE")) as [E2|]; [|discriminate].
    rewrite E1 in E2. vm_compute in E2. discriminate. }
  destruct (bytes_eqb (upper cmd) (bytes_of_string "THROTTLE")) eqn:Ht.
  2:{ destruct (bytes_eqb (upper cmd) (bytes_of_string "QUIT")); intros H; inversion H; subst; cbn [m_allowed];
      (split; [discriminate|]); intros (cmd' & args & rq & l & rm & rs & rt & Hv & Ht' & _); inversion Hv; subst; rewrite Ht in Ht'; discriminate. }
  intros H. inversion H; subst. cbn [m_allowed]. clear H.
  set (args := Bulk (Some cmd) :: args').
  split.
  - intros Hd. apply negb_false_iff in Hd.
    unfold Cmd.handle_throttle in *.
    destruct ((List.length args <? 5) || (6 <? List.length args))%nat; [discriminate|].
    destruct (nth_error args 1) as [[| | |[key|]|]|]; try discriminate.
    destruct (option_map parse_integer (nth_error args 2)) as [[b|]|]; try discriminate.
    destruct (option_map parse_integer (nth_error args 3)) as [[c|]|]; try discriminate.
    destruct (option_map parse_integer (nth_error args 4)) as [[p|]|]; try discriminate.
    destruct (if (List.length args =? 6)%nat then _ else _) as [q|]; try discriminate.
    destruct (throttle _) as [a l rm rs rt|msg] eqn:Hth; [|discriminate].
    destruct a; [discriminate|].
    exists cmd, args', {| t_key := key; t_B := b; t_count := c; t_period := p; t_q := q |}, l, rm, rs, rt.
    repeat split; auto.
  - intros (cmd' & args2 & rq & l & rm & rs & rt & Hv & _ & _ & Hr). rewrite Hr. reflexivity.
Qed.

End CmdP.
