(* Model of the RESP command handler (process_command, handle_ping, handle_throttle, parse_integer
   in transport/redis/mod.rs).  Oracles (parameters, observed from the real run in T2):
   [upper] = str::to_uppercase on the command name; [throttle] = the limiter actor's answer. *)
From Coq Require Import ZArith NArith List Bool Lia String Ascii.
Import ListNotations.
Require Import TC.Generated.Consts TC.Resp.Utf8 TC.Resp.Decimal TC.Resp.Parse.
Open Scope N_scope.

Fixpoint bytes_of_string (s : string) : bytes :=
  match s with EmptyString => [] | String a r => N_of_ascii a :: bytes_of_string r end.
Notation "'B' s" := (bytes_of_string s%string) (at level 0, s at level 0, only parsing).

Record treq := { t_key : bytes; t_B : Z; t_count : Z; t_period : Z; t_q : Z }.
Inductive actor_res :=
| AOk (allowed : bool) (limit remaining reset_after retry_after : Z)   (* ThrottleResponse, durations in whole seconds *)
| AErr (msg : bytes).                                                  (* anyhow error text *)

Section Cmd.
Variable upper : bytes -> bytes.
Variable throttle : treq -> actor_res.

Definition parse_integer (v : value) : option Z :=
  match v with
  | Bulk (Some s) => parse_i64 s
  | Int n => Some n
  | _ => None
  end.

Definition handle_ping (args : list value) : value :=
  match args with
  | [_] => Simple (B "PONG")
  | [_; m] => m
  | _ => Error (B "ERR wrong number of arguments for 'ping' command")
  end.

Definition handle_throttle (args : list value) : value :=
  let n := List.length args in
  if ((n <? 5) || (6 <? n))%nat then Error (B "ERR wrong number of arguments for 'throttle' command")
  else
    match nth_error args 1 with
    | Some (Bulk (Some key)) =>
        match option_map parse_integer (nth_error args 2) with
        | Some (Some b) =>
            match option_map parse_integer (nth_error args 3) with
            | Some (Some c) =>
                match option_map parse_integer (nth_error args 4) with
                | Some (Some p) =>
                    let qo := if (n =? 6)%nat then
                                match option_map parse_integer (nth_error args 5) with Some (Some q) => Some q | _ => None end
                              else Some 1%Z in
                    match qo with
                    | Some q =>
                        match throttle {| t_key := key; t_B := b; t_count := c; t_period := p; t_q := q |} with
                        | AOk a lim rem rs rt =>
                            Arr [Int (if a then 1 else 0); Int lim; Int rem; Int rs; Int rt]
                        | AErr e => Error (B "ERR " ++ e)
                        end
                    | None => Error (B "ERR invalid quantity")
                    end
                | _ => Error (B "ERR invalid period")
                end
            | _ => Error (B "ERR invalid count_per_period")
            end
        | _ => Error (B "ERR invalid max_burst")
        end
    | _ => Error (B "ERR invalid key")
    end.

(* CR and LF never reach an error line (unknown-command reply) *)
Definition strip_crlf (s : bytes) : bytes := map (fun b => if (b =? CR) || (b =? LF) then 32 else b) s.

(* metrics event of one command: (counted as allowed, key for the denied-key table) *)
Record mevent := { m_allowed : bool; m_key : option bytes }.

Definition is_throttle_denied (reply : value) : bool :=
  match reply with
  | Arr (Int 1%Z :: _ :: _ :: _ :: _ :: _) => false
  | Arr (_ :: _ :: _ :: _ :: _ :: _) => true
  | _ => false
  end.

Definition process_command (v : value) : value * option mevent :=
  match v with
  | Arr [] => (Error (B "ERR empty command"), None)
  | Arr ((Bulk (Some cmd) :: _) as args) =>
      let c := upper cmd in
      if bytes_eqb c (B "PING") then (handle_ping args, Some {| m_allowed := true; m_key := None |})
      else if bytes_eqb c (B "THROTTLE") then
        let key := match args with _ :: Bulk (Some k) :: _ => Some k | _ => None end in
        let reply := handle_throttle args in
        (reply, Some {| m_allowed := negb (is_throttle_denied reply); m_key := key |})
      else if bytes_eqb c (B "QUIT") then (Simple (B "OK"), Some {| m_allowed := true; m_key := None |})
      else (Error (B "ERR unknown command '" ++ strip_crlf c ++ B "'"), Some {| m_allowed := true; m_key := None |})
  | Arr _ => (Error (B "ERR invalid command format"), None)
  | _ => (Error (B "ERR expected array of commands"), None)
  end.

(* the QUIT test of handle_connection *)
Definition is_quit (v : value) : bool :=
  match v with
  | Arr (Bulk (Some cmd) :: _) => bytes_eqb (upper cmd) (B "QUIT")
  | _ => false
  end.

End Cmd.
