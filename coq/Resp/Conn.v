(* Model of the RESP connection loop (handle_connection in transport/redis/mod.rs): bytes arrive in
   chunks, are appended to the connection buffer, the buffer cap is checked, then complete frames
   are decoded and handled one by one (reply written after each); a protocol error, the buffer cap
   or QUIT close the connection.  [isq] = "this value is a QUIT command" (depends on Unicode
   upper-casing: a parameter). *)
From Coq Require Import ZArith NArith List Bool Lia.
Import ListNotations.
Require Import TC.Generated.Consts TC.Resp.Utf8 TC.Resp.Decimal TC.Resp.Parse TC.Resp.ParseProofs.
Open Scope N_scope.

Section Conn.
Variable isq : value -> bool.

Inductive cstatus := CNeedMore | CProtoError | CQuit | CPanic.

(* the inner `while let Some((value, consumed)) = parser.parse(&buffer)?` loop:
   decoded commands (in order), remaining buffer, parser depth, why the loop ended *)
Fixpoint drain (fuel : nat) (depth : nat) (buf : bytes) : list value * bytes * nat * cstatus :=
  match fuel with
  | O => ([], buf, depth, CNeedMore)
  | S f =>
      match parse_with depth buf with
      | (POk v c, depth') =>
          let buf' := skipn c buf in                       (* buffer.drain(..consumed) *)
          if isq v then ([v], buf', depth', CQuit)
          else let '(vs, b, d, s) := drain f depth' buf' in (v :: vs, b, d, s)
      | (PNeedMore, depth') => ([], buf, depth', CNeedMore)
      | (PErr _, depth') => ([], buf, depth', CProtoError)
      | (PPanic, depth') => ([], buf, depth', CPanic)
      | (POutOfFuel, depth') => ([], buf, depth', CPanic)
      end
  end.
Definition drain_all (depth : nat) (buf : bytes) := drain (S (length buf)) depth buf.

Inductive conn_end := Open | ClosedByError | ClosedByCap | ClosedByQuit.
Record conn := { c_buf : bytes; c_depth : nat; c_end : conn_end }.
Definition conn_init : conn := {| c_buf := []; c_depth := 0%nat; c_end := Open |}.

Definition cap : nat := Z.to_nat MAX_BUFFER_SIZE.

(* one socket read of [chunk] (non-empty): commands decoded by this read, new state *)
Definition conn_feed (cn : conn) (chunk : bytes) : list value * conn :=
  match c_end cn with
  | Open =>
      let buf := c_buf cn ++ chunk in
      if (cap <? length buf)%nat then ([], {| c_buf := buf; c_depth := c_depth cn; c_end := ClosedByCap |})
      else
        let '(vs, b, d, s) := drain_all (c_depth cn) buf in
        (vs, {| c_buf := b; c_depth := d;
                c_end := match s with CNeedMore => Open | CQuit => ClosedByQuit | _ => ClosedByError end |})
  | _ => ([], cn)
  end.

Fixpoint conn_run (cn : conn) (chunks : list bytes) : list value * conn :=
  match chunks with
  | [] => ([], cn)
  | ch :: r => let (v1, cn1) := conn_feed cn ch in let (v2, cn2) := conn_run cn1 r in (v1 ++ v2, cn2)
  end.

(* the same loop without the buffer cap (used to state chunking independence) *)
Definition feed_nocap (st : bytes * nat * cstatus) (chunk : bytes) : list value * (bytes * nat * cstatus) :=
  match st with
  | (buf, depth, CNeedMore) =>
      let '(vs, b, d, s) := drain_all depth (buf ++ chunk) in (vs, (b, d, s))
  | _ => ([], st)
  end.
Fixpoint run_nocap (st : bytes * nat * cstatus) (chunks : list bytes) : list value * (bytes * nat * cstatus) :=
  match chunks with
  | [] => ([], st)
  | ch :: r => let (v1, st1) := feed_nocap st ch in let (v2, st2) := run_nocap st1 r in (v1 ++ v2, st2)
  end.

End Conn.
