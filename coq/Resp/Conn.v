(* Model of the RESP connection loop (handle_connection in transport/redis/mod.rs): bytes arrive in
   chunks, are appended to the connection buffer, complete frames are decoded and handled one by one
   (reply written after each; a frame longer than the buffer limit is refused), then the undecoded
   remainder is checked against the buffer limit; a protocol error, the limit or QUIT close the
   connection.  [isq] = "this value is a QUIT command" (depends on Unicode
   upper-casing: a parameter). *)
From Coq Require Import ZArith NArith List Bool Lia.
Import ListNotations.
Require Import TC.Generated.Consts TC.Resp.Utf8 TC.Resp.Decimal TC.Resp.Parse TC.Resp.ParseProofs.
Open Scope N_scope.

Section Conn.
Variable isq : value -> bool.

Inductive cstatus := CNeedMore | CProtoError | CQuit | CPanic | CTooBig.

Definition cap : nat := Z.to_nat MAX_BUFFER_SIZE.

(* the inner `while let Some((value, consumed)) = parser.parse(&buffer)?` loop:
   decoded commands (in order), remaining buffer, parser depth, why the loop ended *)
Fixpoint drain (fuel : nat) (depth : nat) (buf : bytes) : list value * bytes * nat * cstatus :=
  match fuel with
  | O => ([], buf, depth, CNeedMore)
  | S f =>
      match parse_with depth buf with
      | (POk v c, depth') =>
          if (cap <? c)%nat then ([], buf, depth', CTooBig)  (* consumed > MAX_BUFFER_SIZE: refused *)
          else
          let buf' := skipn c buf in                       (* buffer.drain(..consumed) *)
          if isq v then ([v], buf', depth', CQuit)
          else let '(vs, b, d, s) := drain f depth' buf' in (v :: vs, b, d, s)
      | (PNeedMore, depth') => ([], buf, depth', CNeedMore)
      | (PErr _, depth') => ([], buf, depth', CProtoError)
      | (PPanic, depth') => ([], buf, depth', CPanic)
      | (POutOfFuel, depth') => ([], buf, depth', CPanic)
      end
  end.
Definition drain_all (depth : nat) (buf : bytes) := drain (S (length buf)) depth buf.

Inductive conn_end := Open | ClosedByError | ClosedByCap | ClosedByQuit.
Record conn := { c_buf : bytes; c_depth : nat; c_end : conn_end }.
Definition conn_init : conn := {| c_buf := []; c_depth := 0%nat; c_end := Open |}.

(* one socket read of [chunk] (non-empty): commands decoded by this read, new state *)
Definition end_of (s : cstatus) (leftover : bytes) : conn_end :=
  match s with
  | CNeedMore => if (cap <? length leftover)%nat then ClosedByCap else Open     (* the check after the parse loop *)
  | CQuit => ClosedByQuit
  | CTooBig => ClosedByCap
  | _ => ClosedByError
  end.

Definition conn_feed (cn : conn) (chunk : bytes) : list value * conn :=
  match c_end cn with
  | Open =>
      let '(vs, b, d, s) := drain_all (c_depth cn) (c_buf cn ++ chunk) in
      (vs, {| c_buf := b; c_depth := d; c_end := end_of s b |})
  | _ => ([], cn)
  end.

Fixpoint conn_run (cn : conn) (chunks : list bytes) : list value * conn :=
  match chunks with
  | [] => ([], cn)
  | ch :: r => let (v1, cn1) := conn_feed cn ch in let (v2, cn2) := conn_run cn1 r in (v1 ++ v2, cn2)
  end.

(* the whole byte stream decoded at once: the reference for chunking independence *)
Definition whole (stream : bytes) : list value * conn_end :=
  let '(vs, b, d, s) := drain_all 0 stream in (vs, end_of s b).

(* the same loop without the end-of-read buffer check (kept for the earlier, weaker statement) *)
Definition feed_nocap (st : bytes * nat * cstatus) (chunk : bytes) : list value * (bytes * nat * cstatus) :=
  match st with
  | (buf, depth, CNeedMore) =>
      let '(vs, b, d, s) := drain_all depth (buf ++ chunk) in (vs, (b, d, s))
  | _ => ([], st)
  end.
Fixpoint run_nocap (st : bytes * nat * cstatus) (chunks : list bytes) : list value * (bytes * nat * cstatus) :=
  match chunks with
  | [] => ([], st)
  | ch :: r => let (v1, st1) := feed_nocap st ch in let (v2, st2) := run_nocap st1 r in (v1 ++ v2, st2)
  end.

End Conn.
