(* C13: the RESP parser is total on any bytes (no panic, enough fuel), reports a consumed length
   within bounds, restores its nesting depth, and is prefix-stable. *)
From Coq Require Import ZArith NArith List Bool Lia.
Import ListNotations.
Require Import TC.Generated.Consts TC.Resp.Utf8 TC.Resp.Decimal TC.Resp.Parse.
Open Scope N_scope.

(* ---------------- read_line ---------------- *)
Lemma crlf_index_bounds : forall d i j, crlf_index d i = Some j -> (i <= j /\ j - i + 2 <= length d)%nat.
Proof.
  induction d as [|a r IH]; intros i j H; [discriminate|].
  cbn [crlf_index] in H. destruct r as [|b r']; [discriminate|].
  destruct ((a =? CR) && (b =? LF)).
  - inversion H; subst. cbn [length]. lia.
  - apply IH in H. cbn [length] in *. lia.
Qed.

Lemma crlf_index_ext : forall d x i j, crlf_index d i = Some j -> crlf_index (d ++ x) i = Some j.
Proof.
  induction d as [|a r IH]; intros x i j H; [discriminate|].
  cbn [crlf_index] in H. destruct r as [|b r']; [discriminate|].
  cbn [app crlf_index]. destruct ((a =? CR) && (b =? LF)); [exact H|].
  apply (IH x (S i) j H).
Qed.

(* the first CRLF of (s ++ CR LF ++ rest) is at |s| when s contains no CRLF pair *)
Fixpoint no_crlf (s : bytes) : bool :=
  match s with
  | a :: ((b :: _) as r) => negb ((a =? CR) && (b =? LF)) && no_crlf r
  | _ => true
  end.

Lemma crlf_index_cons2 a b r i :
  crlf_index (a :: b :: r) i = if (a =? CR) && (b =? LF) then Some i else crlf_index (b :: r) (S i).
Proof. reflexivity. Qed.

Lemma crlf_index_found : forall s rest i,
  no_crlf s = true -> crlf_index (s ++ CR :: LF :: rest) i = Some (i + length s)%nat.
Proof.
  induction s as [|a r IH]; intros rest i H.
  - cbn [app length]. rewrite crlf_index_cons2. cbn. f_equal. lia.
  - destruct r as [|b r'].
    + (* s = [a]: the next byte is CR; (a, CR) is not (CR, LF) *)
      cbn [app length]. rewrite crlf_index_cons2.
      assert (Hn : (a =? CR) && (CR =? LF) = false) by (rewrite andb_false_r; reflexivity).
      rewrite Hn. rewrite crlf_index_cons2. cbn. f_equal. lia.
    + cbn [no_crlf] in H. apply andb_prop in H. destruct H as [H1 H2].
      change ((a :: b :: r') ++ CR :: LF :: rest) with (a :: b :: (r' ++ CR :: LF :: rest)).
      rewrite crlf_index_cons2. apply negb_true_iff in H1. rewrite H1.
      specialize (IH rest (S i) H2). change ((b :: r') ++ CR :: LF :: rest) with (b :: (r' ++ CR :: LF :: rest)) in IH.
      rewrite IH. cbn [length]. f_equal. lia.
Qed.

Lemma read_line_bounds d line c : read_line d = Some (line, c) ->
  (c = length line + 2 /\ 2 <= c <= length d)%nat /\ line = firstn (c - 2) d.
Proof.
  unfold read_line. destruct (crlf_index d 0) as [i|] eqn:Hi; [|discriminate].
  intros H. inversion H; subst. apply crlf_index_bounds in Hi.
  rewrite firstn_length. split; [lia|]. f_equal. lia.
Qed.

Lemma read_line_ext d x r : read_line d = Some r -> read_line (d ++ x) = Some r.
Proof.
  unfold read_line. destruct (crlf_index d 0) as [i|] eqn:Hi; [|discriminate].
  intros H. inversion H; subst. rewrite (crlf_index_ext d x 0 i Hi).
  pose proof (crlf_index_bounds d 0 i Hi). rewrite firstn_app.
  replace (i - length d)%nat with 0%nat by lia. cbn [firstn]. rewrite app_nil_r. reflexivity.
Qed.

(* a buffer that starts with a non-CR byte never yields an empty line *)
Lemma read_line_nonempty m r line c : m <> CR -> read_line (m :: r) = Some (line, c) -> line <> [].
Proof.
  intros Hm. unfold read_line. destruct (crlf_index (m :: r) 0) as [i|] eqn:Hi; [|discriminate].
  intros H. inversion H; subst. destruct i as [|i]; [|cbn; discriminate].
  exfalso. cbn [crlf_index] in Hi. destruct r as [|b r']; [discriminate|].
  destruct (N.eqb_spec m CR); [contradiction|]. cbn [andb] in Hi.
  apply crlf_index_bounds in Hi. lia.
Qed.

(* ---------------- line_str / line_int ---------------- *)
Definition lfinal {A} (r : lres A) : Prop := match r with LNeedMore => False | _ => True end.

Lemma line_str_ext d x : lfinal (line_str d) -> line_str (d ++ x) = line_str d.
Proof.
  unfold line_str. destruct (read_line d) as [[line c]|] eqn:Hr; [|contradiction].
  intros _. rewrite (read_line_ext d x _ Hr). reflexivity.
Qed.

Lemma line_int_ext d x : lfinal (line_int d) -> line_int (d ++ x) = line_int d.
Proof.
  unfold line_int. intros H. rewrite line_str_ext; [reflexivity|].
  destruct (line_str d); cbn in *; auto.
Qed.


Lemma line_str_bounds d s c : line_str d = LOk s c -> (3 <= c <= length d)%nat /\ utf8_valid s = true /\ (c = length s + 3)%nat.
Proof.
  unfold line_str. destruct (read_line d) as [[line c']|] eqn:Hr; [|discriminate].
  destruct line as [|m s']; [discriminate|]. destruct (utf8_valid s') eqn:Hu; [|discriminate].
  intros H. inversion H; subst. apply read_line_bounds in Hr. cbn [length] in Hr. split; [lia|]. split; [exact Hu|lia].
Qed.

Lemma line_int_bounds d z c : line_int d = LOk z c -> (3 <= c <= length d)%nat.
Proof.
  unfold line_int. destruct (line_str d) as [s c'| | |] eqn:Hs; try discriminate.
  destruct (parse_i64 s); [|discriminate]. intros H. inversion H; subst.
  apply line_str_bounds in Hs. lia.
Qed.

Lemma line_str_no_panic m r : m <> CR -> line_str (m :: r) <> LPanic.
Proof.
  intros Hm. unfold line_str. destruct (read_line (m :: r)) as [[line c]|] eqn:Hr; [|discriminate].
  pose proof (read_line_nonempty m r line c Hm Hr). destruct line; [contradiction|].
  destruct (utf8_valid line); discriminate.
Qed.

Lemma line_int_no_panic m r : m <> CR -> line_int (m :: r) <> LPanic.
Proof.
  intros Hm. unfold line_int. pose proof (line_str_no_panic m r Hm).
  destruct (line_str (m :: r)); try discriminate; [destruct (parse_i64 a); discriminate|contradiction].
Qed.

(* ---------------- totality, consumed range, depth restoration ---------------- *)
Definition ok_range (lo len : nat) (o : outcome) : Prop :=
  match o with POk _ c => (lo <= c <= len)%nat | _ => True end.
Definition depth_kept (dp depth : nat) (o : outcome) : Prop :=
  match o with POk _ _ | PNeedMore => dp = depth | _ => True end.

Definition P_parse (f : nat) : Prop :=
  forall depth d, (2 * length d + 1 <= f)%nat ->
    fst (parse f depth d) <> POutOfFuel /\ fst (parse f depth d) <> PPanic /\
    ok_range 1 (length d) (fst (parse f depth d)) /\
    depth_kept (snd (parse f depth d)) depth (fst (parse f depth d)).
Definition P_elems (f : nat) : Prop :=
  forall depth d n acc consumed, (1 <= consumed <= length d)%nat -> (2 * (length d - consumed) + 2 <= f)%nat ->
    fst (parse_elems f depth d n acc consumed) <> POutOfFuel /\ fst (parse_elems f depth d n acc consumed) <> PPanic /\
    ok_range consumed (length d) (fst (parse_elems f depth d n acc consumed)) /\
    depth_kept (snd (parse_elems f depth d n acc consumed)) (pred depth) (fst (parse_elems f depth d n acc consumed)).

Lemma parse_line_facts mk m r : m <> CR ->
  parse_line mk (m :: r) <> POutOfFuel /\ parse_line mk (m :: r) <> PPanic /\ ok_range 1 (length (m :: r)) (parse_line mk (m :: r)).
Proof.
  intros Hm. unfold parse_line. pose proof (line_str_no_panic m r Hm) as Hp.
  destruct (line_str (m :: r)) as [s c| | |] eqn:Hs.
  - apply line_str_bounds in Hs. repeat split; try discriminate; cbn [ok_range length] in *; lia.
  - repeat split; try discriminate; try exact I.
  - repeat split; try discriminate; try exact I.
  - contradiction.
Qed.

Lemma parse_int_facts m r : m <> CR ->
  parse_int (m :: r) <> POutOfFuel /\ parse_int (m :: r) <> PPanic /\ ok_range 1 (length (m :: r)) (parse_int (m :: r)).
Proof.
  intros Hm. unfold parse_int. pose proof (line_int_no_panic m r Hm) as Hp.
  destruct (line_int (m :: r)) as [s c| | |] eqn:Hs.
  - apply line_int_bounds in Hs. repeat split; try discriminate; cbn [ok_range length] in *; lia.
  - repeat split; try discriminate; try exact I.
  - repeat split; try discriminate; try exact I.
  - contradiction.
Qed.

Lemma parse_bulk_facts m r : m <> CR ->
  parse_bulk (m :: r) <> POutOfFuel /\ parse_bulk (m :: r) <> PPanic /\ ok_range 1 (length (m :: r)) (parse_bulk (m :: r)).
Proof.
  intros Hm. unfold parse_bulk. pose proof (line_int_no_panic m r Hm) as Hp.
  destruct (line_int (m :: r)) as [len c| | |] eqn:Hs;
    [|repeat split; try discriminate; try exact I|repeat split; try discriminate; try exact I|contradiction].
  apply line_int_bounds in Hs.
  destruct (len =? -1)%Z; [repeat split; try discriminate; cbn [ok_range length] in *; lia|].
  destruct ((len <? 0) || (MAX_BULK_STRING_SIZE <? len))%Z eqn:Hr; [repeat split; try discriminate; try exact I|].
  apply orb_false_elim in Hr. destruct Hr as [Hr1 _]. apply Z.ltb_ge in Hr1.
  destruct (Z.ltb_spec (Z.of_nat (length (m :: r))) (Z.of_nat c + len + 2)); [repeat split; try discriminate; try exact I|].
  destruct (utf8_valid _); repeat split; try discriminate; try exact I; cbn [ok_range length] in *; lia.
Qed.

Lemma markers_not_cr : 43 <> CR /\ 45 <> CR /\ 58 <> CR /\ 36 <> CR /\ 42 <> CR.
Proof. unfold CR. repeat split; discriminate. Qed.

Theorem parse_facts : forall f, P_parse f /\ P_elems f.
Proof.
  induction f as [|f [IHp IHe]].
  - split.
    + intros depth d H. lia.
    + intros depth d n acc consumed H1 H2. lia.
  - split.
    + (* parse (S f) *)
      intros depth d Hf. cbn [parse]. destruct d as [|m r]; [cbn [fst snd ok_range depth_kept]; repeat split; try discriminate; auto|].
      destruct markers_not_cr as (M1 & M2 & M3 & M4 & M5).
      destruct (N.eqb_spec m 43) as [->|_].
      { destruct (parse_line_facts Simple 43 r M1) as (A & B & C). cbn [fst snd]. repeat split; auto.
        destruct (parse_line Simple (43 :: r)); cbn [depth_kept]; auto. }
      destruct (N.eqb_spec m 45) as [->|_].
      { destruct (parse_line_facts Error 45 r M2) as (A & B & C). cbn [fst snd]. repeat split; auto.
        destruct (parse_line Error (45 :: r)); cbn [depth_kept]; auto. }
      destruct (N.eqb_spec m 58) as [->|_].
      { destruct (parse_int_facts 58 r M3) as (A & B & C). cbn [fst snd]. repeat split; auto.
        destruct (parse_int (58 :: r)); cbn [depth_kept]; auto. }
      destruct (N.eqb_spec m 36) as [->|_].
      { destruct (parse_bulk_facts 36 r M4) as (A & B & C). cbn [fst snd]. repeat split; auto.
        destruct (parse_bulk (36 :: r)); cbn [depth_kept]; auto. }
      destruct (N.eqb_spec m 42) as [->|_]; [|cbn [fst snd ok_range depth_kept]; repeat split; try discriminate; auto].
      destruct (max_depth <=? depth)%nat; [cbn [fst snd ok_range depth_kept]; repeat split; try discriminate; auto|].
      pose proof (line_int_no_panic 42 r M5) as Hnp.
      destruct (line_int (42 :: r)) as [cnt c| | |] eqn:Hli; try (cbn [fst snd ok_range depth_kept]; repeat split; try discriminate; auto; contradiction).
      pose proof (line_int_bounds _ _ _ Hli) as Hc.
      destruct (cnt =? -1)%Z; [cbn [fst snd ok_range depth_kept]; repeat split; try discriminate; auto; lia|].
      destruct ((cnt <? 0) || (MAX_ARRAY_SIZE <? cnt))%Z; [cbn [fst snd ok_range depth_kept]; repeat split; try discriminate; auto|].
      destruct (IHe (S depth) (42 :: r) (Z.to_N cnt) [] c ltac:(lia) ltac:(cbn [length] in *; lia)) as (A & B & C & D).
      split; [exact A|]. split; [exact B|]. split; [|exact D].
      destruct (fst (parse_elems f (S depth) (42 :: r) (Z.to_N cnt) [] c)); cbn [ok_range] in *; auto; lia.
    + (* parse_elems (S f) *)
      intros depth d n acc consumed Hc Hf. cbn [parse_elems].
      destruct n as [|p]; [cbn [fst snd ok_range depth_kept]; repeat split; try discriminate; auto; lia|].
      destruct (Nat.ltb_spec (length d) consumed); [lia|].
      assert (Hlen : length (skipn consumed d) = (length d - consumed)%nat) by apply skipn_length.
      destruct (IHp depth (skipn consumed d) ltac:(rewrite Hlen; lia)) as (A & B & C & D).
      destruct (parse f depth (skipn consumed d)) as [o dp] eqn:Hp. cbn [fst snd] in *.
      destruct o as [v ec| |e| |].
      * cbn [ok_range depth_kept] in C, D. subst dp. rewrite Hlen in C.
        destruct (IHe depth d (N.pred (N.pos p)) (v :: acc) (consumed + ec)%nat ltac:(lia) ltac:(lia)) as (A' & B' & C' & D').
        split; [exact A'|]. split; [exact B'|]. split; [|exact D'].
        destruct (fst (parse_elems f depth d (N.pred (N.pos p)) (v :: acc) (consumed + ec))); cbn [ok_range] in *; auto; lia.
      * cbn [depth_kept] in D. subst dp. cbn [fst snd ok_range depth_kept]. repeat split; try discriminate; auto.
      * cbn [fst snd ok_range depth_kept]. repeat split; try discriminate; auto.
      * contradiction.
      * contradiction.
Qed.

(* ---------------- more fuel never changes a result ---------------- *)
Definition M_parse (f : nat) : Prop := forall depth d k,
  fst (parse f depth d) <> POutOfFuel -> parse (f + k) depth d = parse f depth d.
Definition M_elems (f : nat) : Prop := forall depth d n acc c k,
  fst (parse_elems f depth d n acc c) <> POutOfFuel -> parse_elems (f + k) depth d n acc c = parse_elems f depth d n acc c.

Theorem fuel_mono : forall f, M_parse f /\ M_elems f.
Proof.
  induction f as [|f [IHp IHe]].
  - split.
    + intros depth d k H. cbn in H. contradiction.
    + intros depth d n acc c k H. destruct n as [|p]; [destruct k; reflexivity|]. cbn in H. contradiction.
  - split.
    + intros depth d k H. change (S f + k)%nat with (S (f + k)). cbn [parse] in *.
      destruct d as [|m r]; [reflexivity|].
      destruct (m =? 43); [reflexivity|]. destruct (m =? 45); [reflexivity|]. destruct (m =? 58); [reflexivity|].
      destruct (m =? 36); [reflexivity|]. destruct (m =? 42); [|reflexivity].
      destruct (max_depth <=? depth)%nat; [reflexivity|].
      destruct (line_int (m :: r)) as [cnt c| | |]; try reflexivity.
      destruct (cnt =? -1)%Z; [reflexivity|]. destruct ((cnt <? 0) || (MAX_ARRAY_SIZE <? cnt))%Z; [reflexivity|].
      apply IHe. exact H.
    + intros depth d n acc c k H. change (S f + k)%nat with (S (f + k)). cbn [parse_elems] in *.
      destruct n as [|p]; [reflexivity|].
      destruct (length d <? c)%nat; [reflexivity|].
      destruct (parse f depth (skipn c d)) as [o dp] eqn:Hp.
      assert (Ho : o <> POutOfFuel) by (intros ->; apply H; reflexivity).
      rewrite (IHp depth (skipn c d) k) by (rewrite Hp; exact Ho). rewrite Hp.
      destruct o; try reflexivity. apply IHe. exact H.
Qed.

(* ---------------- prefix stability ---------------- *)
Definition final (o : outcome) : Prop := match o with POk _ _ | PErr _ | PPanic => True | _ => False end.

Lemma parse_line_ext mk d x : final (parse_line mk d) -> parse_line mk (d ++ x) = parse_line mk d.
Proof.
  unfold parse_line. intros H. rewrite line_str_ext; [reflexivity|]. destruct (line_str d); cbn in *; auto.
Qed.

Lemma parse_int_ext d x : final (parse_int d) -> parse_int (d ++ x) = parse_int d.
Proof.
  unfold parse_int. intros H. rewrite line_int_ext; [reflexivity|]. destruct (line_int d); cbn in *; auto.
Qed.

Lemma parse_bulk_ext d x : final (parse_bulk d) -> parse_bulk (d ++ x) = parse_bulk d.
Proof.
  unfold parse_bulk. intros H.
  assert (Hl : lfinal (line_int d)) by (destruct (line_int d); cbn in *; auto).
  rewrite (line_int_ext d x Hl).
  destruct (line_int d) as [len c| | |] eqn:Hli; try reflexivity.
  destruct (len =? -1)%Z; [reflexivity|]. destruct ((len <? 0) || (MAX_BULK_STRING_SIZE <? len))%Z eqn:Hr; [reflexivity|].
  apply orb_false_elim in Hr. destruct Hr as [Hr1 _]. apply Z.ltb_ge in Hr1.
  destruct (Z.ltb_spec (Z.of_nat (length d)) (Z.of_nat c + len + 2)) as [Hs|Hs]; [cbn in H; contradiction|].
  rewrite app_length. destruct (Z.ltb_spec (Z.of_nat (length d + length x)) (Z.of_nat c + len + 2)); [lia|].
  rewrite skipn_app. rewrite firstn_app.
  assert (Hz : (Z.to_nat len - length (skipn c d) = 0)%nat) by (rewrite skipn_length; lia).
  rewrite Hz. cbn [firstn]. rewrite app_nil_r. reflexivity.
Qed.

Definition E_parse (f : nat) : Prop := forall depth d x,
  final (fst (parse f depth d)) -> parse f depth (d ++ x) = parse f depth d.
Definition E_elems (f : nat) : Prop := forall depth d x n acc c,
  (c <= length d)%nat -> final (fst (parse_elems f depth d n acc c)) ->
  parse_elems f depth (d ++ x) n acc c = parse_elems f depth d n acc c.

Theorem ext_stable : forall f, E_parse f /\ E_elems f.
Proof.
  induction f as [|f [IHp IHe]].
  - split.
    + intros depth d x H. cbn in H. contradiction.
    + intros depth d x n acc c Hc H. destruct n; [reflexivity|]. cbn in H. contradiction.
  - split.
    + intros depth d x H. cbn [parse] in *. destruct d as [|m r]; [cbn in H; contradiction|].
      cbn [app].
      destruct (m =? 43); [cbn [fst] in H; rewrite <- (parse_line_ext Simple (m :: r) x H); reflexivity|].
      destruct (m =? 45); [cbn [fst] in H; rewrite <- (parse_line_ext Error (m :: r) x H); reflexivity|].
      destruct (m =? 58); [cbn [fst] in H; rewrite <- (parse_int_ext (m :: r) x H); reflexivity|].
      destruct (m =? 36); [cbn [fst] in H; rewrite <- (parse_bulk_ext (m :: r) x H); reflexivity|].
      destruct (m =? 42); [|reflexivity].
      destruct (max_depth <=? depth)%nat; [reflexivity|].
      change (m :: r ++ x) with ((m :: r) ++ x).
      assert (Hl : lfinal (line_int (m :: r))).
      { destruct (line_int (m :: r)); cbn in *; auto. }
      rewrite (line_int_ext (m :: r) x Hl).
      destruct (line_int (m :: r)) as [cnt c| | |] eqn:Hli; try reflexivity.
      destruct (cnt =? -1)%Z; [reflexivity|]. destruct ((cnt <? 0) || (MAX_ARRAY_SIZE <? cnt))%Z; [reflexivity|].
      apply IHe; [apply line_int_bounds in Hli; lia|exact H].
    + intros depth d x n acc c Hc H. cbn [parse_elems] in *.
      destruct n as [|p]; [reflexivity|].
      rewrite app_length.
      destruct (Nat.ltb_spec (length d) c); [lia|]. destruct (Nat.ltb_spec (length d + length x) c); [lia|].
      rewrite skipn_app. replace (c - length d)%nat with 0%nat by lia. cbn [skipn].
      destruct (parse f depth (skipn c d)) as [o dp] eqn:Hp.
      assert (Hf : final o) by (destruct o; cbn in *; auto).
      rewrite (IHp depth (skipn c d) x) by (rewrite Hp; exact Hf). rewrite Hp.
      destruct o as [v ec| | | |]; try reflexivity.
      apply IHe; [|exact H].
      pose proof (parse_facts f) as [Pp _].
      (* the consumed length of the element is within the remaining data whenever fuel sufficed;
         without that knowledge we bound it by a case analysis on the result *)
      destruct (Nat.le_gt_cases (c + ec) (length d)) as [Hle|Hgt]; [exact Hle|].
      exfalso. clear IHe.
      (* ec > remaining length: impossible for a POk result (consumed range), shown via fuel_mono + parse_facts *)
      pose proof (fuel_mono f) as [Mp _].
      assert (Hne : fst (parse f depth (skipn c d)) <> POutOfFuel) by (rewrite Hp; discriminate).
      specialize (Mp depth (skipn c d) (2 * length (skipn c d) + 1)%nat Hne).
      pose proof (parse_facts (f + (2 * length (skipn c d) + 1))) as [Pbig _].
      specialize (Pbig depth (skipn c d) ltac:(lia)). rewrite Mp, Hp in Pbig. cbn [fst snd ok_range] in Pbig.
      destruct Pbig as (_ & _ & Hr & _). rewrite skipn_length in Hr. lia.
Qed.

(* ---------------- top level: RespParser::parse on a parser at depth [depth] ---------------- *)
Lemma fuel_for_app d x : fuel_for (d ++ x) = (fuel_for d + 2 * length x)%nat.
Proof. unfold fuel_for. rewrite app_length. lia. Qed.

Theorem parse_with_total depth d :
  fst (parse_with depth d) <> POutOfFuel /\ fst (parse_with depth d) <> PPanic /\
  ok_range 1 (length d) (fst (parse_with depth d)) /\
  depth_kept (snd (parse_with depth d)) depth (fst (parse_with depth d)).
Proof.
  unfold parse_with. destruct (parse_facts (fuel_for d)) as [Pp _]. apply Pp. unfold fuel_for. lia.
Qed.

(* once a value or an error has been returned for a buffer, every extension gives the same outcome *)
Theorem parse_with_ext depth d x :
  final (fst (parse_with depth d)) -> parse_with depth (d ++ x) = parse_with depth d.
Proof.
  unfold parse_with. intros H. rewrite fuel_for_app.
  destruct (fuel_mono (fuel_for d)) as [Mp _].
  assert (Hne : fst (parse (fuel_for d) depth d) <> POutOfFuel) by (destruct (fst (parse (fuel_for d) depth d)); cbn in H; try contradiction; discriminate).
  pose proof (Mp depth d (2 * length x)%nat Hne) as Hm.
  destruct (ext_stable (fuel_for d + 2 * length x)) as [Ep _].
  rewrite (Ep depth d x) by (rewrite Hm; exact H). exact Hm.
Qed.

(* a strict prefix of a complete frame needs more data *)
Theorem strict_prefix_needs_more depth p s v :
  s <> [] -> fst (parse_with depth (p ++ s)) = POk v (length (p ++ s)) ->
  fst (parse_with depth p) = PNeedMore.
Proof.
  intros Hs Hfull.
  destruct (parse_with_total depth p) as (A & B & C & _).
  destruct (fst (parse_with depth p)) as [v' c'| |e| |] eqn:Hp; try reflexivity; try contradiction.
  - assert (Hf : final (fst (parse_with depth p))) by (rewrite Hp; exact I).
    rewrite (parse_with_ext depth p s Hf), Hp in Hfull. inversion Hfull; subst.
    cbn [ok_range] in C. rewrite app_length in C. destruct s; [contradiction|]. cbn [length] in C. lia.
  - assert (Hf : final (fst (parse_with depth p))) by (rewrite Hp; exact I).
    rewrite (parse_with_ext depth p s Hf), Hp in Hfull. discriminate.
Qed.

(* ---------------- declared sizes and nesting beyond the limits are rejected ---------------- *)
Lemma bulk_limit d len c : line_int d = LOk len c -> (len < -1 \/ MAX_BULK_STRING_SIZE < len)%Z ->
  parse_bulk d = PErr BadBulkLen.
Proof.
  intros Hl Hr. unfold parse_bulk. rewrite Hl.
  destruct (Z.eqb_spec len (-1)); [unfold MAX_BULK_STRING_SIZE in Hr; lia|].
  destruct (Z.ltb_spec len 0); destruct (Z.ltb_spec MAX_BULK_STRING_SIZE len); try reflexivity. lia.
Qed.

Lemma array_limit f depth r cnt c : (depth < max_depth)%nat -> line_int (42 :: r) = LOk cnt c ->
  (cnt < -1 \/ MAX_ARRAY_SIZE < cnt)%Z ->
  parse (S f) depth (42 :: r) = (PErr BadArrayLen, depth).
Proof.
  intros Hd Hl Hr. cbn [parse].
  change (42 =? 43) with false. change (42 =? 45) with false. change (42 =? 58) with false. change (42 =? 36) with false.
  change (42 =? 42) with true. cbn iota.
  destruct (Nat.leb_spec max_depth depth); [lia|]. rewrite Hl.
  destruct (Z.eqb_spec cnt (-1)); [unfold MAX_ARRAY_SIZE in Hr; lia|].
  destruct (Z.ltb_spec cnt 0); destruct (Z.ltb_spec MAX_ARRAY_SIZE cnt); try reflexivity. lia.
Qed.

Lemma depth_limit f depth r : (max_depth <= depth)%nat -> parse (S f) depth (42 :: r) = (PErr TooDeep, depth).
Proof.
  intros Hd. cbn [parse].
  change (42 =? 43) with false. change (42 =? 45) with false. change (42 =? 58) with false. change (42 =? 36) with false.
  change (42 =? 42) with true. cbn iota. destruct (Nat.leb_spec max_depth depth); [reflexivity|lia].
Qed.

Lemma max_depth_value : max_depth = Z.to_nat MAX_ARRAY_DEPTH.
Proof. reflexivity. Qed.
