(* C14: decode (encode v ++ rest) = (v, |encode v|) for every well-formed value, at any nesting
   depth within the limit; everything the parser returns is well-formed. *)
From Coq Require Import ZArith NArith List Bool Lia.
Import ListNotations.
Require Import TC.Generated.Consts TC.Resp.Utf8 TC.Resp.Decimal TC.Resp.Parse TC.Resp.ParseProofs.
Open Scope N_scope.

(* induction principle for the nested value type *)
Section ValueInd.
Variable P : value -> Prop.
Hypothesis HS : forall s, P (Simple s).
Hypothesis HE : forall s, P (Error s).
Hypothesis HI : forall z, P (Int z).
Hypothesis HB : forall s, P (Bulk s).
Hypothesis HA : forall l, Forall P l -> P (Arr l).
Fixpoint value_ind2 (v : value) : P v :=
  match v with
  | Simple s => HS s
  | Error s => HE s
  | Int z => HI z
  | Bulk s => HB s
  | Arr l => HA l ((fix go (l : list value) : Forall P l :=
                      match l with [] => Forall_nil P | x :: r => Forall_cons x (value_ind2 x) (go r) end) l)
  end.
End ValueInd.

Fixpoint vdepth (v : value) : nat :=
  match v with
  | Arr l => S ((fix mx (l : list value) : nat := match l with [] => 0%nat | x :: r => Nat.max (vdepth x) (mx r) end) l)
  | _ => 0%nat
  end.
Fixpoint ldepth (l : list value) : nat := match l with [] => 0%nat | x :: r => Nat.max (vdepth x) (ldepth r) end.
Lemma vdepth_arr l : vdepth (Arr l) = S (ldepth l).
Proof. reflexivity. Qed.

(* well-formed values: what can be encoded and decoded back *)
Fixpoint wf (v : value) : bool :=
  match v with
  | Simple s | Error s => utf8_valid s && no_crlf s
  | Int z => in_i64b z
  | Bulk None => true
  | Bulk (Some s) => utf8_valid s && (Z.of_nat (length s) <=? MAX_BULK_STRING_SIZE)%Z
  | Arr l => (Z.of_nat (length l) <=? MAX_ARRAY_SIZE)%Z &&
             (fix all (l : list value) : bool := match l with [] => true | x :: r => wf x && all r end) l
  end.
Fixpoint wf_list (l : list value) : bool := match l with [] => true | x :: r => wf x && wf_list r end.
Lemma wf_arr l : wf (Arr l) = (Z.of_nat (length l) <=? MAX_ARRAY_SIZE)%Z && wf_list l.
Proof. reflexivity. Qed.

(* ---------------- line helpers ---------------- *)
Definition not_cr (b : N) : bool := negb (b =? CR).

Lemma no_crlf_cons2 a b r : no_crlf (a :: b :: r) = negb ((a =? CR) && (b =? LF)) && no_crlf (b :: r).
Proof. reflexivity. Qed.

Lemma no_cr_no_crlf s : forallb not_cr s = true -> no_crlf s = true.
Proof.
  induction s as [|a r IH]; [reflexivity|]. cbn [forallb]. intros H. apply andb_prop in H. destruct H as [Ha Hr].
  destruct r as [|b r']; [reflexivity|]. rewrite no_crlf_cons2. rewrite (IH Hr), andb_true_r.
  unfold not_cr in Ha. apply negb_true_iff in Ha. rewrite Ha. reflexivity.
Qed.

Lemma no_crlf_cons m s : m <> CR -> no_crlf s = true -> no_crlf (m :: s) = true.
Proof.
  intros Hm Hs. destruct s as [|b r]; [reflexivity|]. rewrite no_crlf_cons2.
  destruct (N.eqb_spec m CR); [contradiction|]. cbn [andb negb]. exact Hs.
Qed.

Lemma firstn_exact {A} (a b : list A) : firstn (length a) (a ++ b) = a.
Proof. rewrite firstn_app, Nat.sub_diag, firstn_all. cbn. apply app_nil_r. Qed.
Lemma skipn_exact {A} (a b : list A) : skipn (length a) (a ++ b) = b.
Proof. rewrite skipn_app, Nat.sub_diag, skipn_all. reflexivity. Qed.

Lemma line_str_found m s rest :
  m <> CR -> no_crlf s = true -> utf8_valid s = true ->
  line_str (m :: s ++ CR :: LF :: rest) = LOk s (length s + 3).
Proof.
  intros Hm Hn Hu. unfold line_str, read_line.
  change (m :: s ++ CR :: LF :: rest) with ((m :: s) ++ CR :: LF :: rest).
  rewrite (crlf_index_found (m :: s) rest 0 (no_crlf_cons m s Hm Hn)).
  cbn [Nat.add]. rewrite firstn_exact. rewrite Hu. cbn [length]. f_equal. lia.
Qed.

Definition digit_or_minus (b : N) : bool := is_digit b || (b =? 45).

Lemma print_Z_chars z : in_i64b z = true -> forallb not_cr (print_Z z) = true /\ forallb is_ascii (print_Z z) = true.
Proof.
  intros Hz. unfold in_i64b, i64min, i64max in Hz. apply andb_prop in Hz. destruct Hz as [H1 H2].
  apply Z.leb_le in H1, H2.
  assert (Hd : forall l, forallb is_digit l = true -> forallb not_cr l = true /\ forallb is_ascii l = true).
  { intros l Hl. split; [|apply digits_ascii; exact Hl].
    induction l as [|b r IH]; [reflexivity|]. cbn [forallb] in *. apply andb_prop in Hl. destruct Hl as [Hb Hr].
    rewrite (IH Hr), andb_true_r. unfold is_digit in Hb. apply andb_prop in Hb. destruct Hb as [Hb1 Hb2].
    apply N.leb_le in Hb1, Hb2. unfold not_cr, CR. apply negb_true_iff. apply N.eqb_neq. lia. }
  unfold print_Z. destruct (Z.ltb_spec z 0).
  - destruct (print_nonneg_spec (- z) ltac:(lia)) as (_ & Hall & _). destruct (Hd _ Hall) as [A B].
    cbn [forallb]. rewrite A, B. split; reflexivity.
  - destruct (print_nonneg_spec z ltac:(lia)) as (_ & Hall & _). apply Hd. exact Hall.
Qed.

Lemma line_int_found m z rest :
  m <> CR -> in_i64b z = true ->
  line_int (m :: print_Z z ++ CR :: LF :: rest) = LOk z (length (print_Z z) + 3).
Proof.
  intros Hm Hz. destruct (print_Z_chars z Hz) as [Hc Ha].
  unfold line_int. rewrite (line_str_found m (print_Z z) rest Hm (no_cr_no_crlf _ Hc) (ascii_valid _ Ha)).
  rewrite (parse_print z Hz). reflexivity.
Qed.

Lemma len_in_i64 n : (Z.of_nat n <= 9223372036854775807)%Z -> in_i64b (Z.of_nat n) = true.
Proof. intros H. unfold in_i64b, i64min, i64max. apply andb_true_intro. split; apply Z.leb_le; lia. Qed.

Lemma max_sizes : (MAX_BULK_STRING_SIZE <= 9223372036854775807)%Z /\ (MAX_ARRAY_SIZE <= 9223372036854775807)%Z /\
                  (0 <= MAX_BULK_STRING_SIZE)%Z /\ (0 <= MAX_ARRAY_SIZE)%Z.
Proof. unfold MAX_BULK_STRING_SIZE, MAX_ARRAY_SIZE. lia. Qed.

Lemma serialize_nonempty v : (1 <= length (serialize v))%nat.
Proof. destruct v as [s|s|z|[s|]|l]; try rewrite serialize_arr; cbn [serialize length]; lia. Qed.

Lemma shape_simple s rest : serialize (Simple s) ++ rest = 43 :: s ++ CR :: LF :: rest.
Proof. cbn [serialize app]. unfold crlf. rewrite <- app_assoc. reflexivity. Qed.
Lemma shape_error s rest : serialize (Error s) ++ rest = 45 :: s ++ CR :: LF :: rest.
Proof. cbn [serialize app]. unfold crlf. rewrite <- app_assoc. reflexivity. Qed.
Lemma shape_int z rest : serialize (Int z) ++ rest = 58 :: print_Z z ++ CR :: LF :: rest.
Proof. cbn [serialize app]. unfold crlf. rewrite <- app_assoc. reflexivity. Qed.
Lemma shape_bulk s rest : serialize (Bulk (Some s)) ++ rest = 36 :: print_Z (Z.of_nat (length s)) ++ CR :: LF :: s ++ CR :: LF :: rest.
Proof. cbn [serialize app]. unfold crlf, print_len. rewrite <- !app_assoc. reflexivity. Qed.
Lemma shape_arr l rest : serialize (Arr l) ++ rest = 42 :: print_Z (Z.of_nat (length l)) ++ CR :: LF :: ser_list l ++ rest.
Proof. rewrite serialize_arr. cbn [app]. unfold crlf, print_len. rewrite <- !app_assoc. reflexivity. Qed.
Lemma len_simple s : length (serialize (Simple s)) = (length s + 3)%nat.
Proof. cbn [serialize length]. rewrite app_length. cbn. lia. Qed.
Lemma len_error s : length (serialize (Error s)) = (length s + 3)%nat.
Proof. cbn [serialize length]. rewrite app_length. cbn. lia. Qed.
Lemma len_int z : length (serialize (Int z)) = (length (print_Z z) + 3)%nat.
Proof. cbn [serialize length]. rewrite app_length. cbn. lia. Qed.
Lemma len_bulk s : length (serialize (Bulk (Some s))) = (length (print_Z (Z.of_nat (length s))) + 3 + length s + 2)%nat.
Proof. cbn [serialize length]. unfold print_len, crlf. rewrite !app_length. cbn [length]. lia. Qed.
Lemma len_arr l : length (serialize (Arr l)) = (length (print_Z (Z.of_nat (length l))) + 3 + length (ser_list l))%nat.
Proof. rewrite serialize_arr. cbn [length]. unfold print_len, crlf. rewrite !app_length. cbn [length]. lia. Qed.

(* ---------------- round trip ---------------- *)
Definition RT (v : value) : Prop :=
  wf v = true -> forall depth rest f,
  (depth + vdepth v <= max_depth)%nat -> (2 * length (serialize v ++ rest) + 1 <= f)%nat ->
  parse f depth (serialize v ++ rest) = (POk v (length (serialize v)), depth).

Lemma rt_elems : forall (l : list value), Forall RT l -> wf_list l = true ->
  forall f depth d pre rest acc,
  (S depth + ldepth l <= max_depth)%nat ->
  d = pre ++ ser_list l ++ rest -> (1 <= length pre)%nat ->
  (2 * (length d - length pre) + 2 <= f)%nat ->
  parse_elems f (S depth) d (N.of_nat (length l)) acc (length pre) =
  (POk (Arr (rev acc ++ l)) (length pre + length (ser_list l)), depth).
Proof.
  induction l as [|x r IH]; intros HF Hwf f depth d pre rest acc Hdep Hd Hpre Hf.
  - cbn [length N.of_nat ser_list]. destruct f; cbn [parse_elems]; rewrite app_nil_r, Nat.add_0_r; reflexivity.
  - apply Forall_cons_iff in HF. destruct HF as [Hx Hr].
    cbn [wf_list] in Hwf. apply andb_prop in Hwf. destruct Hwf as [Hwx Hwr].
    cbn [ldepth] in Hdep.
    destruct f as [|f]; [lia|].
    cbn [length]. rewrite Nat2N.inj_succ. cbn [parse_elems].
    destruct (N.succ (N.of_nat (length r))) eqn:Hn; [lia|]. rewrite <- Hn.
    assert (Hlen : length d = (length pre + length (ser_list (x :: r)) + length rest)%nat) by (subst d; rewrite !app_length; lia).
    destruct (Nat.ltb_spec (length d) (length pre)); [lia|].
    assert (Hsk : skipn (length pre) d = serialize x ++ (ser_list r ++ rest)).
    { subst d. rewrite skipn_exact. cbn [ser_list]. rewrite <- app_assoc. reflexivity. }
    rewrite Hsk.
    rewrite (Hx Hwx (S depth) (ser_list r ++ rest) f ltac:(lia)
               ltac:(rewrite <- Hsk, skipn_length; lia)).
    rewrite N.pred_succ.
    specialize (IH Hr Hwr f depth d (pre ++ serialize x) rest (x :: acc) ltac:(lia)).
    rewrite app_length in IH.
    rewrite IH.
    + cbn [rev ser_list]. rewrite <- app_assoc. cbn [app]. rewrite app_length. f_equal. f_equal. lia.
    + subst d. cbn [ser_list]. rewrite <- !app_assoc. reflexivity.
    + lia.
    + cbn [ser_list] in Hlen. rewrite app_length in Hlen. pose proof (serialize_nonempty x). lia.
Qed.

Theorem roundtrip : forall v, RT v.
Proof.
  destruct markers_not_cr as (M1 & M2 & M3 & M4 & M5).
  destruct max_sizes as (S1 & S2 & S3 & S4).
  apply value_ind2; unfold RT.
  - (* Simple *)
    intros s Hwf depth rest f Hd Hf. cbn [wf] in Hwf. apply andb_prop in Hwf. destruct Hwf as [Hu Hn].
    destruct f; [lia|]. rewrite shape_simple, len_simple. cbn [parse].
    change (43 =? 43) with true. cbn iota. unfold parse_line.
    rewrite (line_str_found 43 s rest M1 Hn Hu). reflexivity.
  - (* Error *)
    intros s Hwf depth rest f Hd Hf. cbn [wf] in Hwf. apply andb_prop in Hwf. destruct Hwf as [Hu Hn].
    destruct f; [lia|]. rewrite shape_error, len_error. cbn [parse].
    change (45 =? 43) with false. change (45 =? 45) with true. cbn iota. unfold parse_line.
    rewrite (line_str_found 45 s rest M2 Hn Hu). reflexivity.
  - (* Int *)
    intros z Hwf depth rest f Hd Hf. cbn [wf] in Hwf.
    destruct f; [lia|]. rewrite shape_int, len_int. cbn [parse].
    change (58 =? 43) with false. change (58 =? 45) with false. change (58 =? 58) with true. cbn iota. unfold parse_int.
    rewrite (line_int_found 58 z rest M3 Hwf). reflexivity.
  - (* Bulk *)
    intros [s|] Hwf depth rest f Hd Hf.
    + cbn [wf] in Hwf. apply andb_prop in Hwf. destruct Hwf as [Hu Hl]. apply Z.leb_le in Hl.
      destruct f; [lia|]. rewrite shape_bulk, len_bulk. cbn [parse].
      change (36 =? 43) with false. change (36 =? 45) with false. change (36 =? 58) with false. change (36 =? 36) with true.
      cbn iota. unfold parse_bulk.
      rewrite (line_int_found 36 (Z.of_nat (length s)) (s ++ CR :: LF :: rest) M4 (len_in_i64 (length s) ltac:(lia))).
      set (P := print_Z (Z.of_nat (length s))).
      destruct (Z.eqb_spec (Z.of_nat (length s)) (-1)); [lia|].
      destruct (Z.ltb_spec (Z.of_nat (length s)) 0); [lia|]. destruct (Z.ltb_spec MAX_BULK_STRING_SIZE (Z.of_nat (length s))); [lia|].
      cbn [orb]. rewrite Nat2Z.id.
      assert (Heq : 36 :: P ++ CR :: LF :: s ++ CR :: LF :: rest = (36 :: P ++ [CR; LF]) ++ s ++ CR :: LF :: rest)
        by (cbn [app]; rewrite <- app_assoc; reflexivity).
      assert (Hpl : length (36 :: P ++ [CR; LF]) = (length P + 3)%nat) by (cbn [length]; rewrite app_length; cbn [length]; lia).
      rewrite Heq. rewrite app_length, Hpl, app_length. cbn [length].
      destruct (Z.ltb_spec (Z.of_nat (length P + 3 + (length s + S (S (length rest))))) (Z.of_nat (length P + 3) + Z.of_nat (length s) + 2)); [lia|].
      rewrite <- Hpl, skipn_exact, firstn_exact, Hu, Hpl. reflexivity.
    + destruct f; [lia|]. cbn [serialize app parse].
      change (36 =? 43) with false. change (36 =? 45) with false. change (36 =? 58) with false. change (36 =? 36) with true.
      cbn iota. unfold parse_bulk.
      change (36 :: 45 :: 49 :: 13 :: 10 :: rest) with (36 :: print_Z (-1) ++ CR :: LF :: rest).
      rewrite (line_int_found 36 (-1) rest M4 eq_refl). reflexivity.
  - (* Arr *)
    intros l HF Hwf depth rest f Hd Hf. rewrite wf_arr in Hwf. apply andb_prop in Hwf. destruct Hwf as [Hl Hwl].
    apply Z.leb_le in Hl. rewrite vdepth_arr in Hd.
    destruct f; [lia|]. rewrite shape_arr in *. rewrite len_arr. cbn [parse].
    change (42 =? 43) with false. change (42 =? 45) with false. change (42 =? 58) with false. change (42 =? 36) with false.
    change (42 =? 42) with true. cbn iota.
    destruct (Nat.leb_spec max_depth depth); [lia|].
    rewrite (line_int_found 42 (Z.of_nat (length l)) (ser_list l ++ rest) M5 (len_in_i64 (length l) ltac:(lia))).
    set (P := print_Z (Z.of_nat (length l))) in *.
    destruct (Z.eqb_spec (Z.of_nat (length l)) (-1)); [lia|].
    destruct (Z.ltb_spec (Z.of_nat (length l)) 0); [lia|]. destruct (Z.ltb_spec MAX_ARRAY_SIZE (Z.of_nat (length l))); [lia|].
    cbn [orb]. rewrite <- nat_N_Z, N2Z.id.
    assert (Hpl : length (42 :: P ++ [CR; LF]) = (length P + 3)%nat) by (cbn [length]; rewrite app_length; cbn [length]; lia).
    pose proof (rt_elems l HF Hwl f depth (42 :: P ++ CR :: LF :: ser_list l ++ rest) (42 :: P ++ [CR; LF]) rest []
                  ltac:(lia) ltac:(cbn [app]; rewrite <- app_assoc; reflexivity)
                  ltac:(cbn [length]; lia)) as Hel.
    rewrite Hpl in Hel. rewrite Hel.
    + reflexivity.
    + cbn [length] in *. rewrite !app_length in *. cbn [length] in *. rewrite !app_length in *. lia.
Qed.

(* top level, fresh parser *)
Theorem roundtrip_top v rest :
  wf v = true -> (vdepth v <= max_depth)%nat ->
  parse_top (serialize v ++ rest) = POk v (length (serialize v)).
Proof.
  intros Hwf Hd. unfold parse_top, parse_with.
  rewrite (roundtrip v Hwf 0%nat rest (fuel_for (serialize v ++ rest)) ltac:(lia) ltac:(unfold fuel_for; lia)).
  reflexivity.
Qed.
