(* Byte strings and the model of Rust's str::from_utf8 (Unicode 15 Table 3-7: well-formed UTF-8
   byte sequences: no overlong forms, no surrogates, nothing above U+10FFFF). A Rust String/&str
   is a byte list on which [utf8_valid] holds. *)
From Coq Require Import NArith List Bool Lia.
Import ListNotations.
Open Scope N_scope.

Definition byte := N.
Definition bytes := list N.

(* DFA state: how many continuation bytes are still expected, and the allowed range of the next one *)
Inductive ustate := UStart | UCont (remaining : nat) (lo hi : N) | UBad.

Definition ustep (s : ustate) (b : N) : ustate :=
  match s with
  | UBad => UBad
  | UStart =>
      if b <=? 127 then UStart
      else if (194 <=? b) && (b <=? 223) then UCont 1 128 191
      else if b =? 224 then UCont 2 160 191
      else if ((225 <=? b) && (b <=? 236)) || (b =? 238) || (b =? 239) then UCont 2 128 191
      else if b =? 237 then UCont 2 128 159
      else if b =? 240 then UCont 3 144 191
      else if (241 <=? b) && (b <=? 243) then UCont 3 128 191
      else if b =? 244 then UCont 3 128 143
      else UBad
  | UCont n lo hi =>
      if (lo <=? b) && (b <=? hi) then
        match n with
        | S (S m) => UCont (S m) 128 191
        | _ => UStart
        end
      else UBad
  end.

Definition urun (s : ustate) (l : bytes) : ustate := fold_left ustep l s.
Definition utf8_valid (l : bytes) : bool := match urun UStart l with UStart => true | _ => false end.

Lemma urun_app s a b : urun s (a ++ b) = urun (urun s a) b.
Proof. unfold urun. apply fold_left_app. Qed.

Lemma urun_bad l : urun UBad l = UBad.
Proof. induction l; cbn; auto. Qed.

Lemma utf8_valid_app a b : utf8_valid a = true -> utf8_valid (a ++ b) = utf8_valid b.
Proof.
  unfold utf8_valid. rewrite urun_app. destruct (urun UStart a); try discriminate. reflexivity.
Qed.

Definition is_ascii (b : N) : bool := b <=? 127.

Lemma ascii_run l : forallb is_ascii l = true -> urun UStart l = UStart.
Proof.
  induction l as [|b r IH]; cbn [forallb urun fold_left]; [reflexivity|].
  intros H. apply andb_prop in H. destruct H as [Hb Hr]. unfold is_ascii in Hb.
  cbn [ustep]. rewrite Hb. apply IH. exact Hr.
Qed.

Lemma ascii_valid l : forallb is_ascii l = true -> utf8_valid l = true.
Proof. intros H. unfold utf8_valid. rewrite (ascii_run l H). reflexivity. Qed.

(* byte-list equality *)
Fixpoint bytes_eqb (a b : bytes) : bool :=
  match a, b with
  | [], [] => true
  | x :: a', y :: b' => (x =? y) && bytes_eqb a' b'
  | _, _ => false
  end.
Lemma bytes_eqb_spec a b : reflect (a = b) (bytes_eqb a b).
Proof.
  revert b. induction a as [|x a IH]; intros [|y b]; cbn; try (constructor; congruence).
  destruct (N.eqb_spec x y); cbn; [|constructor; congruence].
  destruct (IH b); constructor; congruence.
Qed.

Definition CR : N := 13.
Definition LF : N := 10.
