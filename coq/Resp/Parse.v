(* Executable model of the RESP codec (throttlecrab-server/src/transport/redis/resp.rs):
   RespValue, RespParser::parse (with the parser's mutable nesting depth threaded through),
   RespSerializer::serialize.  Every slice the Rust code takes is an explicit bounds check here:
   an out-of-range slice is the outcome [PPanic]. *)
From Coq Require Import ZArith NArith List Bool Lia.
Import ListNotations.
Require Import TC.Generated.Consts TC.Resp.Utf8 TC.Resp.Decimal.
Open Scope N_scope.

Inductive value :=
| Simple (s : bytes)
| Error (s : bytes)
| Int (z : Z)
| Bulk (s : option bytes)
| Arr (l : list value).

Inductive perr := BadMarker | BadUtf8 | BadInt | BadBulkLen | BadArrayLen | TooDeep.

Inductive outcome :=
| POk (v : value) (consumed : nat)       (* Ok(Some((value, consumed))) *)
| PNeedMore                              (* Ok(None) *)
| PErr (e : perr)                        (* Err(_): the connection is closed *)
| PPanic                                 (* slice out of bounds *)
| POutOfFuel.                            (* artefact of the model; proved unreachable *)

Definition max_depth : nat := Z.to_nat MAX_ARRAY_DEPTH.

(* read_line: first i < len-1 with d[i] = CR and d[i+1] = LF; returns (d[..i], i + 2) *)
Fixpoint crlf_index (d : bytes) (i : nat) : option nat :=
  match d with
  | a :: ((b :: _) as r) => if (a =? CR) && (b =? LF) then Some i else crlf_index r (S i)
  | _ => None
  end.
Definition read_line (d : bytes) : option (bytes * nat) :=
  match crlf_index d 0 with
  | Some i => Some (firstn i d, (i + 2)%nat)
  | None => None
  end.

Inductive lres (A : Type) := LOk (a : A) (consumed : nat) | LNeedMore | LErr (e : perr) | LPanic.
Arguments LOk {A}. Arguments LNeedMore {A}. Arguments LErr {A}. Arguments LPanic {A}.

(* str::from_utf8(&line[1..]) after read_line *)
Definition line_str (d : bytes) : lres bytes :=
  match read_line d with
  | None => LNeedMore
  | Some (line, c) =>
      match line with
      | [] => LPanic                                   (* &line[1..] on an empty line *)
      | _ :: s => if utf8_valid s then LOk s c else LErr BadUtf8
      end
  end.

(* ... followed by .parse::<i64>() *)
Definition line_int (d : bytes) : lres Z :=
  match line_str d with
  | LOk s c => match parse_i64 s with Some z => LOk z c | None => LErr BadInt end
  | LNeedMore => LNeedMore
  | LErr e => LErr e
  | LPanic => LPanic
  end.

Definition parse_line (mk : bytes -> value) (d : bytes) : outcome :=
  match line_str d with
  | LOk s c => POk (mk s) c
  | LNeedMore => PNeedMore
  | LErr e => PErr e
  | LPanic => PPanic
  end.

Definition parse_int (d : bytes) : outcome :=
  match line_int d with
  | LOk z c => POk (Int z) c
  | LNeedMore => PNeedMore
  | LErr e => PErr e
  | LPanic => PPanic
  end.

Definition parse_bulk (d : bytes) : outcome :=
  match line_int d with
  | LOk len c =>
      if (len =? -1)%Z then POk (Bulk None) c
      else if ((len <? 0) || (MAX_BULK_STRING_SIZE <? len))%Z then PErr BadBulkLen
      else
        (* data.len() < consumed + length + 2, compared in Z: a declared length is never turned
           into a unary number unless the data really is that long *)
        if (Z.of_nat (length d) <? Z.of_nat c + len + 2)%Z then PNeedMore
        else
          let n := Z.to_nat len in
          (* &data[consumed..consumed + length]: in bounds by the test above *)
          let s := firstn n (skipn c d) in
          if utf8_valid s then POk (Bulk (Some s)) (c + n + 2)%nat else PErr BadUtf8
  | LNeedMore => PNeedMore
  | LErr e => PErr e
  | LPanic => PPanic
  end.

(* parse: (outcome, parser depth afterwards) *)
Fixpoint parse (fuel : nat) (depth : nat) (d : bytes) {struct fuel} : outcome * nat :=
  match fuel with
  | O => (POutOfFuel, depth)
  | S f =>
      match d with
      | [] => (PNeedMore, depth)
      | m :: _ =>
          if m =? 43 then (parse_line Simple d, depth)
          else if m =? 45 then (parse_line Error d, depth)
          else if m =? 58 then (parse_int d, depth)
          else if m =? 36 then (parse_bulk d, depth)
          else if m =? 42 then
            if (max_depth <=? depth)%nat then (PErr TooDeep, depth)
            else
              match line_int d with
              | LOk cnt c =>
                  if (cnt =? -1)%Z then (POk (Arr []) c, depth)
                  else if ((cnt <? 0) || (MAX_ARRAY_SIZE <? cnt))%Z then (PErr BadArrayLen, depth)
                  else parse_elems f (S depth) d (Z.to_N cnt) [] c       (* self.depth += 1 *)
              | LNeedMore => (PNeedMore, depth)
              | LErr e => (PErr e, depth)
              | LPanic => (PPanic, depth)
              end
          else (PErr BadMarker, depth)
      end
  end
(* the element loop; [depth] is the parser depth inside the array (already incremented) *)
with parse_elems (fuel : nat) (depth : nat) (d : bytes) (n : N) (acc : list value) (consumed : nat)
       {struct fuel} : outcome * nat :=
  match n with
  | 0 => (POk (Arr (rev acc)) consumed, pred depth)                     (* self.depth -= 1 *)
  | _ =>
      match fuel with
      | O => (POutOfFuel, depth)
      | S f =>
          if (length d <? consumed)%nat then (PPanic, depth)              (* &data[consumed..] *)
          else
            match parse f depth (skipn consumed d) with
            | (POk v ec, depth') => parse_elems f depth' d (N.pred n) (v :: acc) (consumed + ec)%nat
            | (PNeedMore, depth') => (PNeedMore, pred depth')            (* self.depth -= 1; Ok(None) *)
            | (PErr e, depth') => (PErr e, depth')                       (* `?`: depth left as is *)
            | (PPanic, depth') => (PPanic, depth')
            | (POutOfFuel, depth') => (POutOfFuel, depth')
            end
      end
  end.

Definition fuel_for (d : bytes) : nat := (2 * length d + 2)%nat.

(* RespParser::parse on a parser whose depth field is [depth] *)
Definition parse_with (depth : nat) (d : bytes) : outcome * nat := parse (fuel_for d) depth d.
(* a fresh parser (RespParser::new()) *)
Definition parse_top (d : bytes) : outcome := fst (parse_with 0 d).

(* ---------------- serializer ---------------- *)
Definition crlf : bytes := [CR; LF].
Definition print_len (n : nat) : bytes := print_Z (Z.of_nat n).

Fixpoint serialize (v : value) : bytes :=
  match v with
  | Simple s => 43 :: s ++ crlf
  | Error s => 45 :: s ++ crlf
  | Int z => 58 :: print_Z z ++ crlf
  | Bulk (Some s) => 36 :: print_len (length s) ++ crlf ++ s ++ crlf
  | Bulk None => [36; 45; 49; 13; 10]
  | Arr l => 42 :: print_len (length l) ++ crlf ++
             (fix ser_list (l : list value) : bytes :=
                match l with [] => [] | x :: r => serialize x ++ ser_list r end) l
  end.

Fixpoint ser_list (l : list value) : bytes :=
  match l with [] => [] | x :: r => serialize x ++ ser_list r end.

Lemma serialize_arr l : serialize (Arr l) = 42 :: print_len (length l) ++ crlf ++ ser_list l.
Proof. reflexivity. Qed.

(* value equality (for the correspondence check) *)
Fixpoint value_eqb (a b : value) : bool :=
  match a, b with
  | Simple x, Simple y => bytes_eqb x y
  | Error x, Error y => bytes_eqb x y
  | Int x, Int y => (x =? y)%Z
  | Bulk None, Bulk None => true
  | Bulk (Some x), Bulk (Some y) => bytes_eqb x y
  | Arr x, Arr y =>
      (fix eqs (x y : list value) : bool :=
         match x, y with
         | [], [] => true
         | p :: x', q :: y' => value_eqb p q && eqs x' y'
         | _, _ => false
         end) x y
  | _, _ => false
  end.
