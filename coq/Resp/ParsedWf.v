(* C14: everything the parser returns is a well-formed value (so echoing it back is safe). *)
From Coq Require Import ZArith NArith List Bool Lia.
Import ListNotations.
Require Import TC.Generated.Consts TC.Resp.Utf8 TC.Resp.Decimal TC.Resp.Parse TC.Resp.ParseProofs TC.Resp.RoundTrip.
Open Scope N_scope.

Lemma crlf_index_first : forall d k j, crlf_index d k = Some j -> no_crlf (firstn (j - k) d) = true.
Proof.
  induction d as [|a r IH]; intros k j H; [discriminate|].
  cbn [crlf_index] in H. destruct r as [|b r']; [discriminate|].
  destruct ((a =? CR) && (b =? LF)) eqn:Hab.
  - inversion H; subst. rewrite Nat.sub_diag. reflexivity.
  - pose proof (crlf_index_bounds _ _ _ H) as Hb.
    specialize (IH (S k) j H).
    replace (j - k)%nat with (S (j - S k)) by lia. cbn [firstn].
    destruct (j - S k)%nat as [|m] eqn:Hm; [reflexivity|].
    cbn [firstn] in *. rewrite no_crlf_cons2, Hab. cbn [negb andb]. exact IH.
Qed.

Lemma no_crlf_tl s : no_crlf s = true -> no_crlf (tl s) = true.
Proof.
  destruct s as [|a r]; [auto|]. destruct r as [|b r']; [auto|]. rewrite no_crlf_cons2. intros H.
  apply andb_prop in H. destruct H as [_ H]. exact H.
Qed.

Lemma line_str_wf d s c : line_str d = LOk s c -> utf8_valid s = true /\ no_crlf s = true.
Proof.
  unfold line_str, read_line. destruct (crlf_index d 0) as [i|] eqn:Hi; [|discriminate].
  pose proof (crlf_index_first d 0 i Hi) as Hn. rewrite Nat.sub_0_r in Hn.
  destruct (firstn i d) as [|m s'] eqn:Hf; [discriminate|].
  destruct (utf8_valid s') eqn:Hu; [|discriminate]. intros H. inversion H; subst.
  split; [exact Hu|]. apply (no_crlf_tl (m :: s) Hn).
Qed.

Lemma parse_i64_range s z : parse_i64 s = Some z -> in_i64b z = true.
Proof.
  unfold parse_i64. cbv zeta. destruct s as [|b r]; [discriminate|].
  destruct (b =? 45); [|destruct (b =? 43)].
  - destruct r; [discriminate|]. destruct (digits _ 0); [|discriminate].
    destruct (in_i64b _) eqn:E; [|discriminate]. intros H. inversion H; subst. exact E.
  - destruct r; [discriminate|]. destruct (digits _ 0); [|discriminate].
    destruct (in_i64b _) eqn:E; [|discriminate]. intros H. inversion H; subst. exact E.
  - destruct (digits _ 0); [|discriminate].
    destruct (in_i64b _) eqn:E; [|discriminate]. intros H. inversion H; subst. exact E.
Qed.

Definition good (depth : nat) (v : value) : Prop := wf v = true /\ (depth + vdepth v <= max_depth)%nat.

Lemma wf_list_forall l : wf_list l = true <-> Forall (fun x => wf x = true) l.
Proof.
  induction l as [|x r IH]; cbn [wf_list]; [split; auto|].
  rewrite andb_true_iff, IH. split; [intros [A B]; constructor; auto|intros H; inversion H; auto].
Qed.

Lemma ldepth_forall depth l : (forall x, In x l -> (depth + vdepth x <= max_depth)%nat) -> (depth <= max_depth)%nat ->
  (depth + ldepth l <= max_depth)%nat.
Proof.
  induction l as [|x r IH]; intros H Hd; cbn [ldepth]; [lia|].
  pose proof (H x (or_introl eq_refl)). specialize (IH (fun y Hy => H y (or_intror Hy)) Hd). lia.
Qed.

Definition W_parse (f : nat) : Prop := forall depth d v c dp,
  (depth <= max_depth)%nat -> parse f depth d = (POk v c, dp) -> good depth v.
Definition W_elems (f : nat) : Prop := forall depth d n acc c0 v c dp,
  (depth <= max_depth)%nat ->
  (forall x, In x acc -> good depth x) ->
  parse_elems f depth d n acc c0 = (POk v c, dp) ->
  exists l, v = Arr l /\ (forall x, In x l -> good depth x) /\ length l = (length acc + N.to_nat n)%nat.

Theorem parsed_wf : forall f, W_parse f /\ W_elems f.
Proof.
  induction f as [|f [IHp IHe]].
  - split.
    + intros depth d v c dp Hd H. cbn in H. discriminate.
    + intros depth d n acc c0 v c dp Hd Hacc H. destruct n; [|cbn in H; discriminate].
      cbn in H. inversion H; subst. exists (rev acc). split; [reflexivity|]. split.
      * intros x Hx. apply Hacc. apply in_rev. exact Hx.
      * rewrite rev_length. cbn. lia.
  - split.
    + intros depth d v c dp Hd H. cbn [parse] in H. destruct d as [|m r]; [discriminate|].
      destruct (m =? 43).
      { unfold parse_line in H. destruct (line_str (m :: r)) as [s c'| | |] eqn:Hs; try discriminate.
        inversion H; subst. destruct (line_str_wf _ _ _ Hs) as [A B]. split; [cbn [wf]; rewrite A, B; reflexivity|cbn [vdepth]; lia]. }
      destruct (m =? 45).
      { unfold parse_line in H. destruct (line_str (m :: r)) as [s c'| | |] eqn:Hs; try discriminate.
        inversion H; subst. destruct (line_str_wf _ _ _ Hs) as [A B]. split; [cbn [wf]; rewrite A, B; reflexivity|cbn [vdepth]; lia]. }
      destruct (m =? 58).
      { unfold parse_int, line_int in H. destruct (line_str (m :: r)) as [s c'| | |] eqn:Hs; try discriminate.
        destruct (parse_i64 s) as [z|] eqn:Hz; [|discriminate]. inversion H; subst.
        split; [cbn [wf]; apply (parse_i64_range _ _ Hz)|cbn [vdepth]; lia]. }
      destruct (m =? 36).
      { unfold parse_bulk, line_int in H. destruct (line_str (m :: r)) as [s c'| | |] eqn:Hs; try discriminate.
        destruct (parse_i64 s) as [len|] eqn:Hz; [|discriminate].
        destruct (len =? -1)%Z; [inversion H; subst; split; [reflexivity|cbn [vdepth]; lia]|].
        destruct ((len <? 0) || (MAX_BULK_STRING_SIZE <? len))%Z eqn:Hr; [discriminate|].
        destruct (Z.ltb_spec (Z.of_nat (length (m :: r))) (Z.of_nat c' + len + 2)); [discriminate|].
        destruct (utf8_valid _) eqn:Hu; [|discriminate]. inversion H; subst.
        apply orb_false_elim in Hr. destruct Hr as [R1 R2]. apply Z.ltb_ge in R1, R2.
        split; [|cbn [vdepth]; lia]. cbn [wf]. rewrite Hu. cbn [andb]. apply Z.leb_le.
        rewrite firstn_length, skipn_length. lia. }
      destruct (m =? 42); [|discriminate].
      destruct (Nat.leb_spec max_depth depth); [discriminate|].
      destruct (line_int (m :: r)) as [cnt c'| | |] eqn:Hli; try discriminate.
      destruct (cnt =? -1)%Z; [inversion H; subst; split; [reflexivity|cbn [vdepth]; lia]|].
      destruct ((cnt <? 0) || (MAX_ARRAY_SIZE <? cnt))%Z eqn:Hr; [discriminate|].
      apply orb_false_elim in Hr. destruct Hr as [R1 R2]. apply Z.ltb_ge in R1, R2.
      destruct (IHe (S depth) (m :: r) (Z.to_N cnt) [] c' v c dp ltac:(lia) ltac:(intros x []) H) as (l & -> & Hl & Hlen).
      cbn [length Nat.add] in Hlen.
      split.
      * rewrite wf_arr. apply andb_true_intro. split; [apply Z.leb_le; lia|].
        apply wf_list_forall. apply Forall_forall. intros x Hx. apply (Hl x Hx).
      * rewrite vdepth_arr.
        pose proof (ldepth_forall (S depth) l (fun x Hx => proj2 (Hl x Hx)) ltac:(lia)). lia.
    + intros depth d n acc c0 v c dp Hd Hacc H. cbn [parse_elems] in H.
      destruct n as [|p].
      { inversion H; subst. exists (rev acc). split; [reflexivity|]. split.
        - intros x Hx. apply Hacc. apply in_rev. exact Hx.
        - rewrite rev_length. cbn. lia. }
      destruct (length d <? c0)%nat; [discriminate|].
      destruct (parse f depth (skipn c0 d)) as [o dp'] eqn:Hp.
      destruct o as [v' ec| | | |]; try discriminate.
      pose proof (IHp depth (skipn c0 d) v' ec dp' Hd Hp) as Hg.
      (* depth after an Ok element is unchanged *)
      pose proof (fuel_mono f) as [Mp _].
      assert (Hdp : dp' = depth).
      { assert (Hne : fst (parse f depth (skipn c0 d)) <> POutOfFuel) by (rewrite Hp; discriminate).
        specialize (Mp depth (skipn c0 d) (2 * length (skipn c0 d) + 1)%nat Hne).
        pose proof (parse_facts (f + (2 * length (skipn c0 d) + 1))) as [Pbig _].
        specialize (Pbig depth (skipn c0 d) ltac:(lia)). rewrite Mp, Hp in Pbig. cbn [fst snd depth_kept] in Pbig. tauto. }
      subst dp'.
      destruct (IHe depth d (N.pred (N.pos p)) (v' :: acc) (c0 + ec)%nat v c dp Hd
                  ltac:(intros x [<-|Hx]; [exact Hg|apply Hacc; exact Hx]) H) as (l & -> & Hl & Hlen).
      exists l. split; [reflexivity|]. split; [exact Hl|]. cbn [length] in Hlen. lia.
Qed.

Theorem parse_top_wf d v c : parse_top d = POk v c -> wf v = true /\ (vdepth v <= max_depth)%nat.
Proof.
  unfold parse_top, parse_with. destruct (parse (fuel_for d) 0 d) as [o dp] eqn:Hp. cbn [fst]. intros ->.
  destruct (parsed_wf (fuel_for d)) as [Wp _]. destruct (Wp 0%nat d v c dp ltac:(lia) Hp) as [A B]. split; [exact A|lia].
Qed.
