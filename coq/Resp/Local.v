(* Locality of the RESP parser: a value decoded from a buffer is decoded, with the same consumed
   length, from every prefix of the buffer that contains the consumed bytes.  (The converse of
   prefix stability; used for the connection loop's buffer limit: the undecoded remainder of a
   connection is a strict prefix of the frame it belongs to.) *)
From Coq Require Import ZArith NArith List Bool Lia.
Import ListNotations.
Require Import TC.Generated.Consts TC.Resp.Utf8 TC.Resp.Decimal TC.Resp.Parse TC.Resp.ParseProofs.
Open Scope N_scope.

Lemma crlf_index_restrict : forall d x i j, crlf_index (d ++ x) i = Some j -> (j - i + 2 <= length d)%nat ->
  crlf_index d i = Some j.
Proof.
  induction d as [|a r IH]; intros x i j H Hl; [cbn [length] in Hl; lia|].
  destruct r as [|b r']; [cbn [length] in Hl; lia|].
  change ((a :: b :: r') ++ x) with (a :: b :: (r' ++ x)) in H. rewrite crlf_index_cons2 in H. rewrite crlf_index_cons2.
  destruct ((a =? CR) && (b =? LF)); [exact H|].
  change (b :: r' ++ x) with ((b :: r') ++ x) in H.
  pose proof (crlf_index_bounds _ _ _ H) as Hb.
  apply (IH x (S i) j H). cbn [length] in *. lia.
Qed.

Lemma read_line_restrict d x line c : read_line (d ++ x) = Some (line, c) -> (c <= length d)%nat ->
  read_line d = Some (line, c).
Proof.
  unfold read_line. destruct (crlf_index (d ++ x) 0) as [i|] eqn:Hi; [|discriminate].
  intros H Hc. inversion H; subst. rewrite (crlf_index_restrict d x 0 i Hi) by lia.
  rewrite firstn_app. replace (i - length d)%nat with 0%nat by lia. cbn [firstn]. rewrite app_nil_r. reflexivity.
Qed.

Lemma line_str_restrict d x s c : line_str (d ++ x) = LOk s c -> (c <= length d)%nat -> line_str d = LOk s c.
Proof.
  unfold line_str. destruct (read_line (d ++ x)) as [[line c']|] eqn:Hr; [|discriminate].
  intros H Hc. assert (c' = c).
  { destruct line as [|m s']; [discriminate|]. destruct (utf8_valid s'); [|discriminate]. inversion H; reflexivity. }
  subst c'. rewrite (read_line_restrict d x line c Hr Hc). exact H.
Qed.

Lemma line_int_restrict d x z c : line_int (d ++ x) = LOk z c -> (c <= length d)%nat -> line_int d = LOk z c.
Proof.
  unfold line_int. destruct (line_str (d ++ x)) as [s c'| | |] eqn:Hs; try discriminate.
  intros H Hc. assert (c' = c) by (destruct (parse_i64 s); [inversion H; reflexivity|discriminate]). subst c'.
  rewrite (line_str_restrict d x s c Hs Hc). exact H.
Qed.

Lemma parse_line_restrict mk d x v c : parse_line mk (d ++ x) = POk v c -> (c <= length d)%nat -> parse_line mk d = POk v c.
Proof.
  unfold parse_line. destruct (line_str (d ++ x)) as [s c'| | |] eqn:Hs; try discriminate.
  intros H Hc. inversion H; subst. rewrite (line_str_restrict d x s c Hs Hc). reflexivity.
Qed.

Lemma parse_int_restrict d x v c : parse_int (d ++ x) = POk v c -> (c <= length d)%nat -> parse_int d = POk v c.
Proof.
  unfold parse_int. destruct (line_int (d ++ x)) as [z c'| | |] eqn:Hs; try discriminate.
  intros H Hc. inversion H; subst. rewrite (line_int_restrict d x z c Hs Hc). reflexivity.
Qed.

Lemma parse_bulk_restrict d x v c : parse_bulk (d ++ x) = POk v c -> (c <= length d)%nat -> parse_bulk d = POk v c.
Proof.
  unfold parse_bulk. destruct (line_int (d ++ x)) as [len c0| | |] eqn:Hs; try discriminate.
  intros H Hc. pose proof (line_int_bounds _ _ _ Hs) as Hb.
  destruct (len =? -1)%Z eqn:E1.
  - inversion H; subst. rewrite (line_int_restrict d x len c Hs Hc), E1. reflexivity.
  - destruct ((len <? 0) || (MAX_BULK_STRING_SIZE <? len))%Z eqn:E2; [discriminate|].
    apply orb_false_elim in E2. destruct E2 as [E2 E3]. pose proof E2 as E2'. apply Z.ltb_ge in E2'.
    destruct (Z.ltb_spec (Z.of_nat (length (d ++ x))) (Z.of_nat c0 + len + 2)); [discriminate|].
    destruct (utf8_valid (firstn (Z.to_nat len) (skipn c0 (d ++ x)))) eqn:Eu; [|discriminate].
    inversion H; subst.
    rewrite (line_int_restrict d x len c0 Hs ltac:(lia)), E1, E2, E3. cbn [orb].
    destruct (Z.ltb_spec (Z.of_nat (length d)) (Z.of_nat c0 + len + 2)); [lia|].
    assert (Hsk : firstn (Z.to_nat len) (skipn c0 (d ++ x)) = firstn (Z.to_nat len) (skipn c0 d)).
    { rewrite skipn_app, firstn_app. replace (Z.to_nat len - length (skipn c0 d))%nat with 0%nat by (rewrite skipn_length; lia).
      cbn [firstn]. rewrite app_nil_r. reflexivity. }
    rewrite <- Hsk, Eu. reflexivity.
Qed.

Lemma elems_consumed_ge : forall f depth d n acc consumed v c dp,
  parse_elems f depth d n acc consumed = (POk v c, dp) -> (consumed <= c)%nat.
Proof.
  induction f as [|f IH]; intros depth d n acc consumed v c dp H.
  - destruct n; cbn in H; inversion H; subst; lia.
  - cbn [parse_elems] in H. destruct n as [|p]; [inversion H; subst; lia|].
    destruct (length d <? consumed)%nat; [discriminate|].
    destruct (parse f depth (skipn consumed d)) as [o dp'].
    destruct o as [v' ec| | | |]; try discriminate. apply IH in H. lia.
Qed.

(* a decoded value consumes at least one byte *)
Lemma ok_consumes f depth d v c dp : parse f depth d = (POk v c, dp) -> (1 <= c)%nat.
Proof.
  destruct f as [|f]; [discriminate|]. cbn [parse]. destruct d as [|m r]; [discriminate|].
  destruct (m =? 43).
  { unfold parse_line. destruct (line_str (m :: r)) as [s c'| | |] eqn:Hs; try discriminate.
    intros H. inversion H; subst. apply line_str_bounds in Hs. lia. }
  destruct (m =? 45).
  { unfold parse_line. destruct (line_str (m :: r)) as [s c'| | |] eqn:Hs; try discriminate.
    intros H. inversion H; subst. apply line_str_bounds in Hs. lia. }
  destruct (m =? 58).
  { unfold parse_int. destruct (line_int (m :: r)) as [s c'| | |] eqn:Hs; try discriminate.
    intros H. inversion H; subst. apply line_int_bounds in Hs. lia. }
  destruct (m =? 36).
  { unfold parse_bulk. destruct (line_int (m :: r)) as [len c'| | |] eqn:Hs; try discriminate.
    apply line_int_bounds in Hs. destruct (len =? -1)%Z; [intros H; inversion H; subst; lia|].
    destruct ((len <? 0) || (MAX_BULK_STRING_SIZE <? len))%Z; [discriminate|].
    destruct (Z.of_nat (length (m :: r)) <? Z.of_nat c' + len + 2)%Z; [discriminate|].
    destruct (utf8_valid _); [|discriminate]. intros H. inversion H; subst. lia. }
  destruct (m =? 42); [|discriminate].
  destruct (max_depth <=? depth)%nat; [discriminate|].
  destruct (line_int (m :: r)) as [cnt c'| | |] eqn:Hs; try discriminate.
  apply line_int_bounds in Hs. destruct (cnt =? -1)%Z; [intros H; inversion H; subst; lia|].
  destruct ((cnt <? 0) || (MAX_ARRAY_SIZE <? cnt))%Z; [discriminate|].
  intros H. apply elems_consumed_ge in H. lia.
Qed.

Definition R_parse (f : nat) : Prop := forall depth d x v c dp,
  parse f depth (d ++ x) = (POk v c, dp) -> (c <= length d)%nat -> parse f depth d = (POk v c, dp).
Definition R_elems (f : nat) : Prop := forall depth d x n acc consumed v c dp,
  parse_elems f depth (d ++ x) n acc consumed = (POk v c, dp) -> (c <= length d)%nat ->
  parse_elems f depth d n acc consumed = (POk v c, dp).

Theorem restrict_stable : forall f, R_parse f /\ R_elems f.
Proof.
  induction f as [|f [IHp IHe]].
  - split.
    + intros depth d x v c dp H. discriminate.
    + intros depth d x n acc consumed v c dp H Hc. destruct n; [exact H|discriminate].
  - split.
    + intros depth d x v c dp H Hc. pose proof (ok_consumes _ _ _ _ _ _ H) as Hpos.
      destruct d as [|m r]; [cbn [length] in Hc; lia|].
      change ((m :: r) ++ x) with (m :: (r ++ x)) in H. cbn [parse] in *.
      change (m :: r ++ x) with ((m :: r) ++ x) in H.
      destruct (m =? 43).
      { destruct (parse_line Simple ((m :: r) ++ x)) eqn:E; inversion H; subst. rewrite (parse_line_restrict _ _ _ _ _ E Hc). reflexivity. }
      destruct (m =? 45).
      { destruct (parse_line Error ((m :: r) ++ x)) eqn:E; inversion H; subst. rewrite (parse_line_restrict _ _ _ _ _ E Hc). reflexivity. }
      destruct (m =? 58).
      { destruct (parse_int ((m :: r) ++ x)) eqn:E; inversion H; subst. rewrite (parse_int_restrict _ _ _ _ E Hc). reflexivity. }
      destruct (m =? 36).
      { destruct (parse_bulk ((m :: r) ++ x)) eqn:E; inversion H; subst. rewrite (parse_bulk_restrict _ _ _ _ E Hc). reflexivity. }
      destruct (m =? 42); [|discriminate].
      destruct (max_depth <=? depth)%nat; [discriminate|].
      destruct (line_int ((m :: r) ++ x)) as [cnt c0| | |] eqn:Hs; try discriminate.
      destruct (cnt =? -1)%Z eqn:E1.
      { inversion H; subst. rewrite (line_int_restrict _ _ _ _ Hs Hc), E1. reflexivity. }
      destruct ((cnt <? 0) || (MAX_ARRAY_SIZE <? cnt))%Z eqn:E2; [discriminate|].
      pose proof (elems_consumed_ge _ _ _ _ _ _ _ _ _ H) as Hge.
      rewrite (line_int_restrict _ _ _ _ Hs ltac:(lia)), E1, E2.
      apply (IHe _ _ _ _ _ _ _ _ _ H Hc).
    + intros depth d x n acc consumed v c dp H Hc.
      pose proof (elems_consumed_ge _ _ _ _ _ _ _ _ _ H) as Hge.
      cbn [parse_elems] in *. destruct n as [|p]; [exact H|].
      rewrite app_length in H.
      destruct (Nat.ltb_spec (length d + length x) consumed); [discriminate|].
      destruct (Nat.ltb_spec (length d) consumed); [lia|].
      rewrite skipn_app in H. replace (consumed - length d)%nat with 0%nat in H by lia. cbn [skipn] in H.
      destruct (parse f depth (skipn consumed d ++ x)) as [o dp'] eqn:Hp.
      destruct o as [v' ec| | | |]; try discriminate.
      pose proof (elems_consumed_ge _ _ _ _ _ _ _ _ _ H) as Hge2.
      rewrite (IHp depth (skipn consumed d) x v' ec dp' Hp ltac:(rewrite skipn_length; lia)).
      apply (IHe _ _ _ _ _ _ _ _ _ H Hc).
Qed.

(* top level: with the parser's own fuel *)
Theorem parse_with_restrict depth d x v c dp :
  parse_with depth (d ++ x) = (POk v c, dp) -> (c <= length d)%nat -> parse_with depth d = (POk v c, dp).
Proof.
  unfold parse_with. intros H Hc. rewrite fuel_for_app in H.
  destruct (restrict_stable (fuel_for d + 2 * length x)) as [Rp _].
  pose proof (Rp depth d x v c dp H Hc) as H1.
  destruct (parse_with_total depth d) as (Hne & _). unfold parse_with in Hne.
  destruct (fuel_mono (fuel_for d)) as [Mp _].
  rewrite (Mp depth d (2 * length x)%nat Hne) in H1. exact H1.
Qed.

(* an undecodable remainder is a strict prefix of whatever frame later completes it *)
Corollary pending_prefix_shorter depth b x v c dp :
  fst (parse_with depth b) = PNeedMore -> parse_with depth (b ++ x) = (POk v c, dp) -> (length b < c)%nat.
Proof.
  intros Hn Hok. destruct (Nat.lt_ge_cases (length b) c) as [Hlt|Hge]; [exact Hlt|].
  rewrite (parse_with_restrict depth b x v c dp Hok Hge) in Hn. discriminate.
Qed.
