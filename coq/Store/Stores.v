(* Executable models of the three in-memory stores
   (throttlecrab/src/core/store/{periodic,adaptive_cleanup,probabilistic}.rs).

   Times and durations are Z nanoseconds.  An entry is (value, expiry); the code's
   `Option<SystemTime>` expiry is always `Some` because every insertion writes
   `Some(now + ttl)` (the `None` arms are unreachable through the public API).
   `now + ttl` is plain addition: for ttl < 2^64 ns and now <= year 2200 the
   SystemTime addition cannot overflow.

   Oracle input: AdaptiveStore's memory-pressure trigger depends on HashMap::capacity();
   it is a boolean argument [orc] of every write ("the pressure trigger fired"),
   universally quantified in the theorems and observed from the real run in T2. *)
From Coq Require Import ZArith List Bool Lia.
Import ListNotations.
Require Import TC.Generated.Consts TC.Base.Map.
Open Scope Z_scope.

Section Stores.
Variable K : Type.
Variable keqb : K -> K -> bool.

Definition entry := (Z * Z)%type.                 (* value (TAT), expiry *)
Definition data := list (K * entry).

(* data.retain(|_, (_, expiry)| *exp > now) *)
Definition retain (d : data) (now : Z) : data := filter (fun p => now <? snd (snd p)) d.

Inductive sop :=
| Get (k : K) (now : Z)
| SetNX (k : K) (v ttl now : Z)
| Cas (k : K) (old new ttl now : Z).
Inductive sres := RGet (o : option Z) | RBool (b : bool).

Definition op_time (o : sop) : Z :=
  match o with Get _ t => t | SetNX _ _ _ t => t | Cas _ _ _ _ t => t end.
Definition op_key (o : sop) : K :=
  match o with Get k _ => k | SetNX k _ _ _ => k | Cas k _ _ _ _ => k end.
Definition is_write (o : sop) : bool := match o with Get _ _ => false | _ => true end.

(* the three trait methods on a data map, after any cleanup: identical in the three stores
   (the differing match-arm layouts compute the same function) *)
Definition d_get (d : data) (k : K) (now : Z) : option Z :=
  match lookup keqb d k with
  | Some (v, ex) => if now <? ex then Some v else None
  | None => None
  end.
(* returns new data, success, "found an expired entry" (adaptive counts these) *)
Definition d_cas (d : data) (k : K) (old new ttl now : Z) : data * bool * bool :=
  match lookup keqb d k with
  | Some (cur, ex) =>
      if ex <=? now then (d, false, true)
      else if cur =? old then (insert keqb d k (new, now + ttl), true, false)
      else (d, false, false)
  | None => (d, false, false)
  end.
Definition d_setnx (d : data) (k : K) (v ttl now : Z) : data * bool * bool :=
  match lookup keqb d k with
  | Some (_, ex) =>
      if now <? ex then (d, false, false)
      else (insert keqb d k (v, now + ttl), true, true)
  | None => (insert keqb d k (v, now + ttl), true, false)
  end.

(* ---------------- PeriodicStore ---------------- *)
Record pstate := { p_data : data; p_next : Z; p_interval : Z; p_expired : Z }.

Definition p_clean (s : pstate) (now : Z) : pstate :=
  if p_next s <=? now then
    let d' := retain (p_data s) now in
    {| p_data := d'; p_next := now + p_interval s; p_interval := p_interval s;
       p_expired := Z.of_nat (length (p_data s)) - Z.of_nat (length d') |}
  else s.
Definition p_with_data (s : pstate) (d : data) : pstate :=
  {| p_data := d; p_next := p_next s; p_interval := p_interval s; p_expired := p_expired s |}.

Definition p_step (s : pstate) (o : sop) : pstate * sres :=
  match o with
  | Get k now => (s, RGet (d_get (p_data s) k now))
  | SetNX k v ttl now =>
      let s1 := p_clean s now in
      let '(d, ok, _) := d_setnx (p_data s1) k v ttl now in (p_with_data s1 d, RBool ok)
  | Cas k old new ttl now =>
      let s1 := p_clean s now in
      let '(d, ok, _) := d_cas (p_data s1) k old new ttl now in (p_with_data s1 d, RBool ok)
  end.

(* ---------------- AdaptiveStore ---------------- *)
Record astate := {
  a_data : data; a_next : Z; a_min : Z; a_max : Z; a_cur : Z;
  a_expired : Z; a_ops : Z; a_maxops : Z; a_lrem : Z; a_ltot : Z }.

(* expired-ratio trigger.  The code compares f64 values:
     expired_count as f64 / len.max(1) as f64 > (0.2/2.0 | 0.2*1.25)
   For counts below 2^32 this is exactly the integer comparison below (0.25 is representable;
   a quotient above 1/10 exceeds the double nearest 0.1 by far more than an ulp). *)
Definition a_ratio_trigger (s : astate) : bool :=
  (50 <? a_expired s) &&
  (let len := Z.max (Z.of_nat (length (a_data s))) 1 in
   if a_ltot s / 4 <? a_lrem s then len <? 10 * a_expired s else len <? 4 * a_expired s).

Definition a_should_clean (s : astate) (now : Z) (orc : bool) : bool :=
  (a_next s <=? now) || (a_maxops s <=? a_ops s) || a_ratio_trigger s || orc.

Definition a_cleanup (s : astate) (now : Z) : astate :=
  let initial := Z.of_nat (length (a_data s)) in
  let d' := retain (a_data s) now in
  let removed := initial - Z.of_nat (length d') in
  let cur' :=
    if (removed =? 0) && (a_expired s =? 0) then Z.min (a_cur s * 2) (a_max s)
    else if initial <? 2 * removed then Z.max (a_cur s / 2) (a_min s)
    else a_cur s in
  {| a_data := d'; a_next := now + cur'; a_min := a_min s; a_max := a_max s; a_cur := cur';
     a_expired := 0; a_ops := 0; a_maxops := a_maxops s; a_lrem := removed; a_ltot := initial |}.

Definition a_maybe_clean (s : astate) (now : Z) (orc : bool) : astate :=
  let s1 := {| a_data := a_data s; a_next := a_next s; a_min := a_min s; a_max := a_max s; a_cur := a_cur s;
               a_expired := a_expired s; a_ops := a_ops s + 1; a_maxops := a_maxops s;
               a_lrem := a_lrem s; a_ltot := a_ltot s |} in
  if a_should_clean s1 now orc then a_cleanup s1 now else s1.

Definition a_with (s : astate) (d : data) (found_expired : bool) : astate :=
  {| a_data := d; a_next := a_next s; a_min := a_min s; a_max := a_max s; a_cur := a_cur s;
     a_expired := if found_expired then a_expired s + 1 else a_expired s;
     a_ops := a_ops s; a_maxops := a_maxops s; a_lrem := a_lrem s; a_ltot := a_ltot s |}.

Definition a_step (s : astate) (orc : bool) (o : sop) : astate * sres :=
  match o with
  | Get k now => (s, RGet (d_get (a_data s) k now))
  | SetNX k v ttl now =>
      let s1 := a_maybe_clean s now orc in
      let '(d, ok, fe) := d_setnx (a_data s1) k v ttl now in (a_with s1 d fe, RBool ok)
  | Cas k old new ttl now =>
      let s1 := a_maybe_clean s now orc in
      let '(d, ok, fe) := d_cas (a_data s1) k old new ttl now in (a_with s1 d fe, RBool ok)
  end.

(* ---------------- ProbabilisticStore ---------------- *)
Record bstate := { b_data : data; b_ops : Z; b_prob : Z }.

Definition two64 : Z := 18446744073709551616.
(* u64::is_multiple_of: rhs = 0 -> self == 0 *)
Definition is_multiple_of (x m : Z) : bool := if m =? 0 then x =? 0 else x mod m =? 0.
Definition b_fires (ops prob : Z) : bool := is_multiple_of ((ops * PROB_MULTIPLIER) mod two64) prob.

Definition b_maybe_clean (s : bstate) (now : Z) : bstate :=
  let ops := (b_ops s + 1) mod two64 in
  {| b_data := if b_fires ops (b_prob s) then retain (b_data s) now else b_data s;
     b_ops := ops; b_prob := b_prob s |}.

Definition b_step (s : bstate) (o : sop) : bstate * sres :=
  match o with
  | Get k now => (s, RGet (d_get (b_data s) k now))
  | SetNX k v ttl now =>
      let s1 := b_maybe_clean s now in
      let '(d, ok, _) := d_setnx (b_data s1) k v ttl now in
      ({| b_data := d; b_ops := b_ops s1; b_prob := b_prob s1 |}, RBool ok)
  | Cas k old new ttl now =>
      let s1 := b_maybe_clean s now in
      let '(d, ok, _) := d_cas (b_data s1) k old new ttl now in
      ({| b_data := d; b_ops := b_ops s1; b_prob := b_prob s1 |}, RBool ok)
  end.

(* ---------------- one type for "any built-in store" ---------------- *)
Inductive store := SPer (s : pstate) | SAda (s : astate) | SPro (s : bstate).

Definition sdata (s : store) : data :=
  match s with SPer s => p_data s | SAda s => a_data s | SPro s => b_data s end.

Definition sstep (s : store) (orc : bool) (o : sop) : store * sres :=
  match s with
  | SPer s => let (s', r) := p_step s o in (SPer s', r)
  | SAda s => let (s', r) := a_step s orc o in (SAda s', r)
  | SPro s => let (s', r) := b_step s o in (SPro s', r)
  end.

(* builders: construction reads the wall clock ([t_build]) for the first cleanup instant *)
Definition periodic_new (t_build interval : Z) : store :=
  SPer {| p_data := []; p_next := t_build + interval; p_interval := interval; p_expired := 0 |}.
Definition adaptive_new (t_build min_i max_i max_ops : Z) : store :=
  let dflt := ADAPTIVE_DEFAULT_CLEANUP_INTERVAL_SECS * 1000000000 in
  SAda {| a_data := []; a_next := t_build + dflt; a_min := min_i; a_max := max_i; a_cur := dflt;
          a_expired := 0; a_ops := 0; a_maxops := max_ops; a_lrem := 0; a_ltot := 0 |}.
Definition probabilistic_new (prob : Z) : store :=
  SPro {| b_data := []; b_ops := 0; b_prob := prob |}.

(* run a sequence of (oracle bit, operation) *)
Fixpoint srun (s : store) (ops : list (bool * sop)) : store * list sres :=
  match ops with
  | [] => (s, [])
  | (orc, o) :: r =>
      let (s1, res) := sstep s orc o in
      let (s2, rs) := srun s1 r in (s2, res :: rs)
  end.

End Stores.

Arguments Get {K}. Arguments SetNX {K}. Arguments Cas {K}.
Arguments op_time {K}. Arguments op_key {K}. Arguments is_write {K}.
Arguments SPer {K}. Arguments SAda {K}. Arguments SPro {K}.
Arguments periodic_new {K}. Arguments adaptive_new {K}. Arguments probabilistic_new {K}.
