(* Vocabulary of the generated store methods (Generated/StoreGen.v, tools/extract_stores.py). *)
From Coq Require Import ZArith.
Open Scope Z_scope.
(* what `self.data.get(key)` returns: (value, Option<SystemTime>) *)
Definition gentry := option (Z * option Z).
(* effect of a write method on the entry: what is inserted under the key (if anything), the returned flag,
   and whether `expired_count` is incremented (AdaptiveStore only) *)
Record store_eff := { se_insert : option (Z * option Z); se_ok : bool; se_bump : bool }.
(* default of a decision list after its last arm (Rust's match is exhaustive: never reached) *)
Definition eff_unreachable : store_eff := {| se_insert := None; se_ok := false; se_bump := false |}.
