(* The abstract store of C06: a map with per-entry expiry and no cleanup at all. *)
From Coq Require Import ZArith List Bool Lia.
Import ListNotations.
Require Import TC.Base.Map TC.Store.Stores.
Open Scope Z_scope.

Section Abs.
Variable K : Type.
Variable keqb : K -> K -> bool.

Definition absmap := K -> option (Z * Z).        (* value, expiry *)
Definition abs_empty : absmap := fun _ => None.

(* a value is visible at time t exactly while t is before its expiry instant *)
Definition avis (m : absmap) (k : K) (t : Z) : option Z :=
  match m k with Some (v, ex) => if t <? ex then Some v else None | None => None end.
Definition aupd (m : absmap) (k : K) (e : Z * Z) : absmap :=
  fun k' => if keqb k' k then Some e else m k'.

Definition astep (m : absmap) (o : sop K) : absmap * sres :=
  match o with
  | Get k now => (m, RGet (avis m k now))
  | SetNX k v ttl now =>
      (* succeeds exactly when no value is visible *)
      match avis m k now with
      | None => (aupd m k (v, now + ttl), RBool true)
      | Some _ => (m, RBool false)
      end
  | Cas k old new ttl now =>
      (* succeeds exactly when the visible value equals the expected one *)
      match avis m k now with
      | Some cur => if cur =? old then (aupd m k (new, now + ttl), RBool true) else (m, RBool false)
      | None => (m, RBool false)
      end
  end.

Fixpoint arun (m : absmap) (ops : list (sop K)) : absmap * list sres :=
  match ops with
  | [] => (m, [])
  | o :: r => let (m1, res) := astep m o in let (m2, rs) := arun m1 r in (m2, res :: rs)
  end.
End Abs.
Arguments avis {K}. Arguments abs_empty {K}.
