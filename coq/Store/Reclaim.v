(* C07, reclamation clause: expired entries are physically removed no later than the store's next
   guaranteed cleanup point. Non-decreasing operation times starting at or after the store's
   construction instant; non-negative TTLs; every oracle stream. *)
From Coq Require Import ZArith List Bool Lia Znumtheory.
Import ListNotations.
Require Import TC.Generated.Consts TC.Base.Map TC.Store.Stores.
Open Scope Z_scope.

Section Rc.
Variable K : Type.
Variable keqb : K -> K -> bool.

Notation data := (data K).
Notation insert := (insert keqb).
Notation retain := (retain K).

Definition expiry_of (e : K * entry) : Z := snd (snd e).
Definition all_expire_from (lo : Z) (d : data) : Prop := Forall (fun e => lo <= expiry_of e) d.

Lemma all_mono lo lo' d : lo' <= lo -> all_expire_from lo d -> all_expire_from lo' d.
Proof. intros H. apply Forall_impl. intros e He. lia. Qed.

Lemma all_filter lo (P : K * entry -> bool) d : all_expire_from lo d -> all_expire_from lo (filter P d).
Proof.
  unfold all_expire_from. rewrite !Forall_forall. intros H e He. apply filter_In in He. apply H. tauto.
Qed.

Lemma all_insert lo d k v ex : lo <= ex -> all_expire_from lo d -> all_expire_from lo (insert d k (v, ex)).
Proof. intros Hex Hd. unfold Map.insert. constructor; [exact Hex|]. apply all_filter. exact Hd. Qed.

(* a sweep leaves only entries that expire strictly after [now] *)
Lemma sweep_removes_expired d now : Forall (fun e => now < expiry_of e) (retain d now).
Proof.
  rewrite Forall_forall. intros e He. unfold Stores.retain in He. apply filter_In in He.
  destruct He as [_ He]. apply Z.ltb_lt in He. exact He.
Qed.

Lemma sweep_all d now : all_expire_from now (retain d now).
Proof. eapply Forall_impl; [|apply sweep_removes_expired]. intros e He. cbn in He. lia. Qed.

(* the three write paths on the table *)
Lemma setnx_all lo d k v ttl now :
  lo <= now -> 0 <= ttl -> all_expire_from lo d ->
  all_expire_from lo (fst (fst (d_setnx K keqb d k v ttl now))).
Proof.
  intros Hlo Httl Hd. unfold d_setnx. destruct (lookup keqb d k) as [[cur ex]|].
  - destruct (now <? ex); cbn [fst]; [exact Hd|]. apply all_insert; [lia|exact Hd].
  - cbn [fst]. apply all_insert; [lia|exact Hd].
Qed.

Lemma cas_all lo d k old new ttl now :
  lo <= now -> 0 <= ttl -> all_expire_from lo d ->
  all_expire_from lo (fst (fst (d_cas K keqb d k old new ttl now))).
Proof.
  intros Hlo Httl Hd. unfold d_cas. destruct (lookup keqb d k) as [[cur ex]|]; [|exact Hd].
  destruct (ex <=? now); cbn [fst]; [exact Hd|]. destruct (cur =? old); cbn [fst]; [|exact Hd].
  apply all_insert; [lia|exact Hd].
Qed.

Definition op_ttl_ok (o : sop K) : Prop :=
  match o with Get _ _ => True | SetNX _ _ ttl _ => 0 <= ttl | Cas _ _ _ ttl _ => 0 <= ttl end.

(* ================= PeriodicStore ================= *)
(* instant of the last sweep (or the construction instant) *)
Definition p_last (s : pstate K) : Z := p_next K s - p_interval K s.

Definition PJ (s : pstate K) (tl : Z) : Prop :=
  0 <= p_interval K s /\ p_last s <= tl /\ all_expire_from (p_last s) (p_data K s).

Lemma p_clean_J s tl now : PJ s tl -> tl <= now ->
  PJ (p_clean K s now) now /\ now - p_interval K s <= p_last (p_clean K s now) /\
  p_interval K (p_clean K s now) = p_interval K s.
Proof.
  intros (Hi & Hl & Ha) Hle. unfold p_clean, PJ, p_last in *.
  destruct (Z.leb_spec (p_next K s) now); cbn [p_data p_next p_interval].
  - repeat split; try lia. replace (now + p_interval K s - p_interval K s) with now by lia. apply sweep_all.
  - repeat split; try lia. exact Ha.
Qed.

(* after every write at time [now], no entry that expired more than one cleanup interval ago remains *)
Theorem periodic_step s tl (o : sop K) :
  PJ s tl -> tl <= op_time o -> op_ttl_ok o ->
  let s' := fst (p_step K keqb s o) in
  PJ s' (op_time o) /\ p_interval K s' = p_interval K s /\
  (is_write o = true -> all_expire_from (op_time o - p_interval K s) (p_data K s')).
Proof.
  intros HJ Hle Httl. destruct o as [k now|k v ttl now|k old new ttl now]; cbn [op_time is_write p_step op_ttl_ok] in *.
  - cbn [fst]. split; [|split; [reflexivity|discriminate]]. destruct HJ as (H1 & H2 & H3). repeat split; auto; lia.
  - destruct (p_clean_J s tl now HJ Hle) as ((Hi & Hl & Ha) & Hb & Hint).
    pose proof (setnx_all (p_last (p_clean K s now)) _ k v ttl now Hl Httl Ha) as Hs.
    destruct (d_setnx K keqb (p_data K (p_clean K s now)) k v ttl now) as [[d ok] fe]. cbn [fst] in *.
    unfold PJ, p_last, p_with_data in *. cbn [p_data p_next p_interval] in *.
    repeat split; auto. intros _. eapply all_mono; [|exact Hs]. lia.
  - destruct (p_clean_J s tl now HJ Hle) as ((Hi & Hl & Ha) & Hb & Hint).
    pose proof (cas_all (p_last (p_clean K s now)) _ k old new ttl now Hl Httl Ha) as Hs.
    destruct (d_cas K keqb (p_data K (p_clean K s now)) k old new ttl now) as [[d ok] fe]. cbn [fst] in *.
    unfold PJ, p_last, p_with_data in *. cbn [p_data p_next p_interval] in *.
    repeat split; auto. intros _. eapply all_mono; [|exact Hs]. lia.
Qed.

(* the guaranteed cleanup point: the first write at or after next_cleanup sweeps *)
Theorem periodic_sweeps_when_due s now :
  p_next K s <= now ->
  Forall (fun e => now < expiry_of e) (p_data K (p_clean K s now)) /\ p_next K (p_clean K s now) = now + p_interval K s.
Proof.
  intros H. unfold p_clean. destruct (Z.leb_spec (p_next K s) now); [|lia]. cbn [p_data p_next].
  split; [apply sweep_removes_expired|reflexivity].
Qed.

(* ================= AdaptiveStore ================= *)
Definition a_last (s : astate K) : Z := a_next K s - a_cur K s.
Definition a_imax (s : astate K) : Z :=
  Z.max (ADAPTIVE_DEFAULT_CLEANUP_INTERVAL_SECS * 1000000000) (Z.max (a_min K s) (a_max K s)).

Definition AJ (s : astate K) (tl : Z) : Prop :=
  0 <= a_min K s /\ 0 <= a_max K s /\ 0 <= a_cur K s <= a_imax s /\ 0 <= a_ops K s /\
  a_last s <= tl /\ all_expire_from (a_last s) (a_data K s).

Lemma a_clean_J s tl now orc : AJ s tl -> tl <= now ->
  let s1 := a_maybe_clean K s now orc in
  AJ s1 now /\ now - a_imax s <= a_last s1 /\ a_imax s1 = a_imax s /\
  (a_maxops K s <= a_ops K s + 1 \/ a_next K s <= now ->
     Forall (fun e => now < expiry_of e) (a_data K s1) /\ a_ops K s1 = 0).
Proof.
  intros (Hmin & Hmax & Hcur & Hops & Hl & Ha) Hle. cbv zeta.
  unfold a_maybe_clean, a_should_clean. cbn [a_next a_ops a_maxops].
  destruct ((a_next K s <=? now) || (a_maxops K s <=? a_ops K s + 1) || _ || orc) eqn:Hc.
  - (* sweep *)
    unfold a_cleanup. cbn [a_data a_next a_cur a_min a_max a_expired a_ops].
    set (initial := Z.of_nat (length (a_data K s))).
    set (removed := initial - Z.of_nat (length (retain (a_data K s) now))).
    set (cur' := if (removed =? 0) && (a_expired K s =? 0) then Z.min (a_cur K s * 2) (a_max K s)
                 else if initial <? 2 * removed then Z.max (a_cur K s / 2) (a_min K s) else a_cur K s).
    assert (Hc' : 0 <= cur' <= a_imax s).
    { unfold cur', a_imax in *. destruct (_ && _); [lia|]. destruct (_ <? _); [|lia].
      assert (0 <= a_cur K s / 2 <= a_cur K s) by (split; [apply Z.div_pos; lia|apply Z.div_le_upper_bound; lia]). lia. }
    unfold AJ, a_last, a_imax in *. cbn [a_data a_next a_cur a_min a_max a_ops].
    replace (now + cur' - cur') with now by lia.
    split; [repeat split; try lia; apply sweep_all|]. split; [lia|]. split; [reflexivity|].
    intros _. split; [apply sweep_removes_expired|reflexivity].
  - (* no sweep: neither the time trigger nor the operation budget fired *)
    apply orb_false_elim in Hc. destruct Hc as [Hc _]. apply orb_false_elim in Hc. destruct Hc as [Hc _].
    apply orb_false_elim in Hc. destruct Hc as [Hc1 Hc2]. apply Z.leb_gt in Hc1, Hc2.
    unfold AJ, a_last, a_imax in *. cbn [a_data a_next a_cur a_min a_max a_ops].
    split; [repeat split; try lia; exact Ha|]. split; [lia|]. split; [reflexivity|]. intros [H|H]; lia.
Qed.

Theorem adaptive_step s tl orc (o : sop K) :
  AJ s tl -> tl <= op_time o -> op_ttl_ok o ->
  let s' := fst (a_step K keqb s orc o) in
  AJ s' (op_time o) /\ a_imax s' = a_imax s /\ a_maxops K s' = a_maxops K s /\
  (is_write o = true ->
     all_expire_from (op_time o - a_imax s) (a_data K s') /\
     a_ops K s' < Z.max (a_maxops K s) 1).
Proof.
  intros HJ Hle Httl. destruct o as [k now|k v ttl now|k old new ttl now]; cbn [op_time is_write a_step op_ttl_ok] in *.
  - cbn [fst]. split; [|split; [reflexivity|split; [reflexivity|discriminate]]].
    destruct HJ as (H1 & H2 & H3 & H4 & H5 & H6). repeat split; auto; lia.
  - pose proof (a_clean_J s tl now orc HJ Hle) as Hc. cbv zeta in Hc.
    destruct Hc as ((Hmin & Hmax & Hcur & Hops & Hl & Ha) & Hb & Him & Hdue).
    pose proof (setnx_all (a_last (a_maybe_clean K s now orc)) _ k v ttl now Hl Httl Ha) as Hs.
    assert (Hmo : a_maxops K (a_maybe_clean K s now orc) = a_maxops K s).
    { unfold a_maybe_clean. destruct (a_should_clean _ _ _ _); reflexivity. }
    assert (Hopsb : a_ops K (a_maybe_clean K s now orc) < Z.max (a_maxops K s) 1).
    { destruct (Z_le_gt_dec (a_maxops K s) (a_ops K s + 1)) as [Hd|Hd].
      - destruct (Hdue (or_introl Hd)) as [_ ->]. lia.
      - unfold a_maybe_clean. destruct (a_should_clean _ _ _ _); cbn [a_ops a_cleanup]; lia. }
    destruct (d_setnx K keqb (a_data K (a_maybe_clean K s now orc)) k v ttl now) as [[d ok] fe]. cbn [fst] in *.
    unfold AJ, a_last, a_imax, a_with in *. cbn [a_data a_next a_cur a_min a_max a_ops a_maxops] in *.
    repeat split; auto; try lia. eapply all_mono; [|exact Hs]. lia.
  - pose proof (a_clean_J s tl now orc HJ Hle) as Hc. cbv zeta in Hc.
    destruct Hc as ((Hmin & Hmax & Hcur & Hops & Hl & Ha) & Hb & Him & Hdue).
    pose proof (cas_all (a_last (a_maybe_clean K s now orc)) _ k old new ttl now Hl Httl Ha) as Hs.
    assert (Hmo : a_maxops K (a_maybe_clean K s now orc) = a_maxops K s).
    { unfold a_maybe_clean. destruct (a_should_clean _ _ _ _); reflexivity. }
    assert (Hopsb : a_ops K (a_maybe_clean K s now orc) < Z.max (a_maxops K s) 1).
    { destruct (Z_le_gt_dec (a_maxops K s) (a_ops K s + 1)) as [Hd|Hd].
      - destruct (Hdue (or_introl Hd)) as [_ ->]. lia.
      - unfold a_maybe_clean. destruct (a_should_clean _ _ _ _); cbn [a_ops a_cleanup]; lia. }
    destruct (d_cas K keqb (a_data K (a_maybe_clean K s now orc)) k old new ttl now) as [[d ok] fe]. cbn [fst] in *.
    unfold AJ, a_last, a_imax, a_with in *. cbn [a_data a_next a_cur a_min a_max a_ops a_maxops] in *.
    repeat split; auto; try lia. eapply all_mono; [|exact Hs]. lia.
Qed.

(* the guaranteed cleanup points: interval elapsed, or operation budget reached *)
Theorem adaptive_sweeps_when_due s tl now orc :
  AJ s tl -> tl <= now -> (a_maxops K s <= a_ops K s + 1 \/ a_next K s <= now) ->
  Forall (fun e => now < expiry_of e) (a_data K (a_maybe_clean K s now orc)).
Proof. intros HJ Hle Hd. pose proof (a_clean_J s tl now orc HJ Hle) as Hc. cbv zeta in Hc. apply Hc. exact Hd. Qed.

(* ================= ProbabilisticStore ================= *)
(* every N-th write sweeps (N >= 1), as long as the multiplication has not wrapped:
   n * M < 2^64, i.e. the first 2^64 / M (about 6.9e9) writes *)
Lemma fires_on_multiples n N : 1 <= N -> 0 <= n -> n * PROB_MULTIPLIER < two64 -> (N | n) -> b_fires n N = true.
Proof.
  intros HN Hn Hw [c Hc]. unfold b_fires, is_multiple_of.
  destruct (Z.eqb_spec N 0); [lia|].
  assert (Hnn : 0 <= n * PROB_MULTIPLIER) by (apply Z.mul_nonneg_nonneg; [exact Hn|unfold PROB_MULTIPLIER; lia]).
  rewrite (Z.mod_small (n * PROB_MULTIPLIER) two64) by (split; [exact Hnn|exact Hw]).
  apply Z.eqb_eq. subst n. replace (c * N * PROB_MULTIPLIER) with (c * PROB_MULTIPLIER * N) by ring.
  apply Z.mod_mul. lia.
Qed.

(* and only then, when the multiplier is coprime to N *)
Lemma fires_only_on_multiples n N :
  1 <= N -> 0 <= n -> n * PROB_MULTIPLIER < two64 -> Z.gcd PROB_MULTIPLIER N = 1 ->
  b_fires n N = true -> (N | n).
Proof.
  intros HN Hn Hw Hg Hf. unfold b_fires, is_multiple_of in Hf.
  destruct (Z.eqb_spec N 0); [lia|].
  assert (Hnn : 0 <= n * PROB_MULTIPLIER) by (apply Z.mul_nonneg_nonneg; [exact Hn|unfold PROB_MULTIPLIER; lia]).
  rewrite (Z.mod_small (n * PROB_MULTIPLIER) two64) in Hf by (split; [exact Hnn|exact Hw]).
  apply Z.eqb_eq in Hf. apply Z.mod_divide in Hf; [|lia].
  apply Z.gauss with PROB_MULTIPLIER.
  - rewrite Z.mul_comm. exact Hf.
  - rewrite Z.gcd_comm in Hg. exact Hg.
Qed.

(* the shipped default modulus is coprime to the shipped multiplier (regenerated constants) *)
Lemma default_modulus_coprime : Z.gcd PROB_MULTIPLIER PROBABILISTIC_CLEANUP_MODULO = 1.
Proof. vm_compute. reflexivity. Qed.

(* a sweep in the probabilistic store: if write number (ops + 1) fires, only unexpired entries stay *)
Theorem probabilistic_sweeps_when_fires (s : bstate K) now :
  b_fires ((b_ops K s + 1) mod two64) (b_prob K s) = true ->
  Forall (fun e => now < expiry_of e) (b_data K (b_maybe_clean K s now)).
Proof. intros H. unfold b_maybe_clean. cbn [b_data]. rewrite H. apply sweep_removes_expired. Qed.

(* among any N consecutive writes (inside the no-wrap prefix) one sweeps *)
Theorem probabilistic_gap n N :
  1 <= N -> 0 <= n -> (n + N) * PROB_MULTIPLIER < two64 ->
  exists j, 0 <= j < N /\ b_fires (n + j) N = true.
Proof.
  intros HN Hn Hw.
  exists ((N - n mod N) mod N).
  pose proof (Z.mod_pos_bound n N ltac:(lia)) as Hm.
  pose proof (Z.mod_pos_bound (N - n mod N) N ltac:(lia)) as Hj.
  split; [exact Hj|].
  apply fires_on_multiples; try lia.
  - unfold PROB_MULTIPLIER in *. nia.
  - pose proof (Z.div_mod n N ltac:(lia)) as Hdm.
    destruct (Z.eq_dec (n mod N) 0) as [Hr|Hr].
    + rewrite Hr, Z.sub_0_r, Z.mod_same by lia. exists (n / N). lia.
    + rewrite (Z.mod_small (N - n mod N) N) by lia. exists (n / N + 1). lia.
Qed.

(* ================= whole histories ================= *)
Fixpoint nondec (t0 : Z) (ts : list Z) : Prop :=
  match ts with [] => True | t :: r => t0 <= t /\ nondec t r end.
Definition ops_times (ops : list (bool * sop K)) : list Z := map (fun p => op_time (snd p)) ops.
Definition ops_ttl_ok (ops : list (bool * sop K)) : Prop := Forall (fun p => op_ttl_ok (snd p)) ops.

Lemma srun_app (s : store K) (a b : list (bool * sop K)) :
  fst (srun K keqb s (a ++ b)) = fst (srun K keqb (fst (srun K keqb s a)) b).
Proof.
  revert s. induction a as [|[orc o] r IH]; intros s; [reflexivity|].
  cbn [app srun]. destruct (sstep K keqb s orc o) as [s1 res]. specialize (IH s1).
  destruct (srun K keqb s1 (r ++ b)) as [s2 rs]. destruct (srun K keqb s1 r) as [s3 rs3]. cbn [fst] in *. exact IH.
Qed.

Fixpoint end_time (t0 : Z) (ts : list Z) : Z := match ts with [] => t0 | t :: r => end_time t r end.

Lemma periodic_run : forall (ops : list (bool * sop K)) (s : pstate K) tl,
  PJ s tl -> nondec tl (ops_times ops) -> ops_ttl_ok ops ->
  exists s', fst (srun K keqb (SPer s) ops) = SPer s' /\ PJ s' (end_time tl (ops_times ops)) /\
             p_interval K s' = p_interval K s.
Proof.
  induction ops as [|[orc o] r IH]; intros s tl HJ Hnd Httl.
  - exists s. cbn. auto.
  - cbn [ops_times map nondec snd] in Hnd. destruct Hnd as [Hle Hnd].
    apply Forall_cons_iff in Httl. destruct Httl as [Ht1 Httl]. cbn [snd] in Ht1.
    pose proof (periodic_step s tl o HJ Hle Ht1) as Hs. cbv zeta in Hs. destruct Hs as (HJ' & Hint & _).
    cbn [srun sstep]. destruct (p_step K keqb s o) as [s1 res] eqn:Hp. cbn [fst] in *.
    destruct (IH s1 (op_time o) HJ' Hnd Httl) as (s' & Hrun & HJ2 & Hint2).
    destruct (srun K keqb (SPer s1) r) as [s2 rs]. cbn [fst] in *.
    exists s'. cbn [ops_times map end_time snd]. split; [exact Hrun|split; [exact HJ2|congruence]].
Qed.

(* C07, PeriodicStore: after ANY history (non-decreasing times from the construction instant on,
   non-negative TTLs) that ends with a write at time t, every stored entry has
   expiry >= t - cleanup_interval *)
Theorem periodic_reclaims (t_build interval : Z) (pre : list (bool * sop K)) orc (o : sop K) :
  0 <= interval -> nondec t_build (ops_times (pre ++ [(orc, o)])) -> ops_ttl_ok (pre ++ [(orc, o)]) ->
  is_write o = true ->
  all_expire_from (op_time o - interval)
    (sdata K (fst (srun K keqb (periodic_new t_build interval) (pre ++ [(orc, o)])))).
Proof.
  intros Hi Hnd Httl Hw.
  assert (HJ0 : PJ {| p_data := []; p_next := t_build + interval; p_interval := interval; p_expired := 0 |} t_build).
  { unfold PJ, p_last. cbn. repeat split; try lia. constructor. }
  rewrite srun_app. unfold periodic_new.
  assert (Hnd1 : nondec t_build (ops_times pre) /\ end_time t_build (ops_times pre) <= op_time o).
  { clear - Hnd. revert Hnd. generalize t_build. induction pre as [|[c p] r IH]; intros t Hnd.
    - cbn in *. tauto.
    - cbn [app ops_times map nondec snd end_time] in *. destruct Hnd as [H1 H2]. destruct (IH _ H2). tauto. }
  destruct Hnd1 as [Hnd1 Hend].
  apply Forall_app in Httl. destruct Httl as [Httl1 Httl2]. apply Forall_cons_iff in Httl2. destruct Httl2 as [Ht _].
  destruct (periodic_run pre _ t_build HJ0 Hnd1 Httl1) as (s' & -> & HJ' & Hint).
  cbn [srun sstep]. pose proof (periodic_step s' _ o HJ' Hend Ht) as Hs. cbv zeta in Hs.
  destruct (p_step K keqb s' o) as [s2 res]. cbn [fst sdata] in *. destruct Hs as (_ & _ & Hall).
  rewrite Hint in Hall. cbn [p_interval] in Hall. apply Hall. exact Hw.
Qed.

Lemma adaptive_run : forall (ops : list (bool * sop K)) (s : astate K) tl,
  AJ s tl -> nondec tl (ops_times ops) -> ops_ttl_ok ops ->
  exists s', fst (srun K keqb (SAda s) ops) = SAda s' /\ AJ s' (end_time tl (ops_times ops)) /\
             a_imax s' = a_imax s /\ a_maxops K s' = a_maxops K s.
Proof.
  induction ops as [|[orc o] r IH]; intros s tl HJ Hnd Httl.
  - exists s. cbn. auto.
  - cbn [ops_times map nondec snd] in Hnd. destruct Hnd as [Hle Hnd].
    apply Forall_cons_iff in Httl. destruct Httl as [Ht1 Httl]. cbn [snd] in Ht1.
    pose proof (adaptive_step s tl orc o HJ Hle Ht1) as Hs. cbv zeta in Hs. destruct Hs as (HJ' & Him & Hmo & _).
    cbn [srun sstep]. destruct (a_step K keqb s orc o) as [s1 res] eqn:Hp. cbn [fst] in *.
    destruct (IH s1 (op_time o) HJ' Hnd Httl) as (s' & Hrun & HJ2 & Him2 & Hmo2).
    destruct (srun K keqb (SAda s1) r) as [s2 rs]. cbn [fst] in *.
    exists s'. cbn [ops_times map end_time snd]. split; [exact Hrun|split; [exact HJ2|split; congruence]].
Qed.

(* C07, AdaptiveStore: after any history ending with a write at time t, every stored entry has
   expiry >= t - max(5 s, min_interval, max_interval), and fewer than max(max_operations, 1)
   writes happened since the last sweep *)
Theorem adaptive_reclaims (t_build mn mx mo : Z) (pre : list (bool * sop K)) orc (o : sop K) :
  0 <= mn -> 0 <= mx -> nondec t_build (ops_times (pre ++ [(orc, o)])) -> ops_ttl_ok (pre ++ [(orc, o)]) ->
  is_write o = true ->
  let W := Z.max (ADAPTIVE_DEFAULT_CLEANUP_INTERVAL_SECS * 1000000000) (Z.max mn mx) in
  exists s', fst (srun K keqb (adaptive_new t_build mn mx mo) (pre ++ [(orc, o)])) = SAda s' /\
    all_expire_from (op_time o - W) (a_data K s') /\ a_ops K s' < Z.max mo 1.
Proof.
  intros Hmn Hmx Hnd Httl Hw W.
  set (s0 := {| a_data := @nil (K * entry); a_next := t_build + ADAPTIVE_DEFAULT_CLEANUP_INTERVAL_SECS * 1000000000; a_min := mn; a_max := mx;
                a_cur := ADAPTIVE_DEFAULT_CLEANUP_INTERVAL_SECS * 1000000000; a_expired := 0; a_ops := 0; a_maxops := mo;
                a_lrem := 0; a_ltot := 0 |}).
  assert (HJ0 : AJ s0 t_build).
  { unfold AJ, a_last, a_imax, s0. cbn [a_data a_next a_cur a_min a_max a_ops].
    unfold ADAPTIVE_DEFAULT_CLEANUP_INTERVAL_SECS. repeat split; try lia. constructor. }
  rewrite srun_app. unfold adaptive_new. fold s0.
  assert (Hnd1 : nondec t_build (ops_times pre) /\ end_time t_build (ops_times pre) <= op_time o).
  { clear - Hnd. revert Hnd. generalize t_build. induction pre as [|[c p] r IH]; intros t Hnd.
    - cbn in *. tauto.
    - cbn [app ops_times map nondec snd end_time] in *. destruct Hnd as [H1 H2]. destruct (IH _ H2). tauto. }
  destruct Hnd1 as [Hnd1 Hend].
  apply Forall_app in Httl. destruct Httl as [Httl1 Httl2]. apply Forall_cons_iff in Httl2. destruct Httl2 as [Ht _].
  destruct (adaptive_run pre s0 t_build HJ0 Hnd1 Httl1) as (s' & -> & HJ' & Him & Hmo).
  cbn [srun sstep]. pose proof (adaptive_step s' _ orc o HJ' Hend Ht) as Hs. cbv zeta in Hs.
  destruct (a_step K keqb s' orc o) as [s2 res]. cbn [fst sdata] in *. destruct Hs as (_ & _ & _ & Hall).
  exists s2. split; [reflexivity|]. destruct (Hall Hw) as [H1 H2].
  rewrite Him in H1. rewrite Hmo in H2. unfold a_imax, s0 in H1. cbn [a_min a_max a_maxops] in *. split; assumption.
Qed.

End Rc.
