(* C06: each concrete store refines the abstract expiring map on non-decreasing times,
   for every configuration and every oracle stream. *)
From Coq Require Import ZArith List Bool Lia.
Import ListNotations.
Require Import TC.Generated.Consts TC.Base.Map TC.Store.Stores TC.Store.AbsMap.
Open Scope Z_scope.

Section Refine.
Variable K : Type.
Variable keqb : K -> K -> bool.
Hypothesis keqb_spec : forall a b, reflect (a = b) (keqb a b).

Notation data := (data K).
Notation lookup := (lookup keqb).
Notation insert := (insert keqb).
Notation d_get := (d_get K keqb).
Notation d_cas := (d_cas K keqb).
Notation d_setnx := (d_setnx K keqb).
Notation absmap := (absmap K).
Notation astep := (astep K keqb).
Notation aupd := (aupd K keqb).
Notation sstep := (sstep K keqb).

(* what the limiter can observe of a physical table: visibility *)
Definition vis (d : data) (k : K) (t : Z) : option Z := d_get d k t.

Lemma uniq_retain (d : data) now : uniq d -> uniq (retain K d now).
Proof. apply uniq_filter. Qed.

(* cleanup is invisible: a sweep at [now] changes no visibility at any t >= now *)
Lemma vis_retain (d : data) now k t : uniq d -> now <= t -> vis (retain K d now) k t = vis d k t.
Proof.
  intros U Ht. unfold vis, Stores.d_get, retain.
  rewrite (lookup_filter_uniq K keqb keqb_spec) by assumption.
  unfold Stores.data, entry in *.
  destruct (lookup d k) as [[v ex]|]; cbn [fst snd]; auto.
  destruct (Z.ltb_spec now ex); auto. destruct (Z.ltb_spec t ex); auto; exfalso; lia.
Qed.

(* refinement relation from time t0 on *)
Definition R (t0 : Z) (d : data) (m : absmap) : Prop :=
  uniq d /\ forall k t, t0 <= t -> vis d k t = avis m k t.

Lemma R_mono t0 t1 d m : R t0 d m -> t0 <= t1 -> R t1 d m.
Proof. intros [U H] Hle. split; auto. intros k t Ht. apply H. lia. Qed.

Lemma R_retain t0 now d m : R t0 d m -> t0 <= now -> R now (retain K d now) m.
Proof.
  intros [U H] Hle. split; [now apply uniq_retain|].
  intros k t Ht. rewrite vis_retain by auto. apply H. lia.
Qed.

Lemma vis_insert (d : data) k v ex k2 t :
  vis (insert d k (v, ex)) k2 t = if keqb k2 k then (if t <? ex then Some v else None) else vis d k2 t.
Proof.
  unfold vis, Stores.d_get. rewrite (lookup_insert K keqb keqb_spec).
  destruct (keqb k2 k); reflexivity.
Qed.

Lemma avis_aupd (m : absmap) k v ex k2 t :
  avis (aupd m k (v, ex)) k2 t = if keqb k2 k then (if t <? ex then Some v else None) else avis m k2 t.
Proof. unfold avis, AbsMap.aupd. destruct (keqb k2 k); reflexivity. Qed.

Lemma R_insert now d m k v ex : R now d m -> R now (insert d k (v, ex)) (aupd m k (v, ex)).
Proof.
  intros [U H]. split; [now apply uniq_insert|].
  intros k2 t Ht. rewrite vis_insert, avis_aupd. destruct (keqb k2 k); auto.
Qed.

(* the three trait methods on refined data agree with the abstract map *)
Lemma get_refines now d m k : R now d m -> d_get d k now = avis m k now.
Proof. intros [U H]. apply (H k now). lia. Qed.

Lemma setnx_refines now d m k v ttl :
  R now d m ->
  let '(d', ok, _) := d_setnx d k v ttl now in
  let (m', r) := astep m (SetNX k v ttl now) in
  r = RBool ok /\ R now d' m'.
Proof.
  intros HR. pose proof (get_refines now d m k HR) as Hg.
  unfold Stores.d_setnx, AbsMap.astep. unfold Stores.d_get in Hg. rewrite <- Hg.
  destruct (lookup d k) as [[cur ex]|].
  - destruct (Z.ltb_spec now ex); [split; auto|]. split; auto. now apply R_insert.
  - split; auto. now apply R_insert.
Qed.

Lemma cas_refines now d m k old new ttl :
  R now d m ->
  let '(d', ok, _) := d_cas d k old new ttl now in
  let (m', r) := astep m (Cas k old new ttl now) in
  r = RBool ok /\ R now d' m'.
Proof.
  intros HR. pose proof (get_refines now d m k HR) as Hg.
  unfold Stores.d_cas, AbsMap.astep. unfold Stores.d_get in Hg. rewrite <- Hg.
  destruct (lookup d k) as [[cur ex]|]; [|split; auto].
  destruct (Z.leb_spec ex now); destruct (Z.ltb_spec now ex); try lia; [split; auto|].
  destruct (Z.eqb_spec cur old); split; auto. now apply R_insert.
Qed.

(* cleaning steps preserve the relation at [now] *)
Lemma p_clean_R t0 now (s : pstate K) m : R t0 (p_data K s) m -> t0 <= now -> R now (p_data K (p_clean K s now)) m.
Proof.
  intros HR Hle. unfold p_clean. destruct (p_next K s <=? now); cbn [p_data].
  - eapply R_retain; eauto.
  - eapply R_mono; eauto.
Qed.

Lemma a_clean_R t0 now orc (s : astate K) m : R t0 (a_data K s) m -> t0 <= now -> R now (a_data K (a_maybe_clean K s now orc)) m.
Proof.
  intros HR Hle. unfold a_maybe_clean. destruct (a_should_clean K _ now orc); cbn [a_data a_cleanup].
  - eapply R_retain; eauto.
  - eapply R_mono; eauto.
Qed.

Lemma b_clean_R t0 now (s : bstate K) m : R t0 (b_data K s) m -> t0 <= now -> R now (b_data K (b_maybe_clean K s now)) m.
Proof.
  intros HR Hle. unfold b_maybe_clean. cbn [b_data]. destruct (b_fires _ _).
  - eapply R_retain; eauto.
  - eapply R_mono; eauto.
Qed.

(* one step of any store *)
Theorem step_refines t0 (s : store K) orc (o : sop K) m :
  R t0 (sdata K s) m -> t0 <= op_time o ->
  let (s', r) := sstep s orc o in
  let (m', r') := astep m o in
  r = r' /\ R (op_time o) (sdata K s') m'.
Proof.
  intros HR Hle.
  destruct s as [s|s|s]; destruct o as [k now|k v ttl now|k old new ttl now];
    cbn [sstep p_step a_step b_step sdata op_time] in *.
  - cbn [AbsMap.astep]. split; [f_equal; eapply get_refines; eapply R_mono; eauto | eapply R_mono; eauto].
  - pose proof (setnx_refines now _ m k v ttl (p_clean_R t0 now s m HR Hle)) as H.
    destruct (Stores.d_setnx K keqb (p_data K (p_clean K s now)) k v ttl now) as [[d ok] fe].
    cbn [sdata p_with_data p_data]. destruct (astep m (SetNX k v ttl now)) as [m' r']. destruct H; split; auto.
  - pose proof (cas_refines now _ m k old new ttl (p_clean_R t0 now s m HR Hle)) as H.
    destruct (Stores.d_cas K keqb (p_data K (p_clean K s now)) k old new ttl now) as [[d ok] fe].
    cbn [sdata p_with_data p_data]. destruct (astep m (Cas k old new ttl now)) as [m' r']. destruct H; split; auto.
  - cbn [AbsMap.astep]. split; [f_equal; eapply get_refines; eapply R_mono; eauto | eapply R_mono; eauto].
  - pose proof (setnx_refines now _ m k v ttl (a_clean_R t0 now orc s m HR Hle)) as H.
    destruct (Stores.d_setnx K keqb (a_data K (a_maybe_clean K s now orc)) k v ttl now) as [[d ok] fe].
    cbn [sdata a_with a_data]. destruct (astep m (SetNX k v ttl now)) as [m' r']. destruct H; split; auto.
  - pose proof (cas_refines now _ m k old new ttl (a_clean_R t0 now orc s m HR Hle)) as H.
    destruct (Stores.d_cas K keqb (a_data K (a_maybe_clean K s now orc)) k old new ttl now) as [[d ok] fe].
    cbn [sdata a_with a_data]. destruct (astep m (Cas k old new ttl now)) as [m' r']. destruct H; split; auto.
  - cbn [AbsMap.astep]. split; [f_equal; eapply get_refines; eapply R_mono; eauto | eapply R_mono; eauto].
  - pose proof (setnx_refines now _ m k v ttl (b_clean_R t0 now s m HR Hle)) as H.
    destruct (Stores.d_setnx K keqb (b_data K (b_maybe_clean K s now)) k v ttl now) as [[d ok] fe].
    cbn [sdata b_data]. destruct (astep m (SetNX k v ttl now)) as [m' r']. destruct H; split; auto.
  - pose proof (cas_refines now _ m k old new ttl (b_clean_R t0 now s m HR Hle)) as H.
    destruct (Stores.d_cas K keqb (b_data K (b_maybe_clean K s now)) k old new ttl now) as [[d ok] fe].
    cbn [sdata b_data]. destruct (astep m (Cas k old new ttl now)) as [m' r']. destruct H; split; auto.
Qed.

(* non-decreasing operation times, starting at or after t0 *)
Fixpoint nondec_from (t0 : Z) (ts : list Z) : Prop :=
  match ts with [] => True | t :: r => t0 <= t /\ nondec_from t r end.

Definition last_time (t0 : Z) (ops : list (bool * sop K)) : Z :=
  fold_left (fun _ p => op_time (snd p)) ops t0.

Theorem run_refines : forall (ops : list (bool * sop K)) t0 (s : store K) m,
  R t0 (sdata K s) m ->
  nondec_from t0 (map (fun p => op_time (snd p)) ops) ->
  let (s', rs) := srun K keqb s ops in
  let (m', rs') := arun K keqb m (map snd ops) in
  rs = rs' /\ R (last_time t0 ops) (sdata K s') m'.
Proof.
  induction ops as [|[orc o] r IH]; intros t0 s m HR Hnd.
  - cbn. split; auto.
  - cbn [srun arun map snd]. cbn [map snd nondec_from] in Hnd. destruct Hnd as [Hle Hnd].
    pose proof (step_refines t0 s orc o m HR Hle) as Hs.
    destruct (sstep s orc o) as [s1 res]. destruct (astep m o) as [m1 res'].
    destruct Hs as [-> HR1].
    specialize (IH (op_time o) s1 m1 HR1 Hnd).
    destruct (srun K keqb s1 r) as [s2 rs]. destruct (arun K keqb m1 (map snd r)) as [m2 rs'].
    destruct IH as [-> HR2]. split; auto.
Qed.

(* initial states refine the empty map *)
Lemma R_empty t0 : R t0 [] (abs_empty).
Proof. split; [apply uniq_nil|]. intros k t _. reflexivity. Qed.

End Refine.

(* statement used by Properties/C06.v: any store whose table is empty (every builder
   configuration, any scheduling state), any oracle stream *)
Section Top.
Variable K : Type.
Variable keqb : K -> K -> bool.
Hypothesis keqb_spec : forall a b, reflect (a = b) (keqb a b).

Theorem store_refines_absmap : forall (s0 : store K) (ops : list (bool * sop K)) t0,
  sdata K s0 = [] ->
  nondec_from t0 (map (fun p => op_time (snd p)) ops) ->
  fst (snd (srun K keqb s0 ops), snd (arun K keqb abs_empty (map snd ops))) =
  snd (snd (srun K keqb s0 ops), snd (arun K keqb abs_empty (map snd ops))) /\
  forall k t, last_time K t0 ops <= t ->
    vis K keqb (sdata K (fst (srun K keqb s0 ops))) k t = avis (fst (arun K keqb abs_empty (map snd ops))) k t.
Proof.
  intros s0 ops t0 He Hnd.
  pose proof (run_refines K keqb keqb_spec ops t0 s0 abs_empty) as H.
  rewrite He in H. specialize (H (R_empty K keqb t0) Hnd).
  destruct (srun K keqb s0 ops) as [s' rs]. destruct (arun K keqb abs_empty (map snd ops)) as [m' rs'].
  destruct H as [-> [_ H]]. cbn [fst snd]. split; auto.
Qed.

(* from any reachable state: stated with the refinement relation *)
Theorem store_refines_from : forall (s : store K) (m : absmap K) (ops : list (bool * sop K)) t0,
  R K keqb t0 (sdata K s) m ->
  nondec_from t0 (map (fun p => op_time (snd p)) ops) ->
  snd (srun K keqb s ops) = snd (arun K keqb m (map snd ops)) /\
  R K keqb (last_time K t0 ops) (sdata K (fst (srun K keqb s ops))) (fst (arun K keqb m (map snd ops))).
Proof.
  intros s m ops t0 HR Hnd.
  pose proof (run_refines K keqb keqb_spec ops t0 s m HR Hnd) as H.
  destruct (srun K keqb s ops) as [s' rs]. destruct (arun K keqb m (map snd ops)) as [m' rs'].
  cbn [fst snd]. exact H.
Qed.
End Top.
