(* T1b for the stores: the three trait methods of each built-in store, as TRANSLATED FROM THE CURRENT SOURCES
   (Generated/StoreGen.v), are the entry-level functions that the store models of Store/Stores.v are made of
   (d_get / d_setnx / d_cas), for every entry, value, lifetime and instant.  Expiries in the models are always
   `Some` (every insertion writes Some(now + ttl)): [lift].  Outside the closure of Properties/*.vo. *)
From Coq Require Import ZArith List Bool Lia ZifyBool String.
Require Import TC.Base.Map TC.Store.Stores TC.Store.GenStoreOps TC.Generated.StoreGen.
Open Scope Z_scope.

Definition lift (e : option (Z * Z)) : gentry :=
  match e with Some (v, ex) => Some (v, Some ex) | None => None end.

(* entry-level reading of the model functions *)
Definition m_get (e : option (Z * Z)) (now : Z) : option Z :=
  match e with Some (v, ex) => if now <? ex then Some v else None | None => None end.
Definition m_setnx (e : option (Z * Z)) (v ttl now : Z) : option (Z * Z) * bool * bool :=
  match e with
  | Some (_, ex) => if now <? ex then (None, false, false) else (Some (v, now + ttl), true, true)
  | None => (Some (v, now + ttl), true, false)
  end.
Definition m_cas (e : option (Z * Z)) (old new ttl now : Z) : option (Z * Z) * bool * bool :=
  match e with
  | Some (cur, ex) => if ex <=? now then (None, false, true)
                      else if cur =? old then (Some (new, now + ttl), true, false) else (None, false, false)
  | None => (None, false, false)
  end.

Section Model.
Variable K : Type.
Variable keqb : K -> K -> bool.
Definition apply_ins (d : data K) (k : K) (i : option (Z * Z)) : data K :=
  match i with Some en => insert keqb d k en | None => d end.
(* the model functions are these entry-level functions applied to the looked-up entry *)
Lemma d_get_entry d k now : d_get K keqb d k now = m_get (lookup keqb d k) now.
Proof. unfold d_get, m_get. destruct (lookup keqb d k) as [[v ex]|]; reflexivity. Qed.
Lemma d_setnx_entry d k v ttl now :
  d_setnx K keqb d k v ttl now =
  let r := m_setnx (lookup keqb d k) v ttl now in (apply_ins d k (fst (fst r)), snd (fst r), snd r).
Proof. unfold d_setnx, m_setnx. destruct (lookup keqb d k) as [[v0 ex]|]; [destruct (now <? ex)|]; reflexivity. Qed.
Lemma d_cas_entry d k old new ttl now :
  d_cas K keqb d k old new ttl now =
  let r := m_cas (lookup keqb d k) old new ttl now in (apply_ins d k (fst (fst r)), snd (fst r), snd r).
Proof. unfold d_cas, m_cas. destruct (lookup keqb d k) as [[cur ex]|]; [destruct (ex <=? now); [|destruct (cur =? old)]|]; reflexivity. Qed.
End Model.

Definition eff_view (f : store_eff) : option (Z * Z) * bool :=
  (match se_insert f with Some (v, Some ex) => Some (v, ex) | _ => None end, se_ok f).
Definition eff_wf (f : store_eff) : Prop :=      (* nothing is ever inserted without an expiry *)
  match se_insert f with Some (_, None) => False | _ => True end.

Ltac cases :=
  repeat match goal with |- context [if ?c then _ else _] => destruct c eqn:? end;
  try reflexivity; try (exfalso; lia); try exact I.
Ltac tie_get f := intros e now; unfold f, m_get, lift; destruct e as [[v ex]|]; cbv zeta beta iota; cases.
Ltac tie_eff f m := intros; unfold f, m, lift, eff_view, eff_wf;
  match goal with e : option (Z * Z) |- _ => destruct e as [[v0 ex]|] end; cbv zeta beta iota; cbn [se_insert se_ok se_bump fst snd]; cases.

(* ---- PeriodicStore ---- *)
Theorem gen_p_get_is_model : forall e now, gen_p_get (lift e) now = m_get e now.
Proof. tie_get gen_p_get. Qed.
Theorem gen_p_setnx_is_model : forall e v ttl now,
  eff_view (gen_p_setnx (lift e) v ttl now) = fst (m_setnx e v ttl now) /\ eff_wf (gen_p_setnx (lift e) v ttl now).
Proof. split; tie_eff gen_p_setnx m_setnx. Qed.
Theorem gen_p_cas_is_model : forall e old new ttl now,
  eff_view (gen_p_cas (lift e) old new ttl now) = fst (m_cas e old new ttl now) /\ eff_wf (gen_p_cas (lift e) old new ttl now).
Proof. split; tie_eff gen_p_cas m_cas. Qed.
(* ---- AdaptiveStore: the expired-entry counter too ---- *)
Theorem gen_a_get_is_model : forall e now, gen_a_get (lift e) now = m_get e now.
Proof. tie_get gen_a_get. Qed.
Theorem gen_a_setnx_is_model : forall e v ttl now,
  (eff_view (gen_a_setnx (lift e) v ttl now), se_bump (gen_a_setnx (lift e) v ttl now)) = m_setnx e v ttl now /\
  eff_wf (gen_a_setnx (lift e) v ttl now).
Proof. split; tie_eff gen_a_setnx m_setnx. Qed.
Theorem gen_a_cas_is_model : forall e old new ttl now,
  (eff_view (gen_a_cas (lift e) old new ttl now), se_bump (gen_a_cas (lift e) old new ttl now)) = m_cas e old new ttl now /\
  eff_wf (gen_a_cas (lift e) old new ttl now).
Proof. split; tie_eff gen_a_cas m_cas. Qed.
(* ---- ProbabilisticStore ---- *)
Theorem gen_b_get_is_model : forall e now, gen_b_get (lift e) now = m_get e now.
Proof. tie_get gen_b_get. Qed.
Theorem gen_b_setnx_is_model : forall e v ttl now,
  eff_view (gen_b_setnx (lift e) v ttl now) = fst (m_setnx e v ttl now) /\ eff_wf (gen_b_setnx (lift e) v ttl now).
Proof. split; tie_eff gen_b_setnx m_setnx. Qed.
Theorem gen_b_cas_is_model : forall e old new ttl now,
  eff_view (gen_b_cas (lift e) old new ttl now) = fst (m_cas e old new ttl now) /\ eff_wf (gen_b_cas (lift e) old new ttl now).
Proof. split; tie_eff gen_b_cas m_cas. Qed.
(* every write method runs the store's cleanup before the lookup, get never does (p_step / a_step / b_step) *)
Theorem gen_cleanup_placement :
  gen_p_cleans = (false, true, true) /\ gen_a_cleans = (false, true, true) /\ gen_b_cleans = (false, true, true).
Proof. repeat split; reflexivity. Qed.

(* ---- the sweeps: the predicate of `self.data.retain(..)` in each store, PeriodicStore's trigger and rescheduling ---- *)
Ltac tie_keep f := intros sf ex now; unfold f; cbv zeta beta iota; cases.
Theorem gen_p_keep_is_model : forall sf ex now, gen_p_keep sf (Some ex) now = (now <? ex).
Proof. tie_keep gen_p_keep. Qed.
Theorem gen_a_keep_is_model : forall sf ex now, gen_a_keep sf (Some ex) now = (now <? ex).
Proof. tie_keep gen_a_keep. Qed.
Theorem gen_b_keep_is_model : forall sf ex now, gen_b_keep sf (Some ex) now = (now <? ex).
Proof. tie_keep gen_b_keep. Qed.

(* hence `retain` of the models is the table filtered by the translated predicate *)
Theorem gen_retain_is_model : forall (K : Type) sf (d : data K) now,
  retain K d now = filter (fun p => gen_p_keep sf (Some (snd (snd p))) now) d /\
  retain K d now = filter (fun p => gen_a_keep sf (Some (snd (snd p))) now) d /\
  retain K d now = filter (fun p => gen_b_keep sf (Some (snd (snd p))) now) d.
Proof.
  intros K sf d now. unfold retain.
  split; [|split]; apply filter_ext; intros p.
  - rewrite gen_p_keep_is_model; reflexivity.
  - rewrite gen_a_keep_is_model; reflexivity.
  - rewrite gen_b_keep_is_model; reflexivity.
Qed.

(* PeriodicStore::maybe_clean_expired: when it sweeps and when the next sweep is scheduled *)
Theorem gen_p_clean_is_model : forall (K : Type) (s : pstate K) sf now,
  sf "next_cleanup"%string = p_next K s -> sf "cleanup_interval"%string = p_interval K s ->
  p_next K (p_clean K s now) = (if gen_p_due sf now then gen_p_next sf now else p_next K s) /\
  p_data K (p_clean K s now) = (if gen_p_due sf now then retain K (p_data K s) now else p_data K s) /\
  p_interval K (p_clean K s now) = p_interval K s.
Proof.
  intros K s sf now H1 H2. unfold p_clean, gen_p_due, gen_p_next. rewrite H1, H2.
  destruct (p_next K s <=? now) eqn:E; cbn [p_next p_data p_interval]; repeat split; try reflexivity;
    repeat match goal with |- context [if ?c then _ else _] => destruct c eqn:? end; try reflexivity; exfalso; lia.
Qed.
