(* No silent loss, for ANY order of timestamps (C17 / C05: soundness of the stale-forget class).

   Beside the real table run a ghost map that is never cleaned: for every key the value and expiry
   of its last successful write, and the latest timestamp carried by any WRITE made after it
   ([None]: no write since).  Theorem: in every reachable state of every built-in store, whatever
   the order of the timestamps, a ghost entry (v, e) is either still in the table, or some write
   made after it carried a timestamp at or past e.  Hence a lookup at [now < e] that finds nothing
   (a "stale-forget" event) is always preceded by a later-stamped write - the cause named in
   KNOWN_FINDINGS.txt - and an entry that disappears without such a write ("lost" in the harness)
   is outside the behaviour of the modelled stores. *)
From Coq Require Import ZArith List Bool Lia.
Import ListNotations.
Require Import TC.Generated.Consts TC.Base.Map TC.Store.Stores.
Open Scope Z_scope.

Section NL.
Variable K : Type.
Variable keqb : K -> K -> bool.
Hypothesis keqb_spec : forall a b, reflect (a = b) (keqb a b).

Notation data := (data K).
Notation sop := (sop K).
Notation store := (store K).

Definition gentry := (Z * Z * option Z)%type.   (* value, expiry, latest write timestamp since *)
Definition ghost := list (K * gentry).

Definition bump1 (now : Z) (e : gentry) : gentry :=
  let '(v, ex, m) := e in (v, ex, Some (match m with Some t => Z.max t now | None => now end)).
Definition bump (g : ghost) (now : Z) : ghost := map (fun p => (fst p, bump1 now (snd p))) g.

(* the ghost follows the RESULTS of the real run: a write that reported success is recorded *)
Definition gstep (g : ghost) (o : sop) (r : sres) : ghost :=
  match o, r with
  | SetNX k v ttl now, RBool true => insert keqb (bump g now) k (v, now + ttl, None)
  | SetNX _ _ _ now, _ => bump g now
  | Cas k _ new ttl now, RBool true => insert keqb (bump g now) k (new, now + ttl, None)
  | Cas _ _ _ _ now, _ => bump g now
  | Get _ _, _ => g
  end.

Fixpoint grun (s : store) (g : ghost) (ops : list (bool * sop)) : store * ghost :=
  match ops with
  | [] => (s, g)
  | (orc, o) :: r => let (s1, res) := sstep K keqb s orc o in grun s1 (gstep g o res) r
  end.

Definition reached (m : option Z) (ex : Z) : Prop := exists t, m = Some t /\ ex <= t.

(* the invariant *)
Definition GInv (d : data) (g : ghost) : Prop :=
  uniq d /\
  (forall k v ex, lookup keqb d k = Some (v, ex) -> exists m, lookup keqb g k = Some (v, ex, m)) /\
  (forall k v ex m, lookup keqb g k = Some (v, ex, m) -> lookup keqb d k = Some (v, ex) \/ reached m ex).

Lemma lookup_bump g now k :
  lookup keqb (bump g now) k = match lookup keqb g k with Some e => Some (bump1 now e) | None => None end.
Proof.
  induction g as [|[k' e] r IH]; cbn [bump map lookup fst snd]; [reflexivity|].
  destruct (keqb k k'); [reflexivity|exact IH].
Qed.

Lemma reached_bump m ex now : reached m ex -> reached (Some (match m with Some t => Z.max t now | None => now end)) ex.
Proof. intros (t & -> & Ht). exists (Z.max t now). split; [reflexivity|lia]. Qed.

Lemma GInv_bump d g now : GInv d g -> GInv d (bump g now).
Proof.
  intros (U & H1 & H2). split; [exact U|]. split.
  - intros k v ex Hl. destruct (H1 k v ex Hl) as (m & Hm). rewrite lookup_bump, Hm. cbn [bump1]. eexists; reflexivity.
  - intros k v ex m Hl. rewrite lookup_bump in Hl. destruct (lookup keqb g k) as [[[v0 ex0] m0]|] eqn:Hg; [|discriminate].
    cbn [bump1] in Hl. injection Hl as E1 E2 E3. subst v0 ex0 m. destruct (H2 k v ex m0 Hg) as [L|R]; [left; exact L|right; apply reached_bump; exact R].
Qed.

(* after a bump at [now] every ghost entry has seen a write stamped at least [now] *)
Definition Seen (g : ghost) (now : Z) : Prop :=
  forall k v ex m, lookup keqb g k = Some (v, ex, m) -> exists t, m = Some t /\ now <= t.
Lemma Seen_bump g now : Seen (bump g now) now.
Proof.
  intros k v ex m Hl. rewrite lookup_bump in Hl. destruct (lookup keqb g k) as [[[v0 ex0] m0]|]; [|discriminate].
  cbn [bump1] in Hl. injection Hl as E1 E2 E3. subst m. eexists; split; [reflexivity|]. destruct m0; lia.
Qed.

Lemma lookup_retain (d : data) k now :
  uniq d ->
  lookup keqb (retain K d now) k =
  match lookup keqb d k with Some (v, ex) => if now <? ex then Some (v, ex) else None | None => None end.
Proof.
  intros U. unfold retain. rewrite (lookup_filter_uniq K keqb keqb_spec) by exact U.
  match goal with |- match ?x with _ => _ end = _ => change x with (lookup keqb d k) end.
  destruct (lookup keqb d k) as [[v ex]|]; reflexivity.
Qed.

(* a sweep at [now] keeps the invariant provided every ghost entry has seen a write stamped >= now *)
Lemma GInv_retain d g now : GInv d g -> Seen g now -> GInv (retain K d now) g.
Proof.
  intros (U & H1 & H2) HS. split; [apply uniq_filter; exact U|]. split.
  - intros k v ex Hl. rewrite lookup_retain in Hl by exact U.
    destruct (lookup keqb d k) as [[v0 ex0]|] eqn:Hd; [|discriminate].
    destruct (now <? ex0); [|discriminate]. injection Hl as E1 E2. subst v0 ex0. apply H1; exact Hd.
  - intros k v ex m Hl. destruct (H2 k v ex m Hl) as [L|R]; [|right; exact R].
    destruct (now <? ex) eqn:Hc.
    + left. rewrite lookup_retain by exact U. rewrite L, Hc. reflexivity.
    + right. destruct (HS k v ex m Hl) as (t & -> & Ht). exists t. split; [reflexivity|]. apply Z.ltb_ge in Hc. lia.
Qed.

Lemma GInv_insert d g k v ex : GInv d g -> GInv (insert keqb d k (v, ex)) (insert keqb g k (v, ex, None)).
Proof.
  intros (U & H1 & H2). split; [apply (uniq_insert K keqb keqb_spec); exact U|]. split.
  - intros k2 v2 ex2 Hl. rewrite lookup_insert in Hl by exact keqb_spec. rewrite lookup_insert by exact keqb_spec.
    destruct (keqb k2 k); [injection Hl as E1 E2; subst v2 ex2; eexists; reflexivity|apply H1; exact Hl].
  - intros k2 v2 ex2 m Hl. rewrite lookup_insert in Hl by exact keqb_spec. rewrite lookup_insert by exact keqb_spec.
    destruct (keqb k2 k); [injection Hl as E1 E2 E3; subst v2 ex2 m; left; reflexivity|apply (H2 _ _ _ _ Hl)].
Qed.

(* what a cleanup may do to the table: nothing, or a sweep at the time of the call *)
Definition cleaned (d d1 : data) (now : Z) : Prop := d1 = d \/ d1 = retain K d now.

Lemma GInv_cleaned d d1 g now : GInv d (bump g now) -> cleaned d d1 now -> GInv d1 (bump g now).
Proof. intros HI [->| ->]; [exact HI|]. apply GInv_retain; [exact HI|apply Seen_bump]. Qed.

Lemma GInv_setnx d g k v ttl now :
  GInv d (bump g now) ->
  GInv (fst (fst (d_setnx K keqb d k v ttl now)))
      (if snd (fst (d_setnx K keqb d k v ttl now)) then insert keqb (bump g now) k (v, now + ttl, None) else bump g now).
Proof.
  intros HI. unfold d_setnx. destruct (lookup keqb d k) as [[c ex]|].
  - destruct (now <? ex); cbn [fst snd]; [exact HI|apply GInv_insert; exact HI].
  - cbn [fst snd]. apply GInv_insert; exact HI.
Qed.
Lemma GInv_cas d g k old new ttl now :
  GInv d (bump g now) ->
  GInv (fst (fst (d_cas K keqb d k old new ttl now)))
      (if snd (fst (d_cas K keqb d k old new ttl now)) then insert keqb (bump g now) k (new, now + ttl, None) else bump g now).
Proof.
  intros HI. unfold d_cas. destruct (lookup keqb d k) as [[c ex]|]; [|exact HI].
  destruct (ex <=? now); [exact HI|]. destruct (c =? old); cbn [fst snd]; [apply GInv_insert; exact HI|exact HI].
Qed.

(* the shape of a write on any built-in store: a possible sweep at the call's own time, then the map operation *)
Lemma p_clean_cleaned (s : pstate K) now : cleaned (p_data K s) (p_data K (p_clean K s now)) now.
Proof. unfold p_clean. destruct (p_next K s <=? now); [right|left]; reflexivity. Qed.
Lemma a_clean_cleaned (s : astate K) now orc : cleaned (a_data K s) (a_data K (a_maybe_clean K s now orc)) now.
Proof. unfold a_maybe_clean. destruct (a_should_clean K _ now orc); [right|left]; reflexivity. Qed.
Lemma b_clean_cleaned (s : bstate K) now : cleaned (b_data K s) (b_data K (b_maybe_clean K s now)) now.
Proof. unfold b_maybe_clean. cbn [b_data]. destruct (b_fires _ _); [right|left]; reflexivity. Qed.

Lemma setnx_shape (s : store) orc k v ttl now :
  exists d1, cleaned (sdata K s) d1 now /\
    sdata K (fst (sstep K keqb s orc (SetNX k v ttl now))) = fst (fst (d_setnx K keqb d1 k v ttl now)) /\
    snd (sstep K keqb s orc (SetNX k v ttl now)) = RBool (snd (fst (d_setnx K keqb d1 k v ttl now))).
Proof.
  destruct s as [s|s|s]; cbn [sstep sdata].
  - exists (p_data K (p_clean K s now)). split; [apply p_clean_cleaned|]. cbn [p_step].
    destruct (d_setnx K keqb (p_data K (p_clean K s now)) k v ttl now) as [[d ok] fe]. cbn. split; reflexivity.
  - exists (a_data K (a_maybe_clean K s now orc)). split; [apply a_clean_cleaned|]. cbn [a_step].
    destruct (d_setnx K keqb (a_data K (a_maybe_clean K s now orc)) k v ttl now) as [[d ok] fe]. cbn. split; reflexivity.
  - exists (b_data K (b_maybe_clean K s now)). split; [apply b_clean_cleaned|]. cbn [b_step].
    destruct (d_setnx K keqb (b_data K (b_maybe_clean K s now)) k v ttl now) as [[d ok] fe]. cbn. split; reflexivity.
Qed.
Lemma cas_shape (s : store) orc k old new ttl now :
  exists d1, cleaned (sdata K s) d1 now /\
    sdata K (fst (sstep K keqb s orc (Cas k old new ttl now))) = fst (fst (d_cas K keqb d1 k old new ttl now)) /\
    snd (sstep K keqb s orc (Cas k old new ttl now)) = RBool (snd (fst (d_cas K keqb d1 k old new ttl now))).
Proof.
  destruct s as [s|s|s]; cbn [sstep sdata].
  - exists (p_data K (p_clean K s now)). split; [apply p_clean_cleaned|]. cbn [p_step].
    destruct (d_cas K keqb (p_data K (p_clean K s now)) k old new ttl now) as [[d ok] fe]. cbn. split; reflexivity.
  - exists (a_data K (a_maybe_clean K s now orc)). split; [apply a_clean_cleaned|]. cbn [a_step].
    destruct (d_cas K keqb (a_data K (a_maybe_clean K s now orc)) k old new ttl now) as [[d ok] fe]. cbn. split; reflexivity.
  - exists (b_data K (b_maybe_clean K s now)). split; [apply b_clean_cleaned|]. cbn [b_step].
    destruct (d_cas K keqb (b_data K (b_maybe_clean K s now)) k old new ttl now) as [[d ok] fe]. cbn. split; reflexivity.
Qed.
Lemma get_shape (s : store) orc k now : sdata K (fst (sstep K keqb s orc (Get k now))) = sdata K s.
Proof. destruct s; reflexivity. Qed.

Theorem step_keeps_inv (s : store) (g : ghost) orc (o : sop) :
  GInv (sdata K s) g ->
  GInv (sdata K (fst (sstep K keqb s orc o))) (gstep g o (snd (sstep K keqb s orc o))).
Proof.
  intros HI. destruct o as [k now|k v ttl now|k old new ttl now].
  - rewrite get_shape. cbn [gstep]. exact HI.
  - destruct (setnx_shape s orc k v ttl now) as (d1 & Hc & Hd & Hr). rewrite Hd, Hr. cbn [gstep].
    pose proof (GInv_setnx d1 g k v ttl now (GInv_cleaned _ _ _ _ (GInv_bump _ _ now HI) Hc)) as H.
    destruct (snd (fst (d_setnx K keqb d1 k v ttl now))); exact H.
  - destruct (cas_shape s orc k old new ttl now) as (d1 & Hc & Hd & Hr). rewrite Hd, Hr. cbn [gstep].
    pose proof (GInv_cas d1 g k old new ttl now (GInv_cleaned _ _ _ _ (GInv_bump _ _ now HI) Hc)) as H.
    destruct (snd (fst (d_cas K keqb d1 k old new ttl now))); exact H.
Qed.

Theorem run_keeps_inv : forall (ops : list (bool * sop)) (s : store) (g : ghost),
  GInv (sdata K s) g -> GInv (sdata K (fst (grun s g ops))) (snd (grun s g ops)).
Proof.
  induction ops as [|[orc o] r IH]; intros s g HI; cbn [grun]; [exact HI|].
  pose proof (step_keeps_inv s g orc o HI) as H1.
  destruct (sstep K keqb s orc o) as [s1 res]. cbn [fst snd] in H1. apply IH; exact H1.
Qed.

Lemma GInv_empty : GInv [] [].
Proof. split; [constructor|]. split; intros; discriminate. Qed.

(* the ghost run does not disturb the real run *)
Lemma grun_fst : forall ops s g, fst (grun s g ops) = fst (srun K keqb s ops).
Proof.
  induction ops as [|[orc o] r IH]; intros s g; cbn [grun srun]; [reflexivity|].
  destruct (sstep K keqb s orc o) as [s1 res]. specialize (IH s1 (gstep g o res)).
  destruct (srun K keqb s1 r) as [s2 rs]. exact IH.
Qed.

(* MAIN: any built-in store started with an empty table, any operations in ANY timestamp order.  If the last
   successful write of key k left (v, ex) and a lookup at now < ex finds nothing, then some write made after it
   carried a timestamp t >= ex (> now): the entry was reclaimed by a later-stamped call, never silently. *)
Theorem no_silent_loss :
  forall (s0 : store) (ops : list (bool * sop)) (k : K) (v ex : Z) (m : option Z) (now : Z),
  sdata K s0 = [] ->
  lookup keqb (snd (grun s0 [] ops)) k = Some (v, ex, m) ->
  now < ex ->
  d_get K keqb (sdata K (fst (srun K keqb s0 ops))) k now = None ->
  exists t, m = Some t /\ now < ex <= t.
Proof.
  intros s0 ops k v ex m now H0 Hg Hlt Hget.
  pose proof (run_keeps_inv ops s0 [] ) as HI. rewrite H0 in HI. specialize (HI GInv_empty).
  rewrite grun_fst in HI. destruct HI as (_ & _ & H2). destruct (H2 k v ex m Hg) as [L|(t & -> & Ht)].
  - unfold d_get in Hget. rewrite L in Hget. apply Z.ltb_lt in Hlt. rewrite Hlt in Hget. discriminate.
  - exists t. split; [reflexivity|lia].
Qed.

(* conversely a present entry is always the ghost's: the table never shows a value other than the last successful write *)
Theorem table_shows_last_write :
  forall (s0 : store) (ops : list (bool * sop)) (k : K) (v now : Z),
  sdata K s0 = [] ->
  d_get K keqb (sdata K (fst (srun K keqb s0 ops))) k now = Some v ->
  exists ex m, lookup keqb (snd (grun s0 [] ops)) k = Some (v, ex, m) /\ now < ex.
Proof.
  intros s0 ops k v now H0 Hget.
  pose proof (run_keeps_inv ops s0 []) as HI. rewrite H0 in HI. specialize (HI GInv_empty).
  rewrite grun_fst in HI. destruct HI as (_ & H1 & _).
  unfold d_get in Hget. destruct (lookup keqb (sdata K (fst (srun K keqb s0 ops))) k) as [[v0 ex0]|] eqn:Hl; [|discriminate].
  destruct (now <? ex0) eqn:Hc; [|discriminate]. injection Hget as ->.
  destruct (H1 k v ex0 Hl) as (m & Hm). exists ex0, m. split; [exact Hm|apply Z.ltb_lt; exact Hc].
Qed.

End NL.

(* Non-vacuity: the premises of [no_silent_loss] are met by the canonical stale-forget history (periodic store that
   sweeps on every write; key 1 written at t=100 with 2 ns to live, key 2 written at t=110; a lookup of key 1 stamped
   101 finds nothing although its value is live at 101) - and the witness the theorem promises is the write stamped 110. *)
Example stale_forget_happens :
  let ops := [(false, SetNX 1 7 2 100); (false, SetNX 2 8 50 110)] in
  let r := grun Z Z.eqb (periodic_new 0 0) [] ops in
  lookup Z.eqb (snd r) 1 = Some (7, 102, Some 110) /\
  d_get Z Z.eqb (sdata Z (fst (srun Z Z.eqb (periodic_new 0 0) ops))) 1 101 = None /\ 101 < 102 <= 110.
Proof. vm_compute. repeat split; discriminate. Qed.
