(* Executable comparison of the source-translated store methods with the model's entry-level functions on a fixed
   lattice; used only when Store/GenStoreTie.v no longer compiles.  Must not depend on GenStoreTie.v. *)
From Coq Require Import ZArith List Bool String.
Import ListNotations.
Require Import TC.Store.GenStoreOps TC.Generated.StoreGen.
Open Scope Z_scope.

Definition oeqb (a b : option (Z * Z)) : bool :=
  match a, b with Some (x, y), Some (u, w) => (x =? u) && (y =? w) | None, None => true | _, _ => false end.
Definition ozeqb (a b : option Z) : bool :=
  match a, b with Some x, Some u => x =? u | None, None => true | _, _ => false end.
Definition lift (e : option (Z * Z)) : gentry := match e with Some (v, ex) => Some (v, Some ex) | None => None end.
Definition view (f : store_eff) : option (Z * Z) := match se_insert f with Some (v, Some ex) => Some (v, ex) | _ => None end.
Definition wf (f : store_eff) : bool := match se_insert f with Some (_, None) => false | _ => true end.
Definition m_get (e : option (Z * Z)) (now : Z) : option Z :=
  match e with Some (v, ex) => if now <? ex then Some v else None | None => None end.
Definition m_setnx (e : option (Z * Z)) (v ttl now : Z) : option (Z * Z) * bool * bool :=
  match e with
  | Some (_, ex) => if now <? ex then (None, false, false) else (Some (v, now + ttl), true, true)
  | None => (Some (v, now + ttl), true, false)
  end.
Definition m_cas (e : option (Z * Z)) (old new ttl now : Z) : option (Z * Z) * bool * bool :=
  match e with
  | Some (cur, ex) => if ex <=? now then (None, false, true)
                      else if cur =? old then (Some (new, now + ttl), true, false) else (None, false, false)
  | None => (None, false, false)
  end.
Definition eff_ok (with_bump : bool) (f : store_eff) (m : option (Z * Z) * bool * bool) : bool :=
  oeqb (view f) (fst (fst m)) && Bool.eqb (se_ok f) (snd (fst m)) && wf f && (negb with_bump || Bool.eqb (se_bump f) (snd m)).

Definition nows : list Z := [0; 100; 1700000000000000000].
Definition entries (now : Z) : list (option (Z * Z)) :=
  None :: flat_map (fun v => map (fun ex => Some (v, ex)) [now - 1; now; now + 1; now + 1000; 0]) [0; 5; -1; 9223372036854775807].
Definition ttls : list Z := [0; 1; 10; 18446744073709551615].
Definition vals : list Z := [0; 5; 6; -1; 9223372036854775807; -9223372036854775808].

(* (store, method, entry, now, a, b, ttl) on which source and model differ *)
Definition store_disagreements : list (nat * nat * option (Z * Z) * Z * Z * Z * Z) :=
  flat_map (fun now => flat_map (fun e =>
    (if ozeqb (gen_p_get (lift e) now) (m_get e now) then [] else [(0%nat, 0%nat, e, now, 0, 0, 0)]) ++
    (if ozeqb (gen_a_get (lift e) now) (m_get e now) then [] else [(1%nat, 0%nat, e, now, 0, 0, 0)]) ++
    (if ozeqb (gen_b_get (lift e) now) (m_get e now) then [] else [(2%nat, 0%nat, e, now, 0, 0, 0)]) ++
    flat_map (fun ttl => flat_map (fun v =>
      (if eff_ok false (gen_p_setnx (lift e) v ttl now) (m_setnx e v ttl now) then [] else [(0%nat, 1%nat, e, now, v, 0, ttl)]) ++
      (if eff_ok true (gen_a_setnx (lift e) v ttl now) (m_setnx e v ttl now) then [] else [(1%nat, 1%nat, e, now, v, 0, ttl)]) ++
      (if eff_ok false (gen_b_setnx (lift e) v ttl now) (m_setnx e v ttl now) then [] else [(2%nat, 1%nat, e, now, v, 0, ttl)]) ++
      flat_map (fun old =>
        (if eff_ok false (gen_p_cas (lift e) old v ttl now) (m_cas e old v ttl now) then [] else [(0%nat, 2%nat, e, now, old, v, ttl)]) ++
        (if eff_ok true (gen_a_cas (lift e) old v ttl now) (m_cas e old v ttl now) then [] else [(1%nat, 2%nat, e, now, old, v, ttl)]) ++
        (if eff_ok false (gen_b_cas (lift e) old v ttl now) (m_cas e old v ttl now) then [] else [(2%nat, 2%nat, e, now, old, v, ttl)]))
        vals) vals) ttls) (entries now)) nows.
Definition cleans_ok : bool :=
  match gen_p_cleans, gen_a_cleans, gen_b_cleans with
  | (false, true, true), (false, true, true), (false, true, true) => true | _, _, _ => false end.

(* sweep predicates and PeriodicStore's trigger: (store, expiry, now, next_cleanup, interval) on which they differ from the model *)
Definition sweep_disagreements : list (nat * Z * Z * Z * Z) :=
  flat_map (fun now => flat_map (fun d => flat_map (fun nx => flat_map (fun iv =>
    let sf := fun f : string => if String.eqb f "next_cleanup" then nx else iv in
    let ex := now + d in
    (if Bool.eqb (gen_p_keep sf (Some ex) now) (now <? ex) then [] else [(0%nat, ex, now, nx, iv)]) ++
    (if Bool.eqb (gen_a_keep sf (Some ex) now) (now <? ex) then [] else [(1%nat, ex, now, nx, iv)]) ++
    (if Bool.eqb (gen_b_keep sf (Some ex) now) (now <? ex) then [] else [(2%nat, ex, now, nx, iv)]) ++
    (if Bool.eqb (gen_p_due sf now) (nx <=? now) && (gen_p_next sf now =? now + iv) then [] else [(3%nat, ex, now, nx, iv)]))
    [0; 1; 1000000000]) [now - 5; now - 1; now; now + 1; now + 5; now + 1000000000; now + 5000000000])
    [-1000000000; -1; 0; 1; 2; 1000000000; 4999999999; 5000000000; 5000000001]) nows.
