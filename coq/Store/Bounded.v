(* C07, bounded size: the table of a built-in store is a map whose entries each stem from a write of
   the history; together with the reclamation theorems of Reclaim.v this bounds the NUMBER of physical
   entries by the number of distinct keys written with a lifetime reaching into the reclamation window. *)
From Coq Require Import ZArith List Bool Lia.
Import ListNotations.
Require Import TC.Generated.Consts TC.Base.Map TC.Store.Stores TC.Store.Reclaim.
Open Scope Z_scope.

Section B.
Variable K : Type.
Variable keqb : K -> K -> bool.
Hypothesis keqb_spec : forall a b, reflect (a = b) (keqb a b).

Notation data := (data K).
Notation sop := (sop K).

(* the entry a write leaves in the table *)
Definition written_by (o : sop) (e : K * (Z * Z)) : Prop :=
  match o with
  | SetNX k v ttl now => e = (k, (v, now + ttl))
  | Cas k _ new ttl now => e = (k, (new, now + ttl))
  | Get _ _ => False
  end.
Definition from_writes (ops : list (bool * sop)) (d : data) : Prop :=
  Forall (fun e => exists p, In p ops /\ written_by (snd p) e) d.
Definition prov (ops : list (bool * sop)) (d : data) : Prop := uniq d /\ from_writes ops d.

Lemma from_writes_mono ops ops' d : incl ops ops' -> from_writes ops d -> from_writes ops' d.
Proof.
  intros Hi H. unfold from_writes in *. rewrite Forall_forall in *. intros e He.
  destruct (H e He) as (p & Hp & Hw). exists p. split; [apply Hi; exact Hp|exact Hw].
Qed.
Lemma from_writes_filter ops (P : K * (Z * Z) -> bool) d : from_writes ops d -> from_writes ops (filter P d).
Proof.
  unfold from_writes. rewrite !Forall_forall. intros H e He. apply filter_In in He. apply H. tauto.
Qed.
Lemma from_writes_remove ops d k : from_writes ops d -> from_writes ops (remove keqb d k).
Proof. apply from_writes_filter. Qed.

Lemma prov_retain ops d now : prov ops d -> prov ops (retain K d now).
Proof. intros [U F]. split; [apply uniq_filter; exact U|apply from_writes_filter; exact F]. Qed.

Lemma prov_insert ops d orc o k v ex :
  prov ops d -> written_by o (k, (v, ex)) -> prov (ops ++ [(orc, o)]) (insert keqb d k (v, ex)).
Proof.
  intros [U F] Hw. split; [apply (uniq_insert K keqb keqb_spec); exact U|].
  unfold insert. constructor.
  - exists (orc, o). split; [apply in_or_app; right; left; reflexivity|exact Hw].
  - apply from_writes_remove. eapply from_writes_mono; [|exact F]. apply incl_appl, incl_refl.
Qed.
Lemma prov_more ops d p : prov ops d -> prov (ops ++ [p]) d.
Proof. intros [U F]. split; [exact U|]. eapply from_writes_mono; [|exact F]. apply incl_appl, incl_refl. Qed.

Lemma prov_setnx ops d orc k v ttl now :
  prov ops d -> prov (ops ++ [(orc, SetNX k v ttl now)]) (fst (fst (d_setnx K keqb d k v ttl now))).
Proof.
  intros H. unfold d_setnx. destruct (lookup keqb d k) as [[c ex]|].
  - destruct (now <? ex); cbn [fst]; [apply prov_more; exact H|apply prov_insert; [exact H|reflexivity]].
  - cbn [fst]. apply prov_insert; [exact H|reflexivity].
Qed.
Lemma prov_cas ops d orc k old new ttl now :
  prov ops d -> prov (ops ++ [(orc, Cas k old new ttl now)]) (fst (fst (d_cas K keqb d k old new ttl now))).
Proof.
  intros H. unfold d_cas. destruct (lookup keqb d k) as [[c ex]|]; [|cbn [fst]; apply prov_more; exact H].
  destruct (ex <=? now); [cbn [fst]; apply prov_more; exact H|].
  destruct (c =? old); cbn [fst]; [apply prov_insert; [exact H|reflexivity]|apply prov_more; exact H].
Qed.

(* one step of any built-in store keeps the table a map of entries stemming from writes *)
Lemma prov_step ops (s : store K) orc (o : sop) :
  prov ops (sdata K s) -> prov (ops ++ [(orc, o)]) (sdata K (fst (sstep K keqb s orc o))).
Proof.
  intros H. destruct s as [s|s|s]; cbn [sstep sdata] in *.
  - destruct o as [k now|k v ttl now|k old new ttl now]; cbn [p_step].
    + cbn [fst sdata]. apply prov_more; exact H.
    + assert (H1 : prov ops (p_data K (p_clean K s now))).
      { unfold p_clean. destruct (p_next K s <=? now); cbn [p_data]; [apply prov_retain|]; exact H. }
      pose proof (prov_setnx ops _ orc k v ttl now H1) as H2.
      destruct (d_setnx K keqb (p_data K (p_clean K s now)) k v ttl now) as [[d ok] fe]. exact H2.
    + assert (H1 : prov ops (p_data K (p_clean K s now))).
      { unfold p_clean. destruct (p_next K s <=? now); cbn [p_data]; [apply prov_retain|]; exact H. }
      pose proof (prov_cas ops _ orc k old new ttl now H1) as H2.
      destruct (d_cas K keqb (p_data K (p_clean K s now)) k old new ttl now) as [[d ok] fe]. exact H2.
  - destruct o as [k now|k v ttl now|k old new ttl now]; cbn [a_step].
    + cbn [fst sdata]. apply prov_more; exact H.
    + assert (H1 : prov ops (a_data K (a_maybe_clean K s now orc))).
      { unfold a_maybe_clean. destruct (a_should_clean K _ now orc); cbn [a_cleanup a_data]; [apply prov_retain|]; exact H. }
      pose proof (prov_setnx ops _ orc k v ttl now H1) as H2.
      destruct (d_setnx K keqb (a_data K (a_maybe_clean K s now orc)) k v ttl now) as [[d ok] fe]. exact H2.
    + assert (H1 : prov ops (a_data K (a_maybe_clean K s now orc))).
      { unfold a_maybe_clean. destruct (a_should_clean K _ now orc); cbn [a_cleanup a_data]; [apply prov_retain|]; exact H. }
      pose proof (prov_cas ops _ orc k old new ttl now H1) as H2.
      destruct (d_cas K keqb (a_data K (a_maybe_clean K s now orc)) k old new ttl now) as [[d ok] fe]. exact H2.
  - destruct o as [k now|k v ttl now|k old new ttl now]; cbn [b_step].
    + cbn [fst sdata]. apply prov_more; exact H.
    + assert (H1 : prov ops (b_data K (b_maybe_clean K s now))).
      { unfold b_maybe_clean. cbn [b_data]. destruct (b_fires _ _); [apply prov_retain|]; exact H. }
      pose proof (prov_setnx ops _ orc k v ttl now H1) as H2.
      destruct (d_setnx K keqb (b_data K (b_maybe_clean K s now)) k v ttl now) as [[d ok] fe]. exact H2.
    + assert (H1 : prov ops (b_data K (b_maybe_clean K s now))).
      { unfold b_maybe_clean. cbn [b_data]. destruct (b_fires _ _); [apply prov_retain|]; exact H. }
      pose proof (prov_cas ops _ orc k old new ttl now H1) as H2.
      destruct (d_cas K keqb (b_data K (b_maybe_clean K s now)) k old new ttl now) as [[d ok] fe]. exact H2.
Qed.

Lemma prov_run : forall (ops pre : list (bool * sop)) (s : store K),
  prov pre (sdata K s) -> prov (pre ++ ops) (sdata K (fst (srun K keqb s ops))).
Proof.
  induction ops as [|[orc o] r IH]; intros pre s H.
  - rewrite app_nil_r. exact H.
  - cbn [srun]. pose proof (prov_step pre s orc o H) as H1.
    destruct (sstep K keqb s orc o) as [s1 res]. cbn [fst] in H1.
    specialize (IH (pre ++ [(orc, o)]) s1 H1). rewrite <- app_assoc in IH. cbn [app] in IH.
    destruct (srun K keqb s1 r) as [s2 rs]. exact IH.
Qed.

(* keys written in the history with a lifetime ending at or after [lo] *)
Definition op_expiry (o : sop) : Z :=
  match o with SetNX _ _ ttl now => now + ttl | Cas _ _ _ ttl now => now + ttl | Get _ now => now end.
Definition live_writes (lo : Z) (ops : list (bool * sop)) : list K :=
  map (fun p => op_key (snd p)) (filter (fun p => is_write (snd p) && (lo <=? op_expiry (snd p))) ops).

Fixpoint dedup (l : list K) : list K :=
  match l with [] => [] | x :: r => if existsb (keqb x) r then dedup r else x :: dedup r end.
Lemma existsb_keqb x l : existsb (keqb x) l = true <-> In x l.
Proof.
  rewrite existsb_exists. split.
  - intros (y & Hy & E). destruct (keqb_spec x y); [subst; exact Hy|discriminate].
  - intros H. exists x. split; [exact H|]. destruct (keqb_spec x x); [reflexivity|contradiction].
Qed.
Lemma dedup_in x l : In x (dedup l) <-> In x l.
Proof.
  induction l as [|y r IH]; [reflexivity|]. cbn [dedup]. destruct (existsb (keqb y) r) eqn:E.
  - rewrite IH. split; [intros H; right; exact H|]. intros [->|H]; [apply existsb_keqb; exact E|exact H].
  - cbn [In]. rewrite IH. reflexivity.
Qed.
Lemma dedup_nodup l : NoDup (dedup l).
Proof.
  induction l as [|y r IH]; [constructor|]. cbn [dedup]. destruct (existsb (keqb y) r) eqn:E; [exact IH|].
  constructor; [|exact IH]. rewrite dedup_in. intros H. apply existsb_keqb in H. congruence.
Qed.

(* the counting step: a map whose entries stem from writes and all expire from [lo] on has at most as many
   entries as there are DISTINCT keys written with an expiry >= lo *)
Theorem entries_bounded_by_live_keys ops d lo :
  prov ops d -> all_expire_from K lo d -> (length d <= length (dedup (live_writes lo ops)))%nat.
Proof.
  intros [U F] Hall. rewrite <- (map_length fst d). apply NoDup_incl_length; [exact U|].
  intros k Hk. apply dedup_in. apply in_map_iff in Hk. destruct Hk as ([k' [v ex]] & <- & He). cbn [fst].
  unfold from_writes in F. rewrite Forall_forall in F. destruct (F _ He) as ([orc o] & Hp & Hw).
  unfold all_expire_from in Hall. rewrite Forall_forall in Hall. pose proof (Hall _ He) as Hlo. unfold expiry_of in Hlo. cbn [snd] in Hlo.
  unfold live_writes. apply in_map_iff. exists (orc, o). cbn [snd] in *.
  destruct o as [k0 now|k0 v0 ttl now|k0 old new ttl now]; cbn [written_by] in Hw; [contradiction| |];
    injection Hw as -> -> ->; (split; [reflexivity|]); apply filter_In; (split; [exact Hp|]);
    cbn [snd is_write op_expiry andb]; apply Z.leb_le; exact Hlo.
Qed.

(* PeriodicStore: after any history ending with a write at t, the table has at most as many entries as
   there are distinct keys written with a lifetime reaching t - cleanup_interval or later *)
Theorem periodic_bounded (t_build interval : Z) (pre : list (bool * sop)) orc (o : sop) :
  0 <= interval -> nondec t_build (ops_times K (pre ++ [(orc, o)])) -> ops_ttl_ok K (pre ++ [(orc, o)]) ->
  is_write o = true ->
  (length (sdata K (fst (srun K keqb (periodic_new t_build interval) (pre ++ [(orc, o)])))) <=
   length (dedup (live_writes (op_time o - interval) (pre ++ [(orc, o)]))))%nat.
Proof.
  intros Hi Hnd Httl Hw. apply entries_bounded_by_live_keys.
  - apply (prov_run (pre ++ [(orc, o)]) [] (periodic_new t_build interval)). split; [apply uniq_nil|constructor].
  - apply (periodic_reclaims K keqb); assumption.
Qed.

(* AdaptiveStore, every oracle stream: window max(5 s, min_interval, max_interval) *)
Theorem adaptive_bounded (t_build mn mx mo : Z) (pre : list (bool * sop)) orc (o : sop) :
  0 <= mn -> 0 <= mx -> nondec t_build (ops_times K (pre ++ [(orc, o)])) -> ops_ttl_ok K (pre ++ [(orc, o)]) ->
  is_write o = true ->
  let W := Z.max (ADAPTIVE_DEFAULT_CLEANUP_INTERVAL_SECS * 1000000000) (Z.max mn mx) in
  (length (sdata K (fst (srun K keqb (adaptive_new t_build mn mx mo) (pre ++ [(orc, o)])))) <=
   length (dedup (live_writes (op_time o - W) (pre ++ [(orc, o)]))))%nat.
Proof.
  intros Hmn Hmx Hnd Httl Hw W. apply entries_bounded_by_live_keys.
  - apply (prov_run (pre ++ [(orc, o)]) [] (adaptive_new t_build mn mx mo)). split; [apply uniq_nil|constructor].
  - destruct (adaptive_reclaims K keqb t_build mn mx mo pre orc o Hmn Hmx Hnd Httl Hw) as (s' & -> & Hall & _). exact Hall.
Qed.

(* ProbabilisticStore (and any store, any history): right after a sweep at [now] the table has at most as many
   entries as there are distinct keys written with a lifetime ending after [now]; between sweeps it grows by at
   most one entry per write (C07_probabilistic_gap bounds the number of writes between sweeps) *)
Theorem swept_bounded ops (d : data) now :
  prov ops d -> (length (retain K d now) <= length (dedup (live_writes (now + 1) ops)))%nat.
Proof.
  intros H. apply entries_bounded_by_live_keys; [apply prov_retain; exact H|].
  pose proof (sweep_removes_expired K d now) as Hs. unfold all_expire_from.
  rewrite Forall_forall in *. intros e He. specialize (Hs e He). lia.
Qed.

Lemma filter_len {A} (P : A -> bool) (l : list A) : (length (filter P l) <= length l)%nat.
Proof. induction l as [|x r IH]; cbn [filter length]; [lia|]. destruct (P x); cbn [length]; lia. Qed.

Lemma step_grows_by_one (s : store K) orc (o : sop) :
  (length (sdata K (fst (sstep K keqb s orc o))) <= S (length (sdata K s)))%nat.
Proof.
  assert (Hr : forall d now, (length (retain K d now) <= length d)%nat) by (intros; apply filter_len).
  assert (Hrm : forall (d : data) k, (length (remove keqb d k) <= length d)%nat) by (intros; apply filter_len).
  assert (Hset : forall d k v ttl now, (length (fst (fst (d_setnx K keqb d k v ttl now))) <= S (length d))%nat).
  { intros d k v ttl now. unfold d_setnx. destruct (lookup keqb d k) as [[c ex]|]; [destruct (now <? ex)|]; cbn [fst insert length]; try lia; specialize (Hrm d k); lia. }
  assert (Hcas : forall d k old new ttl now, (length (fst (fst (d_cas K keqb d k old new ttl now))) <= S (length d))%nat).
  { intros d k old new ttl now. unfold d_cas. destruct (lookup keqb d k) as [[c ex]|]; [|cbn [fst]; lia].
    destruct (ex <=? now); [cbn [fst]; lia|]. destruct (c =? old); cbn [fst insert length]; try lia. specialize (Hrm d k). lia. }
  destruct s as [s|s|s]; cbn [sstep sdata]; destruct o as [k now|k v ttl now|k old new ttl now].
  - cbn [p_step fst sdata]. lia.
  - cbn [p_step]. pose proof (Hset (p_data K (p_clean K s now)) k v ttl now) as H.
    destruct (d_setnx K keqb (p_data K (p_clean K s now)) k v ttl now) as [[d ok] fe]. cbn [fst sdata p_with_data p_data] in *.
    assert ((length (p_data K (p_clean K s now)) <= length (p_data K s))%nat); [|lia].
    unfold p_clean. destruct (p_next K s <=? now); cbn [p_data]; [apply Hr|lia].
  - cbn [p_step]. pose proof (Hcas (p_data K (p_clean K s now)) k old new ttl now) as H.
    destruct (d_cas K keqb (p_data K (p_clean K s now)) k old new ttl now) as [[d ok] fe]. cbn [fst sdata p_with_data p_data] in *.
    assert ((length (p_data K (p_clean K s now)) <= length (p_data K s))%nat); [|lia].
    unfold p_clean. destruct (p_next K s <=? now); cbn [p_data]; [apply Hr|lia].
  - cbn [a_step fst sdata]. lia.
  - cbn [a_step]. pose proof (Hset (a_data K (a_maybe_clean K s now orc)) k v ttl now) as H.
    destruct (d_setnx K keqb (a_data K (a_maybe_clean K s now orc)) k v ttl now) as [[d ok] fe]. cbn [fst sdata a_with a_data] in *.
    assert ((length (a_data K (a_maybe_clean K s now orc)) <= length (a_data K s))%nat); [|lia].
    unfold a_maybe_clean. destruct (a_should_clean K _ now orc); cbn [a_cleanup a_data]; [apply Hr|lia].
  - cbn [a_step]. pose proof (Hcas (a_data K (a_maybe_clean K s now orc)) k old new ttl now) as H.
    destruct (d_cas K keqb (a_data K (a_maybe_clean K s now orc)) k old new ttl now) as [[d ok] fe]. cbn [fst sdata a_with a_data] in *.
    assert ((length (a_data K (a_maybe_clean K s now orc)) <= length (a_data K s))%nat); [|lia].
    unfold a_maybe_clean. destruct (a_should_clean K _ now orc); cbn [a_cleanup a_data]; [apply Hr|lia].
  - cbn [b_step fst sdata]. lia.
  - cbn [b_step]. pose proof (Hset (b_data K (b_maybe_clean K s now)) k v ttl now) as H.
    destruct (d_setnx K keqb (b_data K (b_maybe_clean K s now)) k v ttl now) as [[d ok] fe]. cbn [fst sdata b_data] in *.
    assert ((length (b_data K (b_maybe_clean K s now)) <= length (b_data K s))%nat); [|lia].
    unfold b_maybe_clean. cbn [b_data]. destruct (b_fires _ _); [apply Hr|lia].
  - cbn [b_step]. pose proof (Hcas (b_data K (b_maybe_clean K s now)) k old new ttl now) as H.
    destruct (d_cas K keqb (b_data K (b_maybe_clean K s now)) k old new ttl now) as [[d ok] fe]. cbn [fst sdata b_data] in *.
    assert ((length (b_data K (b_maybe_clean K s now)) <= length (b_data K s))%nat); [|lia].
    unfold b_maybe_clean. cbn [b_data]. destruct (b_fires _ _); [apply Hr|lia].
Qed.

End B.
