(* Executable comparison of the source-translated rate constructor with the Flocq model on a fixed lattice;
   used only when Float/RateTie.v no longer compiles (see Limiter/GenDiff.v).  Must not depend on RateTie.v. *)
From Coq Require Import ZArith List Bool.
Import ListNotations.
Require Import TC.Float.Rate64 TC.Generated.RateGen.
Open Scope Z_scope.
Definition lat_c : list Z := [i64min; -1; 0; 1; 2; 3; 7; 10; 59; 60; 100; 1000; 86400; 1000000007; 4294967295; 4294967296; 9007199254740993; i64max].
Definition lat_p : list Z := [i64min; -1; 0; 1; 2; 3; 59; 60; 61; 3600; 86400; 9000000; 1000000007; 9223372036; 9223372037; 4294967297; 9007199254740993; i64max].
Definition rate_disagreements : list (Z * Z) :=
  flat_map (fun c => flat_map (fun p => if gen_rate c p =? from_count_and_period c p then [] else [(c, p)]) lat_p) lat_c.
