(* Executable binary64 model of throttlecrab/src/core/rate/mod.rs (Flocq 4.1).

   Rate::from_count_and_period(count, period_seconds):
     if count <= 0 || period_seconds <= 0 { Duration::from_secs(u64::MAX) }
     else { Duration::from_nanos((period_seconds as f64 * 1e9 / count as f64) as u64) }
   Rate::per_second/minute/hour/day(n: u64) = Duration::from_secs(S) / (n as u32)

   Durations are modelled as Z nanoseconds; the (secs, nanos) representation of
   std::time::Duration is used only where the code's algorithm depends on it
   (Duration / u32).  A panic of the real code is the [None] outcome. *)
From Coq Require Import ZArith Bool Lia.
From Flocq Require Import Core BinarySingleNaN.
Require Import TC.Generated.Consts.
Open Scope bool_scope.
Open Scope Z_scope.

Definition prec := 53.
Definition emax := 1024.
Lemma Hprec : Prec_gt_0 prec. Proof. reflexivity. Qed.
Lemma Hmax : Prec_lt_emax prec emax. Proof. reflexivity. Qed.
#[global] Existing Instance Hprec.
#[global] Existing Instance Hmax.
Definition b64 := binary_float prec emax.

(* `z as f64` for an integer z: round to nearest, ties to even *)
Definition of_Z (z : Z) : b64 := binary_normalize prec emax Hprec Hmax mode_NE z 0 false.

Definition u64max : Z := 18446744073709551615.
Definition u32max : Z := 4294967295.
Definition i64max : Z := 9223372036854775807.
Definition i64min : Z := -9223372036854775808.

(* `x as u64` for f64 x: saturating, NaN -> 0 *)
Definition f64_to_u64 (x : b64) : Z :=
  match x with
  | B754_nan => 0
  | B754_infinity s => if s then 0 else u64max
  | _ => Z.max 0 (Z.min u64max (Btrunc x))
  end.

(* the f64 literal 1_000_000_000.0 is the integer NS_PER_SEC_F64 (regenerated from the source) *)
Definition rate_f64 (count period : Z) : b64 :=
  Bdiv mode_NE (Bmult mode_NE (of_Z period) (of_Z NS_PER_SEC_F64)) (of_Z count).

(* emission interval in ns for valid (positive) arguments *)
Definition rate_ns (count period : Z) : Z := f64_to_u64 (rate_f64 count period).

Definition ns_per_sec : Z := 1000000000.

(* Rate::from_count_and_period(...).period() in nanoseconds *)
Definition from_count_and_period (count period : Z) : Z :=
  if (count <=? 0) || (period <=? 0) then u64max * ns_per_sec
  else rate_ns count period.

(* std::time::Duration { secs: u64, nanos: u32 < 1e9 } *)
Definition dur := (Z * Z)%type.
Definition dur_ns (d : dur) : Z := fst d * ns_per_sec + snd d.
Definition dur_from_secs (s : Z) : dur := (s, 0).

(* Duration::checked_div(self, rhs: u32), as in library/core/src/time.rs:
     if rhs != 0 {
       let (secs, extra_secs) = (self.secs / rhs, self.secs % rhs);
       let (mut nanos, extra_nanos) = (self.nanos / rhs, self.nanos % rhs);
       nanos += ((extra_secs * NANOS_PER_SEC + extra_nanos) / rhs) as u32;
       Some(Duration::new(secs, nanos))
     } else { None }
   `Duration / u32` panics on None. *)
Definition dur_div_u32 (d : dur) (rhs : Z) : option dur :=
  if rhs =? 0 then None
  else
    let secs := fst d / rhs in
    let extra_secs := fst d mod rhs in
    let nanos := snd d / rhs in
    let extra_nanos := snd d mod rhs in
    Some (secs, nanos + (extra_secs * ns_per_sec + extra_nanos) / rhs).

(* `n as u32` for n : u64 *)
Definition as_u32 (n : Z) : Z := n mod 4294967296.

(* Rate::per_*(n) : period in ns, None = panic (division by zero) *)
Definition per_unit (unit_secs n : Z) : option Z :=
  match dur_div_u32 (dur_from_secs unit_secs) (as_u32 n) with
  | Some d => Some (dur_ns d)
  | None => None
  end.
Definition per_second := per_unit PER_SECOND_SECS.
Definition per_minute := per_unit PER_MINUTE_SECS.
Definition per_hour := per_unit PER_HOUR_SECS.
Definition per_day := per_unit PER_DAY_SECS.
