(* T1b for the rate constructor: Rate::from_count_and_period as TRANSLATED FROM THE CURRENT SOURCE
   (Generated/RateGen.v, tools/extract_limiter.py) is the Flocq model that C18 (and the executable
   correspondence of C01-C08) is about, for every pair of arguments.  Outside the closure of Properties/*.vo. *)
From Coq Require Import ZArith Bool.
Require Import TC.Float.Rate64 TC.Generated.RateGen.
Open Scope Z_scope.

Theorem gen_rate_is_model : forall count period, gen_rate count period = from_count_and_period count period.
Proof. intros. reflexivity. Qed.
