(* C18: the floor of the rounded binary64 quotient is the exact integer quotient. *)
From Coq Require Import ZArith Reals Lia Lra Psatz.
From Flocq Require Import Core BinarySingleNaN Relative.
Require Import TC.Generated.Consts TC.Float.Rate64.
Open Scope R_scope.

Notation fexp := (FLT_exp (-1074) 53).
Notation rnd := (round radix2 fexp ZnearestE).

(* integers up to 2^53 in magnitude are representable *)
Lemma int_generic (z : Z) : (Z.abs z <= 2^53)%Z -> generic_format radix2 fexp (IZR z).
Proof.
  intros Hz.
  destruct (Z.eq_dec (Z.abs z) (2^53)) as [E|NE].
  - assert (IZR z = bpow radix2 53 \/ IZR z = - bpow radix2 53) as [->| ->].
    { change (bpow radix2 53) with (IZR (2^53)). rewrite <- opp_IZR.
      destruct (Z.abs_eq_or_opp z) as [H|H]; rewrite H in E; [left|right]; f_equal; lia. }
    + apply generic_format_bpow. unfold FLT_exp. lia.
    + apply generic_format_opp. apply generic_format_bpow. unfold FLT_exp. lia.
  - replace (IZR z) with (F2R (Float radix2 z 0)) by (unfold F2R; simpl; ring).
    apply generic_format_FLT. exists (Float radix2 z 0); simpl; try lia. reflexivity.
Qed.

Lemma core_floor (P c : Z) :
  (1 <= c < 2^53)%Z -> (0 <= P < 2^53)%Z ->
  Zfloor (rnd (IZR P / IZR c)) = (P / c)%Z.
Proof.
  intros Hc HP.
  set (k := (P / c)%Z).
  assert (Hk : (0 <= k)%Z) by (apply Z.div_pos; lia).
  assert (Hdm := Z.div_mod P c ltac:(lia)). fold k in Hdm.
  assert (Hmod := Z.mod_pos_bound P c ltac:(lia)).
  assert (HcR : 0 < IZR c) by (apply IZR_lt; lia).
  set (x := IZR P / IZR c).
  assert (Hxc : x * IZR c = IZR P) by (unfold x; field; lra).
  assert (Hic : / IZR c * IZR c = 1) by (field; lra).
  assert (HkcP : IZR k * IZR c <= IZR P) by (rewrite <- mult_IZR; apply IZR_le; nia).
  assert (HPkc : IZR P + 1 <= (IZR k + 1) * IZR c).
  { replace 1 with (IZR 1) by reflexivity. rewrite <- !plus_IZR, <- mult_IZR. apply IZR_le. nia. }
  assert (Hkx : IZR k <= x).
  { apply Rmult_le_reg_r with (IZR c); lra. }
  assert (Hx1 : x + / IZR c <= IZR k + 1).
  { apply Rmult_le_reg_r with (IZR c); [lra|]. rewrite Rmult_plus_distr_r. lra. }
  assert (Hkle : (k <= P)%Z) by (unfold k; apply Z.div_le_upper_bound; nia).
  apply Zfloor_imp. split.
  - apply round_ge_generic; auto with typeclass_instances.
    apply int_generic. lia.
  - rewrite plus_IZR.
    destruct (Z.eq_dec P 0) as [HP0|HP0].
    { unfold x. rewrite HP0. replace (0 / IZR c) with 0 by (field; lra). rewrite round_0; auto with typeclass_instances.
      assert (0 <= IZR k) by (apply IZR_le; lia). lra. }
    assert (Hxpos : 0 < x).
    { unfold x. apply Rdiv_lt_0_compat; [apply IZR_lt; lia | lra]. }
    assert (Hinvc : bpow radix2 (-53) < / IZR c).
    { change (bpow radix2 (-53)) with (/ IZR (2^53)). apply Rinv_lt_contravar.
      apply Rmult_lt_0_compat; [lra | apply IZR_lt; lia]. apply IZR_lt; lia. }
    assert (Hxge : / IZR c <= x).
    { unfold x, Rdiv. rewrite <- (Rmult_1_l (/ IZR c)) at 1.
      apply Rmult_le_compat_r. left; now apply Rinv_0_lt_compat. apply IZR_le; lia. }
    assert (Hxlow : bpow radix2 (-1074 + 53 - 1) <= Rabs x).
    { rewrite Rabs_pos_eq by lra.
      apply Rle_trans with (bpow radix2 (-53)); [apply bpow_le; lia | lra]. }
    pose proof (relative_error_N_FLT radix2 (-1074) 53 ltac:(reflexivity) (fun z => negb (Z.even z)) x Hxlow) as Herr.
    rewrite (Rabs_pos_eq x) in Herr by lra.
    assert (Hxu : x * (/2 * bpow radix2 (-53 + 1)) < / IZR c).
    { replace (/2 * bpow radix2 (-53+1)) with (bpow radix2 (-53)) by (simpl; lra).
      unfold x. unfold Rdiv. rewrite Rmult_assoc, (Rmult_comm (/ IZR c)), <- Rmult_assoc.
      rewrite <- (Rmult_1_l (/ IZR c)) at 2. apply Rmult_lt_compat_r. now apply Rinv_0_lt_compat.
      change (bpow radix2 (-53)) with (/ IZR (2^53)).
      apply Rmult_lt_reg_r with (IZR (2^53)). apply IZR_lt; lia.
      rewrite Rmult_assoc, Rinv_l, Rmult_1_r, Rmult_1_l. apply IZR_lt; lia.
      apply Rgt_not_eq. apply IZR_lt. lia. }
    apply Rabs_le_inv in Herr. rewrite (Rmult_comm _ x) in Herr.
    change (Znearest (fun z => negb (Z.even z))) with ZnearestE in Herr.
    destruct Herr as [_ Herr].
    change (- (53) + 1)%Z with (-52)%Z in Herr. change (-53 + 1)%Z with (-52)%Z in Hxu. lra.
Qed.

(* ---- connecting the executable binary64 model ---- *)

Lemma of_Z_exact (z : Z) : (Z.abs z <= 2^53)%Z ->
  B2R (of_Z z) = IZR z /\ is_finite (of_Z z) = true.
Proof.
  intros Hz. unfold of_Z.
  pose proof (binary_normalize_correct prec emax Hprec Hmax mode_NE z 0 false) as H.
  cbv zeta in H.
  replace (F2R (Float radix2 z 0)) with (IZR z) in H by (unfold F2R; simpl; ring).
  simpl round_mode in H.
  rewrite round_generic in H; auto with typeclass_instances.
  2:{ apply int_generic; exact Hz. }
  rewrite Rlt_bool_true in H.
  - destruct H as (H1 & H2 & _). split; assumption.
  - rewrite <- abs_IZR. change (bpow radix2 emax) with (IZR (2^1024)). apply IZR_lt.
    eapply Z.le_lt_trans; [exact Hz|]. reflexivity.
Qed.

(* the literal in the source must be 1e9 for the theorem to be about nanoseconds:
   this is a proof obligation on the regenerated constant *)
Lemma ns_factor_is_1e9 : NS_PER_SEC_F64 = 1000000000%Z.
Proof. reflexivity. Qed.

Theorem rate_ns_exact (c p : Z) :
  (1 <= c < 2^53)%Z -> (0 <= p)%Z -> (p * 1000000000 < 2^53)%Z ->
  rate_ns c p = ((p * 1000000000) / c)%Z.
Proof.
  intros Hc Hp HP.
  unfold rate_ns, rate_f64. rewrite ns_factor_is_1e9.
  destruct (of_Z_exact p ltac:(lia)) as [Rp Fp].
  destruct (of_Z_exact 1000000000 ltac:(lia)) as [Rg Fg].
  destruct (of_Z_exact c ltac:(lia)) as [Rc Fc].
  set (P := (p * 1000000000)%Z) in *.
  (* product *)
  pose proof (Bmult_correct prec emax Hprec Hmax mode_NE (of_Z p) (of_Z 1000000000)) as Hm.
  rewrite Rp, Rg, <- mult_IZR in Hm. fold P in Hm. simpl round_mode in Hm.
  rewrite round_generic in Hm; auto with typeclass_instances.
  2:{ apply int_generic. lia. }
  rewrite Rlt_bool_true in Hm.
  2:{ rewrite <- abs_IZR. change (bpow radix2 emax) with (IZR (2^1024)). apply IZR_lt.
      apply Z.lt_trans with (2^53)%Z; [lia | reflexivity]. }
  destruct Hm as (Rm & Fm & _). rewrite Fp, Fg in Fm. cbn [andb] in Fm.
  set (m := Bmult mode_NE (of_Z p) (of_Z 1000000000)) in *.
  (* quotient *)
  assert (HcR : 0 < IZR c) by (apply IZR_lt; lia).
  pose proof (Bdiv_correct prec emax Hprec Hmax mode_NE m (of_Z c)) as Hd.
  rewrite Rc, Rm in Hd. specialize (Hd ltac:(lra)). simpl round_mode in Hd.
  assert (Hfl := core_floor P c Hc ltac:(lia)).
  assert (Hq0 : 0 <= rnd (IZR P / IZR c)).
  { rewrite <- (round_0 radix2 fexp ZnearestE). apply round_le; auto with typeclass_instances.
    apply Rmult_le_pos. apply IZR_le; lia. left; now apply Rinv_0_lt_compat. }
  assert (Hqle : rnd (IZR P / IZR c) < IZR (P / c) + 1).
  { rewrite <- Hfl. apply Zfloor_ub. }
  assert (HPc : (0 <= P / c <= P)%Z).
  { split. apply Z.div_pos; lia. apply Z.div_le_upper_bound; nia. }
  rewrite Rlt_bool_true in Hd.
  2:{ rewrite Rabs_pos_eq by exact Hq0. eapply Rlt_trans; [exact Hqle|].
      change (bpow radix2 emax) with (IZR (2^1024)). rewrite <- plus_IZR. apply IZR_lt.
      apply Z.lt_trans with (2^53+1)%Z; [lia | reflexivity]. }
  destruct Hd as (Rd & Fd & _).
  set (d := Bdiv mode_NE m (of_Z c)) in *.
  assert (Ht : Btrunc d = (P / c)%Z).
  { apply eq_IZR. rewrite Btrunc_correct. rewrite round_FIX_IZR. rewrite Rd. apply f_equal.
    rewrite Ztrunc_floor by exact Hq0. exact Hfl. exact Hmax. }
  unfold f64_to_u64.
  rewrite Fm in Fd.
  destruct d; try discriminate; rewrite ?Ht; unfold u64max; lia.
Qed.
