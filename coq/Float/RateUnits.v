(* C18: unit constructors, invalid arguments, bracket form. *)
From Coq Require Import ZArith Bool Lia.
Require Import TC.Generated.Consts TC.Float.Rate64 TC.Float.RateProofs.
Open Scope Z_scope.
Ltac Zify.zify_post_hook ::= Z.div_mod_to_equations.

(* domain of the property: period <= 9e6 s, count <= period * 1e9 *)
Definition rate_domain (count period : Z) : Prop :=
  1 <= period <= 9000000 /\ 1 <= count <= period * 1000000000.

Lemma rate_domain_exact count period : rate_domain count period ->
  rate_ns count period = (period * 1000000000) / count.
Proof.
  intros [Hp Hc]. apply rate_ns_exact; change (2^53) with 9007199254740992; lia.
Qed.

Lemma rate_bracket count period : rate_domain count period ->
  let E := rate_ns count period in
  1 <= E /\ E * count <= period * 1000000000 < (E + 1) * count.
Proof.
  intros H. cbv zeta. rewrite (rate_domain_exact _ _ H). destruct H as [Hp Hc]. nia.
Qed.

Lemma from_count_and_period_valid count period : rate_domain count period ->
  from_count_and_period count period = (period * 1000000000) / count.
Proof.
  intros H. unfold from_count_and_period. destruct H as [Hp Hc] eqn:E.
  destruct (Z.leb_spec count 0); [lia|]. destruct (Z.leb_spec period 0); [lia|].
  cbn [orb]. apply rate_domain_exact. exact H.
Qed.

Lemma invalid_blocks count period : count <= 0 \/ period <= 0 ->
  from_count_and_period count period = u64max * 1000000000.
Proof.
  intros H. unfold from_count_and_period, ns_per_sec.
  destruct (Z.leb_spec count 0); cbn [orb]; [reflexivity|].
  destruct (Z.leb_spec period 0); [reflexivity|lia].
Qed.

(* Duration / u32 on a whole number of seconds is exact ns division *)
Lemma dur_div_secs s n : 0 <= s -> 1 <= n ->
  option_map dur_ns (dur_div_u32 (dur_from_secs s) n) = Some ((s * 1000000000) / n).
Proof.
  intros Hs Hn. unfold dur_div_u32, dur_from_secs, dur_ns, ns_per_sec. cbn [fst snd].
  destruct (Z.eqb_spec n 0); [lia|]. cbn [option_map fst snd]. f_equal.
  rewrite Z.div_0_l, Z.mod_0_l by lia. rewrite Z.add_0_l, Z.add_0_r.
  rewrite (Z.div_mod s n) at 3 by lia.
  rewrite Z.mul_add_distr_r.
  replace (n * (s / n) * 1000000000) with ((s / n * 1000000000) * n) by ring.
  rewrite Z.div_add_l by lia. reflexivity.
Qed.

Lemma per_unit_exact s n : 0 <= s -> 1 <= n <= u32max ->
  per_unit s n = Some ((s * 1000000000) / n).
Proof.
  intros Hs Hn. unfold per_unit, as_u32, u32max in *.
  rewrite Z.mod_small by lia.
  pose proof (dur_div_secs s n Hs ltac:(lia)) as H.
  destruct (dur_div_u32 (dur_from_secs s) n); cbn [option_map] in H; congruence.
Qed.

Lemma unit_secs_values :
  PER_SECOND_SECS = 1 /\ PER_MINUTE_SECS = 60 /\ PER_HOUR_SECS = 3600 /\ PER_DAY_SECS = 86400.
Proof. repeat split; reflexivity. Qed.

Lemma per_unit_agrees s n : 1 <= s <= 86400 -> 1 <= n <= u32max ->
  per_unit s n = Some (from_count_and_period n s).
Proof.
  intros Hs Hn. rewrite per_unit_exact by lia. f_equal.
  unfold u32max in Hn.
  destruct (Z_le_gt_dec n (s * 1000000000)) as [Hle|Hgt].
  - rewrite from_count_and_period_valid; [reflexivity|]. unfold rate_domain. lia.
  - (* count > period*1e9: both give 0; needs rate_ns_exact outside rate_domain *)
    unfold from_count_and_period.
    destruct (Z.leb_spec n 0); [lia|]. destruct (Z.leb_spec s 0); [lia|]. cbn [orb].
    rewrite rate_ns_exact by (change (2^53) with 9007199254740992; lia).
    rewrite Z.div_small by lia. reflexivity.
Qed.

(* ---- statements in the exact shape used by Properties/C18.v ---- *)
Lemma c18_rate_exact : forall count period,
  1 <= period <= 9000000 -> 1 <= count <= period * 1000000000 ->
  from_count_and_period count period = (period * 1000000000) / count.
Proof. intros c p Hp Hc. exact (from_count_and_period_valid c p (conj Hp Hc)). Qed.

Lemma c18_rate_bracket : forall count period,
  1 <= period <= 9000000 -> 1 <= count <= period * 1000000000 ->
  let E := from_count_and_period count period in
  1 <= E /\ E * count <= period * 1000000000 < (E + 1) * count.
Proof.
  intros c p Hp Hc. cbv zeta.
  rewrite (from_count_and_period_valid c p (conj Hp Hc)).
  rewrite <- (rate_domain_exact c p (conj Hp Hc)).
  exact (rate_bracket c p (conj Hp Hc)).
Qed.

Lemma c18_unit_constructors : forall n, 1 <= n <= 4294967295 ->
  per_second n = Some (from_count_and_period n 1) /\
  per_minute n = Some (from_count_and_period n 60) /\
  per_hour n = Some (from_count_and_period n 3600) /\
  per_day n = Some (from_count_and_period n 86400).
Proof.
  intros n Hn. unfold per_second, per_minute, per_hour, per_day.
  destruct unit_secs_values as (-> & -> & -> & ->).
  repeat split; apply per_unit_agrees; unfold u32max; lia.
Qed.

Lemma c18_rate_exact_wide : forall count period,
  1 <= count < 2^53 -> 1 <= period -> period * 1000000000 < 2^53 ->
  from_count_and_period count period = (period * 1000000000) / count.
Proof.
  intros c p Hc Hp HP. unfold from_count_and_period.
  destruct (Z.leb_spec c 0); [lia|]. destruct (Z.leb_spec p 0); [lia|]. cbn [orb].
  apply rate_ns_exact; lia.
Qed.

(* the emission interval is never negative (hypothesis of the C08 theorems about rate_limit) *)
Lemma from_count_and_period_nonneg c p : 0 <= from_count_and_period c p.
Proof.
  unfold from_count_and_period, rate_ns, f64_to_u64, u64max, ns_per_sec.
  destruct (_ || _); [lia|].
  destruct (rate_f64 c p); try lia. destruct s; lia.
Qed.
