(* Pinned statements of the C13 theorems (must match Properties/C13.v). *)
From Coq Require Import ZArith NArith List Bool.
Import ListNotations.
Require Import TC.Generated.Consts TC.Resp.Utf8 TC.Resp.Decimal TC.Resp.Parse TC.Resp.ParseProofs TC.Resp.Local TC.Resp.Conn TC.Resp.ConnProofs.
Open Scope N_scope.
Require Import TC.Properties.C13.

Check C13_total_in_bounds :
  forall (depth : nat) (d : bytes),
  fst (parse_with depth d) <> POutOfFuel /\ fst (parse_with depth d) <> PPanic /\
  ok_range 1 (length d) (fst (parse_with depth d)) /\
  depth_kept (snd (parse_with depth d)) depth (fst (parse_with depth d)).
Check C13_bulk_limit :
  forall (d : bytes) (len : Z) (c : nat), line_int d = LOk len c -> (len < -1 \/ MAX_BULK_STRING_SIZE < len)%Z ->
  parse_bulk d = PErr BadBulkLen.
Check C13_array_limit :
  forall (f depth : nat) (r : bytes) (cnt : Z) (c : nat),
  (depth < max_depth)%nat -> line_int (42 :: r) = LOk cnt c -> (cnt < -1 \/ MAX_ARRAY_SIZE < cnt)%Z ->
  parse (S f) depth (42 :: r) = (PErr BadArrayLen, depth).
Check C13_depth_limit :
  forall (f depth : nat) (r : bytes), (max_depth <= depth)%nat -> max_depth = Z.to_nat MAX_ARRAY_DEPTH ->
  parse (S f) depth (42 :: r) = (PErr TooDeep, depth).
Check C13_prefix_stable :
  forall (depth : nat) (d x : bytes),
  final (fst (parse_with depth d)) -> parse_with depth (d ++ x) = parse_with depth d.
Check C13_strict_prefix_needs_more :
  forall (depth : nat) (p s : bytes) (v : value),
  s <> [] -> fst (parse_with depth (p ++ s)) = POk v (length (p ++ s)) ->
  fst (parse_with depth p) = PNeedMore.
Check C13_chunking_independent :
  forall (isq : value -> bool) (chunks : list bytes),
  fst (conn_run isq conn_init chunks) = fst (whole isq (concat chunks)) /\
  (c_end (snd (conn_run isq conn_init chunks)) = Open <-> snd (whole isq (concat chunks)) = Open) /\
  (c_end (snd (conn_run isq conn_init chunks)) = ClosedByQuit <-> snd (whole isq (concat chunks)) = ClosedByQuit).
Check C13_chunking_independent_from :
  forall (isq : value -> bool) (chunks : list bytes) (cn : conn),
  c_end cn = Open -> drain_all isq (c_depth cn) (c_buf cn) = ([], c_buf cn, c_depth cn, CNeedMore) -> (length (c_buf cn) <= cap)%nat ->
  let r := conn_run isq cn chunks in
  let '(vs, b, d, s) := drain_all isq (c_depth cn) (c_buf cn ++ concat chunks) in
  fst r = vs /\ (c_end (snd r) = Open <-> end_of s b = Open) /\ (c_end (snd r) = ClosedByQuit <-> end_of s b = ClosedByQuit).
Check C13_two_splittings_agree :
  forall (isq : value -> bool) (cs1 cs2 : list bytes),
  concat cs1 = concat cs2 ->
  fst (conn_run isq conn_init cs1) = fst (conn_run isq conn_init cs2) /\
  (c_end (snd (conn_run isq conn_init cs1)) = Open <-> c_end (snd (conn_run isq conn_init cs2)) = Open).
Check C13_decode_local :
  forall depth d x v c dp,
  parse_with depth (d ++ x) = (POk v c, dp) -> (c <= length d)%nat -> parse_with depth d = (POk v c, dp).
Check C13_buffer_cap :
  forall (isq : value -> bool) (cn : conn) (chunk : bytes),
  c_end cn = Open -> (length (c_buf cn) <= cap)%nat ->
  let r := conn_feed isq cn chunk in
  (length (c_buf cn ++ chunk) <= cap + length chunk)%nat /\
  (length (c_buf (snd r)) <= length (c_buf cn ++ chunk))%nat /\
  (c_end (snd r) = Open -> (length (c_buf (snd r)) <= cap)%nat).
