From Coq Require Import ZArith List Bool.
Import ListNotations.
Require Import TC.Base.Map TC.Store.Stores TC.Store.AbsMap TC.Store.Refine TC.Properties.C06.
Open Scope Z_scope.
Check C06_store_refines_absmap :
  forall (K : Type) (keqb : K -> K -> bool), (forall a b, reflect (a = b) (keqb a b)) ->
  forall (s0 : store K) (ops : list (bool * sop K)) (t0 : Z),
  sdata K s0 = [] ->
  nondec_from t0 (map (fun p => op_time (snd p)) ops) ->
  snd (srun K keqb s0 ops) = snd (arun K keqb abs_empty (map snd ops)) /\
  forall k t, last_time K t0 ops <= t ->
    vis K keqb (sdata K (fst (srun K keqb s0 ops))) k t = avis (fst (arun K keqb abs_empty (map snd ops))) k t.
Check C06_store_refines_from :
  forall (K : Type) (keqb : K -> K -> bool), (forall a b, reflect (a = b) (keqb a b)) ->
  forall (s : store K) (m : absmap K) (ops : list (bool * sop K)) (t0 : Z),
  R K keqb t0 (sdata K s) m ->
  nondec_from t0 (map (fun p => op_time (snd p)) ops) ->
  snd (srun K keqb s ops) = snd (arun K keqb m (map snd ops)) /\
  R K keqb (last_time K t0 ops) (sdata K (fst (srun K keqb s ops))) (fst (arun K keqb m (map snd ops))).
Check C06_cleanup_invisible :
  forall (K : Type) (keqb : K -> K -> bool), (forall a b, reflect (a = b) (keqb a b)) ->
  forall (d : data K) (now : Z) (k : K) (t : Z),
  uniq d -> now <= t -> vis K keqb (retain K d now) k t = vis K keqb d k t.
