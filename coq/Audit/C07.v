(* Pinned statements of the C07 theorems (must match Properties/C07.v). *)
From Coq Require Import ZArith Bool List.
Import ListNotations.
Require Import TC.Generated.Consts TC.Base.Map TC.Store.Stores TC.Store.Reclaim TC.Store.Bounded
  TC.Limiter.Arith TC.Limiter.KeyStep TC.Limiter.KeyLemmas TC.Limiter.Fields.
Open Scope Z_scope.
Require Import TC.Properties.C07.

Check C07_lifetime_bounds :
  forall (E B : Z), inD E B -> forall (s : kstate) (t q now : Z),
  Inv E B s t -> t <= now -> time_ok now -> 0 <= q ->
  E <= reset_after (snd (kstep E B s q now)) <= 2 * B * E.
Check C07_lifetime_covers_influence :
  forall (E B : Z), inD E B -> forall (s : kstate) (t q now : Z),
  Inv E B s t -> t <= now -> time_ok now -> 0 < q ->
  allowed (snd (kstep E B s q now)) = true ->
  exists tat, fst (kstep E B s q now) = Some (tat, now + reset_after (snd (kstep E B s q now))) /\
              tat + E <= now + reset_after (snd (kstep E B s q now)).
Check C07_forget_indistinguishable :
  forall (E B : Z) (tat ex q now : Z),
  tat + E <= ex -> ex <= now ->
  snd (kstep E B (Some (tat, ex)) q now) = snd (kstep E B None q now) /\
  forall now3, now <= now3 ->
    eff E (fst (kstep E B (Some (tat, ex)) q now)) now3 = eff E (fst (kstep E B None q now)) now3.
Check C07_sweep_removes_expired :
  forall (K : Type) (d : data K) (now : Z), Forall (fun e => now < expiry_of K e) (retain K d now).
Check C07_periodic_reclaims :
  forall (K : Type) (keqb : K -> K -> bool) (t_build interval : Z) (pre : list (bool * sop K)) (orc : bool) (o : sop K),
  0 <= interval -> nondec t_build (ops_times K (pre ++ [(orc, o)])) -> ops_ttl_ok K (pre ++ [(orc, o)]) ->
  is_write o = true ->
  all_expire_from K (op_time o - interval)
    (sdata K (fst (srun K keqb (periodic_new t_build interval) (pre ++ [(orc, o)])))).
Check C07_adaptive_reclaims :
  forall (K : Type) (keqb : K -> K -> bool) (t_build mn mx mo : Z) (pre : list (bool * sop K)) (orc : bool) (o : sop K),
  0 <= mn -> 0 <= mx -> nondec t_build (ops_times K (pre ++ [(orc, o)])) -> ops_ttl_ok K (pre ++ [(orc, o)]) ->
  is_write o = true ->
  let W := Z.max (ADAPTIVE_DEFAULT_CLEANUP_INTERVAL_SECS * 1000000000) (Z.max mn mx) in
  exists s', fst (srun K keqb (adaptive_new t_build mn mx mo) (pre ++ [(orc, o)])) = SAda s' /\
    all_expire_from K (op_time o - W) (a_data K s') /\ a_ops K s' < Z.max mo 1.
Check C07_periodic_sweeps_when_due :
  forall (K : Type) (s : pstate K) (now : Z), p_next K s <= now ->
  Forall (fun e => now < expiry_of K e) (p_data K (p_clean K s now)) /\ p_next K (p_clean K s now) = now + p_interval K s.
Check C07_adaptive_sweeps_when_due :
  forall (K : Type) (s : astate K) (tl now : Z) (orc : bool),
  AJ K s tl -> tl <= now -> (a_maxops K s <= a_ops K s + 1 \/ a_next K s <= now) ->
  Forall (fun e => now < expiry_of K e) (a_data K (a_maybe_clean K s now orc)).
Check C07_probabilistic_every_Nth_write :
  forall n N, 1 <= N -> 0 <= n -> n * PROB_MULTIPLIER < two64 -> (N | n) -> b_fires n N = true.
Check C07_probabilistic_only_Nth_write :
  forall n N, 1 <= N -> 0 <= n -> n * PROB_MULTIPLIER < two64 -> Z.gcd PROB_MULTIPLIER N = 1 ->
  b_fires n N = true -> (N | n).
Check C07_default_modulus_coprime : Z.gcd PROB_MULTIPLIER PROBABILISTIC_CLEANUP_MODULO = 1.
Check C07_probabilistic_gap :
  forall n N, 1 <= N -> 0 <= n -> (n + N) * PROB_MULTIPLIER < two64 ->
  exists j, 0 <= j < N /\ b_fires (n + j) N = true.
Check C07_probabilistic_sweep :
  forall (K : Type) (s : bstate K) (now : Z),
  b_fires ((b_ops K s + 1) mod two64) (b_prob K s) = true ->
  Forall (fun e => now < expiry_of K e) (b_data K (b_maybe_clean K s now)).
Check C07_entries_bounded_by_live_keys :
  forall (K : Type) (keqb : K -> K -> bool), (forall a b, reflect (a = b) (keqb a b)) ->
  forall (ops : list (bool * sop K)) (d : data K) (lo : Z),
  prov K ops d -> all_expire_from K lo d -> (length d <= length (dedup K keqb (live_writes K lo ops)))%nat.
Check C07_periodic_bounded :
  forall (K : Type) (keqb : K -> K -> bool), (forall a b, reflect (a = b) (keqb a b)) ->
  forall (t_build interval : Z) (pre : list (bool * sop K)) (orc : bool) (o : sop K),
  0 <= interval -> nondec t_build (ops_times K (pre ++ [(orc, o)])) -> ops_ttl_ok K (pre ++ [(orc, o)]) ->
  is_write o = true ->
  (length (sdata K (fst (srun K keqb (periodic_new t_build interval) (pre ++ [(orc, o)])))) <=
   length (dedup K keqb (live_writes K (op_time o - interval) (pre ++ [(orc, o)]))))%nat.
Check C07_adaptive_bounded :
  forall (K : Type) (keqb : K -> K -> bool), (forall a b, reflect (a = b) (keqb a b)) ->
  forall (t_build mn mx mo : Z) (pre : list (bool * sop K)) (orc : bool) (o : sop K),
  0 <= mn -> 0 <= mx -> nondec t_build (ops_times K (pre ++ [(orc, o)])) -> ops_ttl_ok K (pre ++ [(orc, o)]) ->
  is_write o = true ->
  let W := Z.max (ADAPTIVE_DEFAULT_CLEANUP_INTERVAL_SECS * 1000000000) (Z.max mn mx) in
  (length (sdata K (fst (srun K keqb (adaptive_new t_build mn mx mo) (pre ++ [(orc, o)])))) <=
   length (dedup K keqb (live_writes K (op_time o - W) (pre ++ [(orc, o)]))))%nat.
Check C07_swept_bounded :
  forall (K : Type) (keqb : K -> K -> bool), (forall a b, reflect (a = b) (keqb a b)) ->
  forall (ops : list (bool * sop K)) (d : data K) (now : Z),
  prov K ops d -> (length (retain K d now) <= length (dedup K keqb (live_writes K (now + 1) ops)))%nat.
Check C07_step_grows_by_one :
  forall (K : Type) (keqb : K -> K -> bool) (s : store K) (orc : bool) (o : sop K),
  (length (sdata K (fst (sstep K keqb s orc o))) <= S (length (sdata K s)))%nat.
Check C07_tables_stem_from_writes :
  forall (K : Type) (keqb : K -> K -> bool), (forall a b, reflect (a = b) (keqb a b)) ->
  forall (ops pre : list (bool * sop K)) (s : store K),
  prov K pre (sdata K s) -> prov K (pre ++ ops) (sdata K (fst (srun K keqb s ops))).
