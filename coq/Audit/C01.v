(* Pinned statements of the C01 theorems (must match Properties/C01.v). *)
From Coq Require Import ZArith Bool List.
Import ListNotations.
Require Import TC.Base.Map TC.Store.Stores TC.Store.Refine TC.Limiter.KeyStep TC.Limiter.KeyLemmas
  TC.Limiter.Bucket TC.Limiter.Window TC.Limiter.Limiter TC.Limiter.Project TC.Limiter.Decide TC.Limiter.Top.
Open Scope Z_scope.
Require Import TC.Properties.C01.

Check C01_window_bound :
  forall (K : Type) (keqb : K -> K -> bool), (forall a b, reflect (a = b) (keqb a b)) ->
  forall (rate : Z -> Z -> Z) (st0 : store K) (h : list (bool * req K)) (k : K) (B count period t0 t1 t2 : Z),
  fixed_key_history K keqb rate st0 h k B count period t0 -> key_nonneg K keqb k (map snd h) -> t1 <= t2 ->
  rate count period * (admitted_qty K keqb k (map snd h) (snd (lrun K keqb rate st0 h)) t1 t2 - B) <= t2 - t1.
Check C01_instant_never_exceeds_burst :
  forall (K : Type) (keqb : K -> K -> bool), (forall a b, reflect (a = b) (keqb a b)) ->
  forall (rate : Z -> Z -> Z) (st0 : store K) (h : list (bool * req K)) (k : K) (B count period t0 t : Z),
  fixed_key_history K keqb rate st0 h k B count period t0 -> key_nonneg K keqb k (map snd h) ->
  admitted_qty K keqb k (map snd h) (snd (lrun K keqb rate st0 h)) t t <= B.
Check C01_bucket_window :
  forall (E B : Z), 0 <= E -> 0 <= E * B ->
  forall (l : list (Z * Z)) (b : bucket) (t1 t2 : Z),
  bwf E B b -> t1 <= t2 -> ksorted (last b) l ->
  E * adm E B b l t1 t2 <= E * B + (t2 - t1).
