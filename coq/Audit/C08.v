(* Pinned statements of the C08 theorems (must match Properties/C08.v). *)
From Coq Require Import ZArith Bool List.
Import ListNotations.
Require Import TC.Base.Map TC.Store.Stores TC.Store.AbsMap TC.Store.Refine TC.Limiter.Arith TC.Limiter.KeyStep
  TC.Limiter.Limiter TC.Limiter.Abstract TC.Limiter.Total TC.Float.Rate64 TC.Float.RateUnits.
Open Scope Z_scope.
Require Import TC.Properties.C08.

Check C08_total_classification :
  forall (K : Type) (keqb : K -> K -> bool), (forall a b, reflect (a = b) (keqb a b)) ->
  forall (rate : Z -> Z -> Z), (forall c p, 0 <= rate c p) ->
  forall (t0 : Z) (st : store K) (orc : bool) (rq : req K) (m : absmap K),
  R K keqb t0 (sdata K st) m -> t0 <= r_now rq -> 0 <= r_now rq <= t2200 -> req_in_i64 K rq ->
  if r_q rq <? 0 then snd (rate_limit K keqb rate st orc rq) = ErrNegativeQuantity
  else if (r_B rq <=? 0) || (r_count rq <=? 0) || (r_period rq <=? 0)
       then snd (rate_limit K keqb rate st orc rq) = ErrInvalidRateLimit
  else exists r, snd (rate_limit K keqb rate st orc rq) = Ok r /\
       limit r = r_B rq /\ 0 <= remaining r <= r_B rq /\ (retry_after r = 0 <-> allowed r = true) /\
       (avis m (r_key rq) (r_now rq) = None -> r_q rq <= r_B rq -> allowed r = true).
Check C08_never_panics_never_internal :
  forall (K : Type) (keqb : K -> K -> bool), (forall a b, reflect (a = b) (keqb a b)) ->
  forall (rate : Z -> Z -> Z), (forall c p, 0 <= rate c p) ->
  forall (t0 : Z) (st : store K) (orc : bool) (rq : req K) (m : absmap K),
  R K keqb t0 (sdata K st) m -> t0 <= r_now rq -> 0 <= r_now rq <= t2200 -> req_in_i64 K rq ->
  snd (rate_limit K keqb rate st orc rq) <> Panic /\ snd (rate_limit K keqb rate st orc rq) <> ErrInternal.
Check C08_arithmetic_sanity :
  forall (Edur B q now : Z) (tv : option Z),
  0 <= Edur -> 1 <= B <= i64max -> 0 <= q <= i64max -> 0 <= now <= t2200 ->
  let c := m_calc Edur B q now tv in
  let r := snd c in
  limit r = B /\ 0 <= remaining r <= B /\ (retry_after r = 0 <-> allowed r = true) /\
  0 <= snd (fst c) <= i64max /\ 0 <= reset_after r <= i64max /\ 0 <= retry_after r <= i64max.
Check C08_rate_model_nonneg : forall c p, 0 <= from_count_and_period c p.
