(* Pinned statements of the C14 theorems (must match Properties/C14.v). *)
From Coq Require Import ZArith NArith List Bool.
Import ListNotations.
Require Import TC.Generated.Consts TC.Resp.Utf8 TC.Resp.Decimal TC.Resp.Parse TC.Resp.ParseProofs TC.Resp.RoundTrip
  TC.Resp.ParsedWf TC.Resp.Cmd TC.Resp.CmdProofs.
Open Scope N_scope.
Require Import TC.Properties.C14.

Check C14_roundtrip :
  forall (v : value), wf v = true -> forall (depth : nat) (rest : bytes) (f : nat),
  (depth + vdepth v <= max_depth)%nat -> (2 * length (serialize v ++ rest) + 1 <= f)%nat ->
  parse f depth (serialize v ++ rest) = (POk v (length (serialize v)), depth).
Check C14_roundtrip_top :
  forall (v : value) (rest : bytes), wf v = true -> (vdepth v <= max_depth)%nat ->
  parse_top (serialize v ++ rest) = POk v (length (serialize v)).
Check C14_parsed_values_wf :
  forall (d : bytes) (v : value) (c : nat), parse_top d = POk v c -> wf v = true /\ (vdepth v <= max_depth)%nat.
Check C14_reply_wf :
  forall (upper : bytes -> bytes) (throttle : treq -> actor_res),
  (forall s, utf8_valid s = true -> utf8_valid (upper s) = true) ->
  (forall r msg, throttle r = AErr msg -> utf8_valid msg = true /\ no_crlf msg = true) ->
  (forall r a l rm rs rt, throttle r = AOk a l rm rs rt ->
     in_i64b l = true /\ in_i64b rm = true /\ in_i64b rs = true /\ in_i64b rt = true) ->
  forall (v : value), okv v -> okv (fst (process_command upper throttle v)).
Check C14_reply_one_frame :
  forall (upper : bytes -> bytes) (throttle : treq -> actor_res),
  (forall s, utf8_valid s = true -> utf8_valid (upper s) = true) ->
  (forall r msg, throttle r = AErr msg -> utf8_valid msg = true /\ no_crlf msg = true) ->
  (forall r a l rm rs rt, throttle r = AOk a l rm rs rt ->
     in_i64b l = true /\ in_i64b rm = true /\ in_i64b rs = true /\ in_i64b rt = true) ->
  forall (v : value) (rest : bytes), okv v ->
  let reply := fst (process_command upper throttle v) in
  parse_top (serialize reply ++ rest) = POk reply (length (serialize reply)).
Check C14_integer_roundtrip : forall z, in_i64b z = true -> parse_i64 (print_Z z) = Some z.
