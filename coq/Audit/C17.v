(* Pinned statements of the C17 theorems (must match Properties/C17.v). *)
From Coq Require Import ZArith Bool List.
Import ListNotations.
Require Import TC.Base.Map TC.Store.Stores TC.Store.AbsMap TC.Store.Refine TC.Limiter.Arith TC.Limiter.KeyStep TC.Limiter.KeyLemmas
  TC.Limiter.Limiter TC.Limiter.Abstract TC.Limiter.Project TC.Limiter.Window TC.Limiter.Decide TC.Limiter.Total TC.Limiter.Top TC.Limiter.Regress TC.Store.NoLoss.
Open Scope Z_scope.
Require Import TC.Properties.C17.

Check C17_total_any_order :
  forall (K : Type) (keqb : K -> K -> bool), (forall a b, reflect (a = b) (keqb a b)) ->
  forall (rate : Z -> Z -> Z), (forall c p, 0 <= rate c p) ->
  forall (st : store K) (orc : bool) (rq : req K),
  uniq (sdata K st) -> 0 <= r_now rq <= t2200 -> req_in_i64 K rq ->
  if r_q rq <? 0 then snd (rate_limit K keqb rate st orc rq) = ErrNegativeQuantity
  else if (r_B rq <=? 0) || (r_count rq <=? 0) || (r_period rq <=? 0)
       then snd (rate_limit K keqb rate st orc rq) = ErrInvalidRateLimit
  else exists r, snd (rate_limit K keqb rate st orc rq) = Ok r /\
       limit r = r_B rq /\ 0 <= remaining r <= r_B rq /\ (retry_after r = 0 <-> allowed r = true).
Check C17_table_stays_a_map :
  forall (K : Type) (keqb : K -> K -> bool), (forall a b, reflect (a = b) (keqb a b)) ->
  forall (rate : Z -> Z -> Z) (h : list (bool * req K)) (st : store K),
  uniq (sdata K st) -> uniq (sdata K (fst (lrun K keqb rate st h))).
Check C17_budget_not_increased :
  forall (E B : Z), inD E B -> forall (s : kstate) (M0 q t M : Z),
  Inv E B s M0 -> time_ok M0 -> time_ok t -> time_ok M -> 0 <= q -> t <= M ->
  allowed (snd (kstep E B s q t)) = true -> allowed (snd (kstep E B s q M)) = true.
Check C17_window_bound_no_stale_forget :
  forall (K : Type) (keqb : K -> K -> bool), (forall a b, reflect (a = b) (keqb a b)) ->
  forall (rate : Z -> Z -> Z) (st0 : store K) (h : list (bool * req K)) (k : K) (B count period t1 t2 : Z),
  sdata K st0 = [] ->
  inD (rate count period) B -> 1 <= count -> 1 <= period ->
  times_ok K (map snd h) -> key_fixed K keqb k B count period (map snd h) -> key_nonneg K keqb k (map snd h) ->
  no_stale_forget K keqb rate st0 abs_empty h -> t1 <= t2 ->
  rate count period * (admitted_qty K keqb k (map snd h) (snd (lrun K keqb rate st0 h)) t1 t2 - B) <= t2 - t1.
Check C17_no_forget_outcomes :
  forall (K : Type) (keqb : K -> K -> bool), (forall a b, reflect (a = b) (keqb a b)) ->
  forall (rate : Z -> Z -> Z) (h : list (bool * req K)) (st : store K) (m : absmap K),
  uniq (sdata K st) -> no_stale_forget K keqb rate st m h ->
  snd (lrun K keqb rate st h) = snd (al_run K keqb rate m (map snd h)).
Check C17_key_window_any_order :
  forall (E B : Z), inD E B -> forall (l : list (Z * Z)) (s : kstate) (M t1 t2 : Z),
  Inv E B s M -> time_ok M -> ktimes_ok l -> knonneg l -> t1 <= t2 ->
  E * kadm l (map is_allowed (snd (krun E B s l))) t1 t2 <= E * B + (t2 - t1).
Check C17_refuted_by_stale_forget :
  admitted_qty Z Z.eqb 0 (map snd w_hist) w_outs w_t0 (w_t0 + 9 * w_ms) = 20 /\
  w_J = 19 * w_ms /\
  ~ (w_E * (admitted_qty Z Z.eqb 0 (map snd w_hist) w_outs w_t0 (w_t0 + 9 * w_ms) - 2) <= 9 * w_ms + w_J).
Check C17_stale_forget_only_after_later_stamp :
  forall (K : Type) (keqb : K -> K -> bool), (forall a b, reflect (a = b) (keqb a b)) ->
  forall (s0 : store K) (ops : list (bool * sop K)) (k : K) (v ex : Z) (m : option Z) (now : Z),
  sdata K s0 = [] ->
  lookup keqb (snd (grun K keqb s0 [] ops)) k = Some (v, ex, m) ->
  now < ex ->
  d_get K keqb (sdata K (fst (srun K keqb s0 ops))) k now = None ->
  exists t, m = Some t /\ now < ex <= t.
Check C17_lookup_shows_last_write :
  forall (K : Type) (keqb : K -> K -> bool), (forall a b, reflect (a = b) (keqb a b)) ->
  forall (s0 : store K) (ops : list (bool * sop K)) (k : K) (v now : Z),
  sdata K s0 = [] ->
  d_get K keqb (sdata K (fst (srun K keqb s0 ops))) k now = Some v ->
  exists ex m, lookup keqb (snd (grun K keqb s0 [] ops)) k = Some (v, ex, m) /\ now < ex.
Check C17_stale_forget_event_exists :
  let ops := [(false, SetNX 1 7 2 100); (false, SetNX 2 8 50 110)] in
  let r := grun Z Z.eqb (periodic_new 0 0) [] ops in
  lookup Z.eqb (snd r) 1 = Some (7, 102, Some 110) /\
  d_get Z Z.eqb (sdata Z (fst (srun Z Z.eqb (periodic_new 0 0) ops))) 1 101 = None /\ 101 < 102 <= 110.
