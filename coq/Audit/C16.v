(* Pinned statements of the C16 theorems (must match Properties/C16.v). *)
From Coq Require Import ZArith NArith List Bool Permutation.
Import ListNotations.
Require Import TC.Generated.Consts TC.Base.Map TC.Resp.Utf8 TC.Server.Denied TC.Server.Escape TC.Corr.DeniedCorr TC.Corr.DeniedSound TC.Server.DeniedConc.
Open Scope Z_scope.
Require Import TC.Properties.C16.

Check C16_report_shape : forall (mx : nat) (t : tbl) (r : list (bytes * Z)),
  valid_top mx t r -> (length r <= mx)%nat /\ desc_sorted r.
Check C16_never_overstates : forall (mx : nat) (ks : list bytes) (t : tbl) (r : list (bytes * Z)) (k : bytes) (n : Z),
  drun mx [] ks t -> valid_top mx t r -> In (k, n) r -> 1 <= n <= true_count ks k.
Check C16_exact_while_few : forall (mx : nat) (ks : list bytes) (t : tbl) (r : list (bytes * Z)),
  (1 <= mx)%nat -> drun mx [] ks t -> (length (exact_tbl [] ks) <= mx)%nat -> valid_top mx t r ->
  t = exact_tbl [] ks /\ length r = length t /\ (forall k n, In (k, n) r -> n = true_count ks k).
Check C16_length_filter : forall (mx : nat) (t : tbl) (k : bytes) (t' : tbl),
  dstep mx t k t' -> short k = false -> t' = t.
Check C16_memory_bound : forall (mx : nat) (t : tbl) (k : bytes) (t' : tbl),
  uniq t -> (length t <= mx * factor)%nat -> dstep mx t k t' ->
  uniq t' /\ (length t' <= mx * factor)%nat /\ (length (incr t k) <= mx * factor + 1)%nat.
Check C16_clamp_disable : forall (requested : Z),
  0 <= clamp_max requested <= MAX_DENIED_KEYS_LIMIT /\ (requested <= 0 -> tracking_enabled requested = false).
Check C16_label_scans_back : forall (s rest acc : list N) (f : nat),
  (4 * length s + 1 <= f)%nat ->
  scan_label f (escape s ++ QUOTE :: rest) acc = Some (rev acc ++ escape s, rest).
Check C16_no_raw_control : forall (s : list N), forallb raw_safe (escape s) = true.
Check C16_line_single_newline : forall (prefix mid suffix key : list N),
  ~ In NL prefix -> ~ In NL mid -> ~ In NL suffix ->
  exists body, sample_line prefix mid suffix key = body ++ [NL] /\ ~ In NL body.
Check C16_acceptance_sound :
  forall (mx : nat) (obs : list dobs), denied_case_ok (mx, obs) = true ->
  Forall (fun o => exists t1, dstep mx (d_prev o) (d_key o) t1 /\ same_map t1 (d_next o) /\ valid_top mx (d_next o) (d_top o)) obs.
Check C16_exact_any_interleaving :
  forall (mx : nat) (ks ks' : list bytes) (t : tbl) (r : list (bytes * Z)),
  Permutation ks ks' ->
  (1 <= mx)%nat -> (length (exact_tbl [] ks) <= mx)%nat -> drun mx [] ks' t -> valid_top mx t r ->
  length r = length (exact_tbl [] ks) /\ forall k n, In (k, n) r -> n = true_count ks k.
Check C16_never_overstates_any_interleaving :
  forall (mx : nat) (ks ks' : list bytes) (t : tbl) (r : list (bytes * Z)) (k : bytes) (n : Z),
  Permutation ks ks' -> drun mx [] ks' t -> valid_top mx t r -> In (k, n) r -> 1 <= n <= true_count ks k.
