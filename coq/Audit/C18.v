(* Pinned statements of the C18 theorems: must match Properties/C18.v verbatim. *)
From Coq Require Import ZArith.
Require Import TC.Generated.Consts TC.Float.Rate64 TC.Properties.C18.
Open Scope Z_scope.

Check C18_rate_exact : forall count period,
  1 <= period <= 9000000 -> 1 <= count <= period * 1000000000 ->
  from_count_and_period count period = (period * 1000000000) / count.
Check C18_rate_bracket : forall count period,
  1 <= period <= 9000000 -> 1 <= count <= period * 1000000000 ->
  let E := from_count_and_period count period in
  1 <= E /\ E * count <= period * 1000000000 < (E + 1) * count.
Check C18_unit_constructors : forall n, 1 <= n <= 4294967295 ->
  per_second n = Some (from_count_and_period n 1) /\
  per_minute n = Some (from_count_and_period n 60) /\
  per_hour n = Some (from_count_and_period n 3600) /\
  per_day n = Some (from_count_and_period n 86400).
Check C18_invalid_blocks : forall count period, count <= 0 \/ period <= 0 ->
  from_count_and_period count period = 18446744073709551615 * 1000000000.
Check C18_rate_exact_wide : forall count period,
  1 <= count < 2^53 -> 1 <= period -> period * 1000000000 < 2^53 ->
  from_count_and_period count period = (period * 1000000000) / count.
