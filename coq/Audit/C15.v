(* Pinned statements of the C15 theorems (must match Properties/C15.v). *)
From Coq Require Import ZArith NArith List Bool String.
Import ListNotations.
Require Import TC.Resp.Utf8 TC.Resp.Parse TC.Resp.Cmd TC.Resp.CmdProofs TC.Server.Counters TC.Generated.Glue TC.Server.HandlerMetrics.
Open Scope Z_scope.
Require Import TC.Properties.C15.

Check C15_quiescent_identities :
  forall (programs : list (list mop)) (s : mstate),
  reachable (initial programs) s -> quiescent s ->
  val s CTotal = val s CHttp + val s CGrpc + val s CRedis /\
  val s CTotal = val s CAllowed + val s CDenied + val s CErrors /\
  forall c, val s c = started s c.
Check C15_monotone : forall (s s' : mstate), mstep s s' -> forall c, val s c <= val s' c.
Check C15_never_ahead :
  forall (programs : list (list mop)) (s : mstate), reachable (initial programs) s -> forall c, val s c <= started s c.
Check C15_resp_denied_iff_denial_sent :
  forall (upper : bytes -> bytes) (throttle : treq -> actor_res) (v reply : value) (ev : mevent),
  process_command upper throttle v = (reply, Some ev) ->
  (m_allowed ev = false <->
   exists cmd args rq l rm rs rt,
     v = Arr (Bulk (Some cmd) :: args) /\ bytes_eqb (upper cmd) (bytes_of_string "THROTTLE"%string) = true /\
     throttle rq = AOk false l rm rs rt /\ reply = Arr [Int 0; Int l; Int rm; Int rs; Int rt]).
Check C15_http_handler_records : forall r, handler_mop HTTP_METRICS r = Some (expected_mop Http r).
Check C15_grpc_handler_records : forall r, handler_mop GRPC_METRICS r = Some (expected_mop Grpc r).
Check C15_handler_denied_iff_denial : forall t r,
  In CDenied (micro (expected_mop t r)) <-> exists l rm rs rt, r = AOk false l rm rs rt.
Check C15_counters_only_incremented_atomically : forall p, In p METRICS_ATOMIC_OPS -> snd p = "fetch_add(1)"%string.
