(* Pinned statements of the C04 theorems (must match Properties/C04.v). *)
From Coq Require Import ZArith Bool List.
Import ListNotations.
Require Import TC.Base.Map TC.Store.Stores TC.Store.AbsMap TC.Store.Refine TC.Limiter.KeyStep
  TC.Limiter.Limiter TC.Limiter.Abstract TC.Limiter.Project TC.Limiter.NoEffect.
Open Scope Z_scope.
Require Import TC.Properties.C04.

Check C04_invalid_touches_nothing :
  forall (K : Type) (keqb : K -> K -> bool) (rate : Z -> Z -> Z) (st : store K) (orc : bool) (rq : req K),
  r_q rq < 0 \/ r_B rq <= 0 \/ r_count rq <= 0 \/ r_period rq <= 0 ->
  fst (rate_limit K keqb rate st orc rq) = st /\
  snd (rate_limit K keqb rate st orc rq) = (if r_q rq <? 0 then ErrNegativeQuantity else ErrInvalidRateLimit).
Check C04_zero_quantity_touches_nothing :
  forall (K : Type) (keqb : K -> K -> bool) (rate : Z -> Z -> Z) (st : store K) (orc : bool) (rq : req K),
  r_q rq = 0 -> fst (rate_limit K keqb rate st orc rq) = st.
Check C04_denied_touches_nothing :
  forall (K : Type) (keqb : K -> K -> bool), (forall a b, reflect (a = b) (keqb a b)) ->
  forall (rate : Z -> Z -> Z) (t0 : Z) (st : store K) (orc : bool) (rq : req K) (m : absmap K) (r : resp),
  R K keqb t0 (sdata K st) m -> t0 <= r_now rq ->
  snd (rate_limit K keqb rate st orc rq) = Ok r -> allowed r = false ->
  fst (rate_limit K keqb rate st orc rq) = st.
Check C04_noeffect_deletion :
  forall (K : Type) (keqb : K -> K -> bool), (forall a b, reflect (a = b) (keqb a b)) ->
  forall (rate : Z -> Z -> Z) (st1 st2 : store K) (h : list (bool * (bool * req K))) (orcs2 : list bool) (t0 : Z),
  sdata K st1 = [] -> sdata K st2 = [] ->
  let ext := map snd h in
  let flagged := map (fun p => (fst p, snd (snd p))) h in
  nondec_from t0 (times K (map snd ext)) ->
  inserted_no_effect K flagged (snd (lrun K keqb rate st1 ext)) = true ->
  length orcs2 = length (base_of K flagged) ->
  base_outs K flagged (snd (lrun K keqb rate st1 ext)) =
  snd (lrun K keqb rate st2 (combine orcs2 (base_of K flagged))).
