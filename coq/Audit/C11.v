(* Pinned statements of the C11 theorems (must match Properties/C11.v). *)
From Coq Require Import ZArith List Bool.
Import ListNotations.
Require Import TC.Base.Map TC.Store.Stores TC.Limiter.KeyStep TC.Limiter.Limiter TC.Limiter.Total
  TC.Resp.Utf8 TC.Resp.Parse TC.Resp.Conn TC.Server.Actor TC.Server.Linear TC.Server.Progress TC.Server.ActorLib.
Open Scope Z_scope.
Require Import TC.Properties.C11.

Check C11_actor_survives_generic :
  forall (L Rq Rs : Type) (lstep : L -> Rq -> L * Rs) (panics : L -> Rq -> bool) (prog : nat -> list Rq)
         (nclients cap : nat) (l0 : L) (s : state L Rs),
  reach L Rq Rs lstep panics prog nclients cap l0 s ->
  (forall s0 rq, reach L Rq Rs lstep panics prog nclients cap l0 s0 -> panics (lim _ _ s0) rq = false) ->
  alive _ _ s = true.
Check C11_no_poison_request :
  forall (K : Type) (keqb : K -> K -> bool), (forall a b, reflect (a = b) (keqb a b)) ->
  forall (rate : Z -> Z -> Z), (forall c p, 0 <= rate c p) ->
  forall (prog : nat -> list (areq K)) (nclients cap : nat) (l0 : store K),
  uniq (sdata K l0) -> (forall i r, In r (prog i) -> req_ok K r) ->
  forall s, reach (store K) (areq K) Limiter.outcome (lib_step K keqb rate) (lib_panics K keqb rate) prog nclients cap l0 s ->
  alive _ _ s = true.
Check C11_answers_documented :
  forall (K : Type) (keqb : K -> K -> bool), (forall a b, reflect (a = b) (keqb a b)) ->
  forall (rate : Z -> Z -> Z), (forall c p, 0 <= rate c p) ->
  forall (prog : nat -> list (areq K)) (nclients cap : nat) (l0 : store K),
  uniq (sdata K l0) -> (forall i r, In r (prog i) -> req_ok K r) ->
  forall s k (r : Limiter.outcome),
  reach (store K) (areq K) Limiter.outcome (lib_step K keqb rate) (lib_panics K keqb rate) prog nclients cap l0 s ->
  slots _ _ s k = SFilled _ r -> r <> Panic /\ r <> ErrInternal.
Check C11_closed_connection_is_inert :
  forall (isq : value -> bool) (cn : conn) (chunk : bytes),
  c_end cn <> Open -> conn_feed isq cn chunk = ([], cn).
