(* Pinned statements of the C12 theorems (must match Properties/C12.v). *)
From Coq Require Import ZArith NArith List Bool String.
Import ListNotations.
Require Import TC.Generated.Consts TC.Generated.Glue TC.Resp.Utf8 TC.Resp.Decimal TC.Resp.Parse TC.Resp.Cmd
  TC.Store.AbsMap TC.Limiter.KeyStep TC.Limiter.Limiter TC.Limiter.Abstract
  TC.Server.Transport TC.Server.TransportProofs TC.Server.Serve.
Open Scope Z_scope.
Require Import TC.Properties.C12.

Check C12_exchange : forall rate m w now,
  serve rate m w now =
  match decode w with
  | None => (m, WErr)
  | Some rq =>
      match snd (al_step bytes bytes_eqb rate m (to_req rq now)) with
      | Ok r => (fst (al_step bytes bytes_eqb rate m (to_req rq now)), WOk (if is_grpc w then narrow (whole_seconds r) else whole_seconds r))
      | _ => (fst (al_step bytes bytes_eqb rate m (to_req rq now)), WErr)
      end
  end.
Check C12_same_request : forall rate m w1 w2 now rq, decode w1 = Some rq -> decode w2 = Some rq ->
  fst (serve rate m w1 now) = fst (serve rate m w2 now) /\
  (is_grpc w1 = is_grpc w2 -> snd (serve rate m w1 now) = snd (serve rate m w2 now)) /\
  forall t1 t2, snd (serve rate m w1 now) = WOk t1 -> snd (serve rate m w2 now) = WOk t2 ->
    t_allowed t1 = t_allowed t2 /\ narrow t1 = narrow t2.
Check C12_reports_library : forall rate m w now rq r, decode w = Some rq ->
  snd (al_step bytes bytes_eqb rate m (to_req rq now)) = Ok r ->
  snd (serve rate m w now) = WOk (if is_grpc w then narrow (whole_seconds r) else whole_seconds r).
Check C12_whole_seconds : forall ns, 0 <= ns <= i64max -> wrap64 (ns / ns_per_s) = ns / ns_per_s.
Check C12_types_from : forall r, actor_response r =
  Some (mktresp (lr_allowed r) (lr_limit r) (lr_remaining r) (wrap64 (lr_reset_ns r / ns_per_s)) (wrap64 (lr_retry_ns r / ns_per_s))).
Check C12_positions_http : forall t, exists o, http_render t = Some o /\ view_http o = Some t.
Check C12_positions_resp : forall t, exists v, resp_render t = Some v /\ view_resp v = Some t.
Check C12_positions_grpc : forall t, exists m, grpc_render t = Some m /\ view_grpc m = Some (narrow t).
Check C12_grpc_exact_in_int32 : forall t,
  in_i32b (t_limit t) = true -> in_i32b (t_remaining t) = true -> in_i32b (t_reset t) = true -> in_i32b (t_retry t) = true ->
  narrow t = t.
Check C12_grpc_saturates : forall t, 0 <= t_reset t -> 0 <= t_retry t ->
  t_reset (narrow t) = Z.min (t_reset t) i32max /\ t_retry (narrow t) = Z.min (t_retry t) i32max.
Check C12_http_decode : forall o rq, http_decode o = Some rq <-> json_carries o rq.
Check C12_grpc_decode : forall r,
  grpc_decode r = Some {| t_key := g_key r; t_B := g_B r; t_count := g_count r; t_period := g_period r; t_q := g_q r |}.
Check C12_resp_decode : forall name k b c p vb vc vp,
  in_i64b b = true -> in_i64b c = true -> in_i64b p = true -> num_enc b vb -> num_enc c vc -> num_enc p vp ->
  resp_decode [Bulk (Some name); Bulk (Some k); vb; vc; vp] = Some {| t_key := k; t_B := b; t_count := c; t_period := p; t_q := 1 |} /\
  forall q vq, in_i64b q = true -> num_enc q vq ->
    resp_decode [Bulk (Some name); Bulk (Some k); vb; vc; vp; vq] = Some {| t_key := k; t_B := b; t_count := c; t_period := p; t_q := q |}.
Check C12_default_quantity : HTTP_DEFAULT_QUANTITY = 1 /\ resp_qdefault = Some 1.
Check C12_resp_handler : forall th args,
  handle_throttle th args = match resp_decode args with Some rq => reply_of (th rq) | None => handle_throttle (fun _ => AErr []) args end.
Check C12_resp_refused : forall args, resp_decode args = None ->
  (forall th1 th2, handle_throttle th1 args = handle_throttle th2 args) /\ exists e, forall th, handle_throttle th args = Error e.
Check C12_resp_tables : resp_arity_min = Some 5 /\ resp_arity_max = Some 6 /\ resp_qlen = Some 6 /\ resp_qdefault = Some 1 /\
  RESP_REQ = [("key", "key"); ("max_burst", "max_burst"); ("count_per_period", "count_per_period"); ("period", "period");
              ("quantity", "quantity"); ("timestamp", "SystemTime::now()")]%string.
Check C12_refused : forall rate m w now, decode w = None -> serve rate m w now = (m, WErr).
Check C12_error_no_budget : forall rate m w now, snd (serve rate m w now) = WErr -> fst (serve rate m w now) = m.
Check C12_http_missing_field : forall o name, In name ["key"; "max_burst"; "count_per_period"; "period"]%string ->
  lookup name o = [] -> http_decode o = None.
Check C12_http_wrong_type : forall o name v, In name ["max_burst"; "count_per_period"; "period"; "quantity"]%string ->
  lookup name o = [v] -> (forall z, v = JInt z -> in_i64b z = false) -> (name = "quantity"%string -> v <> JNull) -> http_decode o = None.
Check C12_refuted_for_grpc_long_durations : exists t, 0 <= t_reset t /\ in_i32b (t_limit t) = true /\ t_reset (narrow t) <> t_reset t.
