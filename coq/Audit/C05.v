(* Pinned statements of the C05 theorems (must match Properties/C05.v). *)
From Coq Require Import ZArith Bool List.
Import ListNotations.
Require Import TC.Base.Map TC.Store.Stores TC.Store.Refine TC.Limiter.KeyStep TC.Limiter.KeyLemmas
  TC.Limiter.Limiter TC.Limiter.Abstract TC.Limiter.Project TC.Limiter.Top TC.Limiter.Regress TC.Store.AbsMap.
Open Scope Z_scope.
Require Import TC.Properties.C05.

Check C05_projection :
  forall (K : Type) (keqb : K -> K -> bool), (forall a b, reflect (a = b) (keqb a b)) ->
  forall (rate : Z -> Z -> Z) (st0 : store K) (h : list (bool * req K)) (k : K) (B count period t0 : Z),
  fixed_key_history K keqb rate st0 h k B count period t0 ->
  project K keqb k (map snd h) (snd (lrun K keqb rate st0 h)) =
  snd (krun (rate count period) B None (kreqs K keqb k (map snd h))).
Check C05_isolation :
  forall (K : Type) (keqb : K -> K -> bool), (forall a b, reflect (a = b) (keqb a b)) ->
  forall (rate : Z -> Z -> Z) (st1 st2 : store K) (h1 h2 : list (bool * req K)) (k : K) (B count period t1 t2 : Z),
  fixed_key_history K keqb rate st1 h1 k B count period t1 ->
  fixed_key_history K keqb rate st2 h2 k B count period t2 ->
  kreqs K keqb k (map snd h1) = kreqs K keqb k (map snd h2) ->
  project K keqb k (map snd h1) (snd (lrun K keqb rate st1 h1)) =
  project K keqb k (map snd h2) (snd (lrun K keqb rate st2 h2)).
Check C05_frame :
  forall (K : Type) (keqb : K -> K -> bool) (rate : Z -> Z -> Z) (am : AbsMap.absmap K) (rq : req K) (k' : K),
  keqb k' (r_key rq) = false -> fst (al_step K keqb rate am rq) k' = am k'.
Check C05_projection_no_stale_forget :
  forall (K : Type) (keqb : K -> K -> bool), (forall a b, reflect (a = b) (keqb a b)) ->
  forall (rate : Z -> Z -> Z) (st0 : store K) (h : list (bool * req K)) (k : K) (B count period : Z),
  sdata K st0 = [] ->
  inD (rate count period) B -> 1 <= count -> 1 <= period ->
  times_ok K (map snd h) -> key_fixed K keqb k B count period (map snd h) ->
  no_stale_forget K keqb rate st0 abs_empty h ->
  project K keqb k (map snd h) (snd (lrun K keqb rate st0 h)) =
  snd (krun (rate count period) B None (kreqs K keqb k (map snd h))).
