(* Pinned statements of the C03 theorems (must match Properties/C03.v). *)
From Coq Require Import ZArith Bool List.
Import ListNotations.
Require Import TC.Limiter.Arith TC.Limiter.KeyStep TC.Limiter.KeyLemmas TC.Limiter.Fields
  TC.Limiter.Limiter TC.Limiter.Machine.
Open Scope Z_scope.
Require Import TC.Properties.C03.

Check C03_invariant_reachable :
  forall (E B : Z), inD E B -> forall (s : kstate) (t q now : Z),
  Inv E B None t /\
  (Inv E B s t -> t <= now -> time_ok now -> 0 <= q -> Inv E B (fst (kstep E B s q now)) now).
Check C03_limit_and_range :
  forall (E B : Z), inD E B -> forall (s : kstate) (t q now : Z),
  Inv E B s t -> t <= now -> time_ok now -> 0 <= q ->
  limit (snd (kstep E B s q now)) = B /\ 0 <= remaining (snd (kstep E B s q now)) <= B.
Check C03_remaining_exact :
  forall (E B : Z), inD E B -> forall (s : kstate) (t q now r : Z),
  Inv E B s t -> t <= now -> time_ok now -> 0 <= q -> 0 <= r ->
  allowed (snd (kstep E B (fst (kstep E B s q now)) r now)) = (r <=? remaining (snd (kstep E B s q now))).
Check C03_retry_zero_iff_allowed :
  forall (E B : Z), inD E B -> forall (s : kstate) (t q now : Z),
  Inv E B s t -> t <= now -> time_ok now -> 0 <= q ->
  (retry_after (snd (kstep E B s q now)) = 0 <-> allowed (snd (kstep E B s q now)) = true).
Check C03_retry_exact :
  forall (E B : Z), inD E B -> forall (s : kstate) (t q now : Z),
  Inv E B s t -> t <= now -> time_ok now -> 0 <= q <= B ->
  allowed (snd (kstep E B s q now)) = false ->
  let ra := retry_after (snd (kstep E B s q now)) in
  0 < ra /\
  (time_ok (now + ra) -> allowed (snd (kstep E B s q (now + ra))) = true) /\
  (forall d, 0 <= d < ra -> allowed (snd (kstep E B s q (now + d))) = false).
Check C03_reset_regains_burst :
  forall (E B : Z), inD E B -> forall (s : kstate) (t q now : Z),
  Inv E B s t -> t <= now -> time_ok now -> 0 <= q ->
  let now2 := now + reset_after (snd (kstep E B s q now)) in
  time_ok now2 -> allowed (snd (kstep E B (fst (kstep E B s q now)) B now2)) = true.
Check C03_reset_equals_lifetime :
  forall (E B : Z), inD E B -> forall (s : kstate) (t q now : Z),
  Inv E B s t -> t <= now -> time_ok now -> 0 < q ->
  allowed (snd (kstep E B s q now)) = true ->
  exists tat, fst (kstep E B s q now) = Some (tat, now + reset_after (snd (kstep E B s q now))) /\
              tat + E <= now + reset_after (snd (kstep E B s q now)).
Check C03_ttl_handed_to_store :
  forall (E B : Z), inD E B -> forall (s : kstate) (t q now : Z),
  Inv E B s t -> t <= now -> time_ok now -> 0 <= q <= i64max ->
  let c := m_calc E B q now (kvisible s now) in
  let sr := kstep E B s q now in
  snd c = snd sr /\ fst (fst (fst c)) = allowed (snd sr) /\
  (allowed (snd sr) = true -> 0 < q ->
     fst sr = Some (snd (fst (fst c)), now + snd (fst c)) /\ 0 <= snd (fst c) <= u64max /\
     snd (fst c) = reset_after (snd sr)).
Check C03_after_reset_fresh :
  forall (E B : Z), inD E B -> forall (s : kstate) (t q now q2 now2 : Z),
  Inv E B s t -> t <= now -> time_ok now -> 0 <= q ->
  now + reset_after (snd (kstep E B s q now)) <= now2 ->
  snd (kstep E B (fst (kstep E B s q now)) q2 now2) = snd (kstep E B None q2 now2) /\
  forall now3, now2 <= now3 ->
    eff E (fst (kstep E B (fst (kstep E B s q now)) q2 now2)) now3 = eff E (fst (kstep E B None q2 now2)) now3.
