(* Pinned statements of the C02 theorems (must match Properties/C02.v). *)
From Coq Require Import ZArith Bool List.
Import ListNotations.
Require Import TC.Base.Map TC.Store.Stores TC.Store.Refine TC.Limiter.KeyStep TC.Limiter.KeyLemmas
  TC.Limiter.Bucket TC.Limiter.Sim TC.Limiter.Window TC.Limiter.Limiter TC.Limiter.Project TC.Limiter.Decide TC.Limiter.Top
  TC.Limiter.Fields.
Open Scope Z_scope.
Require Import TC.Properties.C02.

Check C02_decisions_equal_bucket :
  forall (K : Type) (keqb : K -> K -> bool), (forall a b, reflect (a = b) (keqb a b)) ->
  forall (rate : Z -> Z -> Z) (st0 : store K) (h : list (bool * req K)) (k : K) (B count period t0 : Z),
  fixed_key_history K keqb rate st0 h k B count period t0 -> key_nonneg K keqb k (map snd h) ->
  map is_allowed (project K keqb k (map snd h) (snd (lrun K keqb rate st0 h))) =
  bdecide (rate count period) B (full (rate count period) B t0) (kreqs K keqb k (map snd h)) /\
  forallb is_ok (project K keqb k (map snd h) (snd (lrun K keqb rate st0 h))) = true.
Check C02_step_equals_bucket :
  forall (E B : Z), inD E B ->
  forall (s : kstate) (b : bucket) (q now : Z),
  rel E B s b -> last b <= now -> time_ok now -> 0 <= q ->
  allowed (snd (kstep E B s q now)) = snd (bstep E B b q now) /\
  rel E B (fst (kstep E B s q now)) (fst (bstep E B b q now)).
Check C02_fresh_admits_up_to_burst :
  forall (E B : Z), inD E B -> forall (q now : Z), time_ok now -> 0 <= q <= B ->
  allowed (snd (kstep E B None q now)) = true.
Check C02_no_starvation :
  forall (E B : Z), inD E B -> forall (s : kstate) (t q now : Z),
  Inv E B s t -> t + E * B <= now -> time_ok now -> 0 <= q <= B ->
  allowed (snd (kstep E B s q now)) = true.
