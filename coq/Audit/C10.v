(* Pinned statements of the C10 theorems (must match Properties/C10.v). *)
From Coq Require Import ZArith List Bool.
Import ListNotations.
Require Import TC.Resp.Utf8 TC.Resp.Parse TC.Resp.Conn TC.Resp.ConnProofs TC.Server.Actor TC.Server.Linear TC.Server.Progress.
Require Import TC.Properties.C10.

Check C10_at_most_once :
  forall (L Rq Rs : Type) (lstep : L -> Rq -> L * Rs) (panics : L -> Rq -> bool) (prog : nat -> list Rq)
         (nclients cap : nat) (l0 : L) (s : state L Rs),
  reach L Rq Rs lstep panics prog nclients cap l0 s ->
  NoDup (log _ _ s ++ queue _ _ s) /\
  forall i c, nth_error (clients _ _ s) i = Some c -> NoDup (map fst (got _ c)).
Check C10_deadlock_free :
  forall (L Rq Rs : Type) (lstep : L -> Rq -> L * Rs) (panics : L -> Rq -> bool) (prog : nat -> list Rq)
         (nclients cap : nat) (l0 : L), (1 <= cap)%nat -> forall (s : state L Rs),
  reach L Rq Rs lstep panics prog nclients cap l0 s ->
  (forall s0 rq, reach L Rq Rs lstep panics prog nclients cap l0 s0 -> panics (lim _ _ s0) rq = false) ->
  (exists i c, nth_error (clients _ _ s) i = Some c /\ (ctl _ c <> Idle \/ (next _ c < length (prog i))%nat)) ->
  exists lb s', step L Rq Rs lstep panics prog cap s lb s' /\ progress_label lb = true.
Check C10_measure_decreases :
  forall (L Rq Rs : Type) (lstep : L -> Rq -> L * Rs) (panics : L -> Rq -> bool) (prog : nat -> list Rq)
         (cap : nat) (s : state L Rs) (lb : label) (s' : state L Rs),
  step L Rq Rs lstep panics prog cap s lb s' -> lb <> LPanic ->
  (measure L Rq Rs prog s' < measure L Rq Rs prog s)%Z.
Check C10_measure_nonneg :
  forall (L Rq Rs : Type) (lstep : L -> Rq -> L * Rs) (panics : L -> Rq -> bool) (prog : nat -> list Rq)
         (nclients cap : nat) (l0 : L) (s : state L Rs),
  reach L Rq Rs lstep panics prog nclients cap l0 s -> (0 <= measure L Rq Rs prog s)%Z.
Check C10_answered_or_abandoned :
  forall (L Rq Rs : Type) (lstep : L -> Rq -> L * Rs) (panics : L -> Rq -> bool) (prog : nat -> list Rq)
         (nclients cap : nat) (l0 : L) (s : state L Rs) (i : nat) (c : client Rs) (idx : nat),
  reach L Rq Rs lstep panics prog nclients cap l0 s -> nth_error (clients _ _ s) i = Some c -> (idx < next _ c)%nat ->
  (exists r, In (idx, r) (got _ c)) \/ slots _ _ s (i, idx) = SDropped _.
Check C10_cancel_isolated :
  forall (L Rq Rs : Type) (lstep : L -> Rq -> L * Rs) (panics : L -> Rq -> bool) (prog : nat -> list Rq)
         (cap : nat) (s : state L Rs) (lb : label) (s' : state L Rs),
  step L Rq Rs lstep panics prog cap s lb s' -> (lb = LCancelBefore \/ lb = LCancelAfter) ->
  lim _ _ s' = lim _ _ s /\ queue _ _ s' = queue _ _ s /\ log _ _ s' = log _ _ s /\
  exists i c, nth_error (clients _ _ s) i = Some c /\
    (forall j, j <> i -> nth_error (clients _ _ s') j = nth_error (clients _ _ s) j) /\
    (forall k, k <> (i, next _ c) -> slots _ _ s' k = slots _ _ s k).
Check C10_pipeline_order :
  forall (isq : value -> bool) (A : Type) (handle : value -> A) (cs1 cs2 : list bytes),
  concat cs1 = concat cs2 ->
  map handle (fst (conn_run isq conn_init cs1)) = map handle (fst (conn_run isq conn_init cs2)).
