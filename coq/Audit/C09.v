(* Pinned statements of the C09 theorems (must match Properties/C09.v). *)
From Coq Require Import ZArith List Bool.
Import ListNotations.
Require Import TC.Server.Actor TC.Server.Linear TC.Limiter.Bucket TC.Limiter.KeyStep TC.Limiter.BurstExact.
Require Import TC.Properties.C09.

Check C09_linearizable :
  forall (L Rq Rs : Type) (lstep : L -> Rq -> L * Rs) (panics : L -> Rq -> bool) (prog : nat -> list Rq)
         (nclients cap : nat) (l0 : L) (s : state L Rs),
  reach L Rq Rs lstep panics prog nclients cap l0 s ->
  lim _ _ s = seq_state L Rq Rs lstep l0 (reqs_of Rq prog (log _ _ s)) /\
  (forall i c idx r, nth_error (clients _ _ s) i = Some c -> In (idx, r) (got _ c) ->
     answer_in L Rq Rs lstep prog l0 (log _ _ s) (i, idx) = Some r) /\
  (forall k r, slots _ _ s k = SFilled _ r -> answer_in L Rq Rs lstep prog l0 (log _ _ s) k = Some r).
Check C09_program_order :
  forall (L Rq Rs : Type) (lstep : L -> Rq -> L * Rs) (panics : L -> Rq -> bool) (prog : nat -> list Rq)
         (nclients cap : nat) (l0 : L) (s : state L Rs) (i : nat),
  reach L Rq Rs lstep panics prog nclients cap l0 s -> increasing (idxs i (log _ _ s ++ queue _ _ s)).
Check C09_real_time :
  forall (L Rq Rs : Type) (lstep : L -> Rq -> L * Rs) (panics : L -> Rq -> bool) (prog : nat -> list Rq)
         (nclients cap : nat) (l0 : L) (s1 s2 : state L Rs) (ia : nat) (ca : client Rs) (idxa : nat) (ra : Rs)
         (ib : nat) (cb : client Rs) (idxb : nat),
  reach L Rq Rs lstep panics prog nclients cap l0 s1 -> steps L Rq Rs lstep panics prog cap s1 s2 ->
  nth_error (clients _ _ s1) ia = Some ca -> In (idxa, ra) (got _ ca) ->
  nth_error (clients _ _ s1) ib = Some cb -> ((next _ cb < idxb)%nat \/ (next _ cb = idxb /\ ctl _ cb = Idle)) ->
  In (ib, idxb) (log _ _ s2) ->
  exists pre post, log _ _ s2 = pre ++ post /\ In (ia, idxa) pre /\ ~ In (ib, idxb) pre.
Check C09_burst_exact :
  forall (E B : Z) (t : Z) (n : nat), (1 <= E)%Z -> (0 <= B)%Z ->
  Z.of_nat (length (filter (fun d => d) (bdecide E B (full E B t) (repeat (1%Z, t) n)))) = Z.min (Z.of_nat n) B.
Check C09_refuted_by_stamp_disorder :
  exists E B t d, (1 <= E)%Z /\ (0 < d)%Z /\
    let r1 := kstep E B None 1 (t + d) in
    let r2 := kstep E B (fst r1) 1 t in
    allowed (snd r1) = true /\ remaining (snd r1) = 1%Z /\ allowed (snd r2) = false /\ retry_after (snd r2) = d.
