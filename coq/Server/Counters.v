(* C15: the seven request counters of metrics.rs under any interleaving of recorder threads.
   Each record_request / record_error is three atomic fetch_add(1) in program order; the model is
   an interleaving LTS over per-thread lists of pending increments.  Atomicity of fetch_add (a
   total modification order per counter) is the modelling assumption. *)
From Coq Require Import ZArith List Bool Lia.
Import ListNotations.
Open Scope Z_scope.

Inductive ctr := CTotal | CHttp | CGrpc | CRedis | CAllowed | CDenied | CErrors.
Inductive transport := Http | Grpc | Redis.
Inductive mop := RecRequest (tr : transport) (allowed : bool) | RecError (tr : transport).

Definition ctr_of_transport (t : transport) : ctr := match t with Http => CHttp | Grpc => CGrpc | Redis => CRedis end.

(* the increments of one operation, in the program order of metrics.rs *)
Definition micro (o : mop) : list ctr :=
  match o with
  | RecRequest tr a => [CTotal; ctr_of_transport tr; if a then CAllowed else CDenied]
  | RecError tr => [CTotal; CErrors; ctr_of_transport tr]
  end.

Definition ctr_eqb (a b : ctr) : bool :=
  match a, b with
  | CTotal, CTotal | CHttp, CHttp | CGrpc, CGrpc | CRedis, CRedis | CAllowed, CAllowed | CDenied, CDenied | CErrors, CErrors => true
  | _, _ => false
  end.

Definition cnt (c : ctr) (l : list ctr) : Z := Z.of_nat (length (filter (ctr_eqb c) l)).

(* a recorder thread: increments still pending for its current operation, operations still to do *)
Record thread := { pending : list ctr; todo : list mop }.
(* counters as a function; [started c] = ghost: contributions to c of all operations begun so far *)
Record mstate := { val : ctr -> Z; started : ctr -> Z; threads : list thread }.

Definition bump (f : ctr -> Z) (c : ctr) : ctr -> Z := fun x => if ctr_eqb x c then f x + 1 else f x.
Definition add_started (f : ctr -> Z) (l : list ctr) : ctr -> Z := fun x => f x + cnt x l.

Fixpoint set_nth (i : nat) (t : thread) (l : list thread) : list thread :=
  match l, i with
  | [], _ => []
  | _ :: r, O => t :: r
  | x :: r, S j => x :: set_nth j t r
  end.

(* transitions: thread i begins its next operation, or performs its next atomic increment *)
Inductive mstep : mstate -> mstate -> Prop :=
| step_begin : forall s i o rest,
    nth_error (threads s) i = Some {| pending := []; todo := o :: rest |} ->
    mstep s {| val := val s; started := add_started (started s) (micro o);
               threads := set_nth i {| pending := micro o; todo := rest |} (threads s) |}
| step_inc : forall s i c p td,
    nth_error (threads s) i = Some {| pending := c :: p; todo := td |} ->
    mstep s {| val := bump (val s) c; started := started s;
               threads := set_nth i {| pending := p; todo := td |} (threads s) |}.

Inductive reachable (s0 : mstate) : mstate -> Prop :=
| reach_refl : reachable s0 s0
| reach_step : forall s s', reachable s0 s -> mstep s s' -> reachable s0 s'.

Definition pend_total (c : ctr) (ts : list thread) : Z := fold_right (fun t acc => cnt c (pending t) + acc) 0 ts.

(* invariant: done + pending = started, for every counter *)
Definition MInv (s : mstate) : Prop := forall c, val s c + pend_total c (threads s) = started s c.

Definition initial (programs : list (list mop)) : mstate :=
  {| val := fun _ => 0; started := fun _ => 0; threads := map (fun p => {| pending := []; todo := p |}) programs |}.

Lemma pend_total_set c : forall ts i t t', nth_error ts i = Some t ->
  pend_total c (set_nth i t' ts) = pend_total c ts - cnt c (pending t) + cnt c (pending t').
Proof.
  induction ts as [|x r IH]; intros i t t' H; [destruct i; discriminate|].
  destruct i as [|j]; cbn [nth_error set_nth pend_total fold_right] in *.
  - inversion H; subst. lia.
  - fold (pend_total c r). fold (pend_total c (set_nth j t' r)). rewrite (IH j t t' H). lia.
Qed.

Lemma cnt_cons c x l : cnt c (x :: l) = (if ctr_eqb c x then 1 else 0) + cnt c l.
Proof. unfold cnt. cbn [filter]. destruct (ctr_eqb c x); cbn [length]; lia. Qed.

Lemma ctr_eqb_sym a b : ctr_eqb a b = ctr_eqb b a.
Proof. destruct a, b; reflexivity. Qed.

Lemma step_inv s s' : MInv s -> mstep s s' -> MInv s'.
Proof.
  intros HI Hs c. destruct Hs as [s i o rest Hn|s i c0 p td Hn]; cbn [val started threads].
  - rewrite (pend_total_set c _ i _ _ Hn). cbn [pending]. unfold add_started. specialize (HI c).
    change (cnt c []) with 0. lia.
  - rewrite (pend_total_set c _ i _ _ Hn). cbn [pending]. rewrite cnt_cons. unfold bump. specialize (HI c).
    rewrite (ctr_eqb_sym c c0). destruct (ctr_eqb c0 c); lia.
Qed.

Lemma initial_inv programs : MInv (initial programs).
Proof.
  intros c. unfold initial. cbn [val started threads].
  assert (H : pend_total c (map (fun p => {| pending := []; todo := p |}) programs) = 0).
  { induction programs as [|p r IH]; [reflexivity|]. cbn [map pend_total fold_right pending]. fold (pend_total c (map (fun p0 => {| pending := []; todo := p0 |}) r)). rewrite IH. reflexivity. }
  rewrite H. reflexivity.
Qed.

Theorem reachable_inv programs s : reachable (initial programs) s -> MInv s.
Proof. induction 1 as [|s s' _ IH Hs]; [apply initial_inv|exact (step_inv s s' IH Hs)]. Qed.

(* every operation contributes one total, one transport, one outcome *)
Definition balanced (f : ctr -> Z) : Prop :=
  f CTotal = f CHttp + f CGrpc + f CRedis /\ f CTotal = f CAllowed + f CDenied + f CErrors.

Lemma micro_balanced o : balanced (fun c => cnt c (micro o)).
Proof. destruct o as [[| |] [|]|[| |]]; vm_compute; split; reflexivity. Qed.

Lemma started_balanced programs s : reachable (initial programs) s -> balanced (started s).
Proof.
  induction 1 as [|s s' _ IH Hs]; [vm_compute; split; reflexivity|].
  destruct Hs as [s i o rest Hn|s i c0 p td Hn]; cbn [started]; [|exact IH].
  destruct IH as [A B]. destruct (micro_balanced o) as [A' B']. unfold add_started. split; lia.
Qed.

(* quiescent: no operation is partially executed *)
Definition quiescent (s : mstate) : Prop := Forall (fun t => pending t = []) (threads s).

Lemma quiescent_pend c ts : Forall (fun t => pending t = []) ts -> pend_total c ts = 0.
Proof.
  induction 1 as [|t r Ht _ IH]; [reflexivity|]. cbn [pend_total fold_right]. fold (pend_total c r). rewrite Ht, IH. reflexivity.
Qed.

(* C15: at every quiescent point of every interleaving the identities hold, and every counter
   equals the number of events of its kind performed so far *)
Theorem quiescent_identities programs s :
  reachable (initial programs) s -> quiescent s ->
  val s CTotal = val s CHttp + val s CGrpc + val s CRedis /\
  val s CTotal = val s CAllowed + val s CDenied + val s CErrors /\
  forall c, val s c = started s c.
Proof.
  intros Hr Hq. pose proof (reachable_inv programs s Hr) as HI.
  assert (Hv : forall c, val s c = started s c).
  { intros c. specialize (HI c). rewrite (quiescent_pend c _ Hq) in HI. lia. }
  destruct (started_balanced programs s Hr) as [A B]. rewrite !Hv. repeat split; auto.
Qed.

(* counters never decrease *)
Theorem counters_monotone s s' : mstep s s' -> forall c, val s c <= val s' c.
Proof.
  intros Hs c. destruct Hs; cbn [val]; [lia|]. unfold bump. destruct (ctr_eqb c c0); lia.
Qed.

Lemma pend_nonneg c ts : 0 <= pend_total c ts.
Proof.
  induction ts as [|t r IH]; [cbn; lia|].
  change (pend_total c (t :: r)) with (cnt c (pending t) + pend_total c r). unfold cnt at 1. lia.
Qed.

(* and between quiescent points nothing is ever over-counted: done <= started *)
Theorem never_ahead programs s : reachable (initial programs) s -> forall c, val s c <= started s c.
Proof.
  intros Hr c. pose proof (reachable_inv programs s Hr c) as HI. pose proof (pend_nonneg c (threads s)). lia.
Qed.
