(* C12: one server = one abstract limiter (the al_step of Limiter/Abstract.v, what every built-in store
   refines by C06) behind the three transports of Transport.v.  serve = decode; if accepted, one limiter
   step; map the answer to whole seconds (types.rs); render for the protocol; read at the documented
   positions. *)
From Coq Require Import ZArith NArith List Bool Lia String.
Import ListNotations.
Require Import TC.Generated.Consts TC.Generated.Glue TC.Resp.Utf8 TC.Resp.Decimal TC.Resp.Parse TC.Resp.Cmd
  TC.Store.AbsMap TC.Limiter.KeyStep TC.Limiter.Limiter TC.Limiter.Abstract TC.Server.Transport TC.Server.TransportProofs.
Open Scope Z_scope.

Inductive wreq :=
| WHttp (body : option jobj)      (* None: not JSON / rejected by the extractor before deserialisation *)
| WGrpc (m : greq)
| WResp (args : list value).      (* a command whose upper-cased name is THROTTLE *)
Inductive wresp := WOk (t : tresp) | WErr.

Definition decode (w : wreq) : option treq :=
  match w with
  | WHttp None => None
  | WHttp (Some o) => http_decode o
  | WGrpc m => grpc_decode m
  | WResp args => resp_decode args
  end.

Definition bind {X Y} (o : option X) (f : X -> option Y) : option Y := match o with Some a => f a | None => None end.
(* render for the protocol, then read back at the documented positions *)
Definition present (w : wreq) (t : tresp) : option tresp :=
  match w with
  | WHttp _ => bind (http_render t) view_http
  | WGrpc _ => bind (grpc_render t) view_grpc
  | WResp _ => bind (resp_render t) view_resp
  end.

Definition libres_of (r : resp) : libres := mklibres (allowed r) (limit r) (remaining r) (reset_after r) (retry_after r).
Definition whole_seconds (r : resp) : tresp :=
  mktresp (allowed r) (limit r) (remaining r) (wrap64 (reset_after r / ns_per_s)) (wrap64 (retry_after r / ns_per_s)).

Section Serve.
Variable rate : Z -> Z -> Z.
Notation amap := (absmap bytes).
Notation lstep := (al_step bytes bytes_eqb rate).

Definition to_req (rq : treq) (now : Z) : req bytes := mkreq (t_key rq) (t_B rq) (t_count rq) (t_period rq) (t_q rq) now.

Definition serve (m : amap) (w : wreq) (now : Z) : amap * wresp :=
  match decode w with
  | None => (m, WErr)
  | Some rq =>
      let mo := lstep m (to_req rq now) in
      match snd mo with
      | Ok r => (fst mo, match bind (actor_response (libres_of r)) (present w) with Some t => WOk t | None => WErr end)
      | _ => (fst mo, WErr)
      end
  end.

Fixpoint serve_all (m : amap) (ws : list (wreq * Z)) : amap * list wresp :=
  match ws with
  | [] => (m, [])
  | (w, now) :: r => let mo := serve m w now in let mos := serve_all (fst mo) r in (fst mos, snd mo :: snd mos)
  end.

Definition is_grpc (w : wreq) : bool := match w with WGrpc _ => true | _ => false end.

Lemma present_spec w t : present w t = Some (if is_grpc w then narrow t else t).
Proof.
  destruct w; cbn [present is_grpc].
  - destruct (view_http_render t) as (o & -> & Hv). exact Hv.
  - destruct (view_grpc_render t) as (o & -> & Hv). exact Hv.
  - destruct (view_resp_render t) as (o & -> & Hv). exact Hv.
Qed.

(* the complete description of one exchange *)
Theorem serve_spec m w now :
  serve m w now =
  match decode w with
  | None => (m, WErr)
  | Some rq =>
      match snd (lstep m (to_req rq now)) with
      | Ok r => (fst (lstep m (to_req rq now)), WOk (if is_grpc w then narrow (whole_seconds r) else whole_seconds r))
      | _ => (fst (lstep m (to_req rq now)), WErr)
      end
  end.
Proof.
  unfold serve. destruct (decode w) as [rq|]; [|reflexivity]. cbv zeta.
  destruct (snd (lstep m (to_req rq now))) as [r| | | |]; try reflexivity.
  rewrite actor_response_spec. cbn [bind]. rewrite present_spec. reflexivity.
Qed.

(* same logical request => same limiter step and same answer, whichever protocol carried it *)
Theorem serve_same_request m w1 w2 now rq : decode w1 = Some rq -> decode w2 = Some rq ->
  fst (serve m w1 now) = fst (serve m w2 now) /\
  (is_grpc w1 = is_grpc w2 -> snd (serve m w1 now) = snd (serve m w2 now)) /\
  forall t1 t2, snd (serve m w1 now) = WOk t1 -> snd (serve m w2 now) = WOk t2 ->
    t_allowed t1 = t_allowed t2 /\ narrow t1 = narrow t2.
Proof.
  intros H1 H2. rewrite !serve_spec, H1, H2.
  assert (Hn : forall t, narrow (narrow t) = narrow t).
  { intros t. unfold narrow. cbn [t_allowed t_limit t_remaining t_reset t_retry].
    assert (Hw : forall z, wrap32 (wrap32 z) = wrap32 z).
    { intros z. unfold wrap32. pose proof (Z.mod_pos_bound (z + 2147483648) 4294967296 ltac:(lia)) as Hb.
      set (y := (z + 2147483648) mod 4294967296) in *. replace (y - 2147483648 + 2147483648) with y by lia.
      rewrite Z.mod_small by lia. reflexivity. }
    assert (Hs : forall z, wrap32 (sat32 (wrap32 (sat32 z))) = wrap32 (sat32 z)).
    { intros z. unfold sat32, i32max. assert (Hi : wrap32 (Z.min z 2147483647) <= 2147483647).
      { unfold wrap32. pose proof (Z.mod_pos_bound (Z.min z 2147483647 + 2147483648) 4294967296 ltac:(lia)). lia. }
      rewrite (Z.min_l _ _ Hi). apply Hw. }
    rewrite !Hw, !Hs. reflexivity. }
  destruct (snd (lstep m (to_req rq now))) as [r| | | |]; cbn [fst snd].
  - split; [reflexivity|]. split; [intros ->; reflexivity|].
    intros t1 t2 E1 E2. injection E1 as <-. injection E2 as <-.
    destruct (is_grpc w1), (is_grpc w2); cbn [narrow t_allowed]; rewrite ?Hn; split; reflexivity.
  - split; [reflexivity|]. split; [reflexivity|intros; discriminate].
  - split; [reflexivity|]. split; [reflexivity|intros; discriminate].
  - split; [reflexivity|]. split; [reflexivity|intros; discriminate].
  - split; [reflexivity|]. split; [reflexivity|intros; discriminate].
Qed.

(* an error answer - protocol error, invalid limits, negative quantity - never consumes budget of any key *)
Theorem serve_error_no_budget m w now : snd (serve m w now) = WErr -> fst (serve m w now) = m.
Proof.
  rewrite serve_spec. destruct (decode w) as [rq|]; [|reflexivity].
  unfold al_step. destruct (r_q _ <? 0); [reflexivity|]. destruct (invalid_limits _ _); [reflexivity|]. cbv zeta.
  destruct (fst (fst (fst _)) && _); cbn [fst snd].
  - destruct (systime_add_overflows _ _); cbn [fst snd]; [reflexivity|discriminate].
  - discriminate.
Qed.

(* a request the decoder refuses is answered with an error whatever the limiter state *)
Theorem serve_refused m w now : decode w = None -> serve m w now = (m, WErr).
Proof. intros H. unfold serve. rewrite H. reflexivity. Qed.

(* HTTP and RESP report exactly the library's answer in whole seconds, each field at its documented place;
   gRPC the same whenever int32 can carry it *)
Theorem serve_reports_library m w now rq r : decode w = Some rq -> snd (lstep m (to_req rq now)) = Ok r ->
  snd (serve m w now) = WOk (if is_grpc w then narrow (whole_seconds r) else whole_seconds r).
Proof. intros Hd Ho. rewrite serve_spec, Hd, Ho. reflexivity. Qed.

End Serve.
