(* The actor LTS instantiated with the library model: the sequential limiter is rate_limit over a
   built-in store; a panic of the limiter is the model's [Panic] outcome.  C11: whatever the
   clients send (any i64 limits and quantities, any keys, timestamps 1970..2200 in any order), the
   actor never dies and every answer is the sequential one. *)
From Coq Require Import ZArith List Bool Lia.
Import ListNotations.
Require Import TC.Base.Map TC.Store.Stores TC.Limiter.Arith TC.Limiter.KeyStep TC.Limiter.Limiter TC.Limiter.Total TC.Limiter.Regress
  TC.Server.Actor TC.Server.Linear TC.Server.Progress.
Open Scope Z_scope.

Section Lib.
Variable K : Type.
Variable keqb : K -> K -> bool.
Hypothesis keqb_spec : forall a b, reflect (a = b) (keqb a b).
Variable rate : Z -> Z -> Z.
Hypothesis rate_range : forall c p, 0 <= rate c p.

Definition areq := (bool * req K)%type.               (* oracle bit of the store, request *)
Definition lib_step (st : store K) (r : areq) : store K * outcome := rate_limit K keqb rate st (fst r) (snd r).
Definition lib_panics (st : store K) (r : areq) : bool :=
  match snd (lib_step st r) with Panic => true | _ => false end.

Definition req_ok (r : areq) : Prop := 0 <= r_now (snd r) <= t2200 /\ req_in_i64 K (snd r).

Variable prog : nat -> list areq.
Variable nclients cap : nat.
Variable l0 : store K.
Hypothesis l0_map : uniq (sdata K l0).
Hypothesis progs_ok : forall i r, In r (prog i) -> req_ok r.

Notation reachL := (reach (store K) areq outcome lib_step lib_panics prog nclients cap l0).

Lemma seq_state_uniq : forall (rs : list areq) (st : store K), uniq (sdata K st) ->
  uniq (sdata K (seq_state (store K) areq outcome lib_step st rs)).
Proof.
  induction rs as [|r t IH]; intros st U; [exact U|]. cbn [seq_state]. apply IH.
  unfold lib_step. apply (rate_limit_any_order K keqb keqb_spec rate st (fst r) (snd r) U).
Qed.

Lemma reach_uniq s : reachL s -> uniq (sdata K (lim _ _ s)).
Proof.
  intros Hr. destruct (linearizable _ _ _ lib_step lib_panics prog nclients cap l0 s Hr) as [Hl _]. rewrite Hl.
  apply seq_state_uniq. exact l0_map.
Qed.

Lemma no_panic st (r : areq) : uniq (sdata K st) -> req_ok r -> lib_panics st r = false.
Proof.
  intros U [Hnow Hi]. unfold lib_panics, lib_step.
  pose proof (total_any_order K keqb keqb_spec rate rate_range st (fst r) (snd r) U Hnow Hi) as H.
  destruct (r_q (snd r) <? 0); [rewrite H; reflexivity|].
  destruct (_ || _); [rewrite H; reflexivity|]. destruct H as (x & -> & _). reflexivity.
Qed.

(* C11: no request can kill the actor *)
Theorem lib_actor_survives s : reachL s -> alive _ _ s = true.
Proof.
  intros Hr.
  destruct (reach_inv2 _ _ _ lib_step lib_panics prog nclients cap l0 s Hr) as [_ Hreq _ _ _ [Ha|(k & q & rq & Hq & Hk & Hp)]]; [exact Ha|].
  rewrite (no_panic _ rq (reach_uniq s Hr)) in Hp; [discriminate|].
  apply (progs_ok (fst k)). unfold req_of in Hk. eapply nth_error_In. exact Hk.
Qed.

(* and every answer delivered is one of the documented outcomes - never a panic, never the
   internal error - computed by the sequential limiter *)
Theorem lib_answers_documented s k (r : outcome) :
  reachL s -> slots _ _ s k = SFilled _ r -> r <> Panic /\ r <> ErrInternal.
Proof.
  intros Hr Hs.
  destruct (linearizable _ _ _ lib_step lib_panics prog nclients cap l0 s Hr) as (_ & _ & Hslot).
  specialize (Hslot k r Hs).
  (* the answer is lib_step applied to a reachable (map) state and an in-range request *)
  assert (Hgen : forall ids st, uniq (sdata K st) ->
            answer_in (store K) areq outcome lib_step prog st ids k = Some r -> r <> Panic /\ r <> ErrInternal).
  { induction ids as [|x t IH]; intros st U Ha; cbn [answer_in] in Ha; [discriminate|].
    destruct (req_of areq prog x) as [rq|] eqn:Hx; [|apply (IH st U Ha)].
    assert (Hok : req_ok rq) by (apply (progs_ok (fst x)); unfold req_of in Hx; eapply nth_error_In; exact Hx).
    destruct (rid_eqb x k).
    - inversion Ha; subst r. destruct Hok as [Hnow Hi]. unfold lib_step.
      pose proof (total_any_order K keqb keqb_spec rate rate_range st (fst rq) (snd rq) U Hnow Hi) as H.
      destruct (r_q (snd rq) <? 0); [rewrite H; split; discriminate|].
      destruct (_ || _); [rewrite H; split; discriminate|]. destruct H as (y & -> & _). split; discriminate.
    - apply (IH (fst (lib_step st rq))); [|exact Ha]. unfold lib_step.
      apply (rate_limit_any_order K keqb keqb_spec rate st (fst rq) (snd rq) U). }
  apply (Hgen (log _ _ s) l0 l0_map Hslot).
Qed.

End Lib.
