(* C09 / C10 / C11: the limiter actor (actor.rs) as a labelled transition system.
   Any number of clients, each running a program of requests; a bounded FIFO queue (tokio mpsc
   with capacity cap >= 1: `send` waits while the queue is full); one reply slot per request
   (oneshot: filled at most once; the receiver may have been dropped); one actor that dequeues the
   head, applies the SEQUENTIAL limiter to it and fills the slot (or dies if the limiter panics).
   Clients may abandon a request before it is enqueued or after.  The tokio scheduler, mpsc and
   oneshot are modelled by these rules (trusted base); every interleaving is covered. *)
From Coq Require Import ZArith List Bool Lia PeanoNat.
Import ListNotations.

Section Actor.
Variables L Rq Rs : Type.
Variable lstep : L -> Rq -> L * Rs.          (* the sequential limiter: handle_throttle *)
Variable panics : L -> Rq -> bool.           (* the limiter call panics (kills the actor task) *)
Variable prog : nat -> list Rq.              (* program of client i *)
Variable nclients : nat.
Variable cap : nat.

Definition rid := (nat * nat)%type.          (* request id: (client, index in its program) *)
Definition rid_eqb (a b : rid) : bool := (fst a =? fst b) && (snd a =? snd b).
Lemma rid_eqb_spec a b : reflect (a = b) (rid_eqb a b).
Proof.
  destruct a as [a1 a2], b as [b1 b2]. unfold rid_eqb. cbn [fst snd].
  destruct (Nat.eqb_spec a1 b1); destruct (Nat.eqb_spec a2 b2); constructor; congruence.
Qed.

Definition req_of (r : rid) : option Rq := nth_error (prog (fst r)) (snd r).

Inductive cctl := Idle | Sending | Waiting.
Record client := { next : nat; ctl : cctl; got : list (nat * Rs) }.
Inductive slot := SEmpty | SFilled (r : Rs) | SDropped.

Record state := {
  clients : list client;
  queue : list rid;
  slots : rid -> slot;
  lim : L;
  log : list rid;              (* ghost: requests in the order the actor processed them *)
  alive : bool }.

Fixpoint set_nth {A} (i : nat) (x : A) (l : list A) : list A :=
  match l, i with
  | [], _ => []
  | _ :: r, O => x :: r
  | y :: r, S j => y :: set_nth j x r
  end.
Definition set_slot (f : rid -> slot) (k : rid) (v : slot) : rid -> slot := fun x => if rid_eqb x k then v else f x.

Inductive label := LInvoke | LEnqueue | LActor | LReceive | LCancelBefore | LCancelAfter | LPanic.

Inductive step : state -> label -> state -> Prop :=
(* the client creates the reply slot and starts `tx.send(msg).await` *)
| c_invoke : forall s i c rq,
    nth_error (clients s) i = Some c -> ctl c = Idle -> nth_error (prog i) (next c) = Some rq ->
    step s LInvoke
         {| clients := set_nth i {| next := next c; ctl := Sending; got := got c |} (clients s);
            queue := queue s; slots := slots s; lim := lim s; log := log s; alive := alive s |}
(* the send completes: only while the queue has room (back-pressure: otherwise the caller waits) *)
| c_enqueue : forall s i c,
    nth_error (clients s) i = Some c -> ctl c = Sending -> length (queue s) < cap ->
    step s LEnqueue
         {| clients := set_nth i {| next := next c; ctl := Waiting; got := got c |} (clients s);
            queue := queue s ++ [(i, next c)]; slots := slots s; lim := lim s; log := log s; alive := alive s |}
(* the actor takes the head of the queue, applies the sequential limiter, fills the slot
   (`let _ = response_tx.send(response)`: a dropped receiver is ignored) *)
| a_step : forall s k q rq,
    alive s = true -> queue s = k :: q -> req_of k = Some rq -> panics (lim s) rq = false ->
    step s LActor
         {| clients := clients s; queue := q;
            slots := set_slot (slots s) k (match slots s k with SDropped => SDropped | _ => SFilled (snd (lstep (lim s) rq)) end);
            lim := fst (lstep (lim s) rq); log := log s ++ [k]; alive := alive s |}
(* the limiter call panics: the actor task is gone, nothing is answered any more *)
| a_panic : forall s k q rq,
    alive s = true -> queue s = k :: q -> req_of k = Some rq -> panics (lim s) rq = true ->
    step s LPanic
         {| clients := clients s; queue := queue s; slots := slots s; lim := lim s; log := log s; alive := false |}
(* the client's `response_rx.await` completes *)
| c_receive : forall s i c r,
    nth_error (clients s) i = Some c -> ctl c = Waiting -> slots s (i, next c) = SFilled r ->
    step s LReceive
         {| clients := set_nth i {| next := S (next c); ctl := Idle; got := got c ++ [(next c, r)] |} (clients s);
            queue := queue s; slots := slots s; lim := lim s; log := log s; alive := alive s |}
(* the client abandons the request before it was enqueued: nothing reaches the actor *)
| c_cancel_before : forall s i c,
    nth_error (clients s) i = Some c -> ctl c = Sending ->
    step s LCancelBefore
         {| clients := set_nth i {| next := S (next c); ctl := Idle; got := got c |} (clients s);
            queue := queue s; slots := set_slot (slots s) (i, next c) SDropped; lim := lim s; log := log s; alive := alive s |}
(* ... or after: the queued request stays queued and will be processed, its answer is discarded *)
| c_cancel_after : forall s i c,
    nth_error (clients s) i = Some c -> ctl c = Waiting ->
    step s LCancelAfter
         {| clients := set_nth i {| next := S (next c); ctl := Idle; got := got c |} (clients s);
            queue := queue s; slots := set_slot (slots s) (i, next c) SDropped; lim := lim s; log := log s; alive := alive s |}.

Variable l0 : L.

Definition init : state :=
  {| clients := repeat {| next := 0; ctl := Idle; got := [] |} nclients; queue := []; slots := fun _ => SEmpty;
     lim := l0; log := []; alive := true |}.

Inductive reach : state -> Prop :=
| reach_init : reach init
| reach_step : forall s lb s', reach s -> step s lb s' -> reach s'.

(* the sequential specification: the limiter applied to a list of requests one at a time *)
Fixpoint seq_state (l : L) (rs : list Rq) : L :=
  match rs with [] => l | r :: t => seq_state (fst (lstep l r)) t end.
Fixpoint reqs_of (ids : list rid) : list Rq :=
  match ids with [] => [] | k :: t => match req_of k with Some r => r :: reqs_of t | None => reqs_of t end end.

(* the answer request k gets when the requests of [ids] are applied sequentially in that order *)
Fixpoint answer_in (l : L) (ids : list rid) (k : rid) : option Rs :=
  match ids with
  | [] => None
  | x :: t =>
      match req_of x with
      | Some r => if rid_eqb x k then Some (snd (lstep l r)) else answer_in (fst (lstep l r)) t k
      | None => answer_in l t k
      end
  end.

End Actor.
