(* C15, HTTP and gRPC: which recorder operation a handler performs for the limiter's answer.  The calls are the
   tables HTTP_METRICS / GRPC_METRICS re-extracted from http.rs / grpc.rs (Generated/Glue.v), interpreted here. *)
From Coq Require Import ZArith List Bool String.
Import ListNotations.
Require Import TC.Generated.Glue TC.Resp.Utf8 TC.Resp.Cmd TC.Server.Transport TC.Server.Counters.
Open Scope string_scope.

Definition call_mop (e : string) (allowed : bool) : option mop :=
  if String.eqb e "record_request_with_key(MetricsTransport::Http,response.allowed,&req.key)" then Some (RecRequest Http allowed)
  else if String.eqb e "record_request_with_key(MetricsTransport::Grpc,result.allowed,&req.key)" then Some (RecRequest Grpc allowed)
  else if String.eqb e "record_error(MetricsTransport::Http)" then Some (RecError Http)
  else if String.eqb e "record_error(MetricsTransport::Grpc)" then Some (RecError Grpc)
  else None.

(* the handler's recorder operation for the limiter's answer [r]: the call of the Ok arm or of the Err arm *)
Definition handler_mop (tbl : list (string * string)) (r : actor_res) : option mop :=
  match r with
  | AOk a _ _ _ _ => match the (lookup "ok" tbl) with Some e => call_mop e a | None => None end
  | AErr _ => match the (lookup "err" tbl) with Some e => call_mop e false | None => None end
  end.

Definition expected_mop (t : transport) (r : actor_res) : mop :=
  match r with AOk a _ _ _ _ => RecRequest t a | AErr _ => RecError t end.

Theorem http_handler_mop r : handler_mop HTTP_METRICS r = Some (expected_mop Http r).
Proof. destruct r; reflexivity. Qed.
Theorem grpc_handler_mop r : handler_mop GRPC_METRICS r = Some (expected_mop Grpc r).
Proof. destruct r; reflexivity. Qed.

(* the denied counter is touched exactly for a denial decision; an error touches the error counter, never allowed/denied *)
Theorem handler_denied_iff t r : In CDenied (micro (expected_mop t r)) <-> exists l rm rs rt, r = AOk false l rm rs rt.
Proof.
  destruct r as [a l rm rs rt|e]; cbn [expected_mop micro].
  - destruct a; cbn; split.
    + intros [H|[H|[H|[]]]]; try discriminate; destruct t; discriminate.
    + intros (l' & rm' & rs' & rt' & H). discriminate.
    + intros _. eauto.
    + intros _. right. right. left. reflexivity.
  - split; [|intros (l & rm & rs & rt & H); discriminate]. cbn. intros [H|[H|[H|[]]]]; try discriminate; destruct t; discriminate.
Qed.

(* ---- the atomicity assumption of Server/Counters.v, checked against the source ----
   METRICS_ATOMIC_OPS (regenerated from metrics.rs on every run) lists every write / read-modify-write on an atomic in the
   non-test part of the file as (receiver, "op(first argument)").  The counter model lets a recorder step be ONE atomic
   increment of one counter; that is what the source does exactly when every listed operation is `fetch_add(1)`. *)
Definition op_is_increment (p : string * string) : bool := String.eqb (snd p) "fetch_add(1)".
Definition counters_rmw_only : bool :=
  forallb op_is_increment METRICS_ATOMIC_OPS && negb (Nat.eqb (List.length METRICS_ATOMIC_OPS) 0).
Lemma counters_rmw_only_ok : counters_rmw_only = true.
Proof. vm_compute. reflexivity. Qed.
Lemma counters_only_incremented : forall p, In p METRICS_ATOMIC_OPS -> snd p = "fetch_add(1)"%string.
Proof.
  intros p Hp. pose proof counters_rmw_only_ok as H. unfold counters_rmw_only in H.
  apply andb_prop in H. destruct H as [H _]. rewrite forallb_forall in H. specialize (H p Hp).
  unfold op_is_increment in H. apply String.eqb_eq in H. exact H.
Qed.
