(* C16 under concurrent recorders.  Every update of the denied-key table happens under one mutex, so an execution with
   many recorder threads applies the recorded denials in SOME order - an arbitrary permutation [ks'] of the events [ks]
   the threads recorded.  The report does not depend on that order: while the distinct keys fit the table, every
   reported count is the true count of the key in the multiset of recorded events. *)
From Coq Require Import ZArith List Bool Lia Permutation.
Import ListNotations.
Require Import TC.Generated.Consts TC.Base.Map TC.Resp.Utf8 TC.Server.Denied.
Open Scope Z_scope.

Lemma true_count_perm (ks ks' : list bytes) (k : bytes) : Permutation ks ks' -> true_count ks k = true_count ks' k.
Proof.
  intros H. induction H as [|x l l' _ IH|x y l|l l' l'' _ IH1 _ IH2]; cbn [true_count]; [reflexivity|rewrite IH; reflexivity|lia|congruence].
Qed.

Theorem report_exact_any_interleaving :
  forall (mx : nat) (ks ks' : list bytes) (t : tbl) (r : list (bytes * Z)),
  Permutation ks ks' ->
  (1 <= mx)%nat -> drun mx [] ks' t -> (length (exact_tbl [] ks') <= mx)%nat -> valid_top mx t r ->
  length r = length t /\ forall k n, In (k, n) r -> n = true_count ks k.
Proof.
  intros mx ks ks' t r HP Hmx Hrun Hlen Hv.
  destruct (report_exact_while_few mx ks' t r Hmx Hrun Hlen Hv) as (_ & Hl & Hc).
  split; [exact Hl|]. intros k n Hin. rewrite (true_count_perm ks ks' k HP). apply Hc; exact Hin.
Qed.

(* never above the true count, in any order and for any number of distinct keys *)
Theorem report_never_overstates_any_interleaving :
  forall (mx : nat) (ks ks' : list bytes) (t : tbl) (r : list (bytes * Z)) (k : bytes) (n : Z),
  Permutation ks ks' -> drun mx [] ks' t -> valid_top mx t r -> In (k, n) r -> 1 <= n <= true_count ks k.
Proof.
  intros mx ks ks' t r k n HP Hrun Hv Hin. rewrite (true_count_perm ks ks' k HP).
  exact (report_never_overstates mx ks' t r k n Hrun Hv Hin).
Qed.

(* The premise "the distinct keys fit the table" is a property of the multiset too: the exact table of any two orders of
   the same events has the same number of entries. *)
Lemma lookup_exact : forall ks0 t0 k0, uniq t0 ->
  lookupT (exact_tbl t0 ks0) k0 =
  match lookupT t0 k0 with
  | Some m => Some (m + true_count ks0 k0)
  | None => if true_count ks0 k0 =? 0 then None else Some (true_count ks0 k0) end.
Proof.
  induction ks0 as [|x r0 IH]; intros t0 k0 U.
  - cbn [exact_tbl true_count]. destruct (lookupT t0 k0); [f_equal; lia|reflexivity].
  - cbn [exact_tbl true_count]. destruct (short x) eqn:Hx; cbn [andb].
    + rewrite IH by (apply incr_uniq; exact U). rewrite lookup_incr.
      pose proof (true_count_nonneg r0 k0).
      destruct (keq k0 x) as [->|Hne].
      * destruct (lookupT t0 x); [f_equal; lia|]. destruct (Z.eqb_spec (1 + true_count r0 x) 0); [lia|f_equal; lia].
      * destruct (lookupT t0 k0); [f_equal; lia|]. reflexivity.
    + rewrite IH by exact U. destruct (lookupT t0 k0); reflexivity.
Qed.

Lemma same_lookup_same_length (t1 t2 : tbl) :
  uniq t1 -> uniq t2 -> (forall k, lookupT t1 k = lookupT t2 k) -> length t1 = length t2.
Proof.
  intros U1 U2 H.
  rewrite <- (map_length fst t1), <- (map_length fst t2).
  apply Permutation_length. apply NoDup_Permutation; [exact U1|exact U2|].
  intros k. split; intros Hin.
  - destruct (lookupT t2 k) eqn:L2; [apply (lookup_in bytes bytes_eqb bytes_eqb_spec Z t2 k z L2)|].
    exfalso. rewrite <- H in L2. apply (lookup_none bytes bytes_eqb bytes_eqb_spec) in L2. apply L2; exact Hin.
  - destruct (lookupT t1 k) eqn:L1; [apply (lookup_in bytes bytes_eqb bytes_eqb_spec Z t1 k z L1)|].
    exfalso. rewrite H in L1. apply (lookup_none bytes bytes_eqb bytes_eqb_spec) in L1. apply L1; exact Hin.
Qed.

Theorem distinct_keys_perm (ks ks' : list bytes) :
  Permutation ks ks' -> length (exact_tbl [] ks) = length (exact_tbl [] ks').
Proof.
  intros HP. apply same_lookup_same_length.
  - apply exact_uniq. apply uniq_nil.
  - apply exact_uniq. apply uniq_nil.
  - intros k. rewrite !lookup_exact by apply uniq_nil. cbn [lookup]. rewrite (true_count_perm ks ks' k HP). reflexivity.
Qed.

(* the statement with every premise about the recorded multiset [ks] only *)
Theorem report_exact_any_interleaving' :
  forall (mx : nat) (ks ks' : list bytes) (t : tbl) (r : list (bytes * Z)),
  Permutation ks ks' ->
  (1 <= mx)%nat -> (length (exact_tbl [] ks) <= mx)%nat -> drun mx [] ks' t -> valid_top mx t r ->
  length r = length (exact_tbl [] ks) /\ forall k n, In (k, n) r -> n = true_count ks k.
Proof.
  intros mx ks ks' t r HP Hmx Hlen Hrun Hv.
  assert (Hlen' : (length (exact_tbl [] ks') <= mx)%nat) by (rewrite <- (distinct_keys_perm ks ks' HP); exact Hlen).
  destruct (report_exact_while_few mx ks' t r Hmx Hrun Hlen' Hv) as (Ht & Hl & Hc).
  split; [rewrite Hl, Ht; symmetry; apply distinct_keys_perm; exact HP|].
  intros k n Hin. rewrite (true_count_perm ks ks' k HP). apply Hc; exact Hin.
Qed.
