(* C12 proofs about the table-interpreting transport model of Server/Transport.v. *)
From Coq Require Import ZArith NArith List Bool Lia String Ascii.
Import ListNotations.
Require Import TC.Generated.Consts TC.Generated.Glue TC.Resp.Utf8 TC.Resp.Decimal TC.Resp.Parse TC.Resp.Cmd TC.Server.Transport.
Open Scope Z_scope.

(* ---- types.rs: whole seconds, each field from its own source ---- *)
Theorem actor_response_spec r :
  actor_response r = Some (mktresp (lr_allowed r) (lr_limit r) (lr_remaining r)
                                   (wrap64 (lr_reset_ns r / ns_per_s)) (wrap64 (lr_retry_ns r / ns_per_s))).
Proof. reflexivity. Qed.

Lemma wrap64_id z : in_i64b z = true -> wrap64 z = z.
Proof.
  unfold in_i64b, i64min, i64max, wrap64. intros H. apply andb_prop in H. destruct H as [H1 H2].
  apply Z.leb_le in H1, H2. rewrite Z.mod_small by lia. lia.
Qed.
Lemma wrap32_id z : in_i32b z = true -> wrap32 z = z.
Proof.
  unfold in_i32b, i32max, wrap32. intros H. apply andb_prop in H. destruct H as [H1 H2].
  apply Z.leb_le in H1, H2. rewrite Z.mod_small by lia. lia.
Qed.
Lemma secs_exact ns : 0 <= ns <= i64max -> wrap64 (ns / ns_per_s) = ns / ns_per_s.
Proof.
  intros H. apply wrap64_id. unfold in_i64b, i64min, i64max, ns_per_s in *. apply andb_true_intro.
  assert (0 <= ns / 1000000000) by (apply Z.div_pos; lia).
  assert (ns / 1000000000 <= ns) by (apply Z.div_le_upper_bound; lia).
  split; apply Z.leb_le; lia.
Qed.

(* ---- HTTP: the JSON object carries a request <-> it decodes to it ---- *)
Definition q_carried (vs : list jval) (q : Z) : Prop :=
  (vs = [] /\ q = HTTP_DEFAULT_QUANTITY) \/ (vs = [JNull] /\ q = HTTP_DEFAULT_QUANTITY) \/ (vs = [JInt q] /\ in_i64b q = true).
Definition json_carries (o : jobj) (rq : treq) : Prop :=
  lookup "key"%string o = [JStr (t_key rq)] /\
  lookup "max_burst"%string o = [JInt (t_B rq)] /\ in_i64b (t_B rq) = true /\
  lookup "count_per_period"%string o = [JInt (t_count rq)] /\ in_i64b (t_count rq) = true /\
  lookup "period"%string o = [JInt (t_period rq)] /\ in_i64b (t_period rq) = true /\
  q_carried (lookup "quantity"%string o) (t_q rq).

(* any field order, any unknown extra fields: only the values under the five names matter *)
Theorem http_decode_carried o rq : json_carries o rq -> http_decode o = Some rq.
Proof.
  intros (Hk & Hb & Hbi & Hc & Hci & Hp & Hpi & Hq). destruct rq as [k b c p q]. cbn [t_key t_B t_count t_period t_q] in *.
  unfold http_decode. cbn [HTTP_REQUEST_FIELDS de_struct]. rewrite Hk, Hb, Hc, Hp. cbn [de_field String.eqb Ascii.eqb Bool.eqb].
  rewrite Hbi, Hci, Hpi.
  destruct Hq as [[Hq ->]|[[Hq ->]|[Hq Hqi]]]; rewrite Hq; cbn [de_field String.eqb Ascii.eqb Bool.eqb]; rewrite ?Hqi; reflexivity.
Qed.

Lemma de_field_String vs v : de_field "String" vs = DVal v -> exists s, vs = [JStr s] /\ v = VS s.
Proof.
  destruct vs as [|x [|y r]]; cbn; try discriminate. destruct x; try discriminate. intros H. injection H as <-. eauto.
Qed.
Lemma de_field_String_not_absent vs : de_field "String" vs <> DAbsent.
Proof. destruct vs as [|x [|y r]]; cbn; try discriminate. destruct x; discriminate. Qed.
Lemma de_field_i64 vs v : de_field "i64" vs = DVal v -> exists z, vs = [JInt z] /\ v = VZ z /\ in_i64b z = true.
Proof.
  destruct vs as [|x [|y r]]; cbn; try discriminate. destruct x; try discriminate.
  destruct (in_i64b z) eqn:E; try discriminate. intros H. injection H as <-. eauto.
Qed.
Lemma de_field_i64_not_absent vs : de_field "i64" vs <> DAbsent.
Proof. destruct vs as [|x [|y r]]; cbn; try discriminate. destruct x; try discriminate. destruct (in_i64b z); discriminate. Qed.
Lemma de_field_opt vs : de_field "Option<i64>" vs <> DErr ->
  (de_field "Option<i64>" vs = DAbsent /\ (vs = [] \/ vs = [JNull])) \/
  (exists z, vs = [JInt z] /\ in_i64b z = true /\ de_field "Option<i64>" vs = DVal (VZ z)).
Proof.
  destruct vs as [|x [|y r]]; cbn; intros H; try congruence; [left; auto|].
  destruct x; try congruence; [left; auto|]. destruct (in_i64b z) eqn:E; [|congruence]. right. eauto.
Qed.

Theorem http_decode_only_carried o rq : http_decode o = Some rq -> json_carries o rq.
Proof.
  unfold http_decode. cbn [HTTP_REQUEST_FIELDS de_struct].
  destruct (de_field "String" (lookup "key"%string o)) eqn:E1; try discriminate;
  destruct (de_field "i64" (lookup "max_burst"%string o)) eqn:E2; try discriminate;
  destruct (de_field "i64" (lookup "count_per_period"%string o)) eqn:E3; try discriminate;
  destruct (de_field "i64" (lookup "period"%string o)) eqn:E4; try discriminate;
  try (exfalso; eapply de_field_String_not_absent; eassumption);
  try (exfalso; eapply de_field_i64_not_absent; eassumption).
  apply de_field_String in E1. destruct E1 as (s & E1 & ->).
  apply de_field_i64 in E2. destruct E2 as (b & E2 & -> & Hb).
  apply de_field_i64 in E3. destruct E3 as (c & E3 & -> & Hc).
  apply de_field_i64 in E4. destruct E4 as (p & E4 & -> & Hp).
  destruct (de_field "Option<i64>" (lookup "quantity"%string o)) eqn:E5; try discriminate.
  - destruct (de_field_opt (lookup "quantity"%string o)) as [[_ Hq]|(z & Hq & _ & Hd)]; [congruence| |congruence].
    cbn. intros H. injection H as <-. unfold json_carries, q_carried. cbn [t_key t_B t_count t_period t_q].
    repeat split; try assumption. destruct Hq as [Hq|Hq]; rewrite Hq; auto.
  - destruct (de_field_opt (lookup "quantity"%string o)) as [[Hd _]|(z & Hq & Hz & Hd)]; [congruence|congruence|].
    rewrite Hd in E5. injection E5 as <-.
    cbn. intros H. injection H as <-. unfold json_carries, q_carried. cbn [t_key t_B t_count t_period t_q].
    repeat split; try assumption. right. right. auto.
Qed.

(* named consequences: typical malformed bodies never reach the limiter *)
Corollary http_missing_field o name : In name ["key"; "max_burst"; "count_per_period"; "period"]%string -> lookup name o = [] -> http_decode o = None.
Proof.
  intros Hin Hl. destruct (http_decode o) as [rq|] eqn:E; [|reflexivity]. apply http_decode_only_carried in E.
  destruct E as (Hk & Hb & _ & Hc & _ & Hp & _ & _). cbn [In] in Hin.
  destruct Hin as [<-|[<-|[<-|[<-|[]]]]]; congruence.
Qed.
Corollary http_duplicate_field o name a b r : In name ["key"; "max_burst"; "count_per_period"; "period"; "quantity"]%string ->
  lookup name o = a :: b :: r -> http_decode o = None.
Proof.
  intros Hin Hl. destruct (http_decode o) as [rq|] eqn:E; [|reflexivity]. apply http_decode_only_carried in E.
  destruct E as (Hk & Hb & _ & Hc & _ & Hp & _ & Hq). cbn [In] in Hin.
  destruct Hin as [<-|[<-|[<-|[<-|[<-|[]]]]]]; try congruence.
  destruct Hq as [[Hq _]|[[Hq _]|[Hq _]]]; congruence.
Qed.
Corollary http_wrong_type o name v : In name ["max_burst"; "count_per_period"; "period"; "quantity"]%string ->
  lookup name o = [v] -> (forall z, v = JInt z -> in_i64b z = false) -> (name = "quantity"%string -> v <> JNull) -> http_decode o = None.
Proof.
  intros Hin Hl Hv Hnull. destruct (http_decode o) as [rq|] eqn:E; [|reflexivity]. apply http_decode_only_carried in E.
  destruct E as (Hk & Hb & Hbi & Hc & Hci & Hp & Hpi & Hq). cbn [In] in Hin.
  destruct Hin as [<-|[<-|[<-|[<-|[]]]]].
  - rewrite Hl in Hb. injection Hb as ->. rewrite (Hv _ eq_refl) in Hbi. discriminate.
  - rewrite Hl in Hc. injection Hc as ->. rewrite (Hv _ eq_refl) in Hci. discriminate.
  - rewrite Hl in Hp. injection Hp as ->. rewrite (Hv _ eq_refl) in Hpi. discriminate.
  - destruct Hq as [[Hq _]|[[Hq _]|[Hq Hqi]]]; rewrite Hl in Hq; try discriminate.
    + injection Hq as ->. exfalso. apply Hnull; reflexivity.
    + injection Hq as ->. rewrite (Hv _ eq_refl) in Hqi. discriminate.
Qed.

(* ---- gRPC: int32 fields widen unchanged; an absent quantity is proto3's 0 ---- *)
Theorem grpc_decode_spec r :
  grpc_decode r = Some {| t_key := g_key r; t_B := g_B r; t_count := g_count r; t_period := g_period r; t_q := g_q r |}.
Proof. reflexivity. Qed.

(* ---- RESP: tables pinned against the Cmd.v model; factorisation of the handler ---- *)
Theorem resp_tables_pinned :
  resp_arity_min = Some 5 /\ resp_arity_max = Some 6 /\ resp_qlen = Some 6 /\ resp_qdefault = Some 1 /\
  RESP_REQ = [("key", "key"); ("max_burst", "max_burst"); ("count_per_period", "count_per_period"); ("period", "period");
              ("quantity", "quantity"); ("timestamp", "SystemTime::now()")]%string.
Proof. repeat split; reflexivity. Qed.

Definition reply_of (a : actor_res) : value :=
  match a with
  | AOk al lim rem rs rt => Arr [Int (if al then 1 else 0); Int lim; Int rem; Int rs; Int rt]
  | AErr e => Error (app (bytes_of_string "ERR ") e)
  end.

Theorem resp_render_spec t :
  resp_render t = Some (reply_of (AOk (t_allowed t) (t_limit t) (t_remaining t) (t_reset t) (t_retry t))).
Proof. reflexivity. Qed.

(* the handler consults the limiter exactly for the commands resp_decode accepts, with exactly that request *)
Theorem resp_factor th args :
  handle_throttle th args =
  match resp_decode args with
  | Some rq => reply_of (th rq)
  | None => handle_throttle (fun _ => AErr []) args
  end.
Proof.
  unfold handle_throttle, resp_decode.
  destruct ((List.length args <? 5)%nat || (6 <? List.length args)%nat); [reflexivity|].
  destruct (nth_error args 1) as [[| | |[k|]|]|]; try reflexivity.
  destruct (option_map parse_integer (nth_error args 2)) as [[b|]|]; try reflexivity.
  destruct (option_map parse_integer (nth_error args 3)) as [[c|]|]; try reflexivity.
  destruct (option_map parse_integer (nth_error args 4)) as [[p|]|]; try reflexivity.
  destruct (List.length args =? 6)%nat.
  - destruct (option_map parse_integer (nth_error args 5)) as [[q|]|]; reflexivity.
  - reflexivity.
Qed.

Theorem resp_no_call args : resp_decode args = None ->
  (forall th1 th2, handle_throttle th1 args = handle_throttle th2 args) /\ exists e, forall th, handle_throttle th args = Error e.
Proof.
  intros H. assert (Hs : forall th, handle_throttle th args = handle_throttle (fun _ => AErr []) args).
  { intros th. rewrite (resp_factor th), H. reflexivity. }
  split; [intros th1 th2; rewrite (Hs th1), (Hs th2); reflexivity|].
  revert H Hs. unfold resp_decode, handle_throttle.
  destruct ((List.length args <? 5)%nat || (6 <? List.length args)%nat); [intros _ _; eexists; intros; reflexivity|].
  destruct (nth_error args 1) as [[| | |[k|]|]|]; try (intros _ _; eexists; intros; reflexivity).
  destruct (option_map parse_integer (nth_error args 2)) as [[b|]|]; try (intros _ _; eexists; intros; reflexivity).
  destruct (option_map parse_integer (nth_error args 3)) as [[c|]|]; try (intros _ _; eexists; intros; reflexivity).
  destruct (option_map parse_integer (nth_error args 4)) as [[p|]|]; try (intros _ _; eexists; intros; reflexivity).
  destruct (List.length args =? 6)%nat.
  - destruct (option_map parse_integer (nth_error args 5)) as [[q|]|]; try discriminate; intros _ _; eexists; intros; reflexivity.
  - discriminate.
Qed.

(* encodings of numbers a RESP client may use *)
Inductive num_enc (z : Z) : value -> Prop :=
| ne_int : num_enc z (Int z)
| ne_bulk : num_enc z (Bulk (Some (print_Z z))).
Lemma parse_integer_enc z v : in_i64b z = true -> num_enc z v -> parse_integer v = Some z.
Proof. intros Hz H. destruct H; cbn [parse_integer]; [reflexivity|apply parse_print; exact Hz]. Qed.

Theorem resp_decode_carried name k b c p vb vc vp :
  in_i64b b = true -> in_i64b c = true -> in_i64b p = true -> num_enc b vb -> num_enc c vc -> num_enc p vp ->
  resp_decode [Bulk (Some name); Bulk (Some k); vb; vc; vp] = Some {| t_key := k; t_B := b; t_count := c; t_period := p; t_q := 1 |} /\
  forall q vq, in_i64b q = true -> num_enc q vq ->
    resp_decode [Bulk (Some name); Bulk (Some k); vb; vc; vp; vq] = Some {| t_key := k; t_B := b; t_count := c; t_period := p; t_q := q |}.
Proof.
  intros Hb Hc Hp Eb Ec Ep. unfold resp_decode. cbn [List.length Nat.ltb Nat.leb orb nth_error option_map Nat.eqb].
  rewrite (parse_integer_enc b vb Hb Eb), (parse_integer_enc c vc Hc Ec), (parse_integer_enc p vp Hp Ep).
  split; [reflexivity|]. intros q vq Hq Eq. rewrite (parse_integer_enc q vq Hq Eq). reflexivity.
Qed.

(* ---- what the client reads at the documented positions ---- *)
Theorem view_http_render t : exists o, http_render t = Some o /\ view_http o = Some t.
Proof. destruct t. eexists. split; reflexivity. Qed.

Theorem view_resp_render t : exists v, resp_render t = Some v /\ view_resp v = Some t.
Proof. destruct t as [[|] l r rs rt]; eexists; split; reflexivity. Qed.

Theorem view_grpc_render t : exists m, grpc_render t = Some m /\ view_grpc m = Some (narrow t).
Proof. destruct t. eexists. split; reflexivity. Qed.

Theorem narrow_exact t :
  in_i32b (t_limit t) = true -> in_i32b (t_remaining t) = true -> in_i32b (t_reset t) = true -> in_i32b (t_retry t) = true ->
  narrow t = t.
Proof.
  intros Hl Hr Hrs Hrt. destruct t as [a l r rs rt]. cbn [t_limit t_remaining t_reset t_retry] in *. unfold narrow. cbn [t_allowed t_limit t_remaining t_reset t_retry].
  assert (Hs : forall z, in_i32b z = true -> sat32 z = z).
  { intros z Hz. unfold sat32, in_i32b in *. apply andb_prop in Hz. destruct Hz as [_ Hz]. apply Z.leb_le in Hz. lia. }
  rewrite (Hs rs Hrs), (Hs rt Hrt), !wrap32_id by assumption. reflexivity.
Qed.

(* durations beyond int32 saturate (they do not wrap): the reported number is the largest representable one *)
Theorem narrow_saturates t : 0 <= t_reset t -> 0 <= t_retry t ->
  t_reset (narrow t) = Z.min (t_reset t) i32max /\ t_retry (narrow t) = Z.min (t_retry t) i32max.
Proof.
  intros H1 H2. unfold narrow. cbn [t_reset t_retry]. unfold sat32.
  split; apply wrap32_id; unfold in_i32b, i32max; apply andb_true_intro; split; apply Z.leb_le; lia.
Qed.

(* residual (known finding): int32 fields cannot carry a duration above 2^31-1 s *)
Theorem grpc_duration_not_carried : exists t, 0 <= t_reset t /\ in_i32b (t_limit t) = true /\ t_reset (narrow t) <> t_reset t.
Proof. exists (mktresp true 3 0 6442450941 0). cbn. split; [lia|]. split; [reflexivity|]. vm_compute. discriminate. Qed.
