(* C16: TopDeniedKeys (metrics.rs): update / cleanup / get_top on a map key -> count.
   HashMap iteration order decides which of several equal-count entries survive an eviction and
   how ties are ordered in the report: both are relations here (every choice the code can make is
   covered), and the harness checks every real step against them (trace acceptance). *)
From Coq Require Import ZArith NArith List Bool Lia.
Import ListNotations.
Require Import TC.Generated.Consts TC.Base.Map TC.Resp.Utf8.
Open Scope Z_scope.

Definition tbl := list (bytes * Z).
Notation lookupT := (lookup bytes_eqb).
Notation insertT := (insert bytes_eqb).

Definition max_key_len : nat := Z.to_nat MAX_KEY_LENGTH.
Definition short (k : bytes) : bool := (length k <=? max_key_len)%nat.

(* *self.counts.entry(key).or_insert(0) += 1 *)
Definition incr (t : tbl) (k : bytes) : tbl :=
  match lookupT t k with Some n => insertT t k (n + 1) | None => insertT t k 1 end.

(* eviction: exactly [mx] entries survive, unchanged, and none of the evicted has a larger count *)
Definition valid_cleanup (mx : nat) (t t' : tbl) : Prop :=
  uniq t' /\ length t' = mx /\
  (forall k n, lookupT t' k = Some n -> lookupT t k = Some n) /\
  (forall k n k2 n2, lookupT t' k = Some n -> lookupT t k2 = Some n2 -> lookupT t' k2 = None -> n2 <= n).

Definition factor : nat := Z.to_nat DENIED_CLEANUP_FACTOR.

Inductive dstep (mx : nat) : tbl -> bytes -> tbl -> Prop :=
| d_long : forall t k, short k = false -> dstep mx t k t
| d_plain : forall t k, short k = true -> (length (incr t k) <= mx * factor)%nat -> dstep mx t k (incr t k)
| d_clean : forall t k t', short k = true -> (mx * factor < length (incr t k))%nat ->
    valid_cleanup mx (incr t k) t' -> dstep mx t k t'.

Inductive drun (mx : nat) : tbl -> list bytes -> tbl -> Prop :=
| run_nil : forall t, drun mx t [] t
| run_cons : forall t k t1 ks t2, dstep mx t k t1 -> drun mx t1 ks t2 -> drun mx t (k :: ks) t2.

(* true number of denials of key k (only keys of at most 256 bytes are ever recorded) *)
Fixpoint true_count (hist : list bytes) (k : bytes) : Z :=
  match hist with
  | [] => 0
  | x :: r => (if short x && bytes_eqb k x then 1 else 0) + true_count r k
  end.

Lemma keq : forall a b, reflect (a = b) (bytes_eqb a b).
Proof. exact bytes_eqb_spec. Qed.

Lemma incr_uniq t k : uniq t -> uniq (incr t k).
Proof. intros U. unfold incr. destruct (lookupT t k); apply (uniq_insert bytes bytes_eqb keq); exact U. Qed.

Lemma lookup_incr t k k2 :
  lookupT (incr t k) k2 = if bytes_eqb k2 k then Some (match lookupT t k with Some n => n + 1 | None => 1 end) else lookupT t k2.
Proof. unfold incr. destruct (lookupT t k); rewrite (lookup_insert bytes bytes_eqb keq); reflexivity. Qed.

Lemma length_incr t k : uniq t -> (length (incr t k) <= S (length t))%nat.
Proof.
  intros U. unfold incr. destruct (lookupT t k) eqn:L; rewrite (length_insert bytes bytes_eqb keq) by exact U; rewrite L; lia.
Qed.

(* ---------------- never overstates ---------------- *)
(* invariant relative to the denials seen so far (in reverse order of arrival) *)
Definition sound (seen : list bytes) (t : tbl) : Prop :=
  uniq t /\ forall k n, lookupT t k = Some n -> 1 <= n <= true_count seen k.

Lemma true_count_nonneg seen k : 0 <= true_count seen k.
Proof. induction seen as [|x r IH]; cbn [true_count]; [lia|]. destruct (short x && bytes_eqb k x); lia. Qed.

Lemma dstep_sound mx seen t k t' : sound seen t -> dstep mx t k t' -> sound (k :: seen) t'.
Proof.
  intros [U H] Hs.
  assert (Hmono : forall k2, true_count seen k2 <= true_count (k :: seen) k2).
  { intros k2. cbn [true_count]. destruct (short k && bytes_eqb k2 k); lia. }
  assert (Hincr : short k = true -> sound (k :: seen) (incr t k)).
  { intros Hk. split; [apply incr_uniq; exact U|].
    intros k2 n. rewrite lookup_incr. cbn [true_count]. rewrite Hk. cbn [andb].
    destruct (keq k2 k) as [->|Hne].
    - intros E. inversion E; subst. destruct (lookupT t k) as [m|] eqn:L.
      + specialize (H k m L). lia.
      + pose proof (true_count_nonneg seen k). lia.
    - intros E. specialize (H k2 n E). lia. }
  inversion Hs; subst.
  - split; [exact U|]. intros k2 n E. specialize (H k2 n E). specialize (Hmono k2). lia.
  - apply Hincr. assumption.
  - destruct (Hincr ltac:(assumption)) as [Uinc Hinc].
    match goal with Hv : valid_cleanup _ _ _ |- _ => destruct Hv as (U' & _ & Hsub & _) end.
    split; [exact U'|]. intros k2 n E. apply Hinc. apply Hsub. exact E.
Qed.

Theorem never_overstates mx : forall ks t t' seen, sound seen t -> drun mx t ks t' -> sound (rev ks ++ seen) t'.
Proof.
  induction ks as [|k r IH]; intros t t' seen Hs Hr; inversion Hr; subst; [exact Hs|].
  cbn [rev]. rewrite <- app_assoc. cbn [app].
  eapply IH; [|eassumption]. eapply dstep_sound; eassumption.
Qed.

Lemma true_count_app a b k : true_count (a ++ b) k = true_count a k + true_count b k.
Proof. induction a as [|x r IH]; cbn [app true_count]; [lia|]. rewrite IH. lia. Qed.

Lemma true_count_rev a k : true_count (rev a) k = true_count a k.
Proof. induction a as [|x r IH]; [reflexivity|]. cbn [rev]. rewrite true_count_app, IH. cbn [true_count]. lia. Qed.

(* C16: no key is ever shown with more denials than it really had *)
Corollary reported_count_le_true mx ks t k n :
  drun mx [] ks t -> lookupT t k = Some n -> 1 <= n <= true_count ks k.
Proof.
  intros Hr Hl.
  assert (Hs0 : sound [] []) by (split; [apply uniq_nil|intros ? ? E; discriminate]).
  destruct (never_overstates mx ks [] t [] Hs0 Hr) as [_ H]. specialize (H k n Hl).
  rewrite app_nil_r, true_count_rev in H. exact H.
Qed.

(* ---------------- memory bound ---------------- *)
Theorem memory_bound mx t k t' :
  uniq t -> (length t <= mx * factor)%nat -> dstep mx t k t' ->
  uniq t' /\ (length t' <= mx * factor)%nat /\ (length (incr t k) <= mx * factor + 1)%nat.
Proof.
  intros U Hl Hs. pose proof (length_incr t k U) as Hi.
  assert (Hf : (1 <= factor)%nat) by (vm_compute; lia).
  inversion Hs; subst.
  - repeat split; auto. lia.
  - repeat split; auto; [apply incr_uniq; exact U|lia].
  - match goal with Hv : valid_cleanup _ _ _ |- _ => destruct Hv as (U' & Hlen & _) end.
    repeat split; auto; [nia|lia].
Qed.

(* keys longer than 256 bytes never enter *)
Theorem length_filter mx t k t' : dstep mx t k t' -> short k = false -> t' = t.
Proof. intros Hs Hk. inversion Hs; subst; [reflexivity|congruence|congruence]. Qed.

(* ---------------- exact while few ---------------- *)
(* the exact table of a history: no eviction at all *)
Fixpoint exact_tbl (t : tbl) (ks : list bytes) : tbl :=
  match ks with [] => t | k :: r => exact_tbl (if short k then incr t k else t) r end.

Lemma exact_uniq : forall ks t, uniq t -> uniq (exact_tbl t ks).
Proof. induction ks as [|k r IH]; intros t U; [exact U|]. cbn [exact_tbl]. apply IH. destruct (short k); [apply incr_uniq|]; exact U. Qed.

Lemma exact_len_mono : forall ks t, uniq t -> (length t <= length (exact_tbl t ks))%nat.
Proof.
  induction ks as [|k r IH]; intros t U; [cbn; lia|]. cbn [exact_tbl].
  destruct (short k); [|apply IH; exact U].
  specialize (IH (incr t k) (incr_uniq t k U)).
  assert (length t <= length (incr t k))%nat.
  { unfold incr. destruct (lookupT t k) eqn:L; rewrite (length_insert bytes bytes_eqb keq) by exact U; rewrite L; lia. }
  lia.
Qed.

(* while the exact table never exceeds factor*max entries no eviction can happen: the real table is
   the exact one, whatever choices evictions could make *)
Theorem exact_while_few mx : forall ks t t', uniq t ->
  (length (exact_tbl t ks) <= mx * factor)%nat -> drun mx t ks t' -> t' = exact_tbl t ks.
Proof.
  induction ks as [|k r IH]; intros t t' U Hl Hr; inversion Hr; subst; [reflexivity|].
  cbn [exact_tbl] in *.
  match goal with Hs : dstep _ _ _ _ |- _ => inversion Hs; subst end.
  - match goal with Hk : short k = false |- _ => rewrite Hk in * end. eapply IH; eauto.
  - match goal with Hk : short k = true |- _ => rewrite Hk in * end. eapply IH; eauto. apply incr_uniq; exact U.
  - exfalso. match goal with Hk : short k = true |- _ => rewrite Hk in * end.
    pose proof (exact_len_mono r (incr t k) (incr_uniq t k U)). lia.
Qed.

(* ---------------- the report ---------------- *)
(* a valid report of table t for limit mx: sorted by count (non-increasing), at most mx entries,
   entries taken from the table, nothing omitted has a larger count than something reported *)
Fixpoint desc_sorted (r : list (bytes * Z)) : Prop :=
  match r with
  | a :: ((b :: _) as r') => snd b <= snd a /\ desc_sorted r'
  | _ => True
  end.
Definition valid_top (mx : nat) (t : tbl) (r : list (bytes * Z)) : Prop :=
  desc_sorted r /\ length r = Nat.min mx (length t) /\ NoDup (map fst r) /\
  (forall k n, In (k, n) r -> lookupT t k = Some n) /\
  (forall k n k2 n2, In (k, n) r -> lookupT t k2 = Some n2 -> ~ In k2 (map fst r) -> n2 <= n).

Theorem report_shape mx t r : valid_top mx t r -> (length r <= mx)%nat /\ desc_sorted r.
Proof. intros (S & L & _). split; [lia|exact S]. Qed.

Theorem report_never_overstates mx ks t r k n :
  drun mx [] ks t -> valid_top mx t r -> In (k, n) r -> 1 <= n <= true_count ks k.
Proof. intros Hr (_ & _ & _ & Hin & _) Hi. eapply reported_count_le_true; eauto. Qed.

(* while at most max distinct keys were denied the report lists exactly the true counts *)
Theorem report_exact_while_few mx ks t r :
  (1 <= mx)%nat -> drun mx [] ks t -> (length (exact_tbl [] ks) <= mx)%nat -> valid_top mx t r ->
  t = exact_tbl [] ks /\ length r = length t /\ (forall k n, In (k, n) r -> n = true_count ks k).
Proof.
  intros Hmx Hr Hl Hv.
  assert (Hf : (1 <= factor)%nat) by (vm_compute; lia).
  assert (Ht : t = exact_tbl [] ks) by (apply (exact_while_few mx ks [] t (uniq_nil _ _) ltac:(nia) Hr)).
  split; [exact Ht|]. destruct Hv as (_ & L & _ & Hin & _). split; [rewrite L; subst t; lia|].
  intros k n Hi. specialize (Hin k n Hi).
  (* exact table = true counts *)
  assert (Hex : forall ks0 t0 k0, uniq t0 ->
            lookupT (exact_tbl t0 ks0) k0 =
            match lookupT t0 k0 with
            | Some m => Some (m + true_count ks0 k0)
            | None => if true_count ks0 k0 =? 0 then None else Some (true_count ks0 k0) end).
  { clear. induction ks0 as [|x r0 IH]; intros t0 k0 U.
    - cbn [exact_tbl true_count]. destruct (lookupT t0 k0); [f_equal; lia|reflexivity].
    - cbn [exact_tbl true_count]. destruct (short x) eqn:Hx; cbn [andb].
      + rewrite IH by (apply incr_uniq; exact U). rewrite lookup_incr.
        pose proof (true_count_nonneg r0 k0).
        destruct (keq k0 x) as [->|Hne].
        * destruct (lookupT t0 x); [f_equal; lia|]. destruct (Z.eqb_spec (1 + true_count r0 x) 0); [lia|f_equal; lia].
        * destruct (lookupT t0 k0); [f_equal; lia|]. reflexivity.
      + rewrite IH by exact U. destruct (lookupT t0 k0); reflexivity. }
  rewrite Ht, (Hex ks [] k (uniq_nil _ _)) in Hin. cbn [lookup] in Hin.
  destruct (true_count ks k =? 0); [discriminate|]. inversion Hin. reflexivity.
Qed.

(* ---------------- builder ---------------- *)
(* MetricsBuilder::max_denied_keys clamps to [0, MAX_DENIED_KEYS_LIMIT]; 0 disables tracking *)
Definition clamp_max (requested : Z) : Z := Z.max 0 (Z.min requested MAX_DENIED_KEYS_LIMIT).
Definition tracking_enabled (requested : Z) : bool := negb (clamp_max requested =? 0).

Theorem clamp_disable requested :
  0 <= clamp_max requested <= MAX_DENIED_KEYS_LIMIT /\ (requested <= 0 -> tracking_enabled requested = false).
Proof.
  unfold tracking_enabled, clamp_max, MAX_DENIED_KEYS_LIMIT. split; [lia|].
  intros H. replace (Z.max 0 (Z.min requested 10000)) with 0 by lia. reflexivity.
Qed.
