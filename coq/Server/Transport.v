(* C12: the three transports as functions  wire request -> (actor request | protocol error)  and
   actor response -> wire response.  The field mappings are NOT written here: they are the tables of
   Generated/Glue.v, re-extracted from types.rs / http.rs / grpc.rs / redis/mod.rs on every run and
   INTERPRETED by this file (an expression the interpreter does not know makes the function undefined,
   and the theorems of TransportProofs.v fail).  The RESP side reuses the command-handler model of
   Resp/Cmd.v, which TransportProofs ties to the tables as well.
   Modelled, not verified: serde/axum JSON decoding (abstract JSON object in, field lookup by name,
   duplicate known field = error, unknown fields ignored), prost decoding (message = its int32 fields,
   absent = 0), HTTP status codes (any 4xx/5xx = protocol error). *)
From Coq Require Import ZArith NArith List Bool Lia String Ascii.
Import ListNotations.
Require Import TC.Generated.Consts TC.Generated.Glue TC.Resp.Utf8 TC.Resp.Decimal TC.Resp.Parse TC.Resp.Cmd.
Open Scope Z_scope.

Definition i32max : Z := 2147483647.
Definition in_i32b (z : Z) : bool := (- 2147483648 <=? z) && (z <=? i32max).
Definition wrap32 (z : Z) : Z := (z + 2147483648) mod 4294967296 - 2147483648.     (* `as i32` *)
Definition wrap64 (z : Z) : Z := (z + 9223372036854775808) mod 18446744073709551616 - 9223372036854775808.   (* `as i64` *)

(* field values *)
Inductive fv := VB (b : bool) | VZ (z : Z) | VS (s : bytes).

Fixpoint lookup {A} (k : string) (l : list (string * A)) : list A :=
  match l with
  | [] => []
  | (k', v) :: r => if String.eqb k k' then v :: lookup k r else lookup k r
  end.
Definition the {A} (l : list A) : option A := match l with [x] => Some x | _ => None end.

(* ------------------------------------------------------------------ library result -> ThrottleResponse *)
(* RateLimitResult with the two durations in nanoseconds, plus the allowed flag *)
Record libres := mklibres { lr_allowed : bool; lr_limit : Z; lr_remaining : Z; lr_reset_ns : Z; lr_retry_ns : Z }.
(* ThrottleResponse *)
Record tresp := mktresp { t_allowed : bool; t_limit : Z; t_remaining : Z; t_reset : Z; t_retry : Z }.

Definition ns_per_s : Z := 1000000000.
Definition from_expr (e : string) (r : libres) : option fv :=
  if String.eqb e "allowed" then Some (VB (lr_allowed r))
  else if String.eqb e "result.limit" then Some (VZ (lr_limit r))
  else if String.eqb e "result.remaining" then Some (VZ (lr_remaining r))
  else if String.eqb e "result.reset_after.as_secs()asi64" then Some (VZ (wrap64 (lr_reset_ns r / ns_per_s)))
  else if String.eqb e "result.retry_after.as_secs()asi64" then Some (VZ (wrap64 (lr_retry_ns r / ns_per_s)))
  else None.

Definition field_of {S} (tbl : list (string * string)) (interp : string -> S -> option fv) (name : string) (s : S) : option fv :=
  match the (lookup name tbl) with Some e => interp e s | None => None end.

Definition get_bool (o : option fv) : option bool := match o with Some (VB b) => Some b | _ => None end.
Definition get_Z (o : option fv) : option Z := match o with Some (VZ z) => Some z | _ => None end.
Definition get_S (o : option fv) : option bytes := match o with Some (VS s) => Some s | _ => None end.

Definition build_tresp {S} (tbl : list (string * string)) (interp : string -> S -> option fv) (s : S) : option tresp :=
  match get_bool (field_of tbl interp "allowed" s), get_Z (field_of tbl interp "limit" s), get_Z (field_of tbl interp "remaining" s),
        get_Z (field_of tbl interp "reset_after" s), get_Z (field_of tbl interp "retry_after" s) with
  | Some a, Some l, Some r, Some rs, Some rt =>
      if (List.length tbl =? 5)%nat then Some (mktresp a l r rs rt) else None
  | _, _, _, _, _ => None
  end.

(* types.rs: impl From<(bool, RateLimitResult)> for ThrottleResponse *)
Definition actor_response (r : libres) : option tresp := build_tresp TYPES_FROM from_expr r.

(* ------------------------------------------------------------------ request side: common target *)
Definition build_treq {S} (tbl : list (string * string)) (interp : string -> S -> option fv) (s : S) : option treq :=
  match get_S (field_of tbl interp "key" s), get_Z (field_of tbl interp "max_burst" s), get_Z (field_of tbl interp "count_per_period" s),
        get_Z (field_of tbl interp "period" s), get_Z (field_of tbl interp "quantity" s), the (lookup "timestamp" tbl) with
  | Some k, Some b, Some c, Some p, Some q, Some _ =>
      if (List.length tbl =? 6)%nat then Some {| t_key := k; t_B := b; t_count := c; t_period := p; t_q := q |} else None
  | _, _, _, _, _, _ => None
  end.

(* ------------------------------------------------------------------ HTTP / JSON *)
Inductive jval := JNull | JBool (b : bool) | JInt (z : Z) | JFloat | JStr (s : bytes) | JOther.
Definition jobj := list (string * jval).

(* serde-derived Deserialize for one field of the given Rust type, from the values the object has under its name *)
Inductive de := DErr | DAbsent | DVal (v : fv).
Definition de_field (ty : string) (vs : list jval) : de :=
  match vs with
  | [] => if String.eqb ty "Option<i64>" then DAbsent else DErr           (* missing field *)
  | [v] =>
      if String.eqb ty "String" then match v with JStr s => DVal (VS s) | _ => DErr end
      else if String.eqb ty "i64" then match v with JInt z => if in_i64b z then DVal (VZ z) else DErr | _ => DErr end
      else if String.eqb ty "Option<i64>" then
        match v with JNull => DAbsent | JInt z => if in_i64b z then DVal (VZ z) else DErr | _ => DErr end
      else DErr
  | _ => DErr                                                              (* duplicate field *)
  end.

(* the decoded HttpThrottleRequest: every declared field, or an error *)
Fixpoint de_struct (fields : list (string * string)) (o : jobj) : option (list (string * de)) :=
  match fields with
  | [] => Some []
  | (name, ty) :: r =>
      match de_field ty (lookup name o), de_struct r o with
      | DErr, _ => None
      | _, None => None
      | d, Some l => Some ((name, d) :: l)
      end
  end.

Definition http_expr (e : string) (s : list (string * de)) : option fv :=
  let fld n := match the (lookup n s) with Some (DVal v) => Some v | _ => None end in
  (* equivalent spellings a refactoring may choose are accepted: only the MEANING of the mapping is pinned *)
  if String.eqb e "req.key.clone()" || String.eqb e "req.key" || String.eqb e "req.key.to_string()" || String.eqb e "req.key.to_owned()" then fld "key"%string
  else if String.eqb e "req.max_burst" then fld "max_burst"%string
  else if String.eqb e "req.count_per_period" then fld "count_per_period"%string
  else if String.eqb e "req.period" then fld "period"%string
  else if String.eqb e "req.quantity.unwrap_or(#)" then
    match the (lookup "quantity"%string s) with
    | Some (DVal v) => Some v
    | Some DAbsent => Some (VZ HTTP_DEFAULT_QUANTITY)
    | _ => None
    end
  else None.

Definition http_decode (o : jobj) : option treq :=
  match de_struct HTTP_REQUEST_FIELDS o with
  | Some s => build_treq HTTP_REQ http_expr s
  | None => None
  end.

(* Json(ThrottleResponse): serde field names are the struct's field names *)
Definition tresp_field (name : string) (t : tresp) : option jval :=
  if String.eqb name "allowed" then Some (JBool (t_allowed t))
  else if String.eqb name "limit" then Some (JInt (t_limit t))
  else if String.eqb name "remaining" then Some (JInt (t_remaining t))
  else if String.eqb name "reset_after" then Some (JInt (t_reset t))
  else if String.eqb name "retry_after" then Some (JInt (t_retry t))
  else None.
Fixpoint http_render_fields (fields : list (string * string)) (t : tresp) : option jobj :=
  match fields with
  | [] => Some []
  | (name, _) :: r =>
      match tresp_field name t, http_render_fields r t with
      | Some v, Some l => Some ((name, v) :: l)
      | _, _ => None
      end
  end.
Definition http_render (t : tresp) : option jobj := http_render_fields TYPES_RESPONSE_FIELDS t.

(* ------------------------------------------------------------------ gRPC / protobuf *)
Record greq := mkgreq { g_key : bytes; g_B : Z; g_count : Z; g_period : Z; g_q : Z }.     (* int32 fields, absent = 0 *)
Definition grpc_req_expr (e : string) (r : greq) : option fv :=
  if String.eqb e "req.key.clone()" || String.eqb e "req.key" || String.eqb e "req.key.to_string()" || String.eqb e "req.key.to_owned()" then Some (VS (g_key r))
  else if String.eqb e "req.max_burstasi64" || String.eqb e "i64::from(req.max_burst)" || String.eqb e "req.max_burst.into()" then Some (VZ (g_B r))
  else if String.eqb e "req.count_per_periodasi64" || String.eqb e "i64::from(req.count_per_period)" || String.eqb e "req.count_per_period.into()" then Some (VZ (g_count r))
  else if String.eqb e "req.periodasi64" || String.eqb e "i64::from(req.period)" || String.eqb e "req.period.into()" then Some (VZ (g_period r))
  else if String.eqb e "req.quantityasi64" || String.eqb e "i64::from(req.quantity)" || String.eqb e "req.quantity.into()" then Some (VZ (g_q r))
  else None.
Definition grpc_decode (r : greq) : option treq := build_treq GRPC_REQ grpc_req_expr r.

Definition grpc_resp_expr (e : string) (t : tresp) : option fv :=
  if String.eqb e "result.allowed" then Some (VB (t_allowed t))
  else if String.eqb e "result.limitasi32" then Some (VZ (wrap32 (t_limit t)))
  else if String.eqb e "result.remainingasi32" then Some (VZ (wrap32 (t_remaining t)))
  else if String.eqb e "result.retry_afterasi32" then Some (VZ (wrap32 (t_retry t)))
  else if String.eqb e "result.reset_afterasi32" then Some (VZ (wrap32 (t_reset t)))
  else if String.eqb e "result.retry_after.min(i32::MAXasi64)asi32" then Some (VZ (wrap32 (Z.min (t_retry t) i32max)))
  else if String.eqb e "result.reset_after.min(i32::MAXasi64)asi32" then Some (VZ (wrap32 (Z.min (t_reset t) i32max)))
  else None.
(* the response message as (field number of the tree's proto file, value) *)
Definition proto_tag (name : string) : option Z :=
  if String.eqb name "allowed" then Some PROTO_RESP_ALLOWED
  else if String.eqb name "limit" then Some PROTO_RESP_LIMIT
  else if String.eqb name "remaining" then Some PROTO_RESP_REMAINING
  else if String.eqb name "retry_after" then Some PROTO_RESP_RETRY_AFTER
  else if String.eqb name "reset_after" then Some PROTO_RESP_RESET_AFTER
  else None.
Fixpoint grpc_render_fields (tbl : list (string * string)) (t : tresp) : option (list (Z * fv)) :=
  match tbl with
  | [] => Some []
  | (name, e) :: r =>
      match proto_tag name, grpc_resp_expr e t, grpc_render_fields r t with
      | Some tag, Some v, Some l => Some ((tag, v) :: l)
      | _, _, _ => None
      end
  end.
Definition grpc_render (t : tresp) : option (list (Z * fv)) := grpc_render_fields GRPC_RESP t.

(* ------------------------------------------------------------------ RESP: tables vs the Cmd.v model *)
Definition resp_reply_expr (e : string) (t : tresp) : option value :=
  if String.eqb e "RespValue::Integer(ifresponse.allowed{1}else{0})" then Some (Int (if t_allowed t then 1 else 0))
  else if String.eqb e "RespValue::Integer(response.limit)" then Some (Int (t_limit t))
  else if String.eqb e "RespValue::Integer(response.remaining)" then Some (Int (t_remaining t))
  else if String.eqb e "RespValue::Integer(response.reset_after)" then Some (Int (t_reset t))
  else if String.eqb e "RespValue::Integer(response.retry_after)" then Some (Int (t_retry t))
  else None.
Fixpoint resp_render_fields (tbl : list (string * string)) (t : tresp) : option (list value) :=
  match tbl with
  | [] => Some []
  | (_, e) :: r => match resp_reply_expr e t, resp_render_fields r t with Some v, Some l => Some (v :: l) | _, _ => None end
  end.
Definition resp_render (t : tresp) : option value := option_map Arr (resp_render_fields RESP_REPLY t).

(* the request the RESP handler sends to the actor for a THROTTLE command, or None = answered without the limiter.
   Written to mirror Cmd.handle_throttle; TransportProofs.resp_factor proves the two agree. *)
Definition num_of_string (s : string) : option Z := parse_i64 (bytes_of_string s).
Definition resp_arity_min : option Z := match the (lookup "min"%string RESP_ARITY) with Some s => num_of_string s | None => None end.
Definition resp_arity_max : option Z := match the (lookup "max"%string RESP_ARITY) with Some s => num_of_string s | None => None end.
Definition resp_qlen : option Z := match the (lookup "with_quantity_len"%string RESP_QUANTITY) with Some s => num_of_string s | None => None end.
Definition resp_qdefault : option Z := match the (lookup "default"%string RESP_QUANTITY) with Some s => num_of_string s | None => None end.

Definition resp_decode (args : list value) : option treq :=
  let n := List.length args in
  if ((n <? 5) || (6 <? n))%nat then None
  else
    match nth_error args 1, option_map parse_integer (nth_error args 2), option_map parse_integer (nth_error args 3),
          option_map parse_integer (nth_error args 4) with
    | Some (Bulk (Some key)), Some (Some b), Some (Some c), Some (Some p) =>
        let qo := if (n =? 6)%nat then match option_map parse_integer (nth_error args 5) with Some (Some q) => Some q | _ => None end
                  else Some 1 in
        match qo with
        | Some q => Some {| t_key := key; t_B := b; t_count := c; t_period := p; t_q := q |}
        | None => None
        end
    | _, _, _, _ => None
    end.

(* ------------------------------------------------------------------ documented positions (README / published proto) *)
(* what a client reads; these are hand-written from the documentation, not generated *)
Definition view_http (o : jobj) : option tresp :=
  match the (lookup "allowed"%string o), the (lookup "limit"%string o), the (lookup "remaining"%string o),
        the (lookup "reset_after"%string o), the (lookup "retry_after"%string o) with
  | Some (JBool a), Some (JInt l), Some (JInt r), Some (JInt rs), Some (JInt rt) => Some (mktresp a l r rs rt)
  | _, _, _, _, _ => None
  end.
Fixpoint glookup (tag : Z) (l : list (Z * fv)) : list fv :=
  match l with [] => [] | (t, v) :: r => if t =? tag then v :: glookup tag r else glookup tag r end.
(* published proto: allowed = 1; limit = 2; remaining = 3; retry_after = 4; reset_after = 5 *)
Definition view_grpc (m : list (Z * fv)) : option tresp :=
  match the (glookup 1 m), the (glookup 2 m), the (glookup 3 m), the (glookup 4 m), the (glookup 5 m) with
  | Some (VB a), Some (VZ l), Some (VZ r), Some (VZ rt), Some (VZ rs) => Some (mktresp a l r rs rt)
  | _, _, _, _, _ => None
  end.
(* README: [allowed (0/1), limit, remaining, reset_after, retry_after] *)
Definition view_resp (v : value) : option tresp :=
  match v with
  | Arr [Int a; Int l; Int r; Int rs; Int rt] => if (a =? 0) || (a =? 1) then Some (mktresp (a =? 1) l r rs rt) else None
  | _ => None
  end.

(* what int32 fields can carry *)
Definition sat32 (z : Z) : Z := Z.min z i32max.
Definition narrow (t : tresp) : tresp := mktresp (t_allowed t) (wrap32 (t_limit t)) (wrap32 (t_remaining t)) (wrap32 (sat32 (t_reset t))) (wrap32 (sat32 (t_retry t))).
