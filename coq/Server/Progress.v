(* C10: no deadlock, every run terminates with every non-abandoned request answered; C11: the
   actor never dies when the limiter cannot panic. *)
From Coq Require Import ZArith List Bool Lia PeanoNat.
Import ListNotations.
Require Import TC.Server.Actor TC.Server.Linear.

Section Prog.
Variables L Rq Rs : Type.
Variable lstep : L -> Rq -> L * Rs.
Variable panics : L -> Rq -> bool.
Variable prog : nat -> list Rq.
Variable nclients : nat.
Variable cap : nat.
Variable l0 : L.

Notation state := (state L Rs).
Notation step := (step L Rq Rs lstep panics prog cap).
Notation reach := (reach L Rq Rs lstep panics prog nclients cap l0).
Notation req_of := (req_of Rq prog).
Notation client := (client Rs).

Record Inv2 (s : state) : Prop := {
  P_ctl : forall i c, nth_error (clients _ _ s) i = Some c ->
            (ctl _ c <> Idle -> next _ c < length (prog i)) /\ next _ c <= length (prog i);
  P_req : forall k, In k (log _ _ s ++ queue _ _ s) -> req_of k <> None;
  P_member : forall i c, nth_error (clients _ _ s) i = Some c -> ctl _ c = Waiting ->
               In (i, next _ c) (log _ _ s ++ queue _ _ s);
  P_proc : forall k, In k (log _ _ s) -> slots _ _ s k <> SEmpty _;
  P_dropped : forall i idx c, slots _ _ s (i, idx) = SDropped _ -> nth_error (clients _ _ s) i = Some c -> idx < next _ c;
  P_alive_or_dead : alive _ _ s = true \/ exists k q rq, queue _ _ s = k :: q /\ req_of k = Some rq /\ panics (lim _ _ s) rq = true }.

Lemma init_inv2 : Inv2 (init L Rs nclients l0).
Proof.
  assert (Hcl : forall j c0, nth_error (repeat {| next := 0; ctl := Idle; got := @nil (nat * Rs) |} nclients) j = Some c0 ->
                c0 = {| next := 0; ctl := Idle; got := [] |}).
  { intros j c0 H. apply nth_error_In, repeat_spec in H. exact H. }
  constructor; unfold init; cbn [clients queue slots lim log app alive].
  - intros i c H. rewrite (Hcl i c H). cbn. split; [congruence|lia].
  - intros k [].
  - intros i c H Hw. rewrite (Hcl i c H) in Hw. discriminate.
  - intros k [].
  - intros i idx c H. discriminate.
  - left. reflexivity.
Qed.

Theorem step_inv2 s lb s' : Inv2 s -> step s lb s' -> Inv2 s'.
Proof.
  intros [Hctl Hreq Hmem Hproc Hdrop Hal0] Hs.
  destruct Hs as [s i c rq Hc Hctl0 Hp | s i c Hc Hctl0 Hcap | s k q rq Hal Hq Hrk Hpn | s k q rq Hal Hq Hrk Hpn
                 | s i c r Hc Hctl0 Hsl | s i c Hc Hctl0 | s i c Hc Hctl0].
  - (* invoke *)
    constructor; cbn [clients queue slots lim log alive].
    + intros j c' H. destruct (client_after _ _ i j c c' _ Hc H) as [[<- ->]|[_ H']]; [|apply (Hctl _ _ H')].
      cbn [next ctl]. destruct (Hctl i c Hc) as [_ Hle].
      assert (next _ c < length (prog i)) by (apply nth_error_Some; congruence). split; [intros _; assumption|lia].
    + exact Hreq.
    + intros j c' H Hw. destruct (client_after _ _ i j c c' _ Hc H) as [[<- ->]|[_ H']]; [cbn [ctl] in Hw; discriminate|apply (Hmem _ _ H' Hw)].
    + exact Hproc.
    + intros j idx c' Hd H. destruct (client_after _ _ i j c c' _ Hc H) as [[<- ->]|[_ H']]; [cbn [next]; apply (Hdrop _ _ _ Hd Hc)|apply (Hdrop _ _ _ Hd H')].
    + exact Hal0.
  - (* enqueue *)
    constructor; cbn [clients queue slots lim log alive].
    + intros j c' H. destruct (client_after _ _ i j c c' _ Hc H) as [[<- ->]|[_ H']]; [|apply (Hctl _ _ H')].
      cbn [next ctl]. destruct (Hctl i c Hc) as [Hlt Hle]. split; [intros _; apply Hlt; congruence|exact Hle].
    + intros k Hin. rewrite app_assoc in Hin. apply in_app_or in Hin. destruct Hin as [Hin|[Hin|[]]]; [apply Hreq; exact Hin|].
      subst k. unfold Actor.req_of. cbn [fst snd]. destruct (Hctl i c Hc) as [Hlt _]. apply nth_error_Some. apply Hlt. congruence.
    + intros j c' H Hw. rewrite app_assoc. apply in_or_app.
      destruct (client_after _ _ i j c c' _ Hc H) as [[<- ->]|[_ H']]; [right; left; reflexivity|left; apply (Hmem _ _ H' Hw)].
    + exact Hproc.
    + intros j idx c' Hd H. destruct (client_after _ _ i j c c' _ Hc H) as [[<- ->]|[_ H']]; [cbn [next]; apply (Hdrop _ _ _ Hd Hc)|apply (Hdrop _ _ _ Hd H')].
    + destruct Hal0 as [Ha|(k & q & rq & Hq & Hr & Hp)]; [left; exact Ha|]. right. exists k, (q ++ [(i, next _ c)]), rq. rewrite Hq. auto.
  - (* actor step *)
    rewrite Hq in *.
    constructor; cbn [clients queue slots lim log alive].
    + exact Hctl.
    + intros k' Hin. rewrite <- app_assoc in Hin. apply Hreq. exact Hin.
    + intros j c' H Hw. rewrite <- app_assoc. apply (Hmem _ _ H Hw).
    + intros k' Hin. unfold set_slot. destruct (rid_eqb_spec k' k) as [->|Hne].
      * destruct (slots _ _ s k); discriminate.
      * apply in_app_or in Hin. destruct Hin as [Hin|[Hin|[]]]; [apply Hproc; exact Hin|congruence].
    + intros j idx c' Hd H. unfold set_slot in Hd. destruct (rid_eqb_spec (j, idx) k) as [E|Hne]; [|apply (Hdrop _ _ _ Hd H)].
      subst k. destruct (slots _ _ s (j, idx)) eqn:Es; try discriminate. apply (Hdrop _ _ _ Es H).
    + left. exact Hal.
  - (* panic *)
    constructor; cbn [clients queue slots lim log alive]; auto.
    right. exists k, q, rq. auto.
  - (* receive *)
    constructor; cbn [clients queue slots lim log alive].
    + intros j c' H. destruct (client_after _ _ i j c c' _ Hc H) as [[<- ->]|[_ H']]; [|apply (Hctl _ _ H')].
      cbn [next ctl]. destruct (Hctl i c Hc) as [Hlt _]. assert (next _ c < length (prog i)) by (apply Hlt; congruence). split; [congruence|lia].
    + exact Hreq.
    + intros j c' H Hw. destruct (client_after _ _ i j c c' _ Hc H) as [[<- ->]|[_ H']]; [cbn [ctl] in Hw; discriminate|apply (Hmem _ _ H' Hw)].
    + exact Hproc.
    + intros j idx c' Hd H. destruct (client_after _ _ i j c c' _ Hc H) as [[<- ->]|[_ H']]; [cbn [next]; pose proof (Hdrop _ _ _ Hd Hc); lia|apply (Hdrop _ _ _ Hd H')].
    + exact Hal0.
  - (* cancel before *)
    constructor; cbn [clients queue slots lim log alive].
    + intros j c' H. destruct (client_after _ _ i j c c' _ Hc H) as [[<- ->]|[_ H']]; [|apply (Hctl _ _ H')].
      cbn [next ctl]. destruct (Hctl i c Hc) as [Hlt _]. assert (next _ c < length (prog i)) by (apply Hlt; congruence). split; [congruence|lia].
    + exact Hreq.
    + intros j c' H Hw. destruct (client_after _ _ i j c c' _ Hc H) as [[<- ->]|[_ H']]; [cbn [ctl] in Hw; discriminate|apply (Hmem _ _ H' Hw)].
    + intros k Hin. unfold set_slot. destruct (rid_eqb k (i, next _ c)); [discriminate|apply Hproc; exact Hin].
    + intros j idx c' Hd H. unfold set_slot in Hd. destruct (rid_eqb_spec (j, idx) (i, next _ c)) as [E|Hne].
      * inversion E; subst j idx. rewrite (nth_set_eq _ i _ c Hc) in H. inversion H; subst c'. cbn [next]. lia.
      * destruct (client_after _ _ i j c c' _ Hc H) as [[<- ->]|[_ H']]; [cbn [next]; pose proof (Hdrop _ _ _ Hd Hc); lia|apply (Hdrop _ _ _ Hd H')].
    + exact Hal0.
  - (* cancel after *)
    constructor; cbn [clients queue slots lim log alive].
    + intros j c' H. destruct (client_after _ _ i j c c' _ Hc H) as [[<- ->]|[_ H']]; [|apply (Hctl _ _ H')].
      cbn [next ctl]. destruct (Hctl i c Hc) as [Hlt _]. assert (next _ c < length (prog i)) by (apply Hlt; congruence). split; [congruence|lia].
    + exact Hreq.
    + intros j c' H Hw. destruct (client_after _ _ i j c c' _ Hc H) as [[<- ->]|[_ H']]; [cbn [ctl] in Hw; discriminate|apply (Hmem _ _ H' Hw)].
    + intros k Hin. unfold set_slot. destruct (rid_eqb k (i, next _ c)); [discriminate|apply Hproc; exact Hin].
    + intros j idx c' Hd H. unfold set_slot in Hd. destruct (rid_eqb_spec (j, idx) (i, next _ c)) as [E|Hne].
      * inversion E; subst j idx. rewrite (nth_set_eq _ i _ c Hc) in H. inversion H; subst c'. cbn [next]. lia.
      * destruct (client_after _ _ i j c c' _ Hc H) as [[<- ->]|[_ H']]; [cbn [next]; pose proof (Hdrop _ _ _ Hd Hc); lia|apply (Hdrop _ _ _ Hd H')].
    + exact Hal0.
Qed.

Theorem reach_inv2 s : reach s -> Inv2 s.
Proof. induction 1 as [|s lb s' _ IH Hs]; [apply init_inv2|exact (step_inv2 s lb s' IH Hs)]. Qed.

(* C11: the actor never dies as long as the limiter does not panic on the states it goes through *)
Theorem actor_survives s : reach s -> (forall s0 rq, reach s0 -> panics (lim _ _ s0) rq = false) -> alive _ _ s = true.
Proof.
  intros Hr Hsafe. destruct (reach_inv2 s Hr) as [_ _ _ _ _ [Ha|(k & q & rq & _ & _ & Hp)]]; [exact Ha|].
  rewrite (Hsafe s rq Hr) in Hp. discriminate.
Qed.

Definition progress_label (lb : label) : bool :=
  match lb with LInvoke | LEnqueue | LActor | LReceive => true | _ => false end.

(* C10: no deadlock - while some client still has something to do, a transition other than
   abandoning a request is enabled (a full queue enables the actor, since cap >= 1) *)
Theorem deadlock_free (cap_pos : 1 <= cap) s :
  reach s -> (forall s0 rq, reach s0 -> panics (lim _ _ s0) rq = false) ->
  (exists i c, nth_error (clients _ _ s) i = Some c /\ (ctl _ c <> Idle \/ next _ c < length (prog i))) ->
  exists lb s', step s lb s' /\ progress_label lb = true.
Proof.
  intros Hr Hsafe (i & c & Hc & Hact).
  pose proof (actor_survives s Hr Hsafe) as Hal.
  destruct (reach_inv2 s Hr) as [Hctl Hreq Hmem Hproc Hdrop _].
  assert (Hactor : queue _ _ s <> [] -> exists lb s', step s lb s' /\ progress_label lb = true).
  { intros Hq. destruct (queue _ _ s) as [|k q] eqn:Eq; [contradiction|].
    destruct (req_of k) as [rq|] eqn:Er; [|exfalso; apply (Hreq k); [apply in_or_app; right; try rewrite Eq; left; reflexivity|exact Er]].
    exists LActor. eexists. split; [eapply (a_step _ _ _ _ _ _ _ s k q rq); auto|reflexivity]. }
  destruct (ctl _ c) eqn:Ec.
  - destruct Hact as [Hn|Hlt]; [congruence|].
    destruct (nth_error (prog i) (next _ c)) as [rq|] eqn:Ep; [|apply nth_error_None in Ep; lia].
    exists LInvoke. eexists. split; [eapply c_invoke; eauto|reflexivity].
  - destruct (Nat.lt_ge_cases (length (queue _ _ s)) cap) as [Hroom|Hfull].
    + exists LEnqueue. eexists. split; [eapply c_enqueue; eauto|reflexivity].
    + apply Hactor. intros E. rewrite E in Hfull. cbn in Hfull. lia.
  - destruct (slots _ _ s (i, next _ c)) as [|r|] eqn:Es.
    + pose proof (Hmem i c Hc Ec) as Hin. apply in_app_or in Hin. destruct Hin as [Hin|Hin].
      * exfalso. apply (Hproc _ Hin). exact Es.
      * apply Hactor. intros E. rewrite E in Hin. contradiction.
    + exists LReceive. eexists. split; [eapply c_receive; eauto|reflexivity].
    + exfalso. pose proof (Hdrop _ _ _ Es Hc). lia.
Qed.

(* C10: termination - a measure that every transition (except the actor's death) strictly decreases *)
Local Open Scope Z_scope.
Definition weight (i : nat) (c : client) : Z :=
  4 * (Z.of_nat (length (prog i)) - Z.of_nat (next _ c)) - match ctl _ c with Idle => 0 | Sending => 1 | Waiting => 3 end.
Fixpoint wsum (i0 : nat) (cs : list client) : Z :=
  match cs with [] => 0 | c :: r => weight i0 c + wsum (S i0) r end.
Definition measure (s : state) : Z := wsum 0 (clients _ _ s) + Z.of_nat (length (queue _ _ s)).

Lemma wsum_set : forall cs i0 i c x, nth_error cs i = Some c ->
  wsum i0 (set_nth i x cs) = wsum i0 cs - weight (i0 + i)%nat c + weight (i0 + i)%nat x.
Proof.
  induction cs as [|a r IH]; intros i0 i c x H; [destruct i; discriminate|].
  destruct i as [|j]; cbn [nth_error set_nth wsum] in *.
  - inversion H; subst. rewrite Nat.add_0_r. lia.
  - rewrite (IH (S i0) j c x H). replace (S i0 + j)%nat with (i0 + S j)%nat by lia. lia.
Qed.

Lemma wsum_nonneg s : Inv2 s -> 0 <= measure s.
Proof.
  intros [Hctl _ _ _ _ _]. unfold measure.
  assert (H : forall cs i0, (forall j c, nth_error cs j = Some c -> (ctl _ c <> Idle -> (next _ c < length (prog (i0 + j)))%nat) /\ (next _ c <= length (prog (i0 + j)))%nat) -> 0 <= wsum i0 cs).
  { induction cs as [|a r IH]; intros i0 Hc; [cbn; lia|]. cbn [wsum].
    assert (0 <= weight i0 a).
    { destruct (Hc 0%nat a eq_refl) as [Hlt Hle]. rewrite Nat.add_0_r in *. unfold weight. destruct (ctl _ a); [lia| |];
      assert (next _ a < length (prog i0))%nat by (apply Hlt; congruence); lia. }
    assert (0 <= wsum (S i0) r).
    { apply IH. intros j c Hj. replace (S i0 + j)%nat with (i0 + S j)%nat by lia. apply (Hc (S j) c Hj). }
    lia. }
  specialize (H (clients _ _ s) 0%nat ltac:(intros j c Hj; cbn [Nat.add]; apply (Hctl j c Hj))). lia.
Qed.

Theorem measure_decreases s lb s' : step s lb s' -> lb <> LPanic -> measure s' < measure s.
Proof.
  intros Hs Hlb. unfold measure.
  destruct Hs as [s i c rq Hc Hctl0 Hp | s i c Hc Hctl0 Hcap | s k q rq Hal Hq Hrk Hpn | s k q rq Hal Hq Hrk Hpn
                 | s i c r Hc Hctl0 Hsl | s i c Hc Hctl0 | s i c Hc Hctl0]; cbn [clients queue]; try congruence.
  - rewrite (wsum_set _ 0%nat i c _ Hc). unfold weight. cbn [next ctl Nat.add]. rewrite Hctl0. lia.
  - rewrite (wsum_set _ 0%nat i c _ Hc). unfold weight. cbn [next ctl Nat.add]. rewrite Hctl0, app_length. cbn [length]. lia.
  - rewrite Hq. cbn [length]. lia.
  - rewrite (wsum_set _ 0%nat i c _ Hc). unfold weight. cbn [next ctl Nat.add]. rewrite Hctl0. lia.
  - rewrite (wsum_set _ 0%nat i c _ Hc). unfold weight. cbn [next ctl Nat.add]. rewrite Hctl0. lia.
  - rewrite (wsum_set _ 0%nat i c _ Hc). unfold weight. cbn [next ctl Nat.add]. rewrite Hctl0. lia.
Qed.

(* when nothing is left to do, every request of every client was answered exactly once or was
   abandoned by its own client: its index is below [next], and appears at most once in [got] *)
Theorem answered_or_abandoned s i c idx :
  reach s -> nth_error (clients _ _ s) i = Some c -> (idx < next _ c)%nat ->
  (exists r, In (idx, r) (got _ c)) \/ slots _ _ s (i, idx) = SDropped _.
Proof.
  intros Hr. revert i c idx. induction Hr as [|s lb s' Hr IH Hs]; intros i0 c0 idx Hc0 Hlt.
  - unfold init in Hc0. cbn [clients] in Hc0. apply nth_error_In, repeat_spec in Hc0. subst c0. cbn in Hlt. lia.
  - destruct Hs as [s i c rq Hc Hctl0 Hp | s i c Hc Hctl0 Hcap | s k q rq Hal Hq Hrk Hpn | s k q rq Hal Hq Hrk Hpn
                   | s i c r Hc Hctl0 Hsl | s i c Hc Hctl0 | s i c Hc Hctl0]; cbn [clients slots] in *.
    + destruct (client_after _ _ i i0 c c0 _ Hc Hc0) as [[<- ->]|[_ H']]; [cbn [next got] in *; apply (IH _ _ _ Hc Hlt)|apply (IH _ _ _ H' Hlt)].
    + destruct (client_after _ _ i i0 c c0 _ Hc Hc0) as [[<- ->]|[_ H']]; [cbn [next got] in *; apply (IH _ _ _ Hc Hlt)|apply (IH _ _ _ H' Hlt)].
    + destruct (IH _ _ _ Hc0 Hlt) as [Hg|Hd]; [left; exact Hg|]. right. unfold set_slot.
      destruct (rid_eqb_spec (i0, idx) k) as [<-|Hne]; [rewrite Hd; reflexivity|exact Hd].
    + apply (IH _ _ _ Hc0 Hlt).
    + destruct (client_after _ _ i i0 c c0 _ Hc Hc0) as [[<- ->]|[_ H']]; [|apply (IH _ _ _ H' Hlt)].
      cbn [next got] in *. destruct (Nat.eq_dec idx (next _ c)) as [->|Hne].
      * left. exists r. apply in_or_app. right. left. reflexivity.
      * destruct (IH i c idx Hc ltac:(lia)) as [[r0 Hg]|Hd]; [left; exists r0; apply in_or_app; left; exact Hg|right; exact Hd].
    + destruct (client_after _ _ i i0 c c0 _ Hc Hc0) as [[<- ->]|[_ H']].
      * cbn [next got] in *. unfold set_slot. destruct (rid_eqb_spec (i, idx) (i, next _ c)) as [E|Hne]; [right; reflexivity|].
        assert (idx <> next _ c) by congruence. apply (IH i c idx Hc ltac:(lia)).
      * unfold set_slot. destruct (rid_eqb_spec (i0, idx) (i, next _ c)) as [E|Hne]; [right; reflexivity|apply (IH _ _ _ H' Hlt)].
    + destruct (client_after _ _ i i0 c c0 _ Hc Hc0) as [[<- ->]|[_ H']].
      * cbn [next got] in *. unfold set_slot. destruct (rid_eqb_spec (i, idx) (i, next _ c)) as [E|Hne]; [right; reflexivity|].
        assert (idx <> next _ c) by congruence. apply (IH i c idx Hc ltac:(lia)).
      * unfold set_slot. destruct (rid_eqb_spec (i0, idx) (i, next _ c)) as [E|Hne]; [right; reflexivity|apply (IH _ _ _ H' Hlt)].
Qed.

(* C10: abandoning a request touches neither the limiter, nor the queue (a request that was
   already queued stays queued and will be charged), nor the processing order, nor any other
   client's state or reply slot *)
Theorem cancel_isolated s lb s' :
  step s lb s' -> (lb = LCancelBefore \/ lb = LCancelAfter) ->
  lim _ _ s' = lim _ _ s /\ queue _ _ s' = queue _ _ s /\ log _ _ s' = log _ _ s /\
  exists i c, nth_error (clients _ _ s) i = Some c /\
    (forall j, j <> i -> nth_error (clients _ _ s') j = nth_error (clients _ _ s) j) /\
    (forall k, k <> (i, next _ c) -> slots _ _ s' k = slots _ _ s k).
Proof.
  intros Hs Hl. destruct Hs; destruct Hl as [E|E]; try discriminate; cbn [lim queue log clients slots];
    (repeat split; auto; exists i, c; split; [assumption|]; split;
      [intros j Hj; apply nth_set_ne; auto|intros k0 Hk; unfold set_slot; destruct (rid_eqb_spec k0 (i, next _ c)); [contradiction|reflexivity]]).
Qed.

End Prog.
