(* C16 (export safety): Metrics::escape_prometheus_label and the top-denied-keys sample line.
   Strings are lists of Unicode code points here (the Rust code iterates over chars()); UTF-8
   encoding maps code points >= 128 to bytes >= 128 only, so the ASCII-level guarantees below
   (no raw line feed, quote, or control character) carry over to the emitted bytes. *)
From Coq Require Import ZArith NArith List Bool Lia.
Import ListNotations.
Open Scope N_scope.

Definition cp := N.                       (* code point *)
Definition QUOTE : N := 34.
Definition BSLASH : N := 92.
Definition NL : N := 10.

(* char::is_control: general category Cc = U+0000..U+001F, U+007F..U+009F *)
Definition is_control (c : N) : bool := (c <? 32) || ((127 <=? c) && (c <=? 159)).

Definition hex_digit (n : N) : N := if n <? 10 then 48 + n else 87 + n.     (* 0-9 a-f *)
(* format!("\\x{:02x}", c as u8) *)
Definition hex2 (c : N) : list N := let b := c mod 256 in [hex_digit (b / 16); hex_digit (b mod 16)].

Definition escape_char (c : N) : list N :=
  if c =? QUOTE then [BSLASH; QUOTE]
  else if c =? BSLASH then [BSLASH; BSLASH]
  else if c =? NL then [BSLASH; 110]              (* \n *)
  else if c =? 13 then [BSLASH; 114]              (* \r *)
  else if c =? 9 then [BSLASH; 116]               (* \t *)
  else if is_control c then BSLASH :: 120 :: hex2 c   (* \xHH *)
  else [c].

Definition escape (s : list N) : list N := flat_map escape_char s.

(* a Prometheus text-format label-value scanner: reads up to the first unescaped quote;
   a backslash protects the next character *)
Fixpoint scan_label (fuel : nat) (s : list N) (acc : list N) : option (list N * list N) :=
  match fuel with
  | O => None
  | S f =>
      match s with
      | [] => None
      | c :: r =>
          if c =? QUOTE then Some (rev acc, r)
          else if c =? BSLASH then
            match r with
            | [] => None
            | e :: r' => scan_label f r' (e :: BSLASH :: acc)
            end
          else scan_label f r (c :: acc)
      end
  end.

(* no raw control character, quote or backslash-less special in the escaped text *)
Definition raw_safe (c : N) : bool := negb (is_control c).

Lemma hex_digit_plain n : n < 16 -> hex_digit n <> QUOTE /\ hex_digit n <> BSLASH /\ is_control (hex_digit n) = false.
Proof.
  intros H. unfold hex_digit, QUOTE, BSLASH, is_control.
  destruct (N.ltb_spec n 10).
  - repeat split; try lia. apply orb_false_intro; [apply N.ltb_ge; lia|]. apply andb_false_intro1. apply N.leb_gt. lia.
  - repeat split; try lia. apply orb_false_intro; [apply N.ltb_ge; lia|]. apply andb_false_intro1. apply N.leb_gt. lia.
Qed.

Lemma escape_char_no_control c : forallb raw_safe (escape_char c) = true.
Proof.
  unfold escape_char.
  destruct (c =? QUOTE); [reflexivity|]. destruct (c =? BSLASH); [reflexivity|].
  destruct (c =? NL); [reflexivity|]. destruct (c =? 13); [reflexivity|]. destruct (c =? 9); [reflexivity|].
  destruct (is_control c) eqn:Hc.
  - cbn [forallb hex2]. unfold raw_safe at 1 2. cbn [negb andb].
    assert (H1 : (c mod 256) / 16 < 16) by (apply N.div_lt_upper_bound; [lia|]; pose proof (N.mod_lt c 256); lia).
    assert (H2 : (c mod 256) mod 16 < 16) by (apply N.mod_lt; lia).
    destruct (hex_digit_plain _ H1) as (_ & _ & A). destruct (hex_digit_plain _ H2) as (_ & _ & B0).
    unfold raw_safe. rewrite A, B0. reflexivity.
  - cbn [forallb]. unfold raw_safe. rewrite Hc. reflexivity.
Qed.

(* the escaped text never contains a raw control character: in particular no line feed *)
Theorem escape_no_control s : forallb raw_safe (escape s) = true.
Proof.
  induction s as [|c r IH]; [reflexivity|]. unfold escape in *. cbn [flat_map]. rewrite forallb_app, escape_char_no_control, IH. reflexivity.
Qed.

Corollary escape_no_newline s : ~ In NL (escape s).
Proof.
  intros H. pose proof (escape_no_control s) as Hs. rewrite forallb_forall in Hs. specialize (Hs NL H). discriminate.
Qed.

(* scanning one escaped character *)
Lemma scan_escape_char c : forall f rest acc, (4 <= f)%nat ->
  exists f', (f - 4 <= f')%nat /\ scan_label f (escape_char c ++ rest) acc = scan_label f' rest (rev (escape_char c) ++ acc).
Proof.
  intros f rest acc Hf. unfold escape_char.
  assert (Hq : forall x, x <> QUOTE -> (x =? QUOTE) = false) by (intros; apply N.eqb_neq; auto).
  destruct (N.eqb_spec c QUOTE).
  { destruct f as [|[|f]]; try lia. exists (S f). split; [lia|]. reflexivity. }
  destruct (N.eqb_spec c BSLASH).
  { destruct f as [|[|f]]; try lia. exists (S f). split; [lia|]. reflexivity. }
  destruct (N.eqb_spec c NL).
  { destruct f as [|[|f]]; try lia. exists (S f). split; [lia|]. reflexivity. }
  destruct (N.eqb_spec c 13).
  { destruct f as [|[|f]]; try lia. exists (S f). split; [lia|]. reflexivity. }
  destruct (N.eqb_spec c 9).
  { destruct f as [|[|f]]; try lia. exists (S f). split; [lia|]. reflexivity. }
  destruct (is_control c) eqn:Hc.
  - (* \xHH : backslash x, then two plain hex digits *)
    destruct f as [|[|[|[|f]]]]; try lia. exists (S f). split; [lia|].
    cbn [app hex2]. cbn [scan_label]. change (BSLASH =? QUOTE) with false. change (BSLASH =? BSLASH) with true. cbn iota.
    assert (H1 : (c mod 256) / 16 < 16) by (apply N.div_lt_upper_bound; [lia|]; pose proof (N.mod_lt c 256); lia).
    assert (H2 : (c mod 256) mod 16 < 16) by (apply N.mod_lt; lia).
    destruct (hex_digit_plain _ H1) as (A1 & A2 & _). destruct (hex_digit_plain _ H2) as (B1 & B2 & _).
    rewrite (Hq _ A1). destruct (N.eqb_spec (hex_digit (c mod 256 / 16)) BSLASH); [contradiction|].
    rewrite (Hq _ B1). destruct (N.eqb_spec (hex_digit ((c mod 256) mod 16)) BSLASH); [contradiction|].
    reflexivity.
  - destruct f as [|f]; try lia. exists f. split; [lia|]. cbn [app scan_label].
    rewrite (Hq c n). destruct (N.eqb_spec c BSLASH); [contradiction|]. reflexivity.
Qed.

(* C16: the scanner reads back exactly the escaped key and stops at the closing quote the exporter
   wrote - no key content can close the label early, open another label or leave a dangling escape *)
Theorem scan_escape : forall s rest acc f, (4 * length s + 1 <= f)%nat ->
  scan_label f (escape s ++ QUOTE :: rest) acc = Some (rev acc ++ escape s, rest).
Proof.
  induction s as [|c r IH]; intros rest acc f Hf.
  - cbn [escape flat_map app]. destruct f; [cbn in Hf; lia|]. cbn [scan_label]. change (QUOTE =? QUOTE) with true. cbn iota.
    rewrite app_nil_r. reflexivity.
  - unfold escape. cbn [flat_map]. fold (escape r). rewrite <- app_assoc.
    cbn [length] in Hf.
    destruct (scan_escape_char c f (escape r ++ QUOTE :: rest) acc ltac:(lia)) as (f' & Hf' & ->).
    rewrite (IH rest (rev (escape_char c) ++ acc) f' ltac:(lia)).
    rewrite rev_app_distr, rev_involutive, <- app_assoc. reflexivity.
Qed.

(* the whole sample line for one key: name{key="<escaped>",rank="<r>"} <count>\n *)
Definition sample_line (prefix mid suffix : list N) (key : list N) : list N :=
  prefix ++ escape key ++ QUOTE :: mid ++ suffix ++ [NL].

Theorem line_single_newline prefix mid suffix key :
  ~ In NL prefix -> ~ In NL mid -> ~ In NL suffix ->
  exists body, sample_line prefix mid suffix key = body ++ [NL] /\ ~ In NL body.
Proof.
  intros H1 H2 H3. exists (prefix ++ escape key ++ QUOTE :: mid ++ suffix). split.
  - unfold sample_line. rewrite <- !app_assoc. cbn [app]. rewrite <- !app_assoc. reflexivity.
  - intros H. apply in_app_or in H. destruct H as [H|H]; [contradiction|].
    apply in_app_or in H. destruct H as [H|H]; [exact (escape_no_newline key H)|].
    destruct H as [H|H]; [unfold QUOTE, NL in H; discriminate|].
    apply in_app_or in H. destruct H; contradiction.
Qed.
