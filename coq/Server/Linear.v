(* C09: linearizability of the actor LTS; C10: at most once. Invariants by induction over traces. *)
From Coq Require Import ZArith List Bool Lia PeanoNat.
Import ListNotations.
Require Import TC.Server.Actor.

Section Lin.
Variables L Rq Rs : Type.
Variable lstep : L -> Rq -> L * Rs.
Variable panics : L -> Rq -> bool.
Variable prog : nat -> list Rq.
Variable nclients : nat.
Variable cap : nat.
Variable l0 : L.

Notation state := (state L Rs).
Notation step := (step L Rq Rs lstep panics prog cap).
Notation reach := (reach L Rq Rs lstep panics prog nclients cap l0).
Notation req_of := (req_of Rq prog).
Notation reqs_of := (reqs_of Rq prog).
Notation seq_state := (seq_state L Rq Rs lstep).
Notation answer_in := (answer_in L Rq Rs lstep prog).
Notation client := (client Rs).

(* ---------- list helpers ---------- *)
Lemma nth_set_eq {A} (l : list A) i x y : nth_error l i = Some y -> nth_error (set_nth i x l) i = Some x.
Proof. revert i. induction l as [|a r IH]; intros [|i] H; cbn in *; try discriminate; auto. Qed.
Lemma nth_set_ne {A} (l : list A) i j x : i <> j -> nth_error (set_nth i x l) j = nth_error l j.
Proof. revert i j. induction l as [|a r IH]; intros [|i] [|j] H; cbn; auto; try lia. Qed.

Lemma seq_state_app l a b : seq_state l (a ++ b) = seq_state (seq_state l a) b.
Proof. revert l. induction a as [|x r IH]; intros l; cbn [app Actor.seq_state]; auto. Qed.

Lemma reqs_of_app a b : reqs_of (a ++ b) = reqs_of a ++ reqs_of b.
Proof. induction a as [|x r IH]; cbn [app Actor.reqs_of]; auto. destruct (req_of x); cbn [app]; rewrite IH; reflexivity. Qed.

Lemma answer_in_some_in l ids k r : answer_in l ids k = Some r -> In k ids.
Proof.
  revert l. induction ids as [|x t IH]; intros l H; cbn [Actor.answer_in] in H; [discriminate|].
  destruct (req_of x).
  - destruct (rid_eqb_spec x k); [left; auto|right; eapply IH; eauto].
  - right. eapply IH; eauto.
Qed.

Lemma answer_in_app_found l ids x k r : answer_in l ids k = Some r -> answer_in l (ids ++ x) k = Some r.
Proof.
  revert l. induction ids as [|y t IH]; intros l H; cbn [app Actor.answer_in] in *; [discriminate|].
  destruct (req_of y); [destruct (rid_eqb y k); auto|auto].
Qed.

Lemma answer_in_app_new l ids k rq : ~ In k ids -> req_of k = Some rq ->
  answer_in l (ids ++ [k]) k = Some (snd (lstep (seq_state l (reqs_of ids)) rq)).
Proof.
  revert l. induction ids as [|y t IH]; intros l Hn Hr; cbn [app Actor.answer_in Actor.reqs_of Actor.seq_state].
  - rewrite Hr. destruct (rid_eqb_spec k k); [reflexivity|congruence].
  - assert (y <> k /\ ~ In k t) as [Hy Ht] by (cbn in Hn; tauto).
    destruct (req_of y) eqn:Hq; cbn [Actor.seq_state].
    + destruct (rid_eqb_spec y k); [contradiction|]. apply IH; auto.
    + apply IH; auto.
Qed.

(* ---------- the invariant ---------- *)
Fixpoint idxs (i : nat) (l : list rid) : list nat :=
  match l with [] => [] | k :: t => if fst k =? i then snd k :: idxs i t else idxs i t end.
Fixpoint increasing (l : list nat) : Prop :=
  match l with a :: ((b :: _) as t) => a < b /\ increasing t | _ => True end.

Record Inv (s : state) : Prop := {
  I_lim : lim _ _ s = seq_state l0 (reqs_of (log _ _ s));
  I_slot : forall k r, slots _ _ s k = SFilled _ r -> answer_in l0 (log _ _ s) k = Some r;
  I_got : forall i c idx r, nth_error (clients _ _ s) i = Some c -> In (idx, r) (got _ c) ->
            answer_in l0 (log _ _ s) (i, idx) = Some r;
  I_nodup : NoDup (log _ _ s ++ queue _ _ s);
  I_issued : forall i idx, In (i, idx) (log _ _ s ++ queue _ _ s) ->
               exists c, nth_error (clients _ _ s) i = Some c /\ (idx < next _ c \/ (idx = next _ c /\ ctl _ c = Waiting));
  I_gotidx : forall i c, nth_error (clients _ _ s) i = Some c ->
               (forall idx r, In (idx, r) (got _ c) -> idx < next _ c) /\ NoDup (map fst (got _ c));
  I_order : forall i, increasing (idxs i (log _ _ s ++ queue _ _ s)) }.

Lemma idxs_app i a b : idxs i (a ++ b) = idxs i a ++ idxs i b.
Proof. induction a as [|k t IH]; cbn [app idxs]; auto. destruct (fst k =? i); cbn [app]; rewrite IH; reflexivity. Qed.

Lemma idxs_in i l n : In n (idxs i l) -> In (i, n) l.
Proof.
  induction l as [|k t IH]; cbn [idxs]; [tauto|]. destruct (Nat.eqb_spec (fst k) i).
  - intros [H|H]; [left; destruct k; cbn in *; subst; reflexivity|right; auto].
  - intros H; right; auto.
Qed.

Lemma increasing_snoc l n : increasing l -> (forall m, In m l -> m < n) -> increasing (l ++ [n]).
Proof.
  induction l as [|a t IH]; intros Hi Hl; [exact I|].
  destruct t as [|b t']; cbn [app increasing] in *.
  - split; [apply Hl; left; reflexivity|exact I].
  - destruct Hi as [Hab Hi]. split; [exact Hab|]. apply IH; [exact Hi|]. intros m Hm. apply Hl. right. exact Hm.
Qed.

Lemma NoDup_snoc {A} (l : list A) x : NoDup l -> ~ In x l -> NoDup (l ++ [x]).
Proof.
  intros Hn Hx. apply NoDup_rev in Hn. rewrite <- (rev_involutive (l ++ [x])). apply NoDup_rev.
  rewrite rev_app_distr. cbn. constructor; [rewrite <- in_rev; exact Hx|exact Hn].
Qed.

Lemma init_inv : Inv (init L Rs nclients l0).
Proof.
  assert (Hcl : forall j c0, nth_error (repeat {| next := 0; ctl := Idle; got := @nil (nat * Rs) |} nclients) j = Some c0 ->
                c0 = {| next := 0; ctl := Idle; got := [] |}).
  { intros j c0 H. apply nth_error_In, repeat_spec in H. exact H. }
  constructor; unfold init; cbn [clients queue slots lim log app].
  - reflexivity.
  - intros k r H. discriminate.
  - intros j c0 idx r H Hin. rewrite (Hcl j c0 H) in Hin. cbn in Hin. contradiction.
  - constructor.
  - intros j idx [].
  - intros j c0 H. rewrite (Hcl j c0 H). cbn. split; [tauto|constructor].
  - intros j. exact I.
Qed.

(* the client record at position j after position i was replaced *)
Lemma client_after (cs : list client) i j c c' x :
  nth_error cs i = Some c -> nth_error (set_nth i x cs) j = Some c' ->
  (i = j /\ c' = x) \/ (i <> j /\ nth_error cs j = Some c').
Proof.
  intros Hc H. destruct (Nat.eq_dec i j) as [<-|Hne].
  - rewrite (nth_set_eq _ i _ c Hc) in H. inversion H. left. auto.
  - rewrite (nth_set_ne _ i j _ Hne) in H. right. auto.
Qed.

(* a change of client i that keeps [got], does not decrease [next] and leaves every issued request
   issued preserves the client-related parts of the invariant *)
Lemma issued_after (s : state) i c x l :
  nth_error (clients _ _ s) i = Some c ->
  (forall j idx, In (j, idx) l -> exists c0, nth_error (clients _ _ s) j = Some c0 /\ (idx < next _ c0 \/ (idx = next _ c0 /\ ctl _ c0 = Waiting))) ->
  (forall idx, idx < next _ c \/ (idx = next _ c /\ ctl _ c = Waiting) -> idx < next _ x \/ (idx = next _ x /\ ctl _ x = Waiting)) ->
  forall j idx, In (j, idx) l ->
  exists c0, nth_error (set_nth i x (clients _ _ s)) j = Some c0 /\ (idx < next _ c0 \/ (idx = next _ c0 /\ ctl _ c0 = Waiting)).
Proof.
  intros Hc Hiss Hmono j idx Hin. destruct (Hiss j idx Hin) as (c0 & Hc0 & Hor).
  destruct (Nat.eq_dec i j) as [<-|Hne].
  - rewrite Hc in Hc0. inversion Hc0; subst c0. exists x. split; [apply (nth_set_eq _ i _ c Hc)|apply Hmono; exact Hor].
  - exists c0. rewrite (nth_set_ne _ i j _ Hne). auto.
Qed.

Theorem step_inv s lb s' : Inv s -> step s lb s' -> Inv s'.
Proof.
  intros HI Hs. destruct HI as [Hlim Hslot Hgot Hnd Hiss Hgi Hord].
  destruct Hs as [s i c rq Hc Hctl0 Hp | s i c Hc Hctl0 Hcap | s k q rq Hal Hq Hrk Hpn | s k q rq Hal Hq Hrk Hpn
                 | s i c r Hc Hctl0 Hsl | s i c Hc Hctl0 | s i c Hc Hctl0].
  - (* invoke *)
    constructor; cbn [clients queue slots lim log alive]; auto.
    + intros j c' idx r H Hin. destruct (client_after _ i j c c' _ Hc H) as [[<- ->]|[_ H']]; [cbn [got] in Hin|]; eapply Hgot; eauto.
    + apply (issued_after s i c _ _ Hc Hiss). cbn [next ctl]. intros idx [Hl|[_ Hw]]; [left; exact Hl|congruence].
    + intros j c' H. destruct (client_after _ i j c c' _ Hc H) as [[<- ->]|[_ H']]; [cbn [got next]; apply (Hgi i c Hc)|apply (Hgi _ _ H')].
  - (* enqueue *)
    assert (Hfresh : ~ In (i, next _ c) (log _ _ s ++ queue _ _ s)).
    { intros Hin. destruct (Hiss _ _ Hin) as (c' & Hc' & Hor). rewrite Hc in Hc'. inversion Hc'; subst c'.
      destruct Hor as [Hlt|[_ Hw]]; [lia|congruence]. }
    constructor; cbn [clients queue slots lim log alive]; auto.
    + intros j c' idx r H Hin. destruct (client_after _ i j c c' _ Hc H) as [[<- ->]|[_ H']]; [cbn [got] in Hin|]; eapply Hgot; eauto.
    + rewrite app_assoc. apply NoDup_snoc; auto.
    + intros j idx Hin. rewrite app_assoc in Hin. apply in_app_or in Hin. destruct Hin as [Hin|[Hin|[]]].
      * apply (issued_after s i c _ _ Hc Hiss); [|exact Hin]. cbn [next ctl]. intros idx0 [Hl|[_ Hw]]; [left; exact Hl|congruence].
      * inversion Hin. subst j idx. eexists. split; [apply (nth_set_eq _ i _ c Hc)|]. cbn [next ctl]. right. auto.
    + intros j c' H. destruct (client_after _ i j c c' _ Hc H) as [[<- ->]|[_ H']]; [cbn [got next]; apply (Hgi i c Hc)|apply (Hgi _ _ H')].
    + intros j. rewrite app_assoc, idxs_app. cbn [idxs fst snd]. destruct (Nat.eqb_spec i j) as [<-|Hne]; [|rewrite app_nil_r; apply Hord].
      apply increasing_snoc; [apply Hord|]. intros m Hm. apply idxs_in in Hm.
      destruct (Hiss _ _ Hm) as (c' & Hc' & Hor). rewrite Hc in Hc'. inversion Hc'; subst c'.
      destruct Hor as [Hlt|[_ Hw]]; [exact Hlt|congruence].
  - (* actor step *)
    rewrite Hq in *.
    assert (Hk : ~ In k (log _ _ s)).
    { intros Hin. apply NoDup_remove_2 in Hnd. apply Hnd. apply in_or_app. left. exact Hin. }
    assert (Hans : answer_in l0 (log _ _ s ++ [k]) k = Some (snd (lstep (lim _ _ s) rq))).
    { rewrite Hlim. apply answer_in_app_new; auto. }
    constructor; cbn [clients queue slots lim log alive].
    + rewrite reqs_of_app, seq_state_app, <- Hlim. cbn [Actor.reqs_of]. rewrite Hrk. reflexivity.
    + intros k' r. unfold set_slot. destruct (rid_eqb_spec k' k) as [->|Hne].
      * destruct (slots _ _ s k); intros E; inversion E; subst; exact Hans.
      * intros E. apply answer_in_app_found. apply Hslot. exact E.
    + intros j c' idx r H Hin. apply answer_in_app_found. eapply Hgot; eauto.
    + rewrite <- app_assoc. exact Hnd.
    + intros j idx Hin. rewrite <- app_assoc in Hin. apply Hiss. exact Hin.
    + exact Hgi.
    + intros j. rewrite <- app_assoc. apply Hord.
  - (* actor panic: nothing changes but the flag *)
    constructor; cbn [clients queue slots lim log alive]; auto.
  - (* receive *)
    constructor; cbn [clients queue slots lim log alive]; auto.
    + intros j c' idx r0 H Hin. destruct (client_after _ i j c c' _ Hc H) as [[<- ->]|[_ H']]; [|eapply Hgot; eauto].
      cbn [got] in Hin. apply in_app_or in Hin. destruct Hin as [Hin|[Hin|[]]]; [eapply Hgot; eauto|].
      inversion Hin; subst. apply Hslot. exact Hsl.
    + apply (issued_after s i c _ _ Hc Hiss). cbn [next ctl]. intros idx [Hl|[-> _]]; left; lia.
    + intros j c' H. destruct (client_after _ i j c c' _ Hc H) as [[<- ->]|[_ H']]; [|apply (Hgi _ _ H')].
      destruct (Hgi i c Hc) as [Hlt Hnd']. cbn [got next]. split.
      * intros idx r0 Hin. apply in_app_or in Hin. destruct Hin as [Hin|[Hin|[]]]; [specialize (Hlt _ _ Hin); lia|inversion Hin; lia].
      * rewrite map_app. cbn [map fst]. apply NoDup_snoc; [exact Hnd'|].
        intros Hin. apply in_map_iff in Hin. destruct Hin as ([idx r0] & E & Hin). cbn in E. subst idx. specialize (Hlt _ _ Hin). lia.
  - (* cancel before enqueue *)
    constructor; cbn [clients queue slots lim log alive]; auto.
    + intros k r. unfold set_slot. destruct (rid_eqb k (i, next _ c)); [discriminate|apply Hslot].
    + intros j c' idx r H Hin. destruct (client_after _ i j c c' _ Hc H) as [[<- ->]|[_ H']]; [cbn [got] in Hin|]; eapply Hgot; eauto.
    + apply (issued_after s i c _ _ Hc Hiss). cbn [next ctl]. intros idx [Hl|[-> _]]; left; lia.
    + intros j c' H. destruct (client_after _ i j c c' _ Hc H) as [[<- ->]|[_ H']]; [|apply (Hgi _ _ H')].
      destruct (Hgi i c Hc) as [Hlt Hnd']. cbn [got next]. split; [intros idx r0 Hin; specialize (Hlt _ _ Hin); lia|exact Hnd'].
  - (* cancel after enqueue *)
    constructor; cbn [clients queue slots lim log alive]; auto.
    + intros k r. unfold set_slot. destruct (rid_eqb k (i, next _ c)); [discriminate|apply Hslot].
    + intros j c' idx r H Hin. destruct (client_after _ i j c c' _ Hc H) as [[<- ->]|[_ H']]; [cbn [got] in Hin|]; eapply Hgot; eauto.
    + apply (issued_after s i c _ _ Hc Hiss). cbn [next ctl]. intros idx [Hl|[-> _]]; left; lia.
    + intros j c' H. destruct (client_after _ i j c c' _ Hc H) as [[<- ->]|[_ H']]; [|apply (Hgi _ _ H')].
      destruct (Hgi i c Hc) as [Hlt Hnd']. cbn [got next]. split; [intros idx r0 Hin; specialize (Hlt _ _ Hin); lia|exact Hnd'].
Qed.

Theorem reach_inv s : reach s -> Inv s.
Proof. induction 1 as [|s lb s' _ IH Hs]; [apply init_inv|exact (step_inv s lb s' IH Hs)]. Qed.

(* ---------- C09: linearizability ---------- *)
(* every response a client has received, and every response sitting in a reply slot, is the answer
   the request gets when the processed requests are applied to ONE limiter sequentially in the
   order of [log]; the limiter state is the sequential state after [log] *)
Theorem linearizable s : reach s ->
  lim _ _ s = seq_state l0 (reqs_of (log _ _ s)) /\
  (forall i c idx r, nth_error (clients _ _ s) i = Some c -> In (idx, r) (got _ c) -> answer_in l0 (log _ _ s) (i, idx) = Some r) /\
  (forall k r, slots _ _ s k = SFilled _ r -> answer_in l0 (log _ _ s) k = Some r).
Proof. intros Hr. destruct (reach_inv s Hr). auto. Qed.

(* the order respects each client's own order: the indices of client i in the processing order
   (and then in the queue) are strictly increasing *)
Theorem program_order s i : reach s -> increasing (idxs i (log _ _ s ++ queue _ _ s)).
Proof. intros Hr. destruct (reach_inv s Hr). auto. Qed.

(* at most once: no request is processed or queued twice, no request is answered twice *)
Theorem at_most_once s : reach s ->
  NoDup (log _ _ s ++ queue _ _ s) /\
  forall i c, nth_error (clients _ _ s) i = Some c -> NoDup (map fst (got _ c)).
Proof. intros Hr. destruct (reach_inv s Hr) as [_ _ _ Hnd _ Hgi _]. split; [exact Hnd|]. intros i c H. apply (Hgi i c H). Qed.

(* real-time precedence: the processing order only grows at the end; a received response is in
   it; a request that has not been invoked yet is not *)
Inductive steps : state -> state -> Prop :=
| steps_refl : forall s, steps s s
| steps_cons : forall s lb s1 s2, step s lb s1 -> steps s1 s2 -> steps s s2.

Lemma step_log_prefix s lb s' : step s lb s' -> exists ext, log _ _ s' = log _ _ s ++ ext.
Proof. intros Hs. destruct Hs; cbn [log]; try (exists []; rewrite app_nil_r; reflexivity). exists [k]. reflexivity. Qed.

Lemma steps_log_prefix s s' : steps s s' -> exists ext, log _ _ s' = log _ _ s ++ ext.
Proof.
  induction 1 as [s|s lb s1 s2 Hs _ IH]; [exists []; rewrite app_nil_r; reflexivity|].
  destruct (step_log_prefix _ _ _ Hs) as [e1 H1]. destruct IH as [e2 H2]. exists (e1 ++ e2). rewrite H2, H1, app_assoc. reflexivity.
Qed.

Theorem real_time s1 s2 ia ca idxa ra ib cb idxb :
  reach s1 -> steps s1 s2 ->
  nth_error (clients _ _ s1) ia = Some ca -> In (idxa, ra) (got _ ca) ->            (* a's response was received ... *)
  nth_error (clients _ _ s1) ib = Some cb -> (next _ cb < idxb \/ (next _ cb = idxb /\ ctl _ cb = Idle)) ->  (* ... before b was invoked *)
  In (ib, idxb) (log _ _ s2) ->
  exists pre post, log _ _ s2 = pre ++ post /\ In (ia, idxa) pre /\ ~ In (ib, idxb) pre.
Proof.
  intros Hr Hst Ha Hina Hb Hnot Hinb.
  destruct (reach_inv s1 Hr) as [_ _ Hgot _ Hiss _ _].
  destruct (steps_log_prefix _ _ Hst) as [ext Hext].
  exists (log _ _ s1), ext. split; [exact Hext|]. split.
  - eapply answer_in_some_in. eapply Hgot; eauto.
  - intros Hin. destruct (Hiss ib idxb ltac:(apply in_or_app; left; exact Hin)) as (c' & Hc' & Hor).
    rewrite Hb in Hc'. inversion Hc'; subst c'. destruct Hnot as [Hlt|[He Hi]]; destruct Hor as [Hl|[He' Hw]]; try lia; congruence.
Qed.

End Lin.
