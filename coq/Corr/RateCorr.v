(* T2 correspondence for C18: model of Rate constructors vs observed implementation results. *)
From Coq Require Import ZArith List Bool.
Require Import TC.Generated.Consts TC.Base.Corr TC.Float.Rate64.
Open Scope Z_scope.

Inductive rate_case :=
| GenCase (count period : Z) (impl : option Z)       (* from_count_and_period; None = panic *)
| UnitCase (unit n : Z) (impl : option Z).           (* per_second/minute/hour/day = unit 0..3 *)

Definition unit_fn (u : Z) : Z -> option Z :=
  if u =? 0 then per_second else if u =? 1 then per_minute else if u =? 2 then per_hour else per_day.

Definition rate_case_ok (c : rate_case) : bool :=
  match c with
  | GenCase count period impl => opt_Z_eqb impl (Some (from_count_and_period count period))
  | UnitCase u n impl => opt_Z_eqb impl (unit_fn u n)
  end.

Definition rate_model_out (c : rate_case) : option Z :=
  match c with
  | GenCase count period _ => Some (from_count_and_period count period)
  | UnitCase u n _ => unit_fn u n
  end.
