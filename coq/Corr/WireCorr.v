(* T2 correspondence for the transports (C12, and the wire parts of C09/C11): what ONE real server
   process answered on real sockets (independent clients: raw TCP for HTTP and RESP, hand-written
   protobuf messages with the published tags for gRPC) against Server/Serve.v run on the same requests
   with the Flocq rate model.  Model time: request i happens at T0 + i ns; the harness uses emission
   intervals of whole seconds and sessions shorter than 300 ms, for which every whole-second answer is
   independent of the sub-second spacing (otherwise [exact] is false and only allowed/limit/remaining
   are compared). *)
From Coq Require Import ZArith NArith List Bool String.
Import ListNotations.
Require Import TC.Base.Corr TC.Resp.Utf8 TC.Resp.Parse TC.Resp.Cmd TC.Float.Rate64 TC.Store.AbsMap
  TC.Server.Transport TC.Server.Serve TC.Corr.ActorCorr.
Open Scope Z_scope.

Definition T0 : Z := 1700000000000000000.
Inductive wobs := OOk (a : bool) (l r rs rt : Z) | OErr.

Definition obs_ok (exact : bool) (m : wresp) (o : wobs) : bool :=
  match m, o with
  | WErr, OErr => true
  | WOk t, OOk a l r rs rt =>
      Bool.eqb a (t_allowed t) && (l =? t_limit t) && (r =? t_remaining t) &&
      (if exact then (rs =? t_reset t) && (rt =? t_retry t) else true)
  | _, _ => false
  end.

Fixpoint stamp (i : Z) (ws : list wreq) : list (wreq * Z) :=
  match ws with [] => [] | w :: r => (w, T0 + i) :: stamp (i + 1) r end.

Definition wire_model (ws : list wreq) : list wresp :=
  snd (serve_all from_count_and_period (fun _ => None) (stamp 0 ws)).

Definition wire_case_ok (c : bool * list (wreq * wobs)) : bool :=
  all2 (obs_ok (fst c)) (wire_model (map fst (snd c))) (map snd (snd c)).
