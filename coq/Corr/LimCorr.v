(* T2 correspondence for the limiter (C01-C05, C07, C08, C17): the model of rate_limit over the
   concrete store models, with the Flocq rate model plugged in, is run on the histories the
   harness executed on the real RateLimiter; every outcome, the physical entry count and the
   store's scheduling snapshot must agree after every request. *)
From Coq Require Import ZArith List Bool.
Import ListNotations.
Require Import TC.Generated.Consts TC.Base.Corr TC.Base.Map TC.Store.Stores TC.Float.Rate64
  TC.Limiter.Arith TC.Limiter.KeyStep TC.Limiter.Limiter TC.Corr.StoreCorr.
Open Scope Z_scope.

Notation reqZ := (req Z).

Definition outcome_eqb (a b : outcome) : bool :=
  match a, b with
  | Ok x, Ok y => resp_eqb x y
  | ErrNegativeQuantity, ErrNegativeQuantity => true
  | ErrInvalidRateLimit, ErrInvalidRateLimit => true
  | ErrInternal, ErrInternal => true
  | Panic, Panic => true
  | _, _ => false
  end.

Definition rate_limit_Z := rate_limit Z Z.eqb from_count_and_period.

Record lobs := { l_orc : bool; l_req : reqZ; l_out : outcome; l_len : Z; l_snap : list Z }.

Definition lim_obs_ok (s' : storeZ) (out : outcome) (o : lobs) : bool :=
  outcome_eqb out (l_out o) && (Z.of_nat (length (sdata Z s')) =? l_len o) && list_eqb Z.eqb (snapshot s') (l_snap o).

(* state: (store, index, first bad step with the model's view) *)
Definition lim_fold_step (acc : storeZ * Z * option (Z * outcome * Z * list Z)) (o : lobs) :=
  let s := fst (fst acc) in
  let i := snd (fst acc) in
  match snd acc with
  | Some _ => acc
  | None =>
      let so := rate_limit_Z s (l_orc o) (l_req o) in
      if lim_obs_ok (fst so) (snd so) o then (fst so, i + 1, None)
      else (fst so, i, Some (i, snd so, Z.of_nat (length (sdata Z (fst so))), snapshot (fst so)))
  end.
Definition lim_case_diag (c : scfg * list lobs) :=
  snd (fold_left lim_fold_step (snd c) (store_init (fst c), 0, None)).
Definition lim_case_ok (c : scfg * list lobs) : bool :=
  match lim_case_diag c with None => true | Some _ => false end.

(* projections used by per-property correspondence: compare only what the property constrains *)
Definition outcome_allowed (o : outcome) : option bool := match o with Ok r => Some (allowed r) | _ => None end.
