(* T2 correspondence for the RESP connection loop + command handler (C10, C13, C14, C15-RESP):
   expected reply stream and metrics events of one connection, for a limiter whose answers are
   those of a bucket without refill (the harness uses an emission interval of 104 days). *)
From Coq Require Import ZArith NArith List Bool String.
Import ListNotations.
Require Import TC.Generated.Consts TC.Base.Corr TC.Resp.Utf8 TC.Resp.Decimal TC.Resp.Parse TC.Resp.Conn TC.Resp.Cmd.
Open Scope N_scope.

Fixpoint lookup_b {A} (t : list (bytes * A)) (k : bytes) : option A :=
  match t with [] => None | (k', v) :: r => if bytes_eqb k k' then Some v else lookup_b r k end.

Definition upper_of (table : list (bytes * bytes)) (s : bytes) : bytes :=
  match lookup_b table s with Some u => u | None => s end.

(* counting limiter: (key -> tokens used); no refill *)
Definition cnt_state := list (bytes * Z).
Definition cnt_throttle (st : cnt_state) (r : treq) : cnt_state * actor_res :=
  if (t_q r <? 0)%Z then (st, AErr (bytes_of_string "Rate limit check failed: negative quantity"))
  else if ((t_B r <=? 0) || (t_count r <=? 0) || (t_period r <=? 0))%Z
       then (st, AErr (bytes_of_string "Rate limit check failed: invalid rate limit parameters"))
  else
    let used := match lookup_b st (t_key r) with Some u => u | None => 0%Z end in
    if (used + t_q r <=? t_B r)%Z
    then (if (0 <? t_q r)%Z then (t_key r, (used + t_q r)%Z) :: st else st,
          AOk true (t_B r) (t_B r - used - t_q r) 0 0)
    else (st, AOk false (t_B r) (t_B r - used) 0 0).

(* process the decoded commands in order, threading the limiter state *)
Fixpoint handle_all (upper : bytes -> bytes) (st : cnt_state) (cmds : list value) : list value * list (option mevent) :=
  match cmds with
  | [] => ([], [])
  | v :: r =>
      (* the throttle oracle of Cmd.v is a function of the request: close over the current state *)
      let thr := fun rq => snd (cnt_throttle st rq) in
      let (reply, ev) := process_command upper thr v in
      (* the state after this command: replay the request if it was a THROTTLE that reached the limiter *)
      let st' :=
        match v with
        | Arr ((Bulk (Some cmd) :: _) as args) =>
            if bytes_eqb (upper cmd) (bytes_of_string "THROTTLE") then
              match args with
              | [_; Bulk (Some key); b; c; p] =>
                  match parse_integer b, parse_integer c, parse_integer p with
                  | Some b', Some c', Some p' => fst (cnt_throttle st {| t_key := key; t_B := b'; t_count := c'; t_period := p'; t_q := 1 |})
                  | _, _, _ => st end
              | [_; Bulk (Some key); b; c; p; q] =>
                  match parse_integer b, parse_integer c, parse_integer p, parse_integer q with
                  | Some b', Some c', Some p', Some q' => fst (cnt_throttle st {| t_key := key; t_B := b'; t_count := c'; t_period := p'; t_q := q' |})
                  | _, _, _, _ => st end
              | _ => st
              end
            else st
        | _ => st
        end in
      let (rs, evs) := handle_all upper st' r in (reply :: rs, ev :: evs)
  end.

Definition end_code (e : conn_end) : N := match e with Open => 0 | ClosedByError => 1 | ClosedByCap => 2 | ClosedByQuit => 3 end.
Definition ev_code (e : option mevent) : N :=
  match e with None => 0 | Some m => if m_allowed m then 1 else 2 end.

(* expected observable behaviour of one connection *)
Definition conn_expected (table : list (bytes * bytes)) (chunks : list bytes) : bytes * list N * N :=
  let upper := upper_of table in
  let (cmds, cn) := conn_run (is_quit upper) conn_init chunks in
  let (replies, evs) := handle_all upper [] cmds in
  (flat_map serialize replies, map ev_code evs, end_code (c_end cn)).

(* split a stream into chunks of the given sizes *)
Fixpoint split_sizes (d : bytes) (sizes : list N) : list bytes :=
  match sizes with
  | [] => match d with [] => [] | _ => [d] end
  | n :: r => firstn (N.to_nat n) d :: split_sizes (skipn (N.to_nat n) d) r
  end.
