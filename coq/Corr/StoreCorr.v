(* T2 correspondence for the stores (C06, C07): the model is run step by step on the operation
   sequence the harness executed on the real store; after every step the returned value, the
   physical entry count and the scheduling snapshot (hook H1) must agree. Keys are integer ids
   (the harness interns byte strings by exact equality; the model is parametric in the key type). *)
From Coq Require Import ZArith List Bool.
Import ListNotations.
Require Import TC.Generated.Consts TC.Base.Corr TC.Base.Map TC.Store.Stores.
Open Scope Z_scope.

Notation sopZ := (sop Z).
Notation storeZ := (store Z).

Inductive scfg :=
| CPer (next0 interval : Z)
| CAda (next0 cur0 min max maxops : Z)
| CPro (prob : Z).

Definition store_init (c : scfg) : storeZ :=
  match c with
  | CPer next0 interval => SPer {| p_data := []; p_next := next0; p_interval := interval; p_expired := 0 |}
  | CAda next0 cur0 mn mx mo =>
      SAda {| a_data := []; a_next := next0; a_min := mn; a_max := mx; a_cur := cur0;
              a_expired := 0; a_ops := 0; a_maxops := mo; a_lrem := 0; a_ltot := 0 |}
  | CPro prob => SPro {| b_data := []; b_ops := 0; b_prob := prob |}
  end.

Definition snapshot (s : storeZ) : list Z :=
  match s with
  | SPer s => [p_next Z s; p_interval Z s; p_expired Z s]
  | SAda s => [a_next Z s; a_cur Z s; a_expired Z s; a_ops Z s; a_lrem Z s; a_ltot Z s]
  | SPro s => [b_ops Z s; b_prob Z s]
  end.

Definition sres_eqb (a b : sres) : bool :=
  match a, b with
  | RGet x, RGet y => opt_Z_eqb x y
  | RBool x, RBool y => Bool.eqb x y
  | _, _ => false
  end.

(* observation of one implementation step *)
Record sobs := { o_orc : bool; o_op : sopZ; o_res : sres; o_len : Z; o_snap : list Z }.

Fixpoint store_trace_ok (s : storeZ) (obs : list sobs) : bool :=
  match obs with
  | [] => true
  | o :: r =>
      let (s', res) := sstep Z Z.eqb s (o_orc o) (o_op o) in
      sres_eqb res (o_res o) && (Z.of_nat (length (sdata Z s')) =? o_len o) &&
      list_eqb Z.eqb (snapshot s') (o_snap o) && store_trace_ok s' r
  end.

Definition store_case_ok (c : scfg * list sobs) : bool := store_trace_ok (store_init (fst c)) (snd c).

(* index of the first disagreeing step, with the model's view, for the replay file *)
Fixpoint store_first_bad (s : storeZ) (obs : list sobs) (i : Z) : option (Z * sres * Z * list Z) :=
  match obs with
  | [] => None
  | o :: r =>
      let (s', res) := sstep Z Z.eqb s (o_orc o) (o_op o) in
      if sres_eqb res (o_res o) && (Z.of_nat (length (sdata Z s')) =? o_len o) && list_eqb Z.eqb (snapshot s') (o_snap o)
      then store_first_bad s' r (i + 1)
      else Some (i, res, Z.of_nat (length (sdata Z s')), snapshot s')
  end.
Definition store_case_diag (c : scfg * list sobs) := store_first_bad (store_init (fst c)) (snd c) 0.
