(* Soundness of the executable acceptance checks of Corr/DeniedCorr.v with respect to the relational model of
   Server/Denied.v: whatever the boolean checkers accept IS a step / a report the model allows (up to the order
   of the association list, which stands for a HashMap). *)
From Coq Require Import ZArith NArith List Bool Lia.
Import ListNotations.
Require Import TC.Generated.Consts TC.Base.Corr TC.Base.Map TC.Resp.Utf8 TC.Server.Denied TC.Corr.DeniedCorr.
Open Scope Z_scope.

Lemma lookup_some_in (t : tbl) k n : lookupT t k = Some n -> In (k, n) t.
Proof.
  induction t as [|[k' e] r IH]; cbn [lookup]; [discriminate|].
  destruct (keq k k') as [->|Hne]; [intros H; injection H as ->; left; reflexivity|intros H; right; apply IH; exact H].
Qed.

Lemma in_lookup_uniq (t : tbl) k n : uniq t -> In (k, n) t -> lookupT t k = Some n.
Proof.
  induction t as [|[k' e] r IH]; intros U Hin; [contradiction|].
  unfold uniq in U. cbn [map fst] in U. inversion U as [|? ? Hn U']; subst. cbn [lookup].
  destruct Hin as [H|H].
  - injection H as -> ->. destruct (keq k k); [reflexivity|contradiction].
  - destruct (keq k k') as [->|Hne]; [exfalso; apply Hn; apply in_map_iff; exists (k', n); split; [reflexivity|exact H]|apply IH; assumption].
Qed.

Lemma keys_distinct_uniq (t : tbl) : keys_distinct t = true -> uniq t.
Proof.
  induction t as [|[k e] r IH]; cbn [keys_distinct]; intros H; [constructor|].
  apply andb_prop in H. destruct H as [H1 H2]. unfold uniq. cbn [map fst]. constructor; [|apply IH; exact H2].
  intros Hin. apply in_map_iff in Hin. destruct Hin as ([k' e'] & Hk & Hin). cbn [fst] in Hk. subst k'.
  apply negb_true_iff in H1. assert (existsb (fun p : bytes * Z => bytes_eqb k (fst p)) r = true); [|congruence].
  apply existsb_exists. exists (k, e'). split; [exact Hin|]. cbn [fst]. destruct (keq k k); [reflexivity|contradiction].
Qed.

Lemma opt_eqb_eq a b : opt_eqb a b = true -> a = b.
Proof.
  unfold opt_eqb, opt_Z_eqb. destruct a as [x|], b as [y|]; try discriminate; [|reflexivity].
  intros H. apply Z.eqb_eq in H. congruence.
Qed.

Lemma tbl_sub_spec a b : tbl_sub a b = true -> forall k n, In (k, n) a -> lookupT b k = Some n.
Proof.
  unfold tbl_sub. rewrite forallb_forall. intros H k n Hin. specialize (H (k, n) Hin). cbn [fst snd] in H. apply opt_eqb_eq in H. exact H.
Qed.

(* same finite map, possibly listed in another order *)
Definition same_map (a b : tbl) : Prop := uniq b /\ length a = length b /\ forall k, lookupT a k = lookupT b k.

Lemma tbl_equiv_same a b : uniq a -> tbl_equiv a b = true -> same_map a b.
Proof.
  intros Ua H. unfold tbl_equiv in H. apply andb_prop in H. destruct H as [H Hl]. apply andb_prop in H. destruct H as [Hab Hba].
  apply Nat.eqb_eq in Hl. pose proof (tbl_sub_spec _ _ Hab) as Sab. pose proof (tbl_sub_spec _ _ Hba) as Sba.
  assert (Ub : uniq b).
  { unfold uniq. apply (@NoDup_incl_NoDup _ (map fst a) (map fst b) Ua); [rewrite !map_length; lia|].
    intros k Hk. apply in_map_iff in Hk. destruct Hk as ([k' n] & <- & Hin). cbn [fst].
    apply (lookup_in _ bytes_eqb keq _ b k' n). apply Sab. exact Hin. }
  split; [exact Ub|]. split; [exact Hl|]. intros k.
  destruct (lookupT a k) as [n|] eqn:La.
  - symmetry. apply Sab. apply lookup_some_in. exact La.
  - destruct (lookupT b k) as [n|] eqn:Lb; [|reflexivity].
    apply lookup_some_in in Lb. apply Sba in Lb. congruence.
Qed.

Lemma cleanup_ok_sound mx t t' : cleanup_ok mx t t' = true -> valid_cleanup mx t t'.
Proof.
  unfold cleanup_ok. intros H. apply andb_prop in H. destruct H as [H Hev]. apply andb_prop in H. destruct H as [H Hsub].
  apply andb_prop in H. destruct H as [Hd Hl]. apply Nat.eqb_eq in Hl. pose proof (keys_distinct_uniq _ Hd) as U.
  pose proof (tbl_sub_spec _ _ Hsub) as S.
  split; [exact U|]. split; [exact Hl|]. split.
  - intros k n Hk. apply S. apply lookup_some_in. exact Hk.
  - intros k n k2 n2 Hk Hk2 Hnone. rewrite forallb_forall in Hev.
    specialize (Hev (k, n) (lookup_some_in _ _ _ Hk)). rewrite forallb_forall in Hev.
    specialize (Hev (k2, n2) (lookup_some_in _ _ _ Hk2)). cbn [fst snd] in Hev. rewrite Hnone in Hev. apply Z.leb_le. exact Hev.
Qed.

(* every accepted step is a step of the model, up to the order of the table *)
Theorem step_ok_sound mx prev key next : uniq prev -> step_ok mx prev key next = true ->
  exists t1, dstep mx prev key t1 /\ same_map t1 next.
Proof.
  intros U H. unfold step_ok in H. destruct (short key) eqn:Hs.
  - destruct (Nat.leb_spec (length (incr prev key)) (mx * factor)) as [Hle|Hgt].
    + exists (incr prev key). split; [apply d_plain; assumption|]. apply tbl_equiv_same; [apply incr_uniq; exact U|exact H].
    + exists next. split; [apply d_clean; [exact Hs|exact Hgt|apply cleanup_ok_sound; exact H]|].
      pose proof (cleanup_ok_sound _ _ _ H) as (Un & _). split; [exact Un|]. split; reflexivity.
  - exists prev. split; [apply d_long; exact Hs|]. apply tbl_equiv_same; assumption.
Qed.

Lemma desc_sorted_b_sound r : desc_sorted_b r = true -> desc_sorted r.
Proof.
  induction r as [|a r IH]; [intros; exact I|]. destruct r as [|b r']; [intros; exact I|].
  cbn [desc_sorted_b desc_sorted]. intros H. apply andb_prop in H. destruct H as [H1 H2]. split; [apply Z.leb_le; exact H1|apply IH; exact H2].
Qed.

(* every accepted report is a report of the model *)
Theorem top_ok_sound mx t r : top_ok mx t r = true -> valid_top mx t r.
Proof.
  unfold top_ok. intros H. apply andb_prop in H. destruct H as [H Hev]. apply andb_prop in H. destruct H as [H Hsub].
  apply andb_prop in H. destruct H as [H Hd]. apply andb_prop in H. destruct H as [Hs Hl]. apply Nat.eqb_eq in Hl.
  pose proof (keys_distinct_uniq _ Hd) as U. pose proof (tbl_sub_spec _ _ Hsub) as S.
  split; [apply desc_sorted_b_sound; exact Hs|]. split; [exact Hl|]. split; [exact U|]. split; [exact S|].
  intros k n k2 n2 Hin Hk2 Hnot. rewrite forallb_forall in Hev. specialize (Hev (k, n) Hin). rewrite forallb_forall in Hev.
  specialize (Hev (k2, n2) (lookup_some_in _ _ _ Hk2)). cbn [fst snd] in Hev.
  destruct (lookupT r k2) as [x|] eqn:L; [exfalso; apply Hnot; apply (lookup_in _ bytes_eqb keq _ r k2 x L)|apply Z.leb_le; exact Hev].
Qed.

(* the whole acceptance function of the correspondence *)
Theorem denied_case_ok_sound mx obs : denied_case_ok (mx, obs) = true ->
  Forall (fun o => exists t1, dstep mx (d_prev o) (d_key o) t1 /\ same_map t1 (d_next o) /\ valid_top mx (d_next o) (d_top o)) obs.
Proof.
  unfold denied_case_ok. cbn [fst snd]. rewrite forallb_forall. intros H. apply Forall_forall. intros o Ho.
  specialize (H o Ho). apply andb_prop in H. destruct H as [H Ht]. apply andb_prop in H. destruct H as [Hd Hs].
  destruct (step_ok_sound mx _ _ _ (keys_distinct_uniq _ Hd) Hs) as (t1 & Hstep & Hsame).
  exists t1. split; [exact Hstep|]. split; [exact Hsame|apply top_ok_sound; exact Ht].
Qed.
